#!/bin/sh
# usage: run.sh <property-id|all> [quick|thorough]
# Rebuilds the analyser if needed and runs it against /repo's current working tree.
set -u
export GOFLAGS=-mod=mod GOPROXY=off GOSUMDB=off GOTOOLCHAIN=local GOWORK=off
here="$(cd "$(dirname "$0")" && pwd)"
tier="${2:-${VERIF_TIER:-quick}}"
mkdir -p "$here/bin" "$here/evidence" "$here/out"
if ! (cd "$here/checker" && go build -o "$here/bin/mqverify" .) ; then
  echo "cannot build the analyser"
  echo "VIOLATION property=$1 replay=$here/out/$1.violation.json"
  exit 1
fi
exec "$here/bin/mqverify" -property "$1" -tier "$tier" -repo "${VERIF_REPO:-/repo}" -verif "$here"
