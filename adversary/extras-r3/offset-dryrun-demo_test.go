package mq

import (
	"bytes"
	"fmt"
	"strings"
	"testing"
)

// C10 (domain: malformed-but-constructible packets included): the count
// WriteTo returns = the bytes handed to the writer = 1 + size of the
// remaining-length field + remaining length = the size String() prints.
func TestSeedDemo(t *testing.T) {
	mk := map[string]func() ControlPacket{
		"publish, key set": func() ControlPacket { p := Pub(0, "a/b", "x"); p.AddUserProp("k", "v"); return p },
		"publish, empty key": func() ControlPacket { p := Pub(0, "a/b", "x"); p.AddUserProp("", "v"); return p },
		"suback, empty key": func() ControlPacket {
			p := NewSubAck()
			p.SetPacketID(1)
			p.AddReasonCode(0)
			p.AddUserProp("", "value")
			return p
		},
		"disconnect, empty key": func() ControlPacket { p := NewDisconnect(); p.AddUserProp("", "v"); return p },
	}
	for name, f := range mk {
		p := f()
		var buf bytes.Buffer
		n, err := p.WriteTo(&buf)
		if err != nil {
			t.Fatal(name, err)
		}
		frame := buf.Bytes()
		var rem vbint
		if err := rem.UnmarshalBinary(frame[1:]); err != nil {
			t.Fatal(name, err)
		}
		want := 1 + rem.width() + int(rem)
		r := bytes.NewReader(frame)
		_, rerr := ReadPacket(r)
		if rerr != nil || r.Len() != 0 {
			t.Errorf("%s: %d bytes handed to the writer are not exactly one frame (err %v, %d bytes left over)", name, len(frame), rerr, r.Len())
		}
		if int(n) != want || len(frame) != want {
			t.Errorf("%s: returned %d, wrote %d, frame announces %d", name, n, len(frame), want)
		}
		if s := p.String(); !strings.HasSuffix(s, fmt.Sprintf(" %d bytes", len(frame))) && !strings.Contains(s, fmt.Sprintf(" %d bytes", len(frame))) {
			t.Errorf("%s: String() = %q, wrote %d bytes", name, s, len(frame))
		}
	}
}
