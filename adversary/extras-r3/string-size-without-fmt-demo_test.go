package mq

import (
	"bytes"
	"fmt"
	"strings"
	"testing"
)

// C10: the count WriteTo returns equals the size String() prints as "N bytes".
func TestSeedDemo(t *testing.T) {
	for _, n := range []int{0, 10, 100, 130, 20000} {
		p := NewSubAck()
		p.SetPacketID(3)
		p.AddReasonCode(1)
		p.SetReasonString(strings.Repeat("r", n))
		var buf bytes.Buffer
		got, _ := p.WriteTo(&buf)
		if s := p.String(); !strings.HasSuffix(s, fmt.Sprintf(" %d bytes", got)) {
			t.Errorf("reason string %d: String() = %q, WriteTo wrote %d bytes", n, s, got)
		}
	}
}
