#!/bin/bash
# usage: try-refactor.sh <diff>...   For each behaviour-preserving patch: scratch worktree of /repo HEAD, apply,
# build + unedited suite, then every check (no canaries).  Any line printed after "checks:" is an alarm on code
# for which the properties still hold, i.e. a false alarm of the machinery.
export GOFLAGS=-mod=mod GOPROXY=off GOSUMDB=off GOTOOLCHAIN=local GOWORK=off
w=/tmp/refacverify; out=/tmp/refacverify-out
for d in "$@"; do
  git -C /repo worktree remove --force $w 2>/dev/null; rm -rf $w $out
  git -C /repo worktree add -q --detach $w HEAD || exit 2
  echo "=== $d"
  (cd $w && git apply "$d") || { echo "PATCH DOES NOT APPLY"; continue; }
  suite=$(cd $w && go build ./... 2>&1 && go test -vet=off -count=1 ./... 2>&1 | tr '\n' ' ')
  echo "suite: $suite"
  mkdir -p $out
  echo "checks:"
  /verif/bin/mqverify -property all -repo $w -verif /verif -outdir $out -nocanary > $out/log.txt 2>&1; rc=$?
  grep -E "^VIOLATION|^  (VIOLATED|UNDECIDED)" $out/log.txt | cut -c1-300 | awk '/^VIOLATION/ {print; n=0; next} { n++; if (n<=3) print; else if (n==4) print "  ..." }'
  if [ $rc -gt 1 ] || [ $(grep -c "^C[0-9][0-9] " $out/log.txt) -ne 19 ]; then echo "VIOLATION checker did not complete (exit $rc): $(grep -m1 -E "panic|fatal error" $out/log.txt)"; fi
done
git -C /repo worktree remove --force $w 2>/dev/null; rm -rf $w $out
