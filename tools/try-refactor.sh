#!/bin/bash
# usage: try-refactor.sh <diff>...   For each behaviour-preserving patch: scratch worktree of /repo HEAD, apply,
# build + unedited suite, then every check (no canaries).  Any line printed after "checks:" is an alarm on code
# for which the properties still hold, i.e. a false alarm of the machinery.  JOBS patches are tried at a time
# (default 4); MQVERIFY names the analyser binary (default /verif/bin/mqverify).
export GOFLAGS=-mod=mod GOPROXY=off GOSUMDB=off GOTOOLCHAIN=local GOWORK=off
bin=${MQVERIFY:-/verif/bin/mqverify}
jobs=${JOBS:-4}
one() {
  d=$1; k=$2
  w=/tmp/refacverify-$$-$k; out=/tmp/refacverify-out-$$-$k
  ( flock 9; git -C /repo worktree remove --force $w 2>/dev/null; rm -rf $w $out; git -C /repo worktree add -q --detach $w HEAD ) 9>/tmp/refacverify.lock || exit 2
  {
    echo "=== $d"
    if (cd $w && git apply "$d"); then
      suite=$(cd $w && go build ./... 2>&1 && go test -vet=off -count=1 ./... 2>&1 | tr '\n' ' ')
      echo "suite: $suite"
      mkdir -p $out
      echo "checks:"
      $bin -property all -repo $w -verif /verif -outdir $out -nocanary > $out/log.txt 2>&1; rc=$?
      grep -E "^VIOLATION|^  (VIOLATED|UNDECIDED)" $out/log.txt | cut -c1-300 | awk '/^VIOLATION/ {print; n=0; next} { n++; if (n<=3) print; else if (n==4) print "  ..." }'
      if [ $rc -gt 1 ] || [ $(grep -c "^C[0-9][0-9] " $out/log.txt) -ne 19 ]; then echo "VIOLATION checker did not complete (exit $rc): $(grep -m1 -E "panic|fatal error" $out/log.txt)"; fi
    else
      echo "PATCH DOES NOT APPLY"
    fi
  } > /tmp/refacverify-res-$$-$k.txt 2>&1
  ( flock 9; git -C /repo worktree remove --force $w 2>/dev/null; rm -rf $w $out ) 9>/tmp/refacverify.lock
}
k=0; running=0
for d in "$@"; do
  k=$((k+1))
  one "$d" $k &
  running=$((running+1))
  if [ $running -ge $jobs ]; then wait -n; running=$((running-1)); fi
done
wait
for i in $(seq 1 $k); do cat /tmp/refacverify-res-$$-$i.txt; rm -f /tmp/refacverify-res-$$-$i.txt; done
git -C /repo worktree prune
