#!/bin/sh
# Refresh the frozen fixture tree used by canaries from /repo's non-test files.
# Run by hand after a fix: commit lands in /repo; never run by a check.
set -e
d=/verif/checker/testdata/base
rm -f $d/*.go
for f in /repo/*.go; do
  case "$f" in *_test.go) continue;; esac
  cp "$f" $d/
done
ls $d | wc -l
