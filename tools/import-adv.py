#!/usr/bin/env python3
"""usage: import-adv.py <round> <NAME> <k>=<property>:<one-line change> ...
Copies /tmp/adv<round>/<NAME>/OUT/<k>/ into /verif/adversary/<NAME>r<round>-<k>/ (patch.diff, demo_test.go.txt, meta.json)."""
import sys, os, json, shutil
rnd, name = sys.argv[1], sys.argv[2]
for arg in sys.argv[3:]:
    k, rest = arg.split("=", 1)
    prop, change = rest.split(":", 1)
    src = "/tmp/adv%s/%s/OUT/%s" % (rnd, name, k)
    dst = "/verif/adversary/%sr%s-%s" % (name, rnd, k)
    os.makedirs(dst, exist_ok=True)
    shutil.copy(src + "/patch.diff", dst + "/patch.diff")
    shutil.copy(src + "/demo_test.go", dst + "/demo_test.go.txt")
    notes = open(src + "/notes.md").read() if os.path.exists(src + "/notes.md") else ""
    meta = {"property": prop,
            "origin": "white-box adversary sub-agent, round %s (read /verif/checker, DESIGN.md and the earlier findings; scratch worktree only)" % rnd,
            "change": change,
            "confirmed": "by the agent: the demo passes without the change, the unedited suite passes with it (amd64 and 386), the demo fails with it; at the time it was written no check reported it",
            "detected_by": "",
            "run": "tools/try-seed.sh %s ; tools/seed-table.py /verif/adversary" % dst,
            "author_notes": notes}
    json.dump(meta, open(dst + "/meta.json", "w"), indent=1)
    print("imported", dst)
