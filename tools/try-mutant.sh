#!/bin/bash
# usage: try-mutant.sh <id>...   reproduces mutants of tools/mutate (same enumeration) in a scratch copy and runs all checks
export GOFLAGS=-mod=mod GOPROXY=off GOSUMDB=off GOTOOLCHAIN=local GOWORK=off
for id in "$@"; do
  w=/tmp/mutone; rm -rf $w $w-out; cp -r /repo $w; rm -rf $w/.git; mkdir -p $w-out
  /verif/bin/mutate ${KINDS:+-kinds $KINDS} -dump $id > /tmp/mutone.src 2>/dev/null
  f=$(head -1 /tmp/mutone.src); tail -n +2 /tmp/mutone.src > $w/$f
  echo "=== mutant $id ($f)"; diff <(gofmt /repo/$f) <(gofmt $w/$f) | head -8
  /verif/bin/mqverify -property all -repo $w -verif /verif -outdir $w-out -nocanary 2>&1 | grep -E "^VIOLATION|^  (VIOLATED|UNDECIDED)" | cut -c1-260 | head -8
  rm -rf $w $w-out
done
