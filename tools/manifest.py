#!/usr/bin/env python3
"""Generates /verif/MANIFEST.json from the table below (single source of truth)."""
import json, sys

ALL = ["C%02d" % i for i in range(1, 20)]

BASE = ("go/types + go/ssa (x/tools v0.29.0) faithful IR; stdlib contracts as documented "
        "(DESIGN.md section 3); caller-supplied io.Reader/io.Writer obey their contracts")

CHECKS = {
 "C02": dict(level="other", ref="§4 C02",
   text="Oracle: the MQTT v5.0 layout table carried by the checker (type codes and reserved bits, ordered fields with wire kinds and presence rules, allowed property sets with kinds), keyed by exported names and sharing nothing with the library. For every abstract well-formed packet state (C01's generator) the encoder's event sequence, obtained by evaluating its SSA form with the wire primitives observed, is walked against the table: first byte, remaining length = bytes that follow, field order and sources (through the exported accessors), presence of optional items (CONNECT flags, QoS), property identifiers/kinds/uniqueness/sources, property length = properties that follow, and the optional-section chain reason code <= property length <= properties. The CONNECT flags byte and CONNACK acknowledge flags written are compared with the specification's function of the packet (also on states where every setter is called twice or cleared again, and with a will built by every PUBLISH setter). Length prefixes are additionally decided structurally for all states (path enumeration: the dry-run calls summed into a prefix are exactly the emissions it covers). Exported identifier, CONNECT-flag and subscription-option constants are compared with the specification's values. Primitive encodings are C01 R1.4 / C15.",
   technique="static analysis: abstract interpretation of the encoders' SSA over a layout domain, compared with a specification table"),
 "C03": dict(level="other", ref="§4 C03",
   text="Oracle: abstract valid frames generated from the specification table, not from the library's encoder: per packet type no properties / each allowed property alone / all ascending and descending (repeatable ones twice) / explicit zero values / legal short forms (PUBACK family 2,3,4; DISCONNECT 0,1; AUTH 0; PUBLISH with/without id and payload; CONNECT without will / will QoS 1 retained / will QoS 2, each with no, user-name-only, password-only and both credentials, flags byte from the table). Each is a token stream (kinds and widths from the specification, values as tags); the decoder's SSA form is evaluated on it with the wire primitives replaced by their contracts; it must accept, consume everything, and every value the frame carries must be what the exported accessors then report. Structural half of the zero-value clause: no wire decoder rejects input because of the decoded value. Boundary lengths rest on the no-wrap proof of the length-prefixed decoder; the reader's advance per value is shown to equal the encoder's width for that value.",
   technique="static analysis: abstract interpretation of the decoders' SSA on specification-derived abstract token streams"),
 "C01": dict(level="other", ref="§4 C01",
   text="Round-trip equality of runtime values is not statically decidable here; decided are its structural necessary conditions, by abstract co-simulation on the SSA form. Packet states are built by evaluating the public constructor and setters on abstract values (lengths with identity tags, representative integers; none/all/each setter alone/all-but-one/all subsets of guard-relevant setters, every length and integer at the boundary values 127, 128, 16383, 16384, 65534, 65535 and at every constant the code compares a length with, every setter called twice, everything cleared again; with and without a will). The encoder is evaluated with the wire primitives observed (field-level event sequence); the decoder's own code (guards, sequential reader, property loop, post-processing) is evaluated on the resulting token stream with the wire primitives replaced by their contracts. Checked: the decoder reads exactly what was written into destinations of the same wire kind and consumes the frame without error; every exported accessor (incl. the nested will) returns the same on the decoded state; every settable field is emitted in some state; re-encoding gives the same token stream; per wire kind the encoder/decoder primitives are structurally inverse (same N and byte order, same-width conversions only, prefix=len, region [2,2+len)), every encoder primitive writes whenever the buffer has room (its guard's skipping edge entails len(buf) < offset+extent), and width() - by which the reader advances - is the encoder's width for the same value.",
   technique="static analysis: abstract interpretation of encoder and decoder SSA over a layout domain (abstract co-simulation) + structural pairing rules for the wire primitives"),
 "C12": dict(level="other", ref="§4 C12",
   text="Every exported SetX/X() pair of the 15 packet types and TopicFilter is evaluated on the SSA form as transition function and decision function over abstract receiver states (all 256 values of every flag byte the setter reads, zero and all-ones backgrounds) and abstract arguments (all booleans, representative bytes, boundary integers, lengths 0/1/2 with identity tags): pairing (X() returns the value set; SetQoS: 0..3, else 0), frame (no other zero-argument accessor of the type changes) and derived flags (CONNECT user-name/password flags iff non-empty; SetWill mirrors will flag, retain and QoS bits). Pairing + frame give last-write-wins for every finite setter sequence by induction. Adders and the encoded frame are C01's.",
   technique="static analysis: evaluation of extracted transition/decision functions over a finite abstract domain (no library code is run; the SSA form is the formula)"),
 "C18": dict(level="proof", ref="§4 C18",
   text="Non-interference by taint analysis: forward value-flow over the SSA form of every function reachable from Connect.String, Connect.dump and Dump, from loads of the fields behind Username()/Password() (and struct copies containing them) through conversions, slicing, element loads, phis, local stores, copy into buffers, closures, calls and results; no tainted value reaches a fmt operand, a Write argument or a returned rendering, and no branch condition is tainted (no implicit flow); len/cap/copy-count carry only the length. For packets decoded from the wire the sequential reader's offset is shown to be written only by its guarded primitive, which only moves forward, so no byte is decoded into two fields, and the CONNECT decoder touches the frame only through that reader (the input slice is otherwise used only to build the reader and in len()). Proof modulo the fmt model.",
   technique="static analysis: interprocedural secrecy taint (explicit and implicit flows) on go/ssa"),
 "C15": dict(level="other", ref="§4 C15",
   text="The structural part only: all radix/mask/bound/continuation constants of the encoder and of both decoders are extracted from the SSA form (normalising <<7, *128, %128, &127), compared with each other and with MQTT's 7-bit groups and 4-byte maximum; the two decoders agree on update, guard and termination test; the encoder sets the continuation bit exactly when the quotient is non-zero and leaves exactly when it is zero; both decoders keep the size guard on every cycle and only the no-continuation exit reaches success; the streaming decoder consumes one byte per iteration; the in-memory path advances by the encoder's dry-run width inside the reader's bounds check; the fixed header's length cell is written by the streaming decoder alone (no second decoder in front of it). The numeric bijection over 2^28 values and exact decoded values are NOT decided.",
   technique="static analysis: constant extraction and loop-shape matching on go/ssa, sibling cross-check"),
 "C16": dict(level="other", ref="§4 C16",
   text="The dispatch is a finite structure: the comparison chain on (first byte & 0xF0) is extracted with its constants and arms and compared with the MQTT v5.0 type table carried by the checker (15 codes, exported type names); each arm stores the unmasked first byte into the field that type's encoder emits first (the constructor's type-code field); the default yields Undefined; constructors carry the right code and reserved bits; Publish.Duplicate/QoS/Retain are evaluated as decision functions of that byte on all 256 values against bits 3, 2-1, 0; Undefined keeps a copy of the frame where Data() reads; every WriteTo goes through the type's encoder; nothing reachable from a body decoder stores to the first-byte field or overwrites the packet as a whole.",
   technique="static analysis: switch/constant extraction against a specification table; exhaustive evaluation of extracted one-byte decision functions"),
 "C17": dict(level="other", ref="§4 C17",
   text="Publish.WellFormed, Subscribe.WellFormed and TopicFilter.WellFormed are treated as decision functions over the receiver's fields (identified through the exported accessors and the constructor's type code): every combination of abstract values of the atoms the rules mention (topic empty?, alias, all 256 first bytes, packet id, 0-3 filters, filter empty?, option bytes, subscription id absent/0/1/limit/limit+1) is pushed through the function's SSA decision tree and compared with the rule from the property text; String is shown to return through the suffixing helper on the same receiver, and the helper to return its argument unchanged iff WellFormed()==nil and else a constant format containing 'malformed!'.",
   technique="static analysis: decision-tree extraction from go/ssa and propositional comparison over the atoms' finite abstract domain; CFG result-flow rule for String"),
 "C10": dict(level="other", ref="§4 C10",
   text="WriteTo's shape is read off the SSA form by value identity: one buffer made with the dry-run size fill(nil-slice,0) of the receiver, filled once by the same function from offset 0, exactly one Write of that very buffer on every path, the writer used for nothing else, results int64(n), err of that call; Undefined returns a non-nil error and the count 0 and never touches the writer; a WriteTo may delegate to a shared helper of the same shape. A ghost counter over the emissions of every fill-family function shows each emission to be made at entry offset + widths of all earlier emissions and the return to be that sum; primitives are shown to write contiguous pieces totalling what they return (extent rule, byte-per-iteration rule for the variable-byte-integer encoder); the returned width is the same on both sides of every buffer-size guard (dry run = real run); String prints the dry-run size; buffer-size guards skip writes only when the buffer really is too short. The remaining-length value equals the bytes that follow: evaluated on every abstract packet state (incl. boundary lengths) and decided structurally for all states by path enumeration over every function that emits a length prefix (the dry-run calls summed into the prefix are exactly the emissions it covers).",
   technique="static analysis: SSA value-identity/result-flow rules, ghost-counter offset threading, linear-form equality of written extents"),
 "C09": dict(level="other", ref="§4 C09",
   text="The four rejection classes as path rules on the SSA form: (a) truncation inside a field — every field is read through the sequential reader's guarded primitive, proven to fail at end of data and never to advance beyond it, and every wire decoder is proven to return nil only when at least its minimum width is present, every other return being a non-nil error; the sticky error is what every packet decoder returns and ReadPacket turns it into (nil, err); (b) both variable-byte-integer decoders keep the size guard on every cycle and only the no-continuation-bit exit reaches success; (c) the boolean decoder succeeds only on the byte==0 / byte==1 edges; (d) in the property loop every iteration reads a value or records a non-nil error, and all accepted identifiers are among the 27 of MQTT v5.0 and the identifier decoder stores the byte read unchanged. The mechanism is decided, not the enumeration of every cut of every frame.",
   technique="static analysis: CFG path rules (must-pass-through, dominance), linear-inequality proofs, constant extraction against a specification table"),
 "C05": dict(level="other", ref="§4 C05",
   text="Structural sufficient condition for termination and linear work/memory, decided from the SSA form of every function on the decode call tree: each loop (cycles = strongly connected components) is a range/counted loop over a loop-invariant bound, a loop in which every cycle reads a value of width>=1 through the sequential reader's guarded primitive and leaves on the sticky error (with the primitive's lemmas proven: no-op after an error, otherwise non-nil error or advance within len(data)), or a geometric/divisive counter loop; length-bounded loops are not nested; every make() is constant, the L-vbi-bounded frame size, or proven <= the bytes present; every append adds a constant number of elements; no recursion, no blocking primitive. Constant factors and wall-clock time are not decided.",
   technique="static analysis: loop-shape classification on the SSA CFG + linear-inequality proofs of allocation sizes"),
 "C19": dict(level="proof", ref="§4 C19",
   text="Panic-freedom and termination of every String/Error/Dump/dump call tree (including the dry-run encoders used to print the size and fmt's reflective callees) for every receiver state: the C04 obligation generator and prover over the render roots; the one state dependency, CONNECT's 'will flag set implies will != nil', is proven as a representation invariant over every instruction of the package that can write either field (bit-level may-set analysis of flag writes; decode re-establishes it behind its own flag test); generated lookup tables are read from their init-time stores and checked monotone/in range; loops classified as in C05.",
   technique="static analysis: obligation generation on go/ssa + abstract interpretation (linear inequalities, nilness, bit masks) + representation-invariant proof over all field writers"),
 "C04": dict(level="proof", ref="§4 C04",
   text="Panic-freedom of the whole decode call tree for all inputs: an obligation is generated from the SSA form for every instruction that can panic (index, slice, nil dereference, nil call, unchecked type assertion, negative make size, division, explicit panic, stdlib preconditions) in every function reachable from ReadPacket and every UnmarshalBinary/ReadFrom, and discharged by a local prover (linear facts from dominating branches with Fourier-Motzkin entailment, wrap-aware narrow arithmetic, nil facts, store-to-load forwarding under a type-based no-intervening-write analysis, callee summaries, invariants of the sequential reader proven over all its writers, a geometric-accumulator bound for the frame size, a post-condition lemma for the length-prefixed decoder, and 'field non-nil' requirements resolved at the sites where closures are put to use). ReadPacket's result shape is (non-nil,nil) xor (nil,non-nil). Undischarged = failure.",
   technique="static analysis: obligation generation on go/ssa + abstract interpretation (linear inequalities, nilness, available values) with inductive contracts"),
 "C11": dict(level="proof", ref="§4 C11",
   text="Every instruction of every function reachable from WriteTo/String/Error/Dump/WellFormed/accessors is inspected for nondeterminism sources (map ranges must be over provably <=1-entry map literals; no select/go/channel; external calls only from a deterministic allow-list; no address printed by fmt; no pointer-to-integer conversion), and the provenance/effect analysis shows these operations write nothing but their io.Writer argument and that package state is init-only. A sequential function without those sources is a function of its inputs in any process. Proof modulo the stdlib model table.",
   technique="static analysis: SSA instruction scan over the call graph + interprocedural write-effect/provenance analysis"),
 "C13": dict(level="proof", ref="§4 C13",
   text="Interprocedural write-effect/provenance analysis (fresh / parameter / parameter-reachable / captured / package variable; field-sensitive for fresh objects, closures and bound methods followed through bindings, fmt's reflective callees included): no read-only operation writes memory reachable from its receiver, arguments or package variables; package variables are assigned only in init and shared storage is never written in place; ReadPacket writes only memory it allocated. Without a write to a shared location no interleaving can race. Proof modulo the stdlib effect table.",
   technique="static analysis: bottom-up effect and provenance summaries on go/ssa (purity analysis)"),
 "C14": dict(level="proof", ref="§4 C14",
   text="Retention edges from the provenance analysis: no UnmarshalBinary (16 packets + 9 wire types) stores anything derived from its input slice into non-fresh memory, returns it, or writes through it; no exported API returns package-variable storage or an uncopied load of a field sharing it; package state is init-only; the frame buffer handed to UnmarshalBinary on ReadPacket's tree is a make() of that call tree; no decoder overwrites storage its receiver held before the call; ReadPacket writes only memory allocated during the call and the packet it returns is allocated during the call. Proof modulo the stdlib effect table.",
   technique="static analysis: escape/retention (taint to non-fresh stores) via provenance summaries on go/ssa"),
 "C06": dict(level="proof", ref="§4 C06",
   text="Reader-use discipline on ReadPacket's call tree decided from SSA: the reader is only read through full-read primitives, header reads use 1-byte buffers, the body buffer's length is (without arithmetic or narrowing conversion) the cell written only by the streaming length reader on the same header object, the length loop consumes one byte per iteration with a data-dependent successful exit, and every exit of the body stage lies behind the completed body read or on the length==0 edge. Hence exactly 1+k+remaining bytes are requested on success and on content rejection. Proof modulo io contracts; the numeric agreement of length value and bytes consumed is C15's.",
   technique="static analysis: SSA reader-use enumeration, value-identity of the buffer size, dominance / must-pass-through on the CFG"),
 "C08": dict(level="proof", ref="§4 C08",
   text="For every read site the error value is followed through dominance by its own nil-tests and through resolved call sites up to ReadPacket: each exit reachable after a read is behind `err == nil` or returns the error by identity / constant-format %w with a nil packet; buffer content is used only behind the nil edge. With full reads this gives: packet only if all bytes arrived, errors.Is(err, E) for reader failures, io.EOF at a frame boundary. Proof modulo io.ReadFull and fmt.Errorf %w contracts.",
   technique="static analysis: error-value flow on SSA (checked-before-use, result-flow, %w format parsing) across the call graph"),
 "C07": dict(level="proof", ref="§4 C07",
   text="Every use of an io.Reader value in package mq is enumerated from the SSA form and must be a full-read primitive (io.ReadFull / io.ReadAtLeast(len)) or a hand-over to an mq function under the same rule. With full reads only the decoded bytes cannot depend on chunking, zero-length reads or (n, io.EOF). Proof modulo the io.ReadFull contract.",
   technique="static analysis: SSA use-enumeration of reader values (who-may-call / typestate rule)"),
}

NA_REASON = {
}

def main():
    checks = []
    for pid in ALL:
        if pid not in CHECKS: continue
        c = CHECKS[pid]
        checks.append({
            "property_id": pid,
            "quick_cmd": "./run.sh %s quick" % pid,
            "thorough_cmd": "./run.sh %s thorough" % pid,
            "evidence_file": "/verif/evidence/%s.json" % pid,
            "replay_cmd_template": "cat {path}",
            "engine": "mqverify",
            "level_claimed": {"category": c["level"], "text": c["text"], "design_ref": c["ref"]},
            "level_note": c.get("note", BASE),
            "technique": c["technique"],
        })
    na = [{"property_id": p, "reason": NA_REASON.get(p, "check under construction in this round: no verdict is claimed yet (see DESIGN.md §7 build order)")}
          for p in ALL if p not in CHECKS]
    m = {
        "version": 1,
        "setup_cmd": "cd /verif/checker && GOFLAGS=-mod=mod GOPROXY=off GOSUMDB=off GOTOOLCHAIN=local GOWORK=off go build -o /verif/bin/mqverify .",
        "hooks": {
            "guard": "verif",
            "enable": "none needed: static analysis reads /repo's source, no instrumentation is compiled in",
            "baseline_off_cmd": "cd /repo && GOFLAGS=-mod=mod GOPROXY=off GOSUMDB=off go test -vet=off -count=1 ./...",
            "source_commits": [],
            "add_only": True,
        },
        "engines": [{
            "name": "mqverify", "path": "/verif/checker",
            "serves_properties": [c["property_id"] for c in checks],
            "kind_free_text": "custom static analyser for gregoryv/mq over go/types + go/ssa (x/tools v0.29.0): CFG path rules, effect/provenance analysis, decision-tree and layout extraction; no code of /repo is executed",
        }],
        "checks": checks,
        "not_applicable": na,
        "notes": "Static analysis only. Every check re-parses and re-type-checks /repo's current working tree on each run. Genuine defects found are repaired in /repo as 'fix:' commits and listed in /verif/known_findings.json.",
    }
    json.dump(m, open("/verif/MANIFEST.json", "w"), indent=1)
    print("checks:", len(checks), "not_applicable:", len(na))

main()
