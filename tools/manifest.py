#!/usr/bin/env python3
"""Generates /verif/MANIFEST.json from the table below (single source of truth)."""
import json, sys

ALL = ["C%02d" % i for i in range(1, 20)]

BASE = ("go/types + go/ssa (x/tools v0.29.0) faithful IR; stdlib contracts as documented "
        "(DESIGN.md section 3); caller-supplied io.Reader/io.Writer obey their contracts")

CHECKS = {
 "C07": dict(level="proof", ref="§4 C07",
   text="Every use of an io.Reader value in package mq is enumerated from the SSA form and must be a full-read primitive (io.ReadFull / io.ReadAtLeast(len)) or a hand-over to an mq function under the same rule. With full reads only the decoded bytes cannot depend on chunking, zero-length reads or (n, io.EOF). Proof modulo the io.ReadFull contract.",
   technique="static analysis: SSA use-enumeration of reader values (who-may-call / typestate rule)"),
}

NA_REASON = {
}

def main():
    checks = []
    for pid in ALL:
        if pid not in CHECKS: continue
        c = CHECKS[pid]
        checks.append({
            "property_id": pid,
            "quick_cmd": "./run.sh %s quick" % pid,
            "thorough_cmd": "./run.sh %s thorough" % pid,
            "evidence_file": "/verif/evidence/%s.json" % pid,
            "replay_cmd_template": "cat {path}",
            "engine": "mqverify",
            "level_claimed": {"category": c["level"], "text": c["text"], "design_ref": c["ref"]},
            "level_note": c.get("note", BASE),
            "technique": c["technique"],
        })
    na = [{"property_id": p, "reason": NA_REASON.get(p, "check under construction in this round: no verdict is claimed yet (see DESIGN.md §7 build order)")}
          for p in ALL if p not in CHECKS]
    m = {
        "version": 1,
        "setup_cmd": "cd /verif/checker && GOFLAGS=-mod=mod GOPROXY=off GOSUMDB=off GOTOOLCHAIN=local GOWORK=off go build -o /verif/bin/mqverify .",
        "hooks": {
            "guard": "verif",
            "enable": "none needed: static analysis reads /repo's source, no instrumentation is compiled in",
            "baseline_off_cmd": "cd /repo && GOFLAGS=-mod=mod GOPROXY=off GOSUMDB=off go test -vet=off -count=1 ./...",
            "source_commits": [],
            "add_only": True,
        },
        "engines": [{
            "name": "mqverify", "path": "/verif/checker",
            "serves_properties": [c["property_id"] for c in checks],
            "kind_free_text": "custom static analyser for gregoryv/mq over go/types + go/ssa (x/tools v0.29.0): CFG path rules, effect/provenance analysis, decision-tree and layout extraction; no code of /repo is executed",
        }],
        "checks": checks,
        "not_applicable": na,
        "notes": "Static analysis only. Every check re-parses and re-type-checks /repo's current working tree on each run. Genuine defects found are repaired in /repo as 'fix:' commits and listed in /verif/known_findings.json.",
    }
    json.dump(m, open("/verif/MANIFEST.json", "w"), indent=1)
    print("checks:", len(checks), "not_applicable:", len(na))

main()
