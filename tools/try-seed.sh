#!/bin/bash
# usage: try-seed.sh <dir containing patch.diff and demo_test.go>
# Confirms a seeded change in a scratch worktree (suite passes, demo fails with / passes without the change)
# and runs every check against the changed tree.  Nothing is written to /repo or to /verif/evidence.
export GOFLAGS=-mod=mod GOPROXY=off GOSUMDB=off GOTOOLCHAIN=local GOWORK=off
src="$1"; w=/tmp/seedverify; out=/tmp/seedverify-out
git -C /repo worktree remove --force $w 2>/dev/null; rm -rf $w $out
git -C /repo worktree add -q --detach $w HEAD || exit 2
cd $w
cp "$src"/demo_test.go* seeddemo_test.go
base=$(go test -vet=off -count=1 -run TestSeedDemo . 2>&1 | tail -1)
git apply "$src/patch.diff" || { echo "PATCH DOES NOT APPLY"; exit 2; }
rm seeddemo_test.go
suite=$(go build ./... 2>&1 && go test -vet=off -count=1 ./... 2>&1 | tr '\n' ' ')
cp "$src"/demo_test.go* seeddemo_test.go
demo=$(go test -vet=off -count=1 -run TestSeedDemo . 2>&1 | tail -1)
rm seeddemo_test.go
echo "demo without change: $base"
echo "suite with change:   $suite"
echo "demo with change:    $demo"
mkdir -p $out
/verif/bin/mqverify -property all -repo $w -verif /verif -outdir $out -nocanary 2>&1 | grep -E "^VIOLATION|^  (VIOLATED|UNDECIDED)" | cut -c1-330 | awk '/^VIOLATION/ {print; n=0; next} { n++; if (n<=3) print; else if (n==4) print "  ..." }' 
cd /; git -C /repo worktree remove --force $w; rm -rf $w $out
