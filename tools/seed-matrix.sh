#!/bin/bash
# usage: seed-matrix.sh [seed dirs...]   (default: all of /verif/seeded/*)
# For every kept seeded change: apply it in a scratch worktree and list which properties' checks report it.
export GOFLAGS=-mod=mod GOPROXY=off GOSUMDB=off GOTOOLCHAIN=local GOWORK=off
w=/tmp/seedmatrix; out=/tmp/seedmatrix-out
dirs="$@"; [ -z "$dirs" ] && dirs=$(ls -d /verif/seeded/*/)
for d in $dirs; do
  d=${d%/}
  git -C /repo worktree remove --force $w 2>/dev/null; rm -rf $w $out
  git -C /repo worktree add -q --detach $w HEAD || exit 2
  (cd $w && git apply "$d/patch.diff") || { echo "$(basename $d): PATCH DOES NOT APPLY"; continue; }
  mkdir -p $out
  hits=$(/verif/bin/mqverify -property all -repo $w -verif /verif -outdir $out -nocanary 2>&1 | grep -E "^VIOLATION" | sed -E 's/.*property=(C[0-9]+).*/\1/' | tr '\n' ' ')
  echo "$(basename $d): $hits"
done
git -C /repo worktree remove --force $w 2>/dev/null; rm -rf $w $out
