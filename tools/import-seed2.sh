#!/bin/bash
# usage: import-seed2.sh <ID>   copies /tmp/seed2-<ID>/OUT into /verif/seeded/<ID>-2 (patch, demo, notes) and tries it
id=$1; src=/tmp/seed2-$id/OUT; dst=/verif/seeded/$id-2
mkdir -p $dst
cp $src/patch.diff $dst/patch.diff
cp $src/demo_test.go $dst/demo_test.go.txt
cp $src/notes.md $dst/notes.md 2>/dev/null
/verif/tools/try-seed.sh $dst
