// mutate: a small mutation-testing driver for the checks in /verif.
//
// It enumerates single-point syntactic mutants of /repo's non-test sources (operator flips, constants +-1,
// negated conditions, deleted statements, ...), keeps those that still compile and pass the unedited test suite
// (the suite cannot see them), and runs every check of /verif (mqverify -property all -nocanary) against each
// survivor in a scratch copy.  Output: one JSON line per mutant with the verdict.  Survivors that no check
// reports have to be triaged by hand: they are either behaviour-preserving / outside every property, or a
// blind spot of the machinery.  Nothing is written to /repo.
package main

import (
	"bytes"
	"context"
	"encoding/json"
	"flag"
	"fmt"
	"go/ast"
	"go/format"
	"go/parser"
	"go/token"
	"os"
	"os/exec"
	"path/filepath"
	"regexp"
	"sort"
	"strconv"
	"strings"
	"sync"
	"time"
)

type mutant struct {
	ID    int    `json:"id"`
	File  string `json:"file"`
	Line  int    `json:"line"`
	Func  string `json:"func"`
	Kind  string `json:"kind"`
	Desc  string `json:"desc"`
	src   []byte
	Build string   `json:"build,omitempty"` // "fail" if it does not compile
	Tests string   `json:"tests,omitempty"` // "fail", "pass", "timeout"
	Props []string `json:"props,omitempty"` // properties whose check reports it
	Rules []string `json:"rules,omitempty"`
}

func main() {
	repo := flag.String("repo", "/repo", "repository")
	verif := flag.String("verif", "/verif", "verif dir")
	workers := flag.Int("j", 12, "parallel workers")
	only := flag.String("files", "", "comma separated file names (default all)")
	out := flag.String("out", "/verif/out/mutants.jsonl", "output")
	limit := flag.Int("limit", 0, "max mutants (0 = all)")
	stride := flag.Int("stride", 1, "take every n-th mutant")
	kinds := flag.String("kinds", "", "comma separated mutation kinds to keep (default all)")
	dump := flag.Int("dump", -1, "write the mutated file of this mutant id to stdout (prefixed by a line with the file name) and exit")
	flag.Parse()

	fset := token.NewFileSet()
	files, _ := filepath.Glob(filepath.Join(*repo, "*.go"))
	sort.Strings(files)
	want := map[string]bool{}
	for _, f := range strings.Split(*only, ",") {
		if f != "" {
			want[f] = true
		}
	}
	// first pass: struct fields by type and constant groups of the whole package
	for _, path := range files {
		if strings.HasSuffix(path, "_test.go") {
			continue
		}
		src, _ := os.ReadFile(path)
		f, err := parser.ParseFile(token.NewFileSet(), path, src, 0)
		if err != nil {
			continue
		}
		collectSiblings(f)
	}
	var muts []*mutant
	for _, path := range files {
		base := filepath.Base(path)
		if strings.HasSuffix(base, "_test.go") || (len(want) > 0 && !want[base]) {
			continue
		}
		src, err := os.ReadFile(path)
		if err != nil {
			panic(err)
		}
		f, err := parser.ParseFile(fset, path, src, parser.ParseComments)
		if err != nil {
			panic(err)
		}
		muts = append(muts, enumerate(fset, f, base)...)
	}
	if *kinds != "" {
		keep := map[string]bool{}
		for _, k := range strings.Split(*kinds, ",") {
			keep[k] = true
		}
		var f []*mutant
		for _, m := range muts {
			if keep[m.Kind] {
				f = append(f, m)
			}
		}
		muts = f
	}
	var sel []*mutant
	for i, m := range muts {
		if i%*stride == 0 {
			sel = append(sel, m)
		}
	}
	if *limit > 0 && len(sel) > *limit {
		sel = sel[:*limit]
	}
	for i, m := range sel {
		m.ID = i
	}
	fmt.Fprintf(os.Stderr, "%d mutants enumerated, %d selected\n", len(muts), len(sel))
	if *dump >= 0 {
		if *dump < len(sel) {
			fmt.Println(sel[*dump].File)
			os.Stdout.Write(sel[*dump].src)
		}
		return
	}

	os.MkdirAll(filepath.Dir(*out), 0o755)
	outf, err := os.Create(*out)
	if err != nil {
		panic(err)
	}
	defer outf.Close()
	var mu sync.Mutex
	ch := make(chan *mutant)
	var wg sync.WaitGroup
	for w := 0; w < *workers; w++ {
		wg.Add(1)
		go func(w int) {
			defer wg.Done()
			dir := fmt.Sprintf("/tmp/mut-%d", w)
			os.RemoveAll(dir)
			run("", 60*time.Second, "cp", "-r", *repo, dir)
			os.RemoveAll(filepath.Join(dir, ".git"))
			defer os.RemoveAll(dir)
			defer os.RemoveAll(dir + "-out")
			for m := range ch {
				process(m, dir, *repo, *verif)
				mu.Lock()
				b, _ := json.Marshal(m)
				outf.Write(append(b, '\n'))
				mu.Unlock()
			}
		}(w)
	}
	for _, m := range sel {
		ch <- m
	}
	close(ch)
	wg.Wait()
	// summary
	nb, nt, nd, nu := 0, 0, 0, 0
	for _, m := range sel {
		switch {
		case m.Build == "fail":
			nb++
		case m.Tests != "pass":
			nt++
		case len(m.Props) > 0:
			nd++
		default:
			nu++
		}
	}
	fmt.Fprintf(os.Stderr, "do not compile: %d, killed by the suite: %d, survive the suite: %d (reported by a check: %d, not reported: %d)\n", nb, nt, nd+nu, nd, nu)
}

func env() []string {
	return append(os.Environ(), "GOFLAGS=-mod=mod", "GOPROXY=off", "GOSUMDB=off", "GOTOOLCHAIN=local", "GOWORK=off")
}

func run(dir string, to time.Duration, name string, args ...string) (string, error) {
	ctx, cancel := context.WithTimeout(context.Background(), to)
	defer cancel()
	cmd := exec.CommandContext(ctx, name, args...)
	cmd.Dir = dir
	cmd.Env = env()
	var buf bytes.Buffer
	cmd.Stdout, cmd.Stderr = &buf, &buf
	err := cmd.Run()
	if ctx.Err() != nil {
		return buf.String(), fmt.Errorf("timeout")
	}
	return buf.String(), err
}

var reViol = regexp.MustCompile(`^VIOLATION property=(C\d+)`)
var reFind = regexp.MustCompile(`^\s+(VIOLATED|UNDECIDED) (\S+) `)

func process(m *mutant, dir, repo, verif string) {
	path := filepath.Join(dir, m.File)
	orig, _ := os.ReadFile(filepath.Join(repo, m.File))
	os.WriteFile(path, m.src, 0o644)
	defer os.WriteFile(path, orig, 0o644)
	if _, err := run(dir, 120*time.Second, "go", "build", "./..."); err != nil {
		m.Build = "fail"
		return
	}
	if _, err := run(dir, 120*time.Second, "go", "test", "-vet=off", "-count=1", "-timeout", "30s", "./..."); err != nil {
		m.Tests = "fail"
		if err.Error() == "timeout" {
			m.Tests = "timeout"
		}
		return
	}
	m.Tests = "pass"
	outdir := dir + "-out"
	os.RemoveAll(outdir)
	os.MkdirAll(outdir, 0o755)
	o, _ := run(dir, 600*time.Second, filepath.Join(verif, "bin/mqverify"), "-property", "all", "-repo", dir, "-verif", verif, "-outdir", outdir, "-nocanary")
	var pending []string
	seen := map[string]bool{}
	for _, line := range strings.Split(o, "\n") {
		if mm := reFind.FindStringSubmatch(line); mm != nil {
			pending = append(pending, mm[2])
		}
		if mm := reViol.FindStringSubmatch(line); mm != nil {
			m.Props = append(m.Props, mm[1])
			for _, r := range pending {
				if !seen[r] {
					seen[r] = true
					m.Rules = append(m.Rules, r)
				}
			}
			pending = nil
		}
	}
}

// ---------- mutant enumeration ----------

func enumerate(fset *token.FileSet, f *ast.File, base string) []*mutant {
	var out []*mutant
	emit := func(n ast.Node, fn, kind, desc string) {
		var buf bytes.Buffer
		if err := format.Node(&buf, fset, f); err != nil {
			return
		}
		out = append(out, &mutant{File: base, Line: fset.Position(n.Pos()).Line, Func: fn, Kind: kind, Desc: desc, src: append([]byte(nil), buf.Bytes()...)})
	}
	for _, d := range f.Decls {
		fd, ok := d.(*ast.FuncDecl)
		if !ok || fd.Body == nil {
			continue
		}
		fn := fd.Name.Name
		if fd.Recv != nil && len(fd.Recv.List) > 0 {
			var b bytes.Buffer
			format.Node(&b, fset, fd.Recv.List[0].Type)
			fn = "(" + b.String() + ")." + fn
		}
		ast.Inspect(fd.Body, func(n ast.Node) bool {
			switch x := n.(type) {
			case *ast.BinaryExpr:
				alts := map[token.Token][]token.Token{
					token.LSS: {token.LEQ, token.GTR}, token.LEQ: {token.LSS, token.GEQ}, token.GTR: {token.GEQ, token.LSS}, token.GEQ: {token.GTR, token.LEQ},
					token.EQL: {token.NEQ}, token.NEQ: {token.EQL},
					token.LAND: {token.LOR}, token.LOR: {token.LAND},
					token.ADD: {token.SUB}, token.SUB: {token.ADD}, token.MUL: {token.QUO}, token.QUO: {token.MUL}, token.REM: {token.QUO},
					token.AND: {token.OR}, token.OR: {token.AND}, token.AND_NOT: {token.AND}, token.SHL: {token.SHR}, token.SHR: {token.SHL},
				}
				old := x.Op
				for _, a := range alts[old] {
					x.Op = a
					emit(x, fn, "binop", fmt.Sprintf("%s -> %s", old, a))
				}
				x.Op = old
			case *ast.AssignStmt:
				alts := map[token.Token]token.Token{token.ADD_ASSIGN: token.SUB_ASSIGN, token.SUB_ASSIGN: token.ADD_ASSIGN, token.OR_ASSIGN: token.AND_ASSIGN, token.AND_ASSIGN: token.OR_ASSIGN, token.AND_NOT_ASSIGN: token.AND_ASSIGN}
				if a, ok := alts[x.Tok]; ok {
					old := x.Tok
					x.Tok = a
					emit(x, fn, "assignop", fmt.Sprintf("%s -> %s", old, a))
					x.Tok = old
				}
			case *ast.BasicLit:
				if x.Kind == token.INT {
					v, err := strconv.ParseInt(strings.ReplaceAll(x.Value, "_", ""), 0, 64)
					if err == nil {
						old := x.Value
						for _, nv := range []int64{v + 1, v - 1} {
							if nv < 0 {
								continue
							}
							x.Value = strconv.FormatInt(nv, 10)
							emit(x, fn, "const", fmt.Sprintf("%s -> %d", old, nv))
						}
						x.Value = old
					}
				}
			case *ast.UnaryExpr:
				if x.Op == token.NOT {
					// drop the negation: replace !e by e  (print as (e))
					old := *x
					x.Op = token.ADD
					if _, isBool := x.X.(*ast.BinaryExpr); isBool {
						// +(...) does not type check for bool; use double negation removal through paren trick
					}
					*x = old
				}
			case *ast.IfStmt:
				// negate the condition
				old := x.Cond
				x.Cond = &ast.UnaryExpr{Op: token.NOT, X: &ast.ParenExpr{X: old}}
				emit(x, fn, "negcond", "if c -> if !c")
				x.Cond = old
				// condition always true / always false
				if x.Init == nil {
					x.Cond = ast.NewIdent("true")
					emit(x, fn, "cond", "if c -> if true")
					x.Cond = ast.NewIdent("false")
					emit(x, fn, "cond", "if c -> if false")
					x.Cond = old
				}
			case *ast.BlockStmt:
				// swap two adjacent simple statements
				for i := 0; i+1 < len(x.List); i++ {
					simple := func(s ast.Stmt) bool {
						switch st := s.(type) {
						case *ast.ExprStmt, *ast.IncDecStmt:
							return true
						case *ast.AssignStmt:
							return st.Tok != token.DEFINE
						}
						return false
					}
					if simple(x.List[i]) && simple(x.List[i+1]) {
						x.List[i], x.List[i+1] = x.List[i+1], x.List[i]
						emit(x.List[i], fn, "swapstmt", "two adjacent statements swapped")
						x.List[i], x.List[i+1] = x.List[i+1], x.List[i]
					}
				}
				// delete one statement (expression statements, assignments, inc/dec, single-branch ifs, break/continue)
				for i, s := range x.List {
					del := false
					switch st := s.(type) {
					case *ast.ExprStmt, *ast.IncDecStmt:
						del = true
					case *ast.AssignStmt:
						del = st.Tok != token.DEFINE
					case *ast.BranchStmt:
						del = st.Tok == token.BREAK || st.Tok == token.CONTINUE
					case *ast.IfStmt:
						del = st.Else == nil
					case *ast.ReturnStmt:
						del = false
					}
					if !del {
						continue
					}
					old := x.List
					nl := append(append([]ast.Stmt(nil), old[:i]...), old[i+1:]...)
					x.List = nl
					emit(s, fn, "delstmt", "statement deleted")
					x.List = old
				}
			case *ast.ReturnStmt:
				// return err -> return nil (identifier named err or ending in .err)
				for i, r := range x.Results {
					isErr := false
					switch e := r.(type) {
					case *ast.Ident:
						isErr = e.Name == "err"
					case *ast.SelectorExpr:
						isErr = e.Sel.Name == "err"
					}
					if isErr {
						old := x.Results[i]
						x.Results[i] = ast.NewIdent("nil")
						emit(x, fn, "reterr", "return err -> return nil")
						x.Results[i] = old
					}
				}
			case *ast.CallExpr:
				// swap first two arguments when they have the same syntactic shape (both identifiers / selectors)
				if len(x.Args) >= 2 {
					_, a0 := x.Args[0].(*ast.Ident)
					_, a1 := x.Args[1].(*ast.Ident)
					if a0 && a1 {
						x.Args[0], x.Args[1] = x.Args[1], x.Args[0]
						emit(x, fn, "swapargs", "first two arguments swapped")
						x.Args[0], x.Args[1] = x.Args[1], x.Args[0]
					}
				}
			case *ast.SelectorExpr:
				// p.f -> p.g where g is another field of the same type in the same struct
				if alts := fieldSiblings[x.Sel.Name]; len(alts) > 0 {
					old := x.Sel.Name
					for k, a := range alts {
						if k >= 2 {
							break
						}
						x.Sel = ast.NewIdent(a)
						emit(x, fn, "field", old+" -> "+a)
					}
					x.Sel = ast.NewIdent(old)
				}
			case *ast.Ident:
				if alts := constSiblings[x.Name]; len(alts) > 0 && x.Obj == nil {
					old := x.Name
					for k, a := range alts {
						if k >= 2 {
							break
						}
						x.Name = a
						emit(x, fn, "constname", old+" -> "+a)
					}
					x.Name = old
				}
				if x.Name == "true" || x.Name == "false" {
					old := x.Name
					if old == "true" {
						x.Name = "false"
					} else {
						x.Name = "true"
					}
					emit(x, fn, "bool", old+" -> "+x.Name)
					x.Name = old
				}
			}
			return true
		})
	}
	// package-level constants and vars
	for _, d := range f.Decls {
		gd, ok := d.(*ast.GenDecl)
		if !ok || (gd.Tok != token.CONST && gd.Tok != token.VAR) {
			continue
		}
		ast.Inspect(gd, func(n ast.Node) bool {
			if x, ok := n.(*ast.BasicLit); ok && x.Kind == token.INT {
				v, err := strconv.ParseInt(strings.ReplaceAll(x.Value, "_", ""), 0, 64)
				if err == nil {
					old := x.Value
					for _, nv := range []int64{v + 1, v - 1} {
						if nv < 0 {
							continue
						}
						x.Value = strconv.FormatInt(nv, 10)
						emit(x, "package", "const", fmt.Sprintf("%s -> %d", old, nv))
					}
					x.Value = old
				}
			}
			return true
		})
	}
	return out
}

var fieldSiblings = map[string][]string{} // field name -> other fields of the same type in the same struct
var constSiblings = map[string][]string{} // constant name -> neighbours in the same const block

func collectSiblings(f *ast.File) {
	for _, d := range f.Decls {
		gd, ok := d.(*ast.GenDecl)
		if !ok {
			continue
		}
		if gd.Tok == token.TYPE {
			for _, sp := range gd.Specs {
				ts := sp.(*ast.TypeSpec)
				st, ok := ts.Type.(*ast.StructType)
				if !ok {
					continue
				}
				byType := map[string][]string{}
				for _, fl := range st.Fields.List {
					var b bytes.Buffer
					format.Node(&b, token.NewFileSet(), fl.Type)
					for _, n := range fl.Names {
						byType[b.String()] = append(byType[b.String()], n.Name)
					}
				}
				for _, names := range byType {
					for i, n := range names {
						for j := 1; j < len(names); j++ {
							fieldSiblings[n] = append(fieldSiblings[n], names[(i+j)%len(names)])
						}
					}
				}
			}
		}
		if gd.Tok == token.CONST && len(gd.Specs) > 1 {
			var names []string
			for _, sp := range gd.Specs {
				for _, n := range sp.(*ast.ValueSpec).Names {
					if n.Name != "_" {
						names = append(names, n.Name)
					}
				}
			}
			for i, n := range names {
				for j := 1; j < len(names) && j <= 2; j++ {
					constSiblings[n] = append(constSiblings[n], names[(i+j)%len(names)])
				}
			}
		}
	}
}
