#!/usr/bin/env python3
"""usage: mkcanary.py <name> <rule|-> <where|-> <diff> — prints a Canary literal whose Edits turn the frozen fixture
(checker/testdata/base) into the patched sources, one Edit per changed file (minimal line region, unique in the file).
rule '-' makes a Silent canary."""
import sys, json, subprocess, shutil, tempfile, os, re
name, rule, where, diff = sys.argv[1:5]
base = "/verif/checker/testdata/base"
d = tempfile.mkdtemp()
files = sorted(set(re.findall(r"^\+\+\+ b/(\S+)", open(diff).read(), re.M)))
for f in files:
    os.makedirs(os.path.dirname(d + "/" + f) or d, exist_ok=True)
    shutil.copy(base + "/" + f, d + "/" + f)
r = subprocess.run(["patch", "-p1", "-d", d, "-i", diff], capture_output=True, text=True)
assert r.returncode == 0, r.stdout + r.stderr
edits = []
for f in files:
    b = open(base + "/" + f).read().split("\n"); n = open(d + "/" + f).read().split("\n")
    i = 0
    while i < len(b) and i < len(n) and b[i] == n[i]: i += 1
    j = 0
    while j < len(b) - i and j < len(n) - i and b[-1 - j] == n[-1 - j]: j += 1
    lo = i
    while True:
        old = "\n".join(b[lo:len(b) - j]); new = "\n".join(n[lo:len(n) - j])
        if old and open(base + "/" + f).read().count(old) == 1: break
        if lo == 0: break
        lo -= 1
    edits.append('{%s, %s, %s}' % (json.dumps(f), json.dumps(old), json.dumps(new)))
shutil.rmtree(d)
q = json.dumps
if rule == "-":
    print('\t\t{Name: %s, Silent: true, Edits: []Edit{%s}},' % (q(name), ", ".join(edits)))
else:
    print('\t\t{Name: %s, Rule: %s, Where: %s, Edits: []Edit{%s}},' % (q(name), q(rule), q(where), ", ".join(edits)))
