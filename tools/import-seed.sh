#!/bin/bash
# usage: import-seed.sh <round> <ID>   copies /tmp/seed<round>-<ID>/OUT into /verif/seeded/<ID>-<round> and tries it
r=$1; id=$2; src=/tmp/seed$r-$id/OUT; dst=/verif/seeded/$id-$r
mkdir -p $dst
cp $src/patch.diff $dst/patch.diff
cp $src/demo_test.go $dst/demo_test.go.txt
cp $src/notes.md $dst/notes.md 2>/dev/null
/verif/tools/try-seed.sh $dst
