#!/bin/bash
# usage: dbg-refactor.sh <diff> [mqverify args…]  — scratch worktree /tmp/dbgwt with the patch, run bin/mqverify.new (no canaries)
export GOFLAGS=-mod=mod GOPROXY=off GOSUMDB=off GOTOOLCHAIN=local GOWORK=off
w=/tmp/dbgwt
git -C /repo worktree remove --force $w 2>/dev/null; rm -rf $w /tmp/dbgout
git -C /repo worktree add -q --detach $w HEAD || exit 2
(cd $w && git apply "$1") || exit 2
shift
if [ $# -eq 0 ]; then set -- -property all; fi
/verif/bin/mqverify.new "$@" -repo $w -verif /verif -outdir /tmp/dbgout -nocanary 2>&1 | grep -E "^VIOLATION|^  (VIOLATED|UNDECIDED)|panic|fatal" | grep -v "\[386\]" | cut -c1-500
