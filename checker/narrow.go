package main

// Prover extensions: definitions of narrow-type arithmetic that hold when the
// operands provably do not wrap, constant lookup tables, closure parameter
// ranges and lengths of captured slices.

import (
	"fmt"
	"go/token"
	"go/types"
	"math"
	"sort"

	"golang.org/x/tools/go/ssa"
)

type narrowDef struct {
	r      Lin
	lo, hi float64
}

type tableLoad struct {
	g   *ssa.Global
	idx Lin
}

// narrowFacts: for an atom that stands for x ⊕ y computed in a type narrower
// than int, add "atom == x ⊕ y" when the current facts show that the result is
// within the type's range (no wrap-around on this path).
func (pr *Prover) narrowFacts(facts []Lin, goal Lin) []Lin {
	if len(pr.narrowDefs) == 0 {
		return nil
	}
	var out []Lin
	done := map[string]bool{}
	mention := map[string]bool{}
	for a := range goal.coef {
		mention[a] = true
	}
	for _, f := range facts {
		for a := range f.coef {
			mention[a] = true
		}
	}
	for changed := true; changed; {
		changed = false
		for a := range mention {
			if d, ok := pr.narrowDefs[a]; ok {
				for x := range d.r.coef {
					if !mention[x] {
						mention[x] = true
						changed = true
					}
				}
			}
		}
	}
	for round := 0; round < 4; round++ {
		added := false
		for a := range mention {
			d, ok := pr.narrowDefs[a]
			if !ok || done[a] {
				continue
			}
			base := pr.withRanges(append(append([]Lin(nil), facts...), out...), d.r)
			if entails(base, d.r.addConst(-int64(d.lo))) && entails(base, d.r.scale(-1).addConst(int64(d.hi))) {
				done[a] = true
				added = true
				out = append(out, linAtom(a).sub(d.r), d.r.sub(linAtom(a)))
			}
		}
		if !added {
			break
		}
	}
	return out
}

// constTable: the global is an array assigned element-wise with constants in
// init and never written (nor its address taken) anywhere else.
func (p *Prog) constTable(g *ssa.Global) ([]int64, bool) {
	key := "tbl:" + g.Name()
	if v, ok := p.cache[key]; ok {
		if v == nil {
			return nil, false
		}
		return v.([]int64), true
	}
	p.cache[key] = nil
	pt, ok := g.Type().Underlying().(*types.Pointer)
	if !ok {
		return nil, false
	}
	at, ok := pt.Elem().Underlying().(*types.Array)
	if !ok {
		return nil, false
	}
	vals := make([]int64, at.Len())
	set := make([]bool, at.Len())
	for _, fn := range p.AllFuncs() {
		isInit := fn.Name() == "init" && fn.Parent() == nil
		for _, b := range fn.Blocks {
			for _, ins := range b.Instrs {
				for _, op := range ins.Operands(nil) {
					if *op != ssa.Value(g) {
						continue
					}
					ia, ok := ins.(*ssa.IndexAddr)
					if !ok {
						return nil, false // address used otherwise
					}
					for _, r := range *ia.Referrers() {
						switch x := r.(type) {
						case *ssa.UnOp, *ssa.DebugRef:
						case *ssa.Store:
							if !isInit || x.Addr != ssa.Value(ia) {
								return nil, false
							}
							k, ok1 := constInt(ia.Index)
							v, ok2 := constInt(x.Val)
							if !ok1 || !ok2 || k < 0 || k >= at.Len() || set[k] {
								return nil, false
							}
							vals[k], set[k] = v, true
						default:
							return nil, false
						}
					}
				}
			}
		}
	}
	for _, s := range set {
		if !s {
			// unset elements keep the zero value
		}
	}
	p.cache[key] = vals
	return vals, true
}

// noteTableLoad is called when an atom is created for a load of g[idx].
func (pr *Prover) noteTableLoad(a string, ld *ssa.UnOp) {
	ia, ok := ld.X.(*ssa.IndexAddr)
	if !ok {
		return
	}
	g, ok := ia.X.(*ssa.Global)
	if !ok {
		return
	}
	vals, ok := pr.p.constTable(g)
	if !ok || len(vals) == 0 {
		return
	}
	lo, hi := math.Inf(1), math.Inf(-1)
	for _, v := range vals {
		lo, hi = math.Min(lo, float64(v)), math.Max(hi, float64(v))
	}
	pr.atomRange(a, lo, hi)
	if pr.tableLoads == nil {
		pr.tableLoads = map[string]tableLoad{}
	}
	pr.tableLoads[a] = tableLoad{g, pr.lin(ia.Index)}
}

// tableFacts: monotone tables — idx1 <= idx2 implies tbl[idx1] <= tbl[idx2].
func (pr *Prover) tableFacts(facts []Lin, goal Lin) []Lin {
	if len(pr.tableLoads) < 2 {
		return nil
	}
	var out []Lin
	var keys []string
	for a := range pr.tableLoads {
		if _, ok := goal.coef[a]; ok {
			keys = append(keys, a)
		}
	}
	if len(keys) < 2 {
		return nil
	}
	for _, a := range keys {
		for _, b := range keys {
			if a == b {
				continue
			}
			ta, tb := pr.tableLoads[a], pr.tableLoads[b]
			if ta.g != tb.g {
				continue
			}
			vals, _ := pr.p.constTable(ta.g)
			mono := true
			for i := 1; i < len(vals); i++ {
				if vals[i] < vals[i-1] {
					mono = false
				}
			}
			if !mono {
				continue
			}
			d := tb.idx.sub(ta.idx)
			base := pr.withRanges(append(append([]Lin(nil), facts...), pr.narrowFacts(facts, d)...), d)
			if entails(base, d) {
				out = append(out, linAtom(b).sub(linAtom(a)))
			}
		}
	}
	return out
}

// closureParamRange: fn is a closure whose every MakeClosure is only called
// directly in its parent; the parameter's range is the join over those calls.
func (p *Prog) closureParamRange(fn *ssa.Function, i int) (float64, float64, bool) {
	par := fn.Parent()
	if par == nil {
		return 0, 0, false
	}
	lo, hi := math.Inf(1), math.Inf(-1)
	found := false
	ppr := NewProver(p, par)
	for _, b := range par.Blocks {
		for _, ins := range b.Instrs {
			mc, ok := ins.(*ssa.MakeClosure)
			if !ok || mc.Fn != ssa.Value(fn) {
				continue
			}
			// the closure may live in a local variable cell: follow one store
			vals := []ssa.Value{mc}
			for _, r := range *mc.Referrers() {
				if st, ok := r.(*ssa.Store); ok && st.Val == ssa.Value(mc) {
					if al, ok := st.Addr.(*ssa.Alloc); ok && allocIsPrivate(al) {
						for _, r2 := range *al.Referrers() {
							if ld, ok := r2.(*ssa.UnOp); ok && ld.Op == token.MUL {
								vals = append(vals, ld)
							}
						}
						continue
					}
					return 0, 0, false
				}
			}
			for _, v := range vals {
				for _, r := range *v.Referrers() {
					switch x := r.(type) {
					case *ssa.DebugRef:
					case *ssa.Store:
						if x.Val != v {
							return 0, 0, false
						}
					case *ssa.Call:
						if x.Call.Value != v || i >= len(x.Call.Args) {
							return 0, 0, false
						}
						al := ppr.lin(x.Call.Args[i])
						l, h := ppr.rangeOfLin(al)
						if l < -1e6 || h > 1e6 || math.IsInf(l, 0) || math.IsInf(h, 0) {
							// bounds that hold at the call site because of dominating tests (a loop counter
							// under its loop condition): try the constants the parent compares with
							cands := comparisonConstants(par)
							if l < -1e6 || math.IsInf(l, 0) {
								for _, k := range cands { // ascending: keep the largest provable lower bound
									if ppr.Prove(x.Block(), al.addConst(-k)) {
										l = float64(k)
									}
								}
							}
							if h > 1e6 || math.IsInf(h, 0) {
								for j := len(cands) - 1; j >= 0; j-- { // descending: keep the smallest provable upper bound
									if ppr.Prove(x.Block(), al.scale(-1).addConst(cands[j])) {
										h = float64(cands[j])
									}
								}
							}
						}
						lo, hi = math.Min(lo, l), math.Max(hi, h)
						found = true
					default:
						return 0, 0, false
					}
				}
			}
		}
	}
	if !found || math.IsInf(lo, 0) || math.IsInf(hi, 0) {
		return 0, 0, false
	}
	return lo, hi, true
}

// freeCellLen: the captured variable is a slice cell assigned exactly once, in
// the enclosing function, with a value of constant length.
func (p *Prog) freeCellLen(fv *ssa.FreeVar) (int64, bool) {
	fn := fv.Parent()
	par := fn.Parent()
	if par == nil {
		return 0, false
	}
	k := -1
	for i, f := range fn.FreeVars {
		if f == fv {
			k = i
		}
	}
	var res int64 = -1
	ppr := NewProver(p, par)
	for _, b := range par.Blocks {
		for _, ins := range b.Instrs {
			mc, ok := ins.(*ssa.MakeClosure)
			if !ok || mc.Fn != ssa.Value(fn) {
				continue
			}
			cell, ok := mc.Bindings[k].(*ssa.Alloc)
			if !ok {
				return 0, false
			}
			n := 0
			for _, r := range *cell.Referrers() {
				switch x := r.(type) {
				case *ssa.Store:
					if x.Addr != ssa.Value(cell) {
						return 0, false
					}
					n++
					l := ppr.lenOf(x.Val)
					if !l.isConst() {
						return 0, false
					}
					if res >= 0 && res != l.c {
						return 0, false
					}
					res = l.c
				case *ssa.UnOp, *ssa.DebugRef:
				case *ssa.MakeClosure:
					// closures sharing the cell must not store to it (element stores are fine)
					if cf, ok := x.Fn.(*ssa.Function); ok {
						for j, bnd := range x.Bindings {
							if bnd != ssa.Value(cell) {
								continue
							}
							for _, cb := range cf.Blocks {
								for _, ci := range cb.Instrs {
									if st, ok := ci.(*ssa.Store); ok && st.Addr == ssa.Value(cf.FreeVars[j]) {
										return 0, false
									}
								}
							}
						}
					}
				default:
					return 0, false
				}
			}
			if n != 1 {
				return 0, false
			}
		}
	}
	return res, res >= 0
}

// comparisonConstants: 0 and every integer constant (and its neighbours) that fn compares something with, ascending.
func comparisonConstants(fn *ssa.Function) []int64 {
	set := map[int64]bool{0: true}
	for _, b := range fn.Blocks {
		for _, ins := range b.Instrs {
			bo, ok := ins.(*ssa.BinOp)
			if !ok {
				continue
			}
			switch bo.Op {
			case token.LSS, token.LEQ, token.GTR, token.GEQ, token.EQL, token.NEQ:
				for _, o := range []ssa.Value{bo.X, bo.Y} {
					if k, isC := constInt(o); isC {
						set[k-1], set[k], set[k+1] = true, true, true
					}
				}
			}
		}
	}
	var out []int64
	for k := range set {
		out = append(out, k)
	}
	sort.Slice(out, func(i, j int) bool { return out[i] < out[j] })
	return out
}

// noteStructTableLoad: a load of field f of an element of a function-local table of structs whose field f is
// initialised with constants only (a table-driven loop: for _, e := range [...]struct{pos int; …}{…} { x[e.pos] }).
// The element may be read in place (&table[i].f) or through the range variable's copy (e := table[i]; &e.f).
func (pr *Prover) noteStructTableLoad(a string, ld *ssa.UnOp) {
	fa, ok := ld.X.(*ssa.FieldAddr)
	if !ok {
		return
	}
	// a package-level table ([]struct{…} literal, never modified): element read in place or through the range
	// variable's copy
	{
		gs := pr.tableGlobalsOf(fa)
		if len(gs) > 0 {
			lo, hi := math.Inf(1), math.Inf(-1)
			for _, g := range gs {
				l, h, ok := pr.p.constStructTable(g, fa.Field)
				if !ok {
					return
				}
				lo, hi = math.Min(lo, l), math.Max(hi, h)
			}
			pr.atomRange(a, lo, hi)
			return
		}
	}
	// the array the element comes from
	var tables []*ssa.Alloc
	arrayOf := func(addr ssa.Value) *ssa.Alloc {
		ia, ok := addr.(*ssa.IndexAddr)
		if !ok {
			return nil
		}
		x := ia.X
		if sl, ok := x.(*ssa.Slice); ok {
			x = sl.X
		}
		al, _ := x.(*ssa.Alloc)
		return al
	}
	switch x := fa.X.(type) {
	case *ssa.IndexAddr:
		if al := arrayOf(x); al != nil {
			tables = append(tables, al)
		}
	case *ssa.Alloc:
		// the range variable: every store into it is a whole-element load from one table
		if x.Referrers() == nil {
			return
		}
		for _, r := range *x.Referrers() {
			st, ok := r.(*ssa.Store)
			if !ok || st.Addr != ssa.Value(x) {
				continue
			}
			var al *ssa.Alloc
			switch el := st.Val.(type) {
			case *ssa.UnOp: // e := table[i] through the element's address
				if el.Op != token.MUL {
					return
				}
				al = arrayOf(el.X)
			case *ssa.Index: // ranging over the array value: a copy of the whole table, then table[i]
				if whole, ok := el.X.(*ssa.UnOp); ok && whole.Op == token.MUL {
					al, _ = whole.X.(*ssa.Alloc)
				}
			}
			if al == nil {
				return
			}
			tables = append(tables, al)
		}
	}
	if len(tables) == 0 {
		return
	}
	lo, hi := math.Inf(1), math.Inf(-1)
	for _, t := range tables {
		pt, ok := t.Type().Underlying().(*types.Pointer)
		if !ok {
			return
		}
		at, ok := pt.Elem().Underlying().(*types.Array)
		if !ok || t.Referrers() == nil {
			return
		}
		seen := map[int64]bool{}
		for _, r := range *t.Referrers() {
			switch x := r.(type) {
			case *ssa.DebugRef:
			case *ssa.UnOp: // the whole table read by value (range over the array)
			case *ssa.Slice:
				// handed on as a slice: it must only be ranged over / indexed for reading
				if x.Referrers() != nil {
					for _, r2 := range *x.Referrers() {
						switch y := r2.(type) {
						case *ssa.DebugRef, *ssa.Call:
							if c, isCall := y.(*ssa.Call); isCall {
								if bi, isB := c.Call.Value.(*ssa.Builtin); !isB || bi.Name() != "len" {
									return
								}
							}
						case *ssa.IndexAddr:
							if !onlyLoadedFrom(y) {
								return
							}
						default:
							return
						}
					}
				}
			case *ssa.IndexAddr:
				k, isC := constInt(x.Index)
				if x.Referrers() == nil {
					continue
				}
				for _, r2 := range *x.Referrers() {
					switch y := r2.(type) {
					case *ssa.DebugRef:
					case *ssa.UnOp: // element load
					case *ssa.FieldAddr:
						if y.Referrers() == nil {
							continue
						}
						for _, r3 := range *y.Referrers() {
							switch z := r3.(type) {
							case *ssa.DebugRef, *ssa.UnOp:
							case *ssa.Store:
								if y.Field != fa.Field {
									continue
								}
								cv, isK := constInt(z.Val)
								if !isK || !isC || z.Addr != ssa.Value(y) {
									return
								}
								seen[k] = true
								lo, hi = math.Min(lo, float64(cv)), math.Max(hi, float64(cv))
							default:
								return
							}
						}
					default:
						return
					}
				}
			default:
				return
			}
		}
		if int64(len(seen)) < at.Len() {
			lo, hi = math.Min(lo, 0), math.Max(hi, 0) // elements never stored to keep the zero value
		}
	}
	if !math.IsInf(lo, 0) && !math.IsInf(hi, 0) {
		pr.atomRange(a, lo, hi)
	}
}

func onlyLoadedFrom(ia *ssa.IndexAddr) bool {
	if ia.Referrers() == nil {
		return true
	}
	for _, r := range *ia.Referrers() {
		switch y := r.(type) {
		case *ssa.DebugRef:
		case *ssa.UnOp:
		case *ssa.FieldAddr:
			if y.Referrers() != nil {
				for _, r2 := range *y.Referrers() {
					switch r2.(type) {
					case *ssa.DebugRef, *ssa.UnOp:
					default:
						return false
					}
				}
			}
		default:
			return false
		}
	}
	return true
}

// initOnlyGlobal: nothing outside the package initialiser can change what g holds: every use of g outside init is
// a load of the whole value, len/cap, or an element/field address that is only loaded from.
func (p *Prog) initOnlyGlobal(g *ssa.Global) bool {
	key := "initonly:" + g.Name()
	if v, ok := p.cache[key]; ok {
		return v.(bool)
	}
	p.cache[key] = false
	for _, fn := range p.AllFuncs() {
		if fn.Name() == "init" && fn.Parent() == nil {
			continue
		}
		for _, b := range fn.Blocks {
			for _, ins := range b.Instrs {
				uses := false
				for _, op := range ins.Operands(nil) {
					if *op == ssa.Value(g) {
						uses = true
					}
				}
				if !uses {
					continue
				}
				switch x := ins.(type) {
				case *ssa.DebugRef:
				case *ssa.UnOp:
					if x.Op != token.MUL {
						return false
					}
					// a copy of the value; for a slice or map the copy shares the storage: its uses must be reads too
					switch x.Type().Underlying().(type) {
					case *types.Slice, *types.Map, *types.Pointer:
						if x.Referrers() != nil {
							for _, r := range *x.Referrers() {
								switch y := r.(type) {
								case *ssa.DebugRef, *ssa.Range, *ssa.Lookup:
								case *ssa.Call:
									if bi, isB := y.Call.Value.(*ssa.Builtin); !isB || (bi.Name() != "len" && bi.Name() != "cap") {
										return false
									}
								case *ssa.IndexAddr:
									if !onlyLoadedFrom(y) {
										return false
									}
								default:
									return false
								}
							}
						}
					}
				case *ssa.IndexAddr:
					if !onlyLoadedFrom(x) {
						return false
					}
				case *ssa.FieldAddr:
					if x.Referrers() != nil {
						for _, r := range *x.Referrers() {
							switch r.(type) {
							case *ssa.DebugRef, *ssa.UnOp:
							default:
								return false
							}
						}
					}
				default:
					return false
				}
			}
		}
	}
	p.cache[key] = true
	return true
}

// initArrayAllNonNil: g is an init-only package-level array whose every element is stored once in init with a
// function, closure or address (never nil).
func (p *Prog) initArrayAllNonNil(g *ssa.Global) bool {
	key := "initarrnn:" + g.Name()
	if v, ok := p.cache[key]; ok {
		return v.(bool)
	}
	p.cache[key] = false
	pt, ok := g.Type().Underlying().(*types.Pointer)
	if !ok {
		return false
	}
	at, ok := pt.Elem().Underlying().(*types.Array)
	if !ok || !p.initOnlyGlobal(g) {
		return false
	}
	init := p.SSA.Func("init")
	if init == nil {
		return false
	}
	set := map[int64]bool{}
	for _, b := range init.Blocks {
		for _, ins := range b.Instrs {
			st, ok := ins.(*ssa.Store)
			if !ok {
				continue
			}
			ia, ok := st.Addr.(*ssa.IndexAddr)
			if !ok || ia.X != ssa.Value(g) {
				continue
			}
			k, isC := constInt(ia.Index)
			if !isC {
				return false
			}
			switch st.Val.(type) {
			case *ssa.Function, *ssa.MakeClosure, *ssa.Alloc, *ssa.Global, *ssa.FieldAddr, *ssa.IndexAddr, *ssa.MakeInterface:
				set[k] = true
			default:
				return false
			}
		}
	}
	if int64(len(set)) != at.Len() {
		return false
	}
	p.cache[key] = true
	return true
}

// constStructTable: g is a package-level slice of structs that init assigns once, from an array literal whose
// field f receives constants only, and that nothing else in the package can modify (every other use of g is a load
// whose value is only measured with len, ranged over or indexed for reading).  Returns the range of field f.
func (p *Prog) constStructTable(g *ssa.Global, f int) (lo, hi float64, ok bool) {
	return p.constStructTableGeneric(g, f, func(v ssa.Value) (float64, bool) {
		k, isK := constInt(v)
		return float64(k), isK
	}, false)
}

// constStructTableGeneric: val classifies the value stored into field f of an element (its number, for ranges);
// full: every element must receive a store (no element keeps the zero value).
func (p *Prog) constStructTableGeneric(g *ssa.Global, f int, val func(ssa.Value) (float64, bool), full bool) (lo, hi float64, ok bool) {
	key := fmt.Sprintf("stbl:%s:%d:%v", g.Name(), f, full)
	type res struct {
		lo, hi float64
		ok     bool
	}
	if v, found := p.cache[key]; found {
		r := v.(res)
		return r.lo, r.hi, r.ok
	}
	p.cache[key] = res{}
	pt, isP := g.Type().Underlying().(*types.Pointer)
	if !isP {
		return 0, 0, false
	}
	if at, isArr := pt.Elem().Underlying().(*types.Array); isArr {
		// a package-level array of structs (`var marks = [...]struct{pos int; …}{…}`) that nothing outside init
		// writes: the stores init makes through &g[k].f
		if !p.initOnlyGlobal(g) {
			return 0, 0, false
		}
		lo, hi = math.Inf(1), math.Inf(-1)
		seen := map[int64]bool{}
		for _, fn := range p.AllFuncs() {
			if fn.Name() != "init" || fn.Parent() != nil {
				continue
			}
			for _, b := range fn.Blocks {
				for _, ins := range b.Instrs {
					if st, isSt := ins.(*ssa.Store); isSt && st.Addr == ssa.Value(g) {
						return 0, 0, false // whole-array store: not followed
					}
					ia, isIA := ins.(*ssa.IndexAddr)
					if !isIA || ia.X != ssa.Value(g) {
						continue
					}
					k, isC := constInt(ia.Index)
					if !isC || ia.Referrers() == nil {
						return 0, 0, false
					}
					for _, r2 := range *ia.Referrers() {
						switch y := r2.(type) {
						case *ssa.DebugRef:
						case *ssa.FieldAddr:
							if y.Referrers() == nil {
								continue
							}
							for _, r3 := range *y.Referrers() {
								st, isSt := r3.(*ssa.Store)
								if !isSt || st.Addr != ssa.Value(y) {
									return 0, 0, false
								}
								if y.Field != f {
									continue
								}
								cv, isK := val(st.Val)
								if !isK {
									return 0, 0, false
								}
								seen[k] = true
								lo, hi = math.Min(lo, cv), math.Max(hi, cv)
							}
						default:
							return 0, 0, false
						}
					}
				}
			}
		}
		if int64(len(seen)) < at.Len() {
			if full {
				return 0, 0, false
			}
			lo, hi = math.Min(lo, 0), math.Max(hi, 0)
		}
		if math.IsInf(lo, 0) || math.IsInf(hi, 0) {
			return 0, 0, false
		}
		p.cache[key] = res{lo, hi, true}
		return lo, hi, true
	}
	if _, isS := pt.Elem().Underlying().(*types.Slice); !isS {
		return 0, 0, false
	}
	var arr *ssa.Alloc
	readOnlyElem := func(ia *ssa.IndexAddr) bool { return onlyLoadedFrom(ia) }
	for _, fn := range p.AllFuncs() {
		isInit := fn.Name() == "init" && fn.Parent() == nil
		for _, b := range fn.Blocks {
			for _, ins := range b.Instrs {
				for _, op := range ins.Operands(nil) {
					if *op != ssa.Value(g) {
						continue
					}
					switch x := ins.(type) {
					case *ssa.Store:
						if !isInit || x.Addr != ssa.Value(g) || arr != nil {
							return 0, 0, false
						}
						sl, isSl := x.Val.(*ssa.Slice)
						if !isSl || sl.Low != nil || sl.High != nil || sl.Max != nil {
							return 0, 0, false
						}
						al, isAl := sl.X.(*ssa.Alloc)
						if !isAl {
							return 0, 0, false
						}
						arr = al
					case *ssa.UnOp:
						if x.Op != token.MUL || x.Referrers() == nil {
							return 0, 0, false
						}
						for _, r := range *x.Referrers() {
							switch y := r.(type) {
							case *ssa.DebugRef:
							case *ssa.Call:
								if bi, isB := y.Call.Value.(*ssa.Builtin); isB && bi.Name() == "len" {
									continue
								}
								// handed to an mq function that only measures, ranges over or indexes it for reading
								sc := y.Call.StaticCallee()
								okCall := sc != nil && sc.Blocks != nil
								if okCall {
									for i, a := range y.Call.Args {
										if a == ssa.Value(x) && (i >= len(sc.Params) || !sliceParamReadOnly(sc.Params[i], 0)) {
											okCall = false
										}
									}
								}
								if !okCall {
									return 0, 0, false
								}
							case *ssa.IndexAddr:
								if !readOnlyElem(y) {
									return 0, 0, false
								}
							default:
								return 0, 0, false
							}
						}
					default:
						return 0, 0, false
					}
				}
			}
		}
	}
	if arr == nil || arr.Referrers() == nil {
		return 0, 0, false
	}
	at, isA := arr.Type().Underlying().(*types.Pointer).Elem().Underlying().(*types.Array)
	if !isA {
		return 0, 0, false
	}
	lo, hi = math.Inf(1), math.Inf(-1)
	seen := map[int64]bool{}
	for _, r := range *arr.Referrers() {
		switch x := r.(type) {
		case *ssa.DebugRef:
		case *ssa.Slice: // the one stored into g
		case *ssa.IndexAddr:
			k, isC := constInt(x.Index)
			if !isC || x.Referrers() == nil {
				return 0, 0, false
			}
			for _, r2 := range *x.Referrers() {
				switch y := r2.(type) {
				case *ssa.DebugRef:
				case *ssa.FieldAddr:
					if y.Referrers() == nil {
						continue
					}
					for _, r3 := range *y.Referrers() {
						st, isSt := r3.(*ssa.Store)
						if !isSt || st.Addr != ssa.Value(y) {
							return 0, 0, false
						}
						if y.Field != f {
							continue
						}
						cv, isK := val(st.Val)
						if !isK {
							return 0, 0, false
						}
						seen[k] = true
						lo, hi = math.Min(lo, cv), math.Max(hi, cv)
					}
				default:
					return 0, 0, false
				}
			}
		default:
			return 0, 0, false
		}
	}
	if int64(len(seen)) < at.Len() {
		if full {
			return 0, 0, false
		}
		lo, hi = math.Min(lo, 0), math.Max(hi, 0)
	}
	if math.IsInf(lo, 0) || math.IsInf(hi, 0) {
		return 0, 0, false
	}
	p.cache[key] = res{lo, hi, true}
	return lo, hi, true
}

// tableGlobalsOf: fa addresses a field of an element of a package-level slice (in place: &g[i].f — or through the
// range variable's copy: e := g[i]; &e.f).  Returns the globals the element may come from.
func (pr *Prover) tableGlobalsOf(fa *ssa.FieldAddr) []*ssa.Global {
	// the globals a slice value may be: a load of one, or a slice parameter that every (static) call site of this
	// function fills with a load of one
	globalsOfSlice := func(v ssa.Value) []*ssa.Global {
		if l, ok := v.(*ssa.UnOp); ok && l.Op == token.MUL {
			if g, ok := l.X.(*ssa.Global); ok {
				return []*ssa.Global{g}
			}
			return nil
		}
		prm, ok := v.(*ssa.Parameter)
		if !ok {
			return nil
		}
		idx := paramIndex(pr.fn, prm)
		sites := pr.p.allEffects().callSitesOf[pr.fn]
		if idx < 0 || len(sites) == 0 {
			return nil
		}
		var out []*ssa.Global
		for _, s := range sites {
			cc := s.Common()
			if cc.IsInvoke() || cc.StaticCallee() != pr.fn || idx >= len(cc.Args) {
				return nil
			}
			l, ok := cc.Args[idx].(*ssa.UnOp)
			if !ok || l.Op != token.MUL {
				return nil
			}
			g, ok := l.X.(*ssa.Global)
			if !ok {
				return nil
			}
			out = append(out, g)
		}
		return out
	}
	globalsOf := func(addr ssa.Value) []*ssa.Global {
		ia, ok := addr.(*ssa.IndexAddr)
		if !ok {
			return nil
		}
		if g, isG := ia.X.(*ssa.Global); isG {
			return []*ssa.Global{g} // a package-level array, indexed in place
		}
		return globalsOfSlice(ia.X)
	}
	var gs []*ssa.Global
	switch x := fa.X.(type) {
	case *ssa.IndexAddr:
		gs = append(gs, globalsOf(x)...)
	case *ssa.Alloc:
		if x.Referrers() != nil {
			for _, r := range *x.Referrers() {
				st, ok := r.(*ssa.Store)
				if !ok || st.Addr != ssa.Value(x) {
					continue
				}
				if ix, isIx := st.Val.(*ssa.Index); isIx {
					// ranging over a package-level array by value: t = *g; e = t[i]
					if l, isL := ix.X.(*ssa.UnOp); isL && l.Op == token.MUL {
						if g, isG := l.X.(*ssa.Global); isG {
							gs = append(gs, g)
							continue
						}
					}
					return nil
				}
				el, ok := st.Val.(*ssa.UnOp)
				if !ok || el.Op != token.MUL || len(globalsOf(el.X)) == 0 {
					return nil
				}
				gs = append(gs, globalsOf(el.X)...)
			}
		}
	}
	return gs
}

// constStructTableNonNil: like constStructTable, for a pointer-like field: every element of the table receives a
// value that cannot be nil (a function, a closure, an address) in init.
func (p *Prog) constStructTableNonNil(g *ssa.Global, f int) bool {
	key := fmt.Sprintf("stblnn:%s:%d", g.Name(), f)
	if v, found := p.cache[key]; found {
		return v.(bool)
	}
	p.cache[key] = false
	// immutability and shape: the integer variant on any field decides them; use field f with the value test swapped
	if _, _, ok := p.constStructTableGeneric(g, f, func(v ssa.Value) (float64, bool) {
		switch v.(type) {
		case *ssa.Function, *ssa.MakeClosure, *ssa.Alloc, *ssa.Global, *ssa.FieldAddr, *ssa.IndexAddr, *ssa.MakeInterface:
			return 1, true
		}
		return 0, false
	}, true); !ok {
		return false
	}
	p.cache[key] = true
	return true
}

// sliceParamReadOnly: the slice parameter is only measured (len), ranged over / indexed for reading, or passed on to
// mq functions that do the same.
func sliceParamReadOnly(prm *ssa.Parameter, depth int) bool {
	if prm.Referrers() == nil {
		return true
	}
	if depth > 2 {
		return false
	}
	for _, r := range *prm.Referrers() {
		switch y := r.(type) {
		case *ssa.DebugRef:
		case *ssa.Call:
			if bi, isB := y.Call.Value.(*ssa.Builtin); isB && bi.Name() == "len" {
				continue
			}
			sc := y.Call.StaticCallee()
			if sc == nil || sc.Blocks == nil {
				return false
			}
			for i, a := range y.Call.Args {
				if a == ssa.Value(prm) && (i >= len(sc.Params) || !sliceParamReadOnly(sc.Params[i], depth+1)) {
					return false
				}
			}
		case *ssa.IndexAddr:
			if !onlyLoadedFrom(y) {
				return false
			}
		default:
			return false
		}
	}
	return true
}
