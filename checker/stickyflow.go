package main

// Sticky-error flow: a forward dataflow over one function that tracks, for one sequential reader object, whether its
// sticky error is known to be nil and which SSA values currently equal it.  Used where dominance is not enough: a
// `return nil` behind a loop that is always entered (`for more := true; more; more = !b.atEnd()`) and left only after
// a cycle that tested the error; an error handed back by a helper of the reader (`f, err := b.getTopicFilter()`).
//
// State: known ∈ {unknown, nil, non-nil}; cur = the values that equal the sticky error as it is now.
//   - a call that is handed the reader resets known and cur (the callee may set the error); if the callee returns
//     the reader's sticky error (helperReturnsSticky), that result is in cur afterwards;
//   - a load of the error field is in cur;
//   - a store to the error field resets cur and sets known to non-nil when the stored value is provably so;
//   - a branch on `v == nil` / `v != nil` with v in cur sets known on either side;
//   - a branch on a phi of this block whose value for the incoming edge is a constant only follows that side
//     (the loop that is entered unconditionally the first time).
// The state of a CFG edge is the meet over the incoming edges of its source block.

import (
	"go/token"
	"go/types"

	"golang.org/x/tools/go/ssa"
)

type stickyState struct {
	reached bool
	known   int8 // 0 unknown, 1 nil, 2 non-nil
	cur     map[ssa.Value]bool
}

func (s stickyState) clone() stickyState {
	c := stickyState{reached: s.reached, known: s.known, cur: map[ssa.Value]bool{}}
	for k := range s.cur {
		c.cur[k] = true
	}
	return c
}

func meetSticky(a, b stickyState) stickyState {
	if !a.reached {
		return b.clone()
	}
	if !b.reached {
		return a.clone()
	}
	out := stickyState{reached: true, cur: map[ssa.Value]bool{}}
	if a.known == b.known {
		out.known = a.known
	}
	for k := range a.cur {
		if b.cur[k] {
			out.cur[k] = true
		}
	}
	return out
}

func equalSticky(a, b stickyState) bool {
	if a.reached != b.reached || a.known != b.known || len(a.cur) != len(b.cur) {
		return false
	}
	for k := range a.cur {
		if !b.cur[k] {
			return false
		}
	}
	return true
}

// helperReturnsSticky: h hands back, as result j, the sticky error of the reader it receives as parameter k — on
// every return.  Returns k, or -1.
func (p *Prog) helperReturnsSticky(cur *Cursor, h *ssa.Function, j int, depth int) int {
	if h == nil || len(h.Blocks) == 0 || depth > 2 || !p.inMQ(h) || j >= h.Signature.Results().Len() || !isErrorType(h.Signature.Results().At(j).Type()) {
		return -1
	}
	for k, prm := range h.Params {
		pt, ok := prm.Type().Underlying().(*types.Pointer)
		if !ok || !types.Identical(pt.Elem(), cur.T) {
			continue
		}
		all, n := true, 0
		for _, b := range h.Blocks {
			ret, ok := terminator(b).(*ssa.Return)
			if !ok || j >= len(ret.Results) {
				continue
			}
			n++
			if !p.stickyFlowAccepts(cur, h, ssa.Value(prm), ret, ret.Results[j], depth+1) {
				all = false
			}
		}
		if all && n > 0 {
			return k
		}
	}
	return -1
}

// stickyFlowAccepts: at the return ret of fn, the value r is the sticky error of the reader `base` as it is then —
// r is a value that currently equals it, or the nil constant where the error is known to be nil.
func (p *Prog) stickyFlowAccepts(cur *Cursor, fn *ssa.Function, base ssa.Value, ret *ssa.Return, r ssa.Value, depth int) bool {
	at, ok := p.stickyStateAt(cur, fn, base, ret, depth)
	if !ok {
		return false
	}
	if !at.reached {
		return true // unreachable return
	}
	if isNilConst(r) {
		return at.known == 1
	}
	return at.cur[r]
}

// stickyStateAt: the state of the sticky-error flow of reader `base` in fn just before the instruction `stop`.
func (p *Prog) stickyStateAt(cur *Cursor, fn *ssa.Function, base ssa.Value, stop ssa.Instruction, depth int) (stickyState, bool) {
	if depth > 3 || len(fn.Blocks) == 0 {
		return stickyState{}, false
	}
	isBase := func(v ssa.Value) bool { return v == base }
	pr := NewProver(p, fn)
	// transfer through the instructions of b, up to (not including) stop
	transfer := func(b *ssa.BasicBlock, in stickyState, stop ssa.Instruction) stickyState {
		st := in.clone()
		for _, ins := range b.Instrs {
			if ins == stop {
				break
			}
			switch x := ins.(type) {
			case *ssa.UnOp:
				if x.Op == token.MUL {
					if bb, ok := cur.isField(x.X, cur.E); ok && isBase(bb) {
						st.cur[x] = true
					}
				}
			case *ssa.Store:
				if bb, ok := cur.isField(x.Addr, cur.E); ok && isBase(bb) {
					st.cur = map[ssa.Value]bool{}
					st.known = 0
					if pr.NonNil(x.Val, b, 0) {
						st.known = 2
					}
				}
			case *ssa.Extract:
				if call, ok := x.Tuple.(*ssa.Call); ok && st.cur[call] {
					if sc := call.Call.StaticCallee(); sc != nil {
						if k := p.helperReturnsSticky(cur, sc, x.Index, depth+1); k >= 0 && k < len(call.Call.Args) && isBase(call.Call.Args[k]) {
							st.cur[x] = true
						}
					}
				}
			case *ssa.Call:
				uses := false
				for _, a := range x.Call.Args {
					if isBase(a) {
						uses = true
					}
				}
				if x.Call.IsInvoke() && isBase(x.Call.Value) {
					uses = true
				}
				// a method value of the reader bound earlier (`get := buf.get`) is a use as well
				if mc := resolveClosure(x.Call.Value); mc != nil {
					for _, bnd := range mc.Bindings {
						if isBase(bnd) {
							uses = true
						}
					}
				}
				if !uses {
					continue
				}
				sc := x.Call.StaticCallee()
				// a pure accessor of the reader changes nothing
				if sc != nil && p.allEffects().Summary(sc) != nil && len(p.allEffects().Summary(sc).Writes) == 0 {
					if sc.Signature.Results().Len() == 1 && isErrorType(sc.Signature.Results().At(0).Type()) {
						if k := p.helperReturnsSticky(cur, sc, 0, depth+1); k >= 0 && k < len(x.Call.Args) && isBase(x.Call.Args[k]) {
							st.cur[x] = true
						}
					}
					continue
				}
				st.cur = map[ssa.Value]bool{}
				st.known = 0
				if sc != nil {
					nres := sc.Signature.Results().Len()
					if nres == 1 {
						if k := p.helperReturnsSticky(cur, sc, 0, depth+1); k >= 0 && k < len(x.Call.Args) && isBase(x.Call.Args[k]) {
							st.cur[x] = true
						}
					} else if nres > 1 {
						st.cur[x] = true // marks the tuple as fresh; its components are examined at the Extract
					}
				}
			}
		}
		return st
	}
	type edge [2]*ssa.BasicBlock
	states := map[edge]stickyState{}
	entry := fn.Blocks[0]
	inState := func(b *ssa.BasicBlock, only *ssa.BasicBlock) stickyState {
		if b == entry && only == nil {
			return stickyState{reached: true, cur: map[ssa.Value]bool{}}
		}
		var acc stickyState
		for _, pb := range b.Preds {
			if only != nil && pb != only {
				continue
			}
			acc = meetSticky(acc, states[edge{pb, b}])
		}
		if b == entry {
			acc = meetSticky(acc, stickyState{reached: true, cur: map[ssa.Value]bool{}})
		}
		return acc
	}
	// feasible successors of b when entered from pred (nil = entry)
	succStates := func(b *ssa.BasicBlock, pred *ssa.BasicBlock, in stickyState) map[*ssa.BasicBlock]stickyState {
		out := map[*ssa.BasicBlock]stickyState{}
		if !in.reached {
			return out
		}
		st := transfer(b, in, nil)
		iff, ok := terminator(b).(*ssa.If)
		if !ok {
			for _, s := range b.Succs {
				out[s] = st
			}
			return out
		}
		// constant phi for this incoming edge
		cond, neg := iff.Cond, false
		for {
			if u, ok := cond.(*ssa.UnOp); ok && u.Op == token.NOT {
				cond, neg = u.X, !neg
				continue
			}
			break
		}
		if ph, ok := cond.(*ssa.Phi); ok && ph.Block() == b && pred != nil {
			for i, pb := range b.Preds {
				if pb == pred {
					if cst, ok := ph.Edges[i].(*ssa.Const); ok && cst.Value != nil {
						v := cst.Value.String() == "true"
						if neg {
							v = !v
						}
						if v {
							out[b.Succs[0]] = st
						} else {
							out[b.Succs[1]] = st
						}
						return out
					}
				}
			}
		}
		if subj, isNil, ok := nilTestOf(iff.Cond, true); ok && st.cur[subj] {
			t, f := st.clone(), st.clone()
			if isNil {
				t.known, f.known = 1, 2
			} else {
				t.known, f.known = 2, 1
			}
			if st.known == 1 && !isNil || st.known == 2 && isNil {
				// the true side contradicts what is known: infeasible
				out[b.Succs[1]] = f
				return out
			}
			if st.known == 1 && isNil || st.known == 2 && !isNil {
				out[b.Succs[0]] = t
				return out
			}
			out[b.Succs[0]], out[b.Succs[1]] = t, f
			return out
		}
		out[b.Succs[0]], out[b.Succs[1]] = st, st
		return out
	}
	for iter := 0; iter < 64; iter++ {
		changed := false
		for _, b := range fn.Blocks {
			preds := append([]*ssa.BasicBlock(nil), b.Preds...)
			if b == entry {
				preds = append(preds, nil)
			}
			merged := map[*ssa.BasicBlock]stickyState{}
			for _, pb := range preds {
				var in stickyState
				if pb == nil {
					in = stickyState{reached: true, cur: map[ssa.Value]bool{}}
				} else {
					in = states[edge{pb, b}]
				}
				for s, st := range succStates(b, pb, in) {
					merged[s] = meetSticky(merged[s], st)
				}
			}
			for s, st := range merged {
				if old, ok := states[edge{b, s}]; !ok || !equalSticky(old, st) {
					states[edge{b, s}] = st
					changed = true
				}
			}
		}
		if !changed {
			break
		}
	}
	b := stop.Block()
	return transfer(b, inState(b, nil), stop), true
}
