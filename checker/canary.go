package main

import (
	"bytes"
	"fmt"
	"os"
	"path/filepath"
	"strings"
	"sync"
	"time"
)

// Canary is an edit of the frozen fixture tree (testdata/base, a snapshot of
// the repaired library) that a rule must report.  It is the "rule is alive"
// witness required for rules whose expected violation count is zero.  The
// fixture does not depend on /repo's current text, so a canary can always be
// applied.
type Canary struct {
	Name  string
	Rule  string // rule id that must report
	Where string // substring the reported construct must contain ("" = any)
	Edits []Edit
	// Silent canaries are behaviour-preserving rewrites: the check must stay
	// quiet on them.
	Silent bool
}

type Edit struct {
	File string // base name in the fixture
	Old  string
	New  string
}

func applyEdits(src Source, edits []Edit) (Source, error) {
	out := Source{}
	for k, v := range src {
		out[k] = v
	}
	for _, e := range edits {
		found := false
		for k, v := range out {
			if filepath.Base(k) != e.File {
				continue
			}
			found = true
			if n := bytes.Count(v, []byte(e.Old)); n != 1 {
				return nil, fmt.Errorf("edit of %s: pattern occurs %d times (want 1): %q", e.File, n, e.Old)
			}
			out[k] = bytes.Replace(v, []byte(e.Old), []byte(e.New), 1)
		}
		if !found {
			return nil, fmt.Errorf("edit: no file %s", e.File)
		}
	}
	return out, nil
}

func fixtureDir(verif string) string { return filepath.Join(verif, "checker", "testdata", "base") }

func runCanaries(u *Universe, pc *PropertyCheck, c *Check, verif string) {
	if len(pc.Canaries) == 0 {
		return
	}
	base, err := DirSource(fixtureDir(verif))
	if err != nil {
		c.Canaries = append(c.Canaries, CanaryResult{Name: "fixture", Expect: "loads", Reported: err.Error()})
		return
	}
	// the unedited fixture must be clean, otherwise a canary firing proves nothing
	bp, err := u.Build("fixture", base)
	if err != nil {
		c.Canaries = append(c.Canaries, CanaryResult{Name: "fixture", Expect: "builds", Reported: err.Error()})
		return
	}
	bc := NewCheck(pc.ID, bp)
	pc.Run(bp, bc)
	bf := bc.Failing()
	res := CanaryResult{Name: "fixture-clean", Expect: "silent", Fired: len(bf) > 0, OK: len(bf) == 0}
	if len(bf) > 0 {
		res.Reported = fmt.Sprintf("%s %s: %s", bf[0].Rule, bf[0].Construct, bf[0].Detail)
	}
	c.Canaries = append(c.Canaries, res)
	// the variants are independent programs (own type check, own SSA, own caches): a few at a time
	results := make([]CanaryResult, len(pc.Canaries))
	sem := make(chan struct{}, canaryWorkers)
	var wg sync.WaitGroup
	for i, cn := range pc.Canaries {
		wg.Add(1)
		sem <- struct{}{}
		go func(i int, cn Canary) {
			defer wg.Done()
			defer func() { <-sem }()
			defer func() {
				if r := recover(); r != nil {
					results[i] = CanaryResult{Name: cn.Name, Rule: cn.Rule, Expect: "fires", Reported: fmt.Sprint("panic: ", r)}
				}
			}()
			t0 := time.Now()
			results[i] = runOne(u, pc, cn, base, "canary:")
			if os.Getenv("MQV_CANARYTIME") != "" {
				fmt.Fprintf(os.Stderr, "canary %s %s: %.1fs\n", pc.ID, cn.Name, time.Since(t0).Seconds())
			}
		}(i, cn)
	}
	wg.Wait()
	c.Canaries = append(c.Canaries, results...)
}

// canaryWorkers: variants analysed concurrently (each holds its own SSA program of mq and its imports).
const canaryWorkers = 8

func runOne(u *Universe, pc *PropertyCheck, cn Canary, base Source, prefix string) CanaryResult {
	res := CanaryResult{Name: cn.Name, Rule: cn.Rule, Expect: "fires"}
	if cn.Silent {
		res.Expect = "silent"
	}
	src, err := applyEdits(base, cn.Edits)
	if err != nil {
		res.Reported = "not applicable: " + err.Error()
		return res
	}
	vp, err := u.Build(prefix+cn.Name, src)
	if err != nil {
		res.Reported = "does not compile: " + err.Error()
		return res
	}
	vc := NewCheck(pc.ID, vp)
	pc.Run(vp, vc)
	var rep []string
	for _, o := range vc.Failing() {
		if cn.Silent {
			res.Fired = true
			rep = append(rep, o.Rule+" "+o.Construct)
			continue
		}
		if o.Rule == cn.Rule && strings.Contains(o.Construct, cn.Where) {
			res.Fired = true
			rep = append(rep, o.Rule+" "+o.Construct+" ("+o.Status.String()+")")
		}
	}
	if !cn.Silent && !res.Fired {
		for _, o := range vc.Failing() {
			rep = append(rep, "other: "+o.Rule+" "+o.Construct)
		}
	}
	if len(rep) > 4 {
		rep = append(rep[:4], fmt.Sprintf("… %d more", len(rep)-4))
	}
	res.Reported = strings.Join(rep, "; ")
	res.OK = res.Fired != cn.Silent
	return res
}

// runThorough: additional work of the thorough tier (filled in by
// thorough.go).
var thoroughHooks []func(u *Universe, repo string, pc *PropertyCheck, c *Check, verif string)

func runThorough(u *Universe, repo string, pc *PropertyCheck, c *Check, verif string) {
	for _, h := range thoroughHooks {
		h(u, repo, pc, c, verif)
	}
}
