package main

// E6 (part) — bit-level "may be one" / "may newly set" summaries for byte-sized
// flag fields.

import (
	"go/token"
	"go/types"

	"golang.org/x/tools/go/ssa"
)

// bitSum over-approximates a set of bit positions: constant mask, plus all
// bits of the listed parameters of the enclosing function, or everything.
type bitSum struct {
	mask   uint64
	params map[int]bool
	all    bool
}

func (b bitSum) union(o bitSum) bitSum {
	r := bitSum{mask: b.mask | o.mask, all: b.all || o.all}
	if len(b.params)+len(o.params) > 0 {
		r.params = map[int]bool{}
		for k := range b.params {
			r.params[k] = true
		}
		for k := range o.params {
			r.params[k] = true
		}
	}
	return r
}

func (b bitSum) pure() bool { return !b.all && len(b.params) == 0 }

func typeAllBits(t types.Type, sizes types.Sizes) uint64 {
	bt, ok := t.Underlying().(*types.Basic)
	if !ok || bt.Info()&types.IsInteger == 0 {
		return ^uint64(0)
	}
	n := sizes.Sizeof(bt) * 8
	if n >= 64 {
		return ^uint64(0)
	}
	return (uint64(1) << uint(n)) - 1
}

// onesOf: bits that may be 1 in v.
func (p *Prog) onesOf(v ssa.Value, depth int) bitSum {
	all := bitSum{mask: typeAllBits(v.Type(), p.U.Sizes), all: false}
	if depth > 10 {
		return all
	}
	switch x := v.(type) {
	case *ssa.Const:
		if k, ok := constInt(x); ok {
			return bitSum{mask: uint64(k) & typeAllBits(v.Type(), p.U.Sizes)}
		}
	case *ssa.Parameter:
		if _, ok := x.Type().Underlying().(*types.Basic); ok {
			return bitSum{params: map[int]bool{paramIndex(x.Parent(), x): true}}
		}
	case *ssa.ChangeType:
		return p.onesOf(x.X, depth+1)
	case *ssa.Convert:
		in := p.onesOf(x.X, depth+1)
		w := typeAllBits(x.Type(), p.U.Sizes)
		if bt, ok := x.X.Type().Underlying().(*types.Basic); ok && bt.Info()&types.IsUnsigned != 0 || in.pure() && in.mask>>63 == 0 {
			if in.pure() {
				return bitSum{mask: in.mask & w}
			}
			if len(in.params) > 0 && !in.all && typeAllBits(x.X.Type(), p.U.Sizes) <= w {
				return in
			}
		}
		return bitSum{mask: w}
	case *ssa.BinOp:
		a, b := p.onesOf(x.X, depth+1), p.onesOf(x.Y, depth+1)
		w := typeAllBits(x.Type(), p.U.Sizes)
		switch x.Op {
		case token.OR, token.XOR:
			return a.union(b)
		case token.AND:
			switch {
			case a.pure() && b.pure():
				return bitSum{mask: a.mask & b.mask}
			case a.pure():
				return a
			case b.pure():
				return b
			default:
				return a
			}
		case token.AND_NOT:
			return a
		case token.SHL:
			if k, ok := constInt(x.Y); ok && k >= 0 && k < 64 {
				am := a.mask
				if !a.pure() {
					am = typeAllBits(x.X.Type(), p.U.Sizes)
				}
				return bitSum{mask: (am << uint(k)) & w}
			}
		case token.SHR:
			if k, ok := constInt(x.Y); ok && k >= 0 && k < 64 {
				am := a.mask
				if !a.pure() {
					am = typeAllBits(x.X.Type(), p.U.Sizes)
				}
				return bitSum{mask: am >> uint(k)}
			}
		}
	case *ssa.Phi:
		r := bitSum{}
		for _, e := range x.Edges {
			r = r.union(p.onesOf(e, depth+1))
		}
		return r
	}
	return all
}

// maySet: bits that may be 1 in v although they were 0 in the old value
// (isOld recognises loads of the location being overwritten).
func (p *Prog) maySet(v ssa.Value, isOld func(ssa.Value) bool, depth int) bitSum {
	if depth > 10 {
		return p.onesOf(v, 0)
	}
	if isOld(v) {
		return bitSum{}
	}
	switch x := v.(type) {
	case *ssa.ChangeType:
		return p.maySet(x.X, isOld, depth+1)
	case *ssa.Convert:
		if typeAllBits(x.Type(), p.U.Sizes) == typeAllBits(x.X.Type(), p.U.Sizes) {
			return p.maySet(x.X, isOld, depth+1)
		}
	case *ssa.BinOp:
		switch x.Op {
		case token.OR:
			return p.maySet(x.X, isOld, depth+1).union(p.maySet(x.Y, isOld, depth+1))
		case token.AND:
			a, b := p.maySet(x.X, isOld, depth+1), p.maySet(x.Y, isOld, depth+1)
			switch {
			case a.pure() && b.pure():
				return bitSum{mask: a.mask & b.mask}
			case a.pure():
				return a
			case b.pure():
				return b
			}
			return a
		case token.AND_NOT:
			return p.maySet(x.X, isOld, depth+1)
		}
	case *ssa.Phi:
		r := bitSum{}
		for _, e := range x.Edges {
			r = r.union(p.maySet(e, isOld, depth+1))
		}
		return r
	}
	return p.onesOf(v, 0)
}

// mayClear: bits that may be 0 in v although they were 1 in the old value.
func (p *Prog) mayClear(v ssa.Value, isOld func(ssa.Value) bool, depth int) bitSum {
	w := typeAllBits(v.Type(), p.U.Sizes)
	if depth > 10 {
		return bitSum{mask: w}
	}
	if isOld(v) {
		return bitSum{}
	}
	switch x := v.(type) {
	case *ssa.ChangeType:
		return p.mayClear(x.X, isOld, depth+1)
	case *ssa.Convert:
		if typeAllBits(x.Type(), p.U.Sizes) == typeAllBits(x.X.Type(), p.U.Sizes) {
			return p.mayClear(x.X, isOld, depth+1)
		}
	case *ssa.BinOp:
		switch x.Op {
		case token.OR:
			// bits cleared must be cleared in both operands; if one operand is old-derived use it
			a, b := p.mayClear(x.X, isOld, depth+1), p.mayClear(x.Y, isOld, depth+1)
			switch {
			case a.pure() && b.pure():
				return bitSum{mask: a.mask & b.mask}
			case a.pure():
				return a
			case b.pure():
				return b
			}
			return a
		case token.AND:
			// old & m clears at most the zero bits of m
			if isOld(stripChangeType(x.X)) || p.mayClear(x.X, isOld, depth+1).pure() && p.mayClear(x.X, isOld, depth+1).mask == 0 {
				return p.zerosOf(x.Y)
			}
			if isOld(stripChangeType(x.Y)) || p.mayClear(x.Y, isOld, depth+1).pure() && p.mayClear(x.Y, isOld, depth+1).mask == 0 {
				return p.zerosOf(x.X)
			}
		case token.AND_NOT:
			if isOld(stripChangeType(x.X)) {
				return p.onesOf(x.Y, 0)
			}
		}
	case *ssa.Phi:
		r := bitSum{}
		for _, e := range x.Edges {
			r = r.union(p.mayClear(e, isOld, depth+1))
		}
		return r
	}
	return bitSum{mask: w}
}

// zerosOf: bits that may be 0 in v.
func (p *Prog) zerosOf(v ssa.Value) bitSum {
	w := typeAllBits(v.Type(), p.U.Sizes)
	switch x := v.(type) {
	case *ssa.Const:
		if k, ok := constInt(x); ok {
			return bitSum{mask: ^uint64(k) & w}
		}
	case *ssa.ChangeType:
		return p.zerosOf(x.X)
	case *ssa.Convert:
		if typeAllBits(x.Type(), p.U.Sizes) == typeAllBits(x.X.Type(), p.U.Sizes) {
			return p.zerosOf(x.X)
		}
	case *ssa.UnOp:
		if x.Op == token.XOR { // ^y: zero where y may be one
			return p.onesOf(x.X, 0)
		}
	}
	return bitSum{mask: w}
}

// subst replaces parameter references by the possibly-one bits of the actual
// arguments at a call site.
func (p *Prog) substBits(b bitSum, args []ssa.Value) bitSum {
	r := bitSum{mask: b.mask, all: b.all}
	for i := range b.params {
		if i < len(args) {
			r = r.union(p.onesOf(args[i], 0))
		} else {
			r.all = true
		}
	}
	return r
}

// paramWriteBits: what a callee may do to the byte its pointer parameter j
// points to — bits it may newly set / may clear — in terms of its own
// parameters.  ok=false when the pointer is used in a way not understood.
type ptrWrite struct {
	set, clear bitSum
	writes     bool
}

func (p *Prog) paramWriteBits(fn *ssa.Function, j int, depth int) (ptrWrite, bool) {
	var res ptrWrite
	if fn.Blocks == nil || j >= len(fn.Params) || depth > 4 {
		return res, false
	}
	prm := ssa.Value(fn.Params[j])
	// wrappers: look through wrapnilchk
	ptrs := map[ssa.Value]bool{prm: true}
	for _, b := range fn.Blocks {
		for _, ins := range b.Instrs {
			if c, ok := ins.(*ssa.Call); ok {
				if bi, ok := c.Call.Value.(*ssa.Builtin); ok && bi.Name() == "ssa:wrapnilchk" && ptrs[c.Call.Args[0]] {
					ptrs[c] = true
				}
			}
		}
	}
	isOld := func(v ssa.Value) bool {
		ld, ok := v.(*ssa.UnOp)
		return ok && ld.Op == token.MUL && ptrs[ld.X]
	}
	for ptr := range ptrs {
		refs := ptr.Referrers()
		if refs == nil {
			continue
		}
		for _, r := range *refs {
			switch x := r.(type) {
			case *ssa.DebugRef:
			case *ssa.UnOp:
				if x.Op != token.MUL {
					return res, false
				}
			case *ssa.Store:
				if x.Addr != ptr {
					return res, false // the pointer itself is stored somewhere
				}
				res.writes = true
				res.set = res.set.union(p.maySet(x.Val, isOld, 0))
				res.clear = res.clear.union(p.mayClear(x.Val, isOld, 0))
			case *ssa.Call:
				if bi, ok := x.Call.Value.(*ssa.Builtin); ok && bi.Name() == "ssa:wrapnilchk" {
					continue
				}
				sc := x.Call.StaticCallee()
				if sc == nil || sc.Blocks == nil {
					return res, false
				}
				for k, a := range x.Call.Args {
					if a != ptr {
						continue
					}
					sub, ok := p.paramWriteBits(sc, k, depth+1)
					if !ok {
						return res, false
					}
					if sub.writes {
						res.writes = true
						res.set = res.set.union(p.substBits(sub.set, x.Call.Args))
						res.clear = res.clear.union(p.substBits(sub.clear, x.Call.Args))
					}
				}
			default:
				return res, false
			}
		}
	}
	return res, true
}
