package main

// C12 — setters and accessors obey last-write-wins and keep derived flags in step.

import (
	"fmt"
	"go/types"
	"sort"
	"strings"

	"golang.org/x/tools/go/ssa"
)

func init() {
	register(&PropertyCheck{ID: "C12", Level: "other", Run: checkC12, Canaries: []Canary{
		{Name: "adv6-C2-remove-will-clears-clean-start", Rule: "R12.7", Where: "RemoveWill", Edits: []Edit{{"connect.go", "\treturn uint32(p.willDelayInterval)\n}\n", "\treturn uint32(p.willDelayInterval)\n}\n\n// RemoveWill removes a will message set earlier, e.g. when a prepared\n// connect packet is reused for a session that must not leave one.\nfunc (p *Connect) RemoveWill() {\n\tp.will = nil\n\tp.willPayload = nil\n\t// will flag, will QoS and will retain go, the credentials stay\n\tp.flags &= bits(UsernameFlag | PasswordFlag)\n}\n"}}},
		{Name: "adv6-C1-set-credentials-skips-empty-arguments", Rule: "R12.7", Where: "SetCredentials", Edits: []Edit{{"connect.go", "func (p *Connect) Password() []byte { return p.password }\n", "func (p *Connect) Password() []byte { return p.password }\n\n// SetCredentials sets the user name and the password in one call, a\n// shorthand for SetUsername followed by SetPassword. Empty values are\n// not announced in the flags.\nfunc (p *Connect) SetCredentials(username string, password []byte) {\n\tif len(username) > 0 {\n\t\tp.SetUsername(username)\n\t}\n\tif len(password) > 0 {\n\t\tp.SetPassword(password)\n\t}\n}\n"}}},
		{Name: "remove-will-clears-everything", Silent: true, Edits: []Edit{{"connect.go", "\treturn uint32(p.willDelayInterval)\n}\n", "\treturn uint32(p.willDelayInterval)\n}\n\n// RemoveWill removes a will message set earlier, e.g. when a prepared\n// connect packet is reused for a session that must not leave one.\nfunc (p *Connect) RemoveWill() {\n\tp.flags &^= bits(WillFlag | WillRetain | WillQoS1 | WillQoS2)\n\tp.willPayload = nil\n\tp.will = nil\n\tp.willDelayInterval = 0\n}\n"}}},
		{Name: "adv5-D2-remove-will-leaves-qos-and-retain", Rule: "R12.7", Where: "RemoveWill", Edits: []Edit{{"connect.go", "\treturn uint32(p.willDelayInterval)\n}\n", "\treturn uint32(p.willDelayInterval)\n}\n\n// RemoveWill removes a will message set earlier, e.g. when a prepared\n// connect packet is reused for a session that must not leave one.\nfunc (p *Connect) RemoveWill() {\n\tp.flags &^= bits(WillFlag)\n\tp.willPayload = nil\n}\n"}}},
		{Name: "adv5-D1-set-credentials-clears-the-other-flags", Rule: "R12.7", Where: "SetCredentials", Edits: []Edit{{"connect.go", "func (p *Connect) Password() []byte { return p.password }\n", "func (p *Connect) Password() []byte { return p.password }\n\n// SetCredentials sets the user name and the password in one call,\n// both are optional.\nfunc (p *Connect) SetCredentials(username string, password []byte) {\n\tp.username = wstring(username)\n\tif len(username) == 0 {\n\t\tp.username = nil\n\t}\n\tp.password = password\n\tp.flags &= bits(UsernameFlag | PasswordFlag) // reset\n\tp.flags.toggle(UsernameFlag, len(p.username) > 0)\n\tp.flags.toggle(PasswordFlag, len(p.password) > 0)\n}\n"}}},
		{Name: "two-parameter-mutator-derives-a-flag-from-the-wrong-argument", Rule: "R12.7", Where: "SetCredentials", Edits: []Edit{{"connect.go", "func (p *Connect) Password() []byte { return p.password }\n", "func (p *Connect) Password() []byte { return p.password }\n\n// SetCredentials sets the user name and the password in one call,\n// both are optional.\nfunc (p *Connect) SetCredentials(username string, password []byte) {\n\tp.username = wstring(username)\n\tif len(username) == 0 {\n\t\tp.username = nil\n\t}\n\tp.password = password\n\tp.flags.toggle(UsernameFlag, len(p.username) > 0)\n\tp.flags.toggle(PasswordFlag, len(p.username) > 0)\n}\n"}}},
		{Name: "setter-clears-another-field-on-a-mixed-condition", Rule: "R12.2", Where: "SetQoS", Edits: []Edit{{"publish.go", "func (p *Publish) SetQoS(v uint8) {", "func (p *Publish) SetQoS(v uint8) {\n\tif q := p.QoS(); (q == 1 || q == 2) && v == 0 {\n\t\t// at most once, the packet identifier is no longer used\n\t\tp.packetID = 0\n\t}"}}},
		{Name: "set-password-wipes-the-previous-slice-in-place", Rule: "R12.4", Where: "SetPassword", Edits: []Edit{{"connect.go", "func (p *Connect) SetPassword(v []byte) {", "func (p *Connect) SetPassword(v []byte) {\n\t// do not leave the previous secret behind in memory\n\tfor i := range p.password {\n\t\tp.password[i] = 0\n\t}"}}},
		{Name: "adder-drops-duplicates", Rule: "R12.5", Where: "AddSubscriptionID", Edits: []Edit{{"publish.go", "func (p *Publish) AddSubscriptionID(v uint32) {\n\tp.subscriptionIDs = append(p.subscriptionIDs, v)\n}\n\nfunc (p *Publish) SubscriptionIDs() []uint32 {\n\treturn p.subscriptionIDs\n}\n\n// The value of the Content Type is defined by the sending and\n// receiving application, e.g. it may be a mime type like\n// application/json.\nfunc (p *Publish) SetContentType(v string) { p.contentType = wstring(v) }\nfunc (p *Publish) ContentType() string     { return string(p.contentType) }\n\nfunc (p *Publish) SetPayload(v []byte) { p.payload = rawdata(v) }\nfunc (p *Publish) Payload() []byte     { return []byte(p.payload) }\n\n// end settings\n// ----------------------------------------\n\nfunc (p *Publish) WriteTo(w io.Writer) (int64, error) {\n\tb := make([]byte, p.fill(_LEN, 0))\n\tp.fill(b, 0)\n\tn, err := w.Write(b)\n\treturn int64(n), err\n}\n\nfunc (p *Publish) width() int {\n\treturn p.fill(_LEN, 0)\n}\n\nfunc (p *Publish) fill(b []byte, i int) int {\n\tremainingLen := vbint(p.variableHeader(_LEN, 0))\n\n\tif len(p.payload) > 0 {\n\t\tremainingLen += vbint(p.payload.fill(_LEN, 0))\n\t}\n\n\ti += p.fixed.fill(b, i)      // firstByte header\n\ti += remainingLen.fill(b, i) // remaining length\n\ti += p.variableHeader(b, i)  // variable header\n\tif len(p.payload) > 0 {\n\t\ti += p.payload.fill(b, i) // payload\n\t}\n\n\treturn i\n}\nfunc (p *Publish) variableHeader(b []byte, i int) int {\n\tn := i\n\n\ti += p.topicName.fill(b, i)\n\tif v := p.QoS(); v == 1 || v == 2 {\n\t\ti += p.packetID.fill(b, i)\n\t}\n\ti += vbint(p.properties(_LEN, 0)).fill(b, i) // Properties len\n\ti += p.properties(b, i)                      // Properties\n\n\treturn i - n\n}\n\nfunc (p *Publish) properties(b []byte, i int) int {\n\tn := i\n\ti += p.payloadFormat.fillProp(b, i, PayloadFormatIndicator)\n\ti += p.messageExpiryInterval.fillProp(b, i, MessageExpiryInterval)\n\ti += p.topicAlias.fillProp(b, i, TopicAlias)\n\ti += p.responseTopic.fillProp(b, i, ResponseTopic)\n\ti += p.correlationData.fillProp(b, i, CorrelationData)\n\ti += p.contentType.fillProp(b, i, ContentType)\n\n\ti += p.UserProperties.properties(b, i)\n\tfor j, _ := range p.subscriptionIDs {\n\t\ti += vbint(p.subscriptionIDs[j]).fillProp(b, i, SubscriptionID)\n\t}\n\treturn i - n\n}\n\nfunc (p *Publish) UnmarshalBinary(data []byte) error {\n\tbuf := &buffer{\n\t\tdata:              data,\n\t\taddSubscriptionID: p.AddSubscriptionID,", "// AddSubscriptionID adds the identifier of a matching subscription.\n// An identifier that is already present is not added again.\nfunc (p *Publish) AddSubscriptionID(v uint32) {\n\tfor _, id := range p.subscriptionIDs {\n\t\tif id == v {\n\t\t\treturn\n\t\t}\n\t}\n\tp.appendSubscriptionID(v)\n}\n\n// appendSubscriptionID is used when decoding, what is on the wire is\n// kept as is.\nfunc (p *Publish) appendSubscriptionID(v uint32) {\n\tp.subscriptionIDs = append(p.subscriptionIDs, v)\n}\n\nfunc (p *Publish) SubscriptionIDs() []uint32 {\n\treturn p.subscriptionIDs\n}\n\n// The value of the Content Type is defined by the sending and\n// receiving application, e.g. it may be a mime type like\n// application/json.\nfunc (p *Publish) SetContentType(v string) { p.contentType = wstring(v) }\nfunc (p *Publish) ContentType() string     { return string(p.contentType) }\n\nfunc (p *Publish) SetPayload(v []byte) { p.payload = rawdata(v) }\nfunc (p *Publish) Payload() []byte     { return []byte(p.payload) }\n\n// end settings\n// ----------------------------------------\n\nfunc (p *Publish) WriteTo(w io.Writer) (int64, error) {\n\tb := make([]byte, p.fill(_LEN, 0))\n\tp.fill(b, 0)\n\tn, err := w.Write(b)\n\treturn int64(n), err\n}\n\nfunc (p *Publish) width() int {\n\treturn p.fill(_LEN, 0)\n}\n\nfunc (p *Publish) fill(b []byte, i int) int {\n\tremainingLen := vbint(p.variableHeader(_LEN, 0))\n\n\tif len(p.payload) > 0 {\n\t\tremainingLen += vbint(p.payload.fill(_LEN, 0))\n\t}\n\n\ti += p.fixed.fill(b, i)      // firstByte header\n\ti += remainingLen.fill(b, i) // remaining length\n\ti += p.variableHeader(b, i)  // variable header\n\tif len(p.payload) > 0 {\n\t\ti += p.payload.fill(b, i) // payload\n\t}\n\n\treturn i\n}\nfunc (p *Publish) variableHeader(b []byte, i int) int {\n\tn := i\n\n\ti += p.topicName.fill(b, i)\n\tif v := p.QoS(); v == 1 || v == 2 {\n\t\ti += p.packetID.fill(b, i)\n\t}\n\ti += vbint(p.properties(_LEN, 0)).fill(b, i) // Properties len\n\ti += p.properties(b, i)                      // Properties\n\n\treturn i - n\n}\n\nfunc (p *Publish) properties(b []byte, i int) int {\n\tn := i\n\ti += p.payloadFormat.fillProp(b, i, PayloadFormatIndicator)\n\ti += p.messageExpiryInterval.fillProp(b, i, MessageExpiryInterval)\n\ti += p.topicAlias.fillProp(b, i, TopicAlias)\n\ti += p.responseTopic.fillProp(b, i, ResponseTopic)\n\ti += p.correlationData.fillProp(b, i, CorrelationData)\n\ti += p.contentType.fillProp(b, i, ContentType)\n\n\ti += p.UserProperties.properties(b, i)\n\tfor j, _ := range p.subscriptionIDs {\n\t\ti += vbint(p.subscriptionIDs[j]).fillProp(b, i, SubscriptionID)\n\t}\n\treturn i - n\n}\n\nfunc (p *Publish) UnmarshalBinary(data []byte) error {\n\tbuf := &buffer{\n\t\tdata:              data,\n\t\taddSubscriptionID: p.appendSubscriptionID,"}}},
		{Name: "adder-ignores-the-empty-string", Rule: "R12.5", Where: "AddFilter", Edits: []Edit{{"unsubscribe.go", "func (p *Unsubscribe) AddFilter(filter string) {", "// AddFilter adds a topic filter to unsubscribe from. Topic filters\n// must be at least one character long [MQTT-4.7.3-1], empty ones are\n// ignored.\nfunc (p *Unsubscribe) AddFilter(filter string) {\n\tif len(filter) == 0 {\n\t\treturn\n\t}"}}},
		{Name: "session-present-ignores-argument", Rule: "R12.1", Where: "(*ConnAck).SetSessionPresent", Edits: []Edit{{"connack.go", "func (p *ConnAck) SetSessionPresent(v bool) { p.flags.toggle(1, v) }", "func (p *ConnAck) SetSessionPresent(v bool) { p.flags.toggle(1, true) }"}}},
		{Name: "setretain-clears-dup", Rule: "R12.2", Where: "(*Publish).SetRetain", Edits: []Edit{{"publish.go", "func (p *Publish) SetRetain(v bool) { p.fixed.toggle(RETAIN, v) }", "func (p *Publish) SetRetain(v bool) {\n\tp.fixed &= bits(^DUP)\n\tp.fixed.toggle(RETAIN, v)\n}"}}},
		{Name: "topicaliasmax-stored-in-receivemax", Rule: "R12.1", Where: "(*Connect).SetTopicAliasMax", Edits: []Edit{{"connect.go", "func (p *Connect) SetTopicAliasMax(v uint16) {\n\tp.topicAliasMax = wuint16(v)\n}", "func (p *Connect) SetTopicAliasMax(v uint16) {\n\tp.receiveMax = wuint16(v)\n}"}}},
		{Name: "username-flag-on-empty", Rule: "R12.3", Where: "(*Connect).SetUsername", Edits: []Edit{{"connect.go", "\tp.flags.toggle(UsernameFlag, len(p.username) > 0)", "\tp.flags.toggle(UsernameFlag, len(p.username) >= 0)"}}},
		{Name: "setqos-keeps-old-bits", Rule: "R12.1", Where: "(*Publish).SetQoS", Edits: []Edit{{"publish.go", "\tp.fixed &= bits(^(QoS3)) // reset\n", ""}}},
		{Name: "willqos-shift-4", Rule: "R12.3", Where: "(*Connect).SetWill", Edits: []Edit{{"connect.go", "\tp.flags.toggle(v<<3, v < 3)", "\tp.flags.toggle(v<<4, v < 3)"}}},
		{Name: "will-retain-not-mirrored", Rule: "R12.3", Where: "(*Connect).SetWill", Edits: []Edit{{"connect.go", "\tp.flags.toggle(WillRetain, will.Retain())\n", ""}}},
		{Name: "empty-username-clears-password-flag", Rule: "R12.2", Where: "(*Connect).SetUsername", Edits: []Edit{{"connect.go", "\tif len(v) == 0 {\n\t\tp.username = nil\n\t}", "\tif len(v) == 0 {\n\t\tp.username = nil\n\t\tp.flags.toggle(PasswordFlag, false)\n\t}"}}},
		{Name: "client-id-truncated-at-23-bytes", Rule: "R12.1", Where: "(*Connect).SetClientID", Edits: []Edit{{"connect.go", "func (p *Connect) SetClientID(v string) { p.clientID = wstring(v) }", "func (p *Connect) SetClientID(v string) {\n\tif len(v) > 23 {\n\t\tv = v[:23]\n\t}\n\tp.clientID = wstring(v)\n}"}}},
		{Name: "keep-alive-clamped", Rule: "R12.1", Where: "(*Connect).SetKeepAlive", Edits: []Edit{{"connect.go", "func (p *Connect) SetKeepAlive(v uint16) { p.keepAlive = wuint16(v) }", "func (p *Connect) SetKeepAlive(v uint16) {\n\tif v > 3600 {\n\t\tv = 3600\n\t}\n\tp.keepAlive = wuint16(v)\n}"}}},
		{Name: "setpassword-clears-username-flag", Rule: "R12.2", Where: "(*Connect).SetPassword", Edits: []Edit{{"connect.go", "\tp.flags.toggle(PasswordFlag, len(p.password) > 0)", "\tp.flags = 0\n\tp.flags.toggle(PasswordFlag, len(p.password) > 0)"}}},
		{Name: "toggle-as-if-else", Silent: true, Edits: []Edit{{"wiretypes.go", "\tif on {\n\t\t*v = *v | bits(flag)\n\t\treturn\n\t}\n\t*v = *v & bits(^flag)", "\tif on {\n\t\t*v |= bits(flag)\n\t} else {\n\t\t*v &^= bits(flag)\n\t}"}}},
	}})
}

// abstract domain of a setter argument, by type
func argDomain(t types.Type, tag string) []sv {
	switch u := t.Underlying().(type) {
	case *types.Basic:
		switch {
		case u.Info()&types.IsBoolean != 0:
			return []sv{{k: 'b', b: false}, {k: 'b', b: true}}
		case u.Info()&types.IsString != 0:
			return []sv{{k: 's', i: 0, addr: tag + "0"}, {k: 's', i: 1, addr: tag + "1"}, {k: 's', i: 2, addr: tag + "2"}}
		case u.Info()&types.IsInteger != 0:
			switch u.Kind() {
			case types.Uint8, types.Int8:
				if thoroughMode {
					return allBytes()
				}
				return ints(0, 1, 2, 3, 4, 5, 127, 128, 254, 255)
			case types.Uint16:
				return ints(0, 1, 255, 256, 65535)
			case types.Uint32:
				return ints(0, 1, 65535, 65536, 4294967295)
			default:
				return ints(0, 1, 127, 128, 268435455)
			}
		}
	case *types.Slice:
		return []sv{{k: 's', i: 0, b: true, addr: tag + "nil"}, {k: 's', i: 0, addr: tag + "0"}, {k: 's', i: 1, addr: tag + "1"}, {k: 's', i: 2, addr: tag + "2"}}
	}
	return nil
}

func sameValue(a, b sv) bool {
	if a.k != b.k {
		return false
	}
	switch a.k {
	case 'i':
		return a.i == b.i
	case 'b':
		return a.b == b.b
	case 's':
		return a.i == b.i && (a.i == 0 || a.addr == b.addr)
	case 'p':
		return a.addr == b.addr
	}
	return true
}

// stateInput supplies receiver state: values from `over` where given, else a
// background pattern (0 = all zero, 1 = "all ones").
func stateInput(over symAssign, pattern int) symInput {
	return func(path string, t types.Type) (sv, bool) {
		if v, ok := over[path]; ok {
			return v, true
		}
		if pattern == 0 {
			return zeroOf(t, path), true
		}
		switch u := t.Underlying().(type) {
		case *types.Basic:
			switch {
			case u.Info()&types.IsBoolean != 0:
				return sv{k: 'b', b: true}, true
			case u.Info()&types.IsString != 0:
				return sv{k: 's', i: 2, addr: "old:" + path}, true
			case u.Info()&types.IsInteger != 0:
				return sv{k: 'i', i: truncInt(-1, t, types.SizesFor("gc", "amd64"))}, true
			}
		case *types.Slice:
			return sv{k: 's', i: 2, addr: "old:" + path}, true
		case *types.Pointer:
			return sv{k: 'p', addr: "old:" + path}, true
		}
		return zeroOf(t, path), true
	}
}

type accessor struct {
	name string
	fn   *ssa.Function
}

func constByName(p *Prog, name string) (int64, bool) {
	if v, ok := p.cache["const:"+name]; ok {
		return v.(int64), true
	}
	k, ok := constByName0(p, name)
	if ok {
		p.cache["const:"+name] = k
	}
	return k, ok
}

func constByName0(p *Prog, name string) (int64, bool) {
	obj := p.Pkg.Scope().Lookup(name)
	cn, ok := obj.(*types.Const)
	if !ok {
		return 0, false
	}
	v, ok := constantInt(cn)
	return v, ok
}

// connectFlagsOwnedBy: the CONNECT flag bits (by exported constant name) a setter derives from the value it
// stores (§3.1.2.3); every other bit of the flags byte must survive the setter unchanged.
var connectFlagsOwnedBy = map[string][]string{
	"SetUsername":   {"UsernameFlag"},
	"SetPassword":   {"PasswordFlag"},
	"SetWill":       {"WillFlag", "WillRetain", "WillQoS1", "WillQoS2"},
	"SetCleanStart": {"CleanStart"},
}

func checkC12(p *Prog, c *Check) {
	c.Rule("R12.1", "pairing: for every exported SetX(v) with an accessor X(), on every abstract receiver state and every abstract argument value, X() after SetX(v) returns v (for SetQoS: v for 0..3, 0 otherwise)")
	c.Rule("R12.2", "frame: SetX changes the result of no other zero-argument accessor of the type, on every abstract state (so a later call of another setter cannot disturb it: last write wins for any sequence)")
	c.Rule("R12.3", "derived flags: CONNECT's user-name / password flags are set exactly when the value set is non-empty; after SetWill(w) the will flag is set, will retain equals w.Retain() and the will-QoS bits encode w.QoS() (0..2)")
	c.Rule("R12.4", "setter calls on one packet cannot change another packet or the caller's data: no list field that may hold the caller's own slice is grown in place, and no packet is copied by value (shared with C14 R14.7/R14.8)")
	{
		sub := NewCheck(c.ID, p)
		rulePacketsByPointerOnly(p, sub, "R12.4")
		ruleNoAppendOntoCallerStorage(p, sub, "R12.4")
		for _, o := range sub.Obls {
			c.add("R12.4", o.Construct, o.Pos, o.Status, o.Detail)
		}
	}
	c.Rule("R12.5", "adders: every exported Add* method appends what it is given, in order, to what the matching accessor returned before, and a second call keeps the first call's elements (C01 R1.6, re-decided here: the property quantifies over setter and adder calls)")
	{
		sub := NewCheck(c.ID, p)
		checkAdders(p, sub)
		for _, o := range sub.Obls {
			if o.Rule == "R1.6" {
				c.add("R12.5", o.Construct, o.Pos, o.Status, o.Detail)
			}
		}
	}
	checkMultiParamMutators(p, c)
	c.Rule("R12.6", "the encoded frame reflects the final state only: for every packet type the encoder's event sequence (wire kinds, identifiers, widths, values) after every setter has been called twice — another value first, then the final one; for CONNECT also a will message replaced by another one and by a minimal one — equals the sequence after the final calls alone (state that no accessor shows, such as the copy of the will payload, cannot survive from the first call)")
	checkFrameReflectsFinalState(p, c)
	c.Explanation = "Each setter is a transition function and each accessor a decision function over the receiver's fields; both are evaluated on the SSA form over abstract states (all 256 values of every flag byte the setter reads, zero and all-ones backgrounds for the rest) and abstract arguments (all values of booleans and bytes, boundary values of wider integers, lengths 0/1/2 with an identity tag for strings and slices). Pairing plus frame give last-write-wins for every finite setter sequence by induction."
	c.Trusted = []string{"go/types + go/ssa (x/tools v0.29.0) faithful IR", "abstract domains as listed; strings and slices are represented by length and identity (their bytes are never inspected by setters/accessors)"}
	c.NotDecided = []string{"lossless-ness of conversions outside the C01 domain (SetSubscriptionID(int) beyond uint)", "longer call sequences than the two-call overwrite states (R12.1 + R12.2 give the induction for accessor-visible state; R12.6 covers hidden state on the two-call states)"}
	iface := p.LookupIface("ControlPacket")
	var typesToCheck []*types.Named
	for _, nt := range p.NamedTypes() {
		if _, ok := nt.Underlying().(*types.Struct); !ok || !nt.Obj().Exported() {
			continue
		}
		if iface != nil && types.Implements(types.NewPointer(nt), iface) || nt.Obj().Name() == "TopicFilter" {
			typesToCheck = append(typesToCheck, nt)
		}
	}
	npairs, nframes := 0, 0
	for _, nt := range typesToCheck {
		tn := nt.Obj().Name()
		var setters, getters []accessor
		ms := p.Prog.MethodSets.MethodSet(types.NewPointer(nt))
		for i := 0; i < ms.Len(); i++ {
			sel := ms.At(i)
			m := sel.Obj().(*types.Func)
			if !m.Exported() {
				continue
			}
			fn := p.Prog.MethodValue(sel)
			if fn == nil {
				continue
			}
			if fn.Synthetic != "" {
				if d := p.Prog.FuncValue(m); d != nil && namedOf(d.Signature.Recv().Type()) == nt {
					fn = d
				}
			}
			sig := m.Type().(*types.Signature)
			switch {
			case strings.HasPrefix(m.Name(), "Set") && sig.Params().Len() == 1 && sig.Results().Len() == 0:
				setters = append(setters, accessor{m.Name(), fn})
			case sig.Params().Len() == 0 && sig.Results().Len() == 1 && m.Name() != "String" && m.Name() != "WellFormed":
				getters = append(getters, accessor{m.Name(), fn})
			}
		}
		sort.Slice(setters, func(i, j int) bool { return setters[i].name < setters[j].name })
		sort.Slice(getters, func(i, j int) bool { return getters[i].name < getters[j].name })
		// which receiver fields each accessor reads (its decision function's inputs)
		reads := map[string]map[string]bool{}
		for _, g := range getters {
			reads[g.name] = map[string]bool{}
			for pattern := 0; pattern < 2; pattern++ {
				ctx := p.newSym(stateInput(symAssign{}, pattern))
				ctx.evalPure(g.fn, []sv{{k: 'p', addr: "P0"}}, nil, 0)
				for k := range ctx.seen {
					reads[g.name][k] = true
				}
			}
		}
		for _, st := range setters {
			c.Fn(qname(st.fn))
			cons := qname(st.fn)
			var own *accessor
			for i := range getters {
				if getters[i].name == strings.TrimPrefix(st.name, "Set") {
					own = &getters[i]
				}
			}
			pt := st.fn.Signature.Params().At(0).Type()
			var dom []sv
			isWill := false
			if ptr, ok := pt.Underlying().(*types.Pointer); ok && namedOf(ptr) != nil && namedOf(ptr).Obj().Name() == "Publish" {
				isWill = true
				dom = []sv{{k: 'p', addr: "ARGP"}}
			} else {
				dom = argDomain(pt, "arg:")
				// plus the values around every constant the setter's call tree compares a length / an integer with
				// (a truncation at 23 bytes, a clamp at 100 …)
				switch u := pt.Underlying().(type) {
				case *types.Basic:
					if u.Info()&types.IsString != 0 {
						for _, n := range p.lenDomainFor(st.fn) {
							if n > 2 {
								dom = append(dom, sv{k: 's', i: n, addr: fmt.Sprintf("arg:%d", n)})
							}
						}
					} else if u.Info()&types.IsInteger != 0 {
						have := map[int64]bool{}
						for _, d := range dom {
							have[d.i] = true
						}
						for _, n := range p.cmpConstsFor(st.fn) {
							if v := truncInt(n, pt, p.U.Sizes); v == n && !have[n] {
								have[n] = true
								dom = append(dom, sv{k: 'i', i: n})
							}
						}
					}
				case *types.Slice:
					if isByteSlice(pt) {
						for _, n := range p.lenDomainFor(st.fn) {
							if n > 2 {
								dom = append(dom, sv{k: 's', i: n, addr: fmt.Sprintf("arg:%d", n)})
							}
						}
					}
				}
			}
			if dom == nil {
				c.Unk("R12.1", cons, p.Pos(st.fn.Pos()), "no abstract domain for parameter type "+typeStr(pt))
				continue
			}
			// discover which receiver fields the setter (and its accessor) read: evaluate once
			depends := map[string]types.Type{}
			{
				ctx := p.newSym(stateInput(symAssign{}, 0))
				ctx.evalPure(st.fn, []sv{{k: 'p', addr: "P0"}, dom[len(dom)-1]}, nil, 0)
				for k, t := range ctx.seen {
					if strings.HasPrefix(k, "P0.") {
						depends[k] = t
					}
				}
			}
			// states: background patterns × all values of the byte-sized fields the setter reads
			var stateKeys []string
			stateDom := map[string][]sv{}
			for k, t := range depends {
				if bt, ok := t.Underlying().(*types.Basic); ok && bt.Info()&types.IsInteger != 0 && p.U.Sizes.Sizeof(bt) == 1 {
					stateKeys = append(stateKeys, k)
					stateDom[k] = allBytes()
				}
			}
			sort.Strings(stateKeys)
			if len(stateKeys) > 2 {
				stateKeys = stateKeys[:2]
			}
			pairBad, frameBad, derivedBad, evalBad := "", "", "", ""
			nEval := 0
			touchedMemo := map[string]bool{}
			touchedDone := false
			// union of the receiver paths the setter may write, over all arguments and both backgrounds
			written := map[string]bool{}
			// … statically, whatever field of the receiver the setter's effect summary says it may store to (a write
			// behind a condition on the flag byte that neither probe value takes — `(q == 1 || q == 2) && v == 0`)
			if sum := p.allEffects().Summary(st.fn); sum != nil {
				for _, w := range sum.Writes {
					if (w.Target.Kind == PParam || w.Target.Kind == PParamR) && w.Target.Idx == 0 && w.Target.F > 0 {
						written[fmt.Sprintf("P0.f%d", w.Target.F-1)] = true
					}
				}
			}
			for pattern := 0; pattern < 2; pattern++ {
				for _, a := range dom {
					for _, flagsAll := range []int64{0, 0xFF} {
						over := symAssign{}
						for _, k := range stateKeys {
							over[k] = sv{k: 'i', i: flagsAll}
						}
						ctx := p.newSym(stateInput(over, pattern))
						ctx.evalPure(st.fn, []sv{{k: 'p', addr: "P0"}, a}, nil, 0)
						for k := range ctx.mem {
							written[k] = true
						}
					}
				}
			}
			for pattern := 0; pattern < 2 && evalBad == ""; pattern++ {
				product(stateKeys, stateDom, func(state symAssign) bool {
					for _, a := range dom {
						args := state
						var willStates []symAssign
						if isWill {
							// the will message: all header bytes with QoS 0..2
							hf, _, ok := p.headerField("Publish")
							if !ok {
								evalBad = "no header field for Publish"
								return false
							}
							for v := int64(0x30); v < 0x40; v++ {
								if (v>>1)&3 == 3 {
									continue
								}
								ws := symAssign{}
								for k, x := range state {
									ws[k] = x
								}
								ws[fmt.Sprintf("ARGP.f%d", hf)] = sv{k: 'i', i: v}
								willStates = append(willStates, ws)
							}
						} else {
							willStates = []symAssign{args}
						}
						for _, ws := range willStates {
							nEval++
							ctx := p.newSym(stateInput(ws, pattern))
							if _, ok := ctx.evalPure(st.fn, []sv{{k: 'p', addr: "P0"}, a}, nil, 0); !ok {
								evalBad = "cannot evaluate the setter: " + ctx.why
								return false
							}
							post := ctx.mem
							// accessors whose inputs the setter wrote
							touched := func(g accessor) bool {
								if touchedDone {
									return touchedMemo[g.name]
								}
								for k := range written {
									for r := range reads[g.name] {
										if r == k || strings.HasPrefix(r, k+".") || strings.HasPrefix(r, k+"[") || strings.HasPrefix(k, r+".") {
											return true
										}
									}
								}
								return false
							}
							if !touchedDone {
								for _, g := range getters {
									touchedMemo[g.name] = touched(g)
								}
								touchedDone = true
							}
							before := map[string]sv{}
							for _, g := range getters {
								if own != nil && g.name == own.name || !touched(g) {
									continue
								}
								c0 := p.newSym(stateInput(ws, pattern))
								if rs, ok := c0.evalPure(g.fn, []sv{{k: 'p', addr: "P0"}}, nil, 0); ok {
									before[g.name] = rs[0]
								}
							}
							evalG := func(g accessor, extra ...sv) (sv, bool) {
								c2 := p.newSym(stateInput(ws, pattern))
								for k, v := range post {
									c2.mem[k] = v
								}
								rs, ok := c2.evalPure(g.fn, append([]sv{{k: 'p', addr: "P0"}}, extra...), nil, 0)
								if !ok || len(rs) != 1 {
									return sv{}, false
								}
								return rs[0], true
							}
							// R12.1
							if own != nil {
								got, ok := evalG(*own)
								if !ok {
									evalBad = "cannot evaluate " + own.name + "() after the setter"
									return false
								}
								want := a
								if st.name == "SetQoS" && a.k == 'i' && a.i > 3 {
									want = sv{k: 'i', i: 0}
								}
								if st.name == "SetSubscriptionID" {
									want = a // int in, int out
								}
								if !sameValue(got, want) && pairBad == "" {
									pairBad = fmt.Sprintf("%s(%v) on a state with %v (background %d): %s() returns %v", st.name, a, state, pattern, own.name, got)
								}
							}
							// R12.2
							for _, g := range getters {
								if own != nil && g.name == own.name {
									continue
								}
								b0, had := before[g.name]
								if !had {
									continue
								}
								got, ok := evalG(g)
								if !ok {
									continue
								}
								if !sameValue(got, b0) && frameBad == "" {
									frameBad = fmt.Sprintf("%s(%v) on a state with %v (background %d) changes %s() from %v to %v", st.name, a, state, pattern, g.name, b0, got)
								}
							}
							// R12.2, flag bits: what is visible only through HasFlag(mask) is part of the frame too — every
							// single bit keeps its value unless it is one this setter derives (R12.3) or sets itself
							if tn == "Connect" {
								if hasFlag := p.Method("Connect", "HasFlag"); hasFlag != nil {
									owned := int64(0)
									for _, n := range connectFlagsOwnedBy[st.name] {
										if k, ok := constByName(p, n); ok {
											owned |= k
										}
									}
									for bit := int64(1); bit < 256 && frameBad == ""; bit <<= 1 {
										if owned&bit != 0 {
											continue
										}
										c0 := p.newSym(stateInput(ws, pattern))
										r0, ok0 := c0.evalPure(hasFlag, []sv{{k: 'p', addr: "P0"}, {k: 'i', i: bit}}, nil, 0)
										r1, ok1 := evalG(accessor{"HasFlag", hasFlag}, sv{k: 'i', i: bit})
										if ok0 && ok1 && len(r0) == 1 && r0[0].b != r1.b {
											frameBad = fmt.Sprintf("%s(%v) on a state with %v (background %d) changes HasFlag(%#02x) from %v to %v", st.name, a, state, pattern, bit, r0[0].b, r1.b)
										}
									}
								}
							}
							// R12.3
							if tn == "Connect" {
								if hasFlag := p.Method("Connect", "HasFlag"); hasFlag != nil {
									flag := func(name string) (bool, bool) {
										k, ok := constByName(p, name)
										if !ok {
											return false, false
										}
										r, ok := evalG(accessor{"HasFlag", hasFlag}, sv{k: 'i', i: k})
										return r.b, ok
									}
									switch st.name {
									case "SetUsername", "SetPassword":
										fname := "UsernameFlag"
										if st.name == "SetPassword" {
											fname = "PasswordFlag"
										}
										if got, ok := flag(fname); !ok {
											evalBad = "cannot evaluate HasFlag(" + fname + ")"
										} else if got != (a.i > 0) && derivedBad == "" {
											derivedBad = fmt.Sprintf("%s(value of length %d): HasFlag(%s) = %v", st.name, a.i, fname, got)
										}
									case "SetWill":
										hf, _, _ := p.headerField("Publish")
										hb := ws[fmt.Sprintf("ARGP.f%d", hf)].i
										q := (hb >> 1) & 3
										checks := []struct {
											name string
											want bool
										}{{"WillFlag", true}, {"WillRetain", hb&1 != 0}, {"WillQoS1", q == 1}, {"WillQoS2", q == 2}}
										for _, ck := range checks {
											if got, ok := flag(ck.name); !ok {
												evalBad = "cannot evaluate HasFlag(" + ck.name + ")"
											} else if got != ck.want && derivedBad == "" {
												derivedBad = fmt.Sprintf("SetWill(message with first byte %#02x: QoS %d, retain %v): HasFlag(%s) = %v, want %v", hb, q, hb&1 != 0, ck.name, got, ck.want)
											}
										}
									}
								}
							}
						}
					}
					return evalBad == ""
				})
			}
			c.Measured["evaluations"] += nEval
			pos := p.Pos(st.fn.Pos())
			if evalBad != "" {
				c.Unk("R12.1", cons, pos, evalBad)
				continue
			}
			if own != nil {
				npairs++
				if pairBad != "" {
					c.Bad("R12.1", cons, pos, pairBad)
				} else {
					c.OK("R12.1", cons, pos, fmt.Sprintf("%s() returns the value set, on %d abstract state/argument combinations", own.name, nEval))
				}
			} else if !isWill {
				c.OK("R12.1", cons, pos, "no accessor of the same name (nothing to pair)")
			} else {
				// SetWill / Will
				c.OK("R12.1", cons, pos, "paired through the derived-flag rule")
			}
			nframes++
			if frameBad != "" {
				c.Bad("R12.2", cons, pos, frameBad)
			} else {
				c.OK("R12.2", cons, pos, fmt.Sprintf("no other accessor of %s changes (%d accessors compared before/after)", tn, len(getters)-1))
			}
			if tn == "Connect" && (st.name == "SetUsername" || st.name == "SetPassword" || st.name == "SetWill") {
				if derivedBad != "" {
					c.Bad("R12.3", cons, pos, derivedBad)
				} else {
					c.OK("R12.3", cons, pos, "derived flags follow the value set")
				}
			}
		}
	}
	c.Measured["setter_accessor_pairs"] = npairs
	c.Measured["setters_frame_checked"] = nframes
	c.Floor("setter/accessor pairs", npairs, 40, "the 15 packet types expose several dozen Set*/accessor pairs")
}

func constantInt(cn *types.Const) (int64, bool) {
	v := cn.Val()
	if v == nil {
		return 0, false
	}
	s := v.ExactString()
	var k int64
	if _, err := fmt.Sscan(s, &k); err != nil {
		return 0, false
	}
	return k, true
}

var _ = ssa.Value(nil)

// checkMultiParamMutators (R12.7): an exported mutator with several parameters (SetCredentials(user, password)) has
// no accessor of its own name; what it must do follows from the specification: evaluated alone, with all arguments
// set and with each argument in turn left at its zero value, the frame the packet then encodes to carries exactly
// what the accessors show — fields, presence flags and lengths (the per-state walk of C02 against the layout table).
func checkMultiParamMutators(p *Prog, c *Check) {
	c.Rule("R12.7", "every exported mutator with several parameters, evaluated alone with all arguments set and with each argument in turn zero, leaves a packet whose encoded frame agrees with its accessors by the specification's layout (presence flags follow the values they announce)")
	n := 0
	for _, tn := range packetTypeNames() {
		obj := p.Pkg.Scope().Lookup(tn)
		if obj == nil {
			continue
		}
		nt := obj.Type().(*types.Named)
		multi := map[string]bool{}
		for _, s := range p.settersOf(nt) {
			if !s.Signature.Variadic() && s.Signature.Params().Len() > 1 {
				multi[s.Name()] = true
			}
		}
		if len(multi) == 0 {
			continue
		}
		for _, spec := range p.stateSpecs(tn) {
			m := ""
			for name := range multi {
				if spec.name == "only "+name || strings.HasPrefix(spec.name, "only "+name+", argument ") {
					m = name
				}
			}
			if m == "" {
				continue
			}
			n++
			cons := "(*" + tn + ")." + m + " — " + spec.name
			st, why := p.buildStateSpec(tn, spec, nil, nil)
			if st == nil {
				c.Unk("R12.7", cons, "-", "cannot build the state: "+why)
				continue
			}
			errs, why := p.specErrorsForState(tn, st, nil)
			switch {
			case why != "":
				c.Unk("R12.7", cons, "-", why)
			case len(errs) > 0:
				var keys []string
				for k := range errs {
					keys = append(keys, k)
				}
				sort.Strings(keys)
				c.Bad("R12.7", cons, "-", "after the call the frame does not agree with what the accessors show: "+errs[keys[0]])
			default:
				c.OK("R12.7", cons, "-", "the frame carries what the accessors show; presence flags follow the values")
			}
		}
	}
	// … and on a packet that already has state: every exported mutator that is not a plain SetX(v)/AddX(…) — several
	// parameters, or another name (`RemoveWill()`) — is called last on the "all setters" states (with and without a
	// will): the frame must still agree with the accessors, and the accessors that change are among those the
	// mutator changes on a fresh packet (its own fields) — it must not disturb anyone else's
	for _, tn := range packetTypeNames() {
		obj := p.Pkg.Scope().Lookup(tn)
		if obj == nil {
			continue
		}
		nt := obj.Type().(*types.Named)
		var muts []string
		ms := p.Prog.MethodSets.MethodSet(types.NewPointer(nt))
		for i := 0; i < ms.Len(); i++ {
			m := ms.At(i).Obj().(*types.Func)
			sig := m.Type().(*types.Signature)
			if !m.Exported() || sig.Results().Len() != 0 || sig.Variadic() {
				continue
			}
			if _, isPtr := sig.Recv().Type().Underlying().(*types.Pointer); !isPtr {
				continue
			}
			plain := (strings.HasPrefix(m.Name(), "Set") || strings.HasPrefix(m.Name(), "Add")) && sig.Params().Len() == 1
			if plain {
				continue
			}
			muts = append(muts, m.Name())
		}
		sort.Strings(muts)
		if len(muts) == 0 {
			continue
		}
		specs := map[string]stateSpec{}
		for _, sp := range p.stateSpecs(tn) {
			specs[sp.name] = sp
		}
		obsOf := func(sp stateSpec) (map[string]string, *packetState, string) {
			var wp *packetState
			if sp.will != 0 {
				wp, _ = p.willFor(sp)
			}
			st, why := p.buildStateSpec(tn, sp, nil, wp)
			if st == nil {
				return nil, nil, "cannot build the state: " + why
			}
			obs, why := p.observe(tn, st.Recv, st.Mem, st.Maps, 0)
			return obs, st, why
		}
		for _, m := range muts {
			none, okN := specs["none"]
			if !okN {
				continue
			}
			f0, _, why0 := obsOf(none)
			withM := none
			withM.last = m
			f1, _, why1 := obsOf(withM)
			own := map[string]bool{}
			if why0 == "" && why1 == "" {
				for k, v := range f1 {
					if f0[k] != v {
						own[k] = true
					}
				}
			}
			for _, bn := range []string{"all", "all+will"} {
				base, ok := specs[bn]
				if !ok {
					continue
				}
				n++
				cons := "(*" + tn + ")." + m + " — called last on the state \"" + bn + "\""
				a0, _, whyA := obsOf(base)
				bm := base
				bm.last = m
				a1, st1, whyB := obsOf(bm)
				if whyA != "" || whyB != "" || why0 != "" || why1 != "" {
					c.Unk("R12.7", cons, "-", "cannot evaluate: "+whyA+whyB+why0+why1)
					continue
				}
				bad := ""
				{
					var keys []string
					for k := range a1 {
						keys = append(keys, k)
					}
					sort.Strings(keys)
					// a mutator that does nothing on a fresh packet (Remove…, Clear…): the fields it names are those whose
					// accessor carries a word of its name (RemoveWill: Will, WillDelayInterval …)
					named := func(acc string) bool {
						for _, w := range camelWords(m)[1:] {
							if len(w) >= 3 && strings.Contains(acc, w) {
								return true
							}
						}
						return false
					}
					anyNamed := false
					for _, k := range keys {
						if named(k) {
							anyNamed = true
						}
					}
					for _, k := range keys {
						if a0[k] == a1[k] {
							continue
						}
						switch {
						case len(own) > 0 && !own[k]:
							bad = fmt.Sprintf("the call changes %s (%s → %s), which it does not touch on a fresh packet: a field not named by the call is disturbed", k, a0[k], a1[k])
						case len(own) == 0 && anyNamed && !named(k):
							bad = fmt.Sprintf("the call changes %s (%s → %s), an accessor its name does not mention (it changes nothing on a fresh packet): a field not named by the call is disturbed", k, a0[k], a1[k])
						}
						if bad != "" {
							break
						}
					}
				}
				// what the mutator sets does not depend on what was there before (last write wins): with all arguments
				// given, and with each argument in turn zero, its own accessors show the same after the call on this
				// state as after the call on a fresh packet
				if bad == "" && len(own) > 0 {
					nparams := 0
					if mf := p.Method(tn, m); mf != nil {
						nparams = mf.Signature.Params().Len()
					}
					for za := 0; za <= nparams && bad == "" && nparams > 1; za++ {
						fz := none
						fz.last, fz.zeroArg = m, za
						bz := base
						bz.last, bz.zeroArg = m, za
						of, _, wf := obsOf(fz)
						ob, _, wb := obsOf(bz)
						if wf != "" || wb != "" {
							continue
						}
						var oks []string
						for k := range own {
							oks = append(oks, k)
						}
						sort.Strings(oks)
						for _, k := range oks {
							if of[k] != ob[k] {
								what := "all arguments given"
								if za > 0 {
									what = fmt.Sprintf("argument %d zero", za)
								}
								bad = fmt.Sprintf("with %s the call leaves %s = %s on this state but %s on a fresh packet: what it sets depends on what was set before (an empty argument does not clear the earlier value)", what, k, ob[k], of[k])
								break
							}
						}
					}
				}
				if bad == "" {
					errs, why := p.specErrorsForState(tn, st1, nil)
					if why != "" {
						c.Unk("R12.7", cons, "-", why)
						continue
					}
					var keys []string
					for k := range errs {
						keys = append(keys, k)
					}
					sort.Strings(keys)
					if len(keys) > 0 {
						bad = "after the call the frame does not agree with what the accessors show: " + errs[keys[0]]
					}
				}
				if bad != "" {
					c.Bad("R12.7", cons, "-", bad)
				} else {
					c.OK("R12.7", cons, "-", "no accessor outside the mutator's own changes; the frame carries what the accessors show")
				}
			}
		}
	}
	c.Measured["multi_parameter_mutator_states"] = n
}

// camelWords splits an exported identifier into its words (RemoveWill → Remove, Will).
func camelWords(s string) []string {
	var out []string
	start := 0
	for i := 1; i < len(s); i++ {
		if s[i] >= 'A' && s[i] <= 'Z' && !(s[i-1] >= 'A' && s[i-1] <= 'Z') {
			out = append(out, s[start:i])
			start = i
		}
	}
	return append(out, s[start:])
}

// checkFrameReflectsFinalState (R12.6).
func checkFrameReflectsFinalState(p *Prog, c *Check) {
	norm := func(evs []layoutEvent) []string {
		var out []string
		for _, e := range evs {
			v := e.Val
			val := ""
			switch v.k {
			case 'i':
				val = fmt.Sprint(v.i)
			case 'b':
				val = fmt.Sprint(v.b)
			case 's':
				val = fmt.Sprintf("len=%d", v.i)
				if strings.HasPrefix(v.addr, "val:") || strings.HasPrefix(v.addr, "lit:") {
					val += " " + v.addr + fmt.Sprintf("+%d", v.off)
				}
			}
			out = append(out, fmt.Sprintf("%s %s(%s) id=%#02x width=%d %s", e.Op, e.Wire, e.Kind, e.ID, e.Width, val))
		}
		return out
	}
	n := 0
	for _, tn := range packetTypeNames() {
		fill := p.Method(tn, "fill")
		if fill == nil {
			continue
		}
		specs := p.stateSpecs(tn)
		byName := map[string]stateSpec{}
		for _, sp := range specs {
			byName[sp.name] = sp
		}
		bad, unk := "", ""
		pairs := 0
		for _, sp := range specs {
			if !strings.HasPrefix(sp.name, "all, each setter called twice (other value first)") {
				continue
			}
			ref, ok := byName["all"+strings.TrimPrefix(sp.name, "all, each setter called twice (other value first)")]
			if !ok {
				continue
			}
			build := func(s stateSpec) ([]string, string) {
				var wp *packetState
				if s.will != 0 {
					wp, _ = p.willFor(s)
				}
				st, why := p.buildStateSpec(tn, s, nil, wp)
				if st == nil {
					return nil, why
				}
				evs, _, why := p.encoderTrace(st, fill)
				if why != "" {
					return nil, why
				}
				return norm(evs), ""
			}
			a, why1 := build(sp)
			b, why2 := build(ref)
			pairs++
			n++
			switch {
			case why1 != "" || why2 != "":
				unk = "cannot evaluate: " + why1 + why2
			case len(a) != len(b):
				bad = fmt.Sprintf("state \"%s\": the encoder emits %d items, after the final calls alone %d", sp.name, len(a), len(b))
			default:
				for i := range a {
					if a[i] != b[i] && bad == "" {
						bad = fmt.Sprintf("state \"%s\": item %d is [%s]; after the final calls alone it is [%s] — something from the first call survives in the frame", sp.name, i, a[i], b[i])
					}
				}
			}
		}
		if pairs == 0 {
			continue
		}
		cons := tn + "#frame-after-overwrite"
		switch {
		case unk != "":
			c.Unk("R12.6", cons, p.Pos(fill.Pos()), unk)
		case bad != "":
			c.Bad("R12.6", cons, p.Pos(fill.Pos()), bad)
		default:
			c.OK("R12.6", cons, p.Pos(fill.Pos()), fmt.Sprintf("%d overwrite state(s) encode exactly like their final calls alone", pairs))
		}
	}
	c.Measured["overwrite_states_compared"] = n
}
