package main

// E0 — loader.
//
// The dependency universe (stdlib packages imported by mq) is loaded once per
// process from export data through go/packages; package mq itself is parsed,
// type-checked and lowered to SSA by this file, from the bytes that are in
// /repo's working tree *now* (or from an overlay / a fixture directory for
// canaries and seeded variants).  Nothing is cached between runs.

import (
	"fmt"
	"go/ast"
	"go/parser"
	"go/token"
	"go/types"
	"os"
	"path/filepath"
	"sort"
	"strings"

	"golang.org/x/tools/go/packages"
	"golang.org/x/tools/go/ssa"
	"golang.org/x/tools/go/ssa/ssautil"
)

const mqPath = "github.com/gregoryv/mq"

var extraStd = []string{"bufio", "bytes", "errors", "sort", "sync", "sync/atomic", "math/rand", "os", "time", "runtime", "reflect", "unsafe", "strconv", "strings", "io", "fmt", "encoding/binary", "encoding"}

// Universe holds what is shared by every variant of package mq analysed in
// this process: the file set, the imported packages' types and the word size.
type Universe struct {
	Fset    *token.FileSet
	Imports map[string]*types.Package
	Sizes   types.Sizes
	Arch    string
	Dir     string   // repo directory
	Files   []string // compiled, non-test Go files of package mq (absolute)
	NPkgs   int      // root packages matched by ./...
	GoVer   string   // language version of the module ("go1.21"), from go.mod: decides e.g. loop-variable semantics
}

type importerFunc func(path string) (*types.Package, error)

func (f importerFunc) Import(path string) (*types.Package, error) { return f(path) }

func goEnv(arch string) []string {
	env := []string{}
	for _, kv := range os.Environ() {
		if strings.HasPrefix(kv, "GOWORK=") || strings.HasPrefix(kv, "GOFLAGS=") ||
			strings.HasPrefix(kv, "GOPROXY=") || strings.HasPrefix(kv, "GOSUMDB=") ||
			strings.HasPrefix(kv, "GOTOOLCHAIN=") || strings.HasPrefix(kv, "GOARCH=") ||
			strings.HasPrefix(kv, "GOOS=") || strings.HasPrefix(kv, "CGO_ENABLED=") {
			continue
		}
		env = append(env, kv)
	}
	env = append(env, "GOWORK=off", "GOFLAGS=-mod=mod", "GOPROXY=off", "GOSUMDB=off",
		"GOTOOLCHAIN=local", "GOARCH="+arch, "GOOS=linux", "CGO_ENABLED=0")
	return env
}

// LoadUniverse lists ./... in dir with the real go command (build tags,
// GOARCH), checks that package mq is there and loads the types of everything
// it imports.
func LoadUniverse(dir, arch string) (*Universe, error) {
	fset := token.NewFileSet()
	cfg := &packages.Config{
		Mode: packages.NeedName | packages.NeedFiles | packages.NeedCompiledGoFiles |
			packages.NeedImports | packages.NeedDeps | packages.NeedTypes | packages.NeedTypesSizes,
		Dir:   dir,
		Fset:  fset,
		Env:   goEnv(arch),
		Tests: false,
	}
	// the extra standard packages are only there so that canaries and seeded
	// variants may import them; they play no role for the repo itself
	pats := append([]string{"./..."}, extraStd...)
	pkgs, err := packages.Load(cfg, pats...)
	if err != nil {
		return nil, fmt.Errorf("packages.Load: %w", err)
	}
	if len(pkgs) == 0 {
		return nil, fmt.Errorf("no packages matched ./... in %s", dir)
	}
	u := &Universe{Fset: fset, Imports: map[string]*types.Package{}, Arch: arch, Dir: dir}
	u.GoVer = goVersionOf(dir)
	var mq *packages.Package
	for _, p := range pkgs {
		if p.PkgPath == mqPath {
			mq = p
		}
		if strings.HasPrefix(p.PkgPath, mqPath) {
			u.NPkgs++
		}
	}
	if mq == nil {
		return nil, fmt.Errorf("package %s not found in %s", mqPath, dir)
	}
	// list errors of mq itself (not type errors: we type-check ourselves)
	for _, e := range mq.Errors {
		if e.Kind == packages.ListError {
			return nil, fmt.Errorf("list error: %v", e)
		}
	}
	if len(mq.CompiledGoFiles) == 0 {
		return nil, fmt.Errorf("package %s has no Go files", mqPath)
	}
	u.Files = append(u.Files, mq.CompiledGoFiles...)
	sort.Strings(u.Files)
	u.Sizes = mq.TypesSizes
	if u.Sizes == nil {
		u.Sizes = types.SizesFor("gc", arch)
	}
	var visit func(p *packages.Package)
	seen := map[string]bool{}
	visit = func(p *packages.Package) {
		if seen[p.PkgPath] {
			return
		}
		seen[p.PkgPath] = true
		if p.Types != nil && p.PkgPath != mqPath {
			u.Imports[p.PkgPath] = p.Types
		}
		for _, q := range p.Imports {
			visit(q)
		}
	}
	visit(mq)
	for _, p := range pkgs {
		visit(p)
	}
	return u, nil
}

// Prog is one analysed variant of package mq.
type Prog struct {
	U     *Universe
	Label string // "repo", "canary:<name>", "variant:<name>"
	Fset  *token.FileSet
	Files []*ast.File
	Names []string // file names, parallel to Files
	Src   map[string][]byte
	Pkg   *types.Package
	Info  *types.Info
	SSA   *ssa.Package
	Prog  *ssa.Program

	cache map[string]interface{} // per-program memo for engines
}

// Source is a set of files (name -> content) making up package mq.
type Source map[string][]byte

// RepoSource reads the current bytes of the universe's file list.
func (u *Universe) RepoSource() (Source, error) {
	s := Source{}
	for _, f := range u.Files {
		b, err := os.ReadFile(f)
		if err != nil {
			return nil, err
		}
		s[f] = b
	}
	return s, nil
}

// DirSource reads every non-test .go file of a fixture directory.
func DirSource(dir string) (Source, error) {
	ents, err := os.ReadDir(dir)
	if err != nil {
		return nil, err
	}
	s := Source{}
	for _, e := range ents {
		n := e.Name()
		if e.IsDir() || !strings.HasSuffix(n, ".go") && !strings.HasSuffix(n, ".go.txt") {
			continue
		}
		if strings.HasSuffix(n, "_test.go") || strings.HasSuffix(n, "_test.go.txt") {
			continue
		}
		b, err := os.ReadFile(filepath.Join(dir, n))
		if err != nil {
			return nil, err
		}
		s[filepath.Join(dir, strings.TrimSuffix(n, ".txt"))] = b
	}
	if len(s) == 0 {
		return nil, fmt.Errorf("no Go files in %s", dir)
	}
	return s, nil
}

// Build parses, type-checks and lowers one variant.  Any parse or type error is
// an error (a tree that does not compile has no verdict).
func (u *Universe) Build(label string, src Source) (*Prog, error) {
	names := make([]string, 0, len(src))
	for n := range src {
		names = append(names, n)
	}
	sort.Strings(names)
	fset := u.Fset
	var files []*ast.File
	for _, n := range names {
		f, err := parser.ParseFile(fset, n, src[n], parser.ParseComments|parser.SkipObjectResolution)
		if err != nil {
			return nil, fmt.Errorf("%s: parse: %w", label, err)
		}
		files = append(files, f)
	}
	var terrs []error
	tc := &types.Config{
		Importer: importerFunc(func(path string) (*types.Package, error) {
			if p, ok := u.Imports[path]; ok {
				return p, nil
			}
			return nil, fmt.Errorf("import %q is not in the loaded universe", path)
		}),
		Sizes:     u.Sizes,
		GoVersion: u.GoVer,
		Error:     func(err error) { terrs = append(terrs, err) },
	}
	info := &types.Info{
		Types:        map[ast.Expr]types.TypeAndValue{},
		Defs:         map[*ast.Ident]types.Object{},
		Uses:         map[*ast.Ident]types.Object{},
		Implicits:    map[ast.Node]types.Object{},
		Instances:    map[*ast.Ident]types.Instance{},
		Scopes:       map[ast.Node]*types.Scope{},
		Selections:   map[*ast.SelectorExpr]*types.Selection{},
		FileVersions: map[*ast.File]string{},
	}
	pkg := types.NewPackage(mqPath, "mq")
	if err := types.NewChecker(tc, fset, pkg, info).Files(files); err != nil || len(terrs) > 0 {
		if len(terrs) > 0 {
			err = terrs[0]
		}
		return nil, fmt.Errorf("%s: type check: %v", label, err)
	}
	prog := ssa.NewProgram(fset, ssa.InstantiateGenerics)
	created := map[*types.Package]bool{}
	var createAll func(pkgs []*types.Package)
	createAll = func(pkgs []*types.Package) {
		for _, p := range pkgs {
			if !created[p] {
				created[p] = true
				prog.CreatePackage(p, nil, nil, true)
				createAll(p.Imports())
			}
		}
	}
	createAll(pkg.Imports())
	spkg := prog.CreatePackage(pkg, files, info, false)
	spkg.Build()
	_ = ssautil.AllFunctions // keep import for users
	return &Prog{U: u, Label: label, Fset: fset, Files: files, Names: names, Src: src,
		Pkg: pkg, Info: info, SSA: spkg, Prog: prog, cache: map[string]interface{}{}}, nil
}

// Pos renders a position relative to the variant's directory.
func (p *Prog) Pos(pos token.Pos) string {
	if !pos.IsValid() {
		return "-"
	}
	ps := p.Fset.Position(pos)
	return fmt.Sprintf("%s:%d", filepath.Base(ps.Filename), ps.Line)
}

// goVersionOf reads the `go` directive of dir/go.mod ("go 1.21" -> "go1.21"); "" if there is none.
func goVersionOf(dir string) string {
	b, err := os.ReadFile(filepath.Join(dir, "go.mod"))
	if err != nil {
		return ""
	}
	for _, line := range strings.Split(string(b), "\n") {
		f := strings.Fields(line)
		if len(f) == 2 && f[0] == "go" {
			v := f[1]
			// language version: major.minor only
			parts := strings.Split(v, ".")
			if len(parts) >= 2 {
				return "go" + parts[0] + "." + parts[1]
			}
			return "go" + v
		}
	}
	return ""
}
