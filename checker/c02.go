package main

// C02 — everything WriteTo emits is a structurally valid MQTT v5.0 frame.

import (
	"fmt"
	"go/constant"
	"go/token"
	"go/types"
	"sort"
	"strings"

	"golang.org/x/tools/go/ssa"
)

func init() {
	register(&PropertyCheck{ID: "C02", Level: "other", Run: checkC02, Canaries: []Canary{
		{Name: "identifier-constant-changed", Rule: "R2.1", Where: "ConnAck", Edits: []Edit{{"const.go", "ServerKeepAlive        Ident = 0x13", "ServerKeepAlive        Ident = 0x14"}}},
		{Name: "pubrel-without-reserved-bit", Rule: "R2.2", Where: "PubRel", Edits: []Edit{{"pubrel.go", "\tp.fixed = bits(PUBREL | 1<<1)", "\tp.fixed = bits(PUBREL)"}}},
		{Name: "username-password-flag-constants-swapped", Rule: "R2.6", Where: "const PasswordFlag", Edits: []Edit{{"connect.go", "\tPasswordFlag\n\tUsernameFlag\n", "\tUsernameFlag\n\tPasswordFlag\n"}}},
		{Name: "encoder-writes-flags-shifted", Rule: "R2.3", Where: "Connect", Edits: []Edit{{"connect.go", "\ti += p.flags.fill(b, i)                      // Flags", "\ti += (p.flags >> 1).fill(b, i)                      // Flags"}}},
		{Name: "will-qos-bits-not-cleared-on-replacement", Rule: "R2.3", Where: "Connect", Edits: []Edit{{"connect.go", "bits(^(WillQoS2 | WillQoS1))", "bits(^WillQoS2 | WillQoS1)"}}},
		{Name: "will-properties-through-publish-encoder", Rule: "R2.1", Where: "Connect", Edits: []Edit{{"connect.go", "\t\t\ti += p.will.payloadFormat.fillProp(b, i, PayloadFormatIndicator)\n\t\t\ti += p.will.messageExpiryInterval.fillProp(b, i, MessageExpiryInterval)\n\t\t\ti += p.will.contentType.fillProp(b, i, ContentType)\n\t\t\ti += p.will.responseTopic.fillProp(b, i, ResponseTopic)\n\t\t\ti += p.will.correlationData.fillProp(b, i, CorrelationData)\n\t\t\ti += p.will.UserProperties.properties(b, i)\n", "\t\t\ti += p.will.properties(b, i)\n"}}},
		{Name: "default-protocol-version-4", Rule: "R2.8", Where: "NewConnect#version", Edits: []Edit{{"connect.go", "\t\tprotocolVersion: 5,", "\t\tprotocolVersion: 4,"}}},
		{Name: "default-protocol-name-v3", Rule: "R2.8", Where: "NewConnect#name", Edits: []Edit{{"connect.go", "var mqtt5 = []byte(\"MQTT\")", "var mqtt5 = []byte(\"MQIsdp\")"}}},
		{Name: "auth-reason-code-without-property-length", Rule: "R2.5", Where: "Auth", Edits: []Edit{{"auth.go", "\ti += p.reasonCode.fill(b, i)\n\ti += vbint(proplen).fill(b, i)\n\ti += p.properties(b, i)\n\treturn i - n\n}\n\nfunc (p *Auth) properties", "\ti += p.reasonCode.fill(b, i)\n\tif proplen == 0 {\n\t\treturn i - n\n\t}\n\ti += vbint(proplen).fill(b, i)\n\ti += p.properties(b, i)\n\treturn i - n\n}\n\nfunc (p *Auth) properties"}}},
		{Name: "reason-string-under-wrong-id", Rule: "R2.1", Where: "Auth", Edits: []Edit{{"auth.go", "\ti += p.reasonString.fillProp(b, i, ReasonString)", "\ti += p.reasonString.fillProp(b, i, ServerReference)"}}},
		{Name: "remaining-length-in-a-two-path-helper", Silent: true, Edits: []Edit{{"publish.go", "func (p *Publish) WriteTo(w io.Writer) (int64, error) {\n\tb := make([]byte, p.fill(_LEN, 0))\n\tp.fill(b, 0)\n\tn, err := w.Write(b)\n\treturn int64(n), err\n}\n\nfunc (p *Publish) width() int {\n\treturn p.fill(_LEN, 0)\n}\n\nfunc (p *Publish) fill(b []byte, i int) int {\n\tremainingLen := vbint(p.variableHeader(_LEN, 0))\n\n\tif len(p.payload) > 0 {\n\t\tremainingLen += vbint(p.payload.fill(_LEN, 0))\n\t}\n\n\ti += p.fixed.fill(b, i)      // firstByte header\n\ti += remainingLen.fill(b, i) // remaining length\n\ti += p.variableHeader(b, i)  // variable header\n\tif len(p.payload) > 0 {\n\t\ti += p.payload.fill(b, i) // payload\n\t}\n\n\treturn i\n}\nfunc (p *Publish) variableHeader(b []byte, i int) int {\n\tn := i\n\n\ti += p.topicName.fill(b, i)\n\tif v := p.QoS(); v == 1 || v == 2 {\n\t\ti += p.packetID.fill(b, i)\n\t}\n\ti += vbint(p.properties(_LEN, 0)).fill(b, i) // Properties len\n\ti += p.properties(b, i)                      // Properties\n\n\treturn i - n\n}\n\n", "func (p *Publish) WriteTo(w io.Writer) (int64, error) {\n\tb := make([]byte, p.width())\n\tp.fill(b, 0)\n\tn, err := w.Write(b)\n\treturn int64(n), err\n}\n\nfunc (p *Publish) width() int {\n\treturn p.fill(_LEN, 0)\n}\n\n// remainingLen returns the number of bytes following the fixed\n// header, i.e. the variable header and the payload.\nfunc (p *Publish) remainingLen() vbint {\n\tn := vbint(p.variableHeader(_LEN, 0))\n\tif p.hasPayload() {\n\t\tn += vbint(p.payload.width())\n\t}\n\treturn n\n}\n\nfunc (p *Publish) hasPayload() bool { return len(p.payload) > 0 }\n\nfunc (p *Publish) fill(b []byte, i int) int {\n\tremainingLen := p.remainingLen()\n\n\ti += p.fixed.fill(b, i)      // firstByte header\n\ti += remainingLen.fill(b, i) // remaining length\n\ti += p.variableHeader(b, i)  // variable header\n\tif p.hasPayload() {\n\t\ti += p.payload.fill(b, i) // payload\n\t}\n\n\treturn i\n}\n\nfunc (p *Publish) variableHeader(b []byte, i int) int {\n\tn := i\n\tpropl := vbint(p.properties(_LEN, 0))\n\n\ti += p.topicName.fill(b, i)\n\tswitch p.QoS() {\n\tcase 1, 2:\n\t\ti += p.packetID.fill(b, i)\n\t}\n\ti += propl.fill(b, i)   // Properties len\n\ti += p.properties(b, i) // Properties\n\n\treturn i - n\n}\n\n"}}},
		{Name: "two-path-helper-forgets-a-one-byte-payload", Rule: "R2.4", Where: "Publish", Edits: []Edit{{"publish.go", "func (p *Publish) WriteTo(w io.Writer) (int64, error) {\n\tb := make([]byte, p.fill(_LEN, 0))\n\tp.fill(b, 0)\n\tn, err := w.Write(b)\n\treturn int64(n), err\n}\n\nfunc (p *Publish) width() int {\n\treturn p.fill(_LEN, 0)\n}\n\nfunc (p *Publish) fill(b []byte, i int) int {\n\tremainingLen := vbint(p.variableHeader(_LEN, 0))\n\n\tif len(p.payload) > 0 {\n\t\tremainingLen += vbint(p.payload.fill(_LEN, 0))\n\t}\n\n\ti += p.fixed.fill(b, i)      // firstByte header\n\ti += remainingLen.fill(b, i) // remaining length\n\ti += p.variableHeader(b, i)  // variable header\n\tif len(p.payload) > 0 {\n\t\ti += p.payload.fill(b, i) // payload\n\t}\n\n\treturn i\n}\nfunc (p *Publish) variableHeader(b []byte, i int) int {\n\tn := i\n\n\ti += p.topicName.fill(b, i)\n\tif v := p.QoS(); v == 1 || v == 2 {\n\t\ti += p.packetID.fill(b, i)\n\t}\n\ti += vbint(p.properties(_LEN, 0)).fill(b, i) // Properties len\n\ti += p.properties(b, i)                      // Properties\n\n\treturn i - n\n}\n\n", "func (p *Publish) WriteTo(w io.Writer) (int64, error) {\n\tb := make([]byte, p.width())\n\tp.fill(b, 0)\n\tn, err := w.Write(b)\n\treturn int64(n), err\n}\n\nfunc (p *Publish) width() int {\n\treturn p.fill(_LEN, 0)\n}\n\n// remainingLen returns the number of bytes following the fixed\n// header, i.e. the variable header and the payload.\nfunc (p *Publish) remainingLen() vbint {\n\tn := vbint(p.variableHeader(_LEN, 0))\n\tif p.hasPayload() && len(p.payload) > 1 {\n\t\tn += vbint(p.payload.width())\n\t}\n\treturn n\n}\n\nfunc (p *Publish) hasPayload() bool { return len(p.payload) > 0 }\n\nfunc (p *Publish) fill(b []byte, i int) int {\n\tremainingLen := p.remainingLen()\n\n\ti += p.fixed.fill(b, i)      // firstByte header\n\ti += remainingLen.fill(b, i) // remaining length\n\ti += p.variableHeader(b, i)  // variable header\n\tif p.hasPayload() {\n\t\ti += p.payload.fill(b, i) // payload\n\t}\n\n\treturn i\n}\n\nfunc (p *Publish) variableHeader(b []byte, i int) int {\n\tn := i\n\tpropl := vbint(p.properties(_LEN, 0))\n\n\ti += p.topicName.fill(b, i)\n\tswitch p.QoS() {\n\tcase 1, 2:\n\t\ti += p.packetID.fill(b, i)\n\t}\n\ti += propl.fill(b, i)   // Properties len\n\ti += p.properties(b, i) // Properties\n\n\treturn i - n\n}\n\n"}}},
		{Name: "remaining-length-omits-properties", Rule: "R2.4", Where: "ConnAck", Edits: []Edit{{"connack.go", "\ti += vbint(p.variableHeader(_LEN, 0)).fill(b, i) // remaining length", "\ti += vbint(2).fill(b, i) // remaining length"}}},
		{Name: "property-length-omits-user-properties", Rule: "R2.4", Where: "Publish", Edits: []Edit{
			{"publish.go", "\ti += vbint(p.properties(_LEN, 0)).fill(b, i) // Properties len", "\ti += vbint(p.properties(_LEN, 0) - p.UserProperties.properties(_LEN, 0)).fill(b, i) // Properties len"}}},
		{Name: "reason-code-omitted-with-properties", Rule: "R2.5", Where: "PubComp", Edits: []Edit{{"pubcomp.go", "\tif p.reasonCode > 0 || propl > 0 {\n\t\ti += p.reasonCode.fill(b, i)\n\t}", "\ti += p.reasonCode.fillOpt(b, i)"}}},
		{Name: "keepalive-before-flags", Rule: "R2.3", Where: "Connect", Edits: []Edit{{"connect.go", "\ti += p.flags.fill(b, i)                      // Flags\n\ti += p.keepAlive.fill(b, i)                  // Keep alive", "\ti += p.keepAlive.fill(b, i)                  // Keep alive\n\ti += p.flags.fill(b, i)                      // Flags"}}},
		{Name: "topic-alias-in-connack", Rule: "R2.1", Where: "ConnAck", Edits: []Edit{{"connack.go", "\ti += p.topicAliasMax.fillProp(b, i, TopicAliasMax)", "\ti += p.topicAliasMax.fillProp(b, i, TopicAlias)"}}},
		{Name: "session-expiry-as-u16", Rule: "R2.1", Where: "ConnAck", Edits: []Edit{{"connack.go", "\ti += p.sessionExpiryInterval.fillProp(b, i, SessionExpiryInterval)", "\ti += wuint16(p.sessionExpiryInterval).fillProp(b, i, SessionExpiryInterval)"}}},
		{Name: "username-without-flag-guard", Rule: "R2.3", Where: "Connect", Edits: []Edit{{"connect.go", "\tif p.flags.Has(UsernameFlag) {\n\t\ti += p.username.fill(b, i)\n\t}", "\ti += p.username.fill(b, i)"}}},
		{Name: "dry-run-hoisted", Silent: true, Edits: []Edit{{"connack.go", "\ti += vbint(p.variableHeader(_LEN, 0)).fill(b, i) // remaining length", "\trem := p.variableHeader(_LEN, 0)\n\ti += vbint(rem).fill(b, i) // remaining length"}}},
	}})
}

// fieldPathOf: receiver path of the field behind an exported accessor.
func (p *Prog) fieldPathOf(recv, typ, accessor string) (string, bool) {
	f, ok := p.accessorField(typ, accessor)
	if !ok {
		return "", false
	}
	return fmt.Sprintf("%s.f%d", recv, f), true
}

// flagsFieldOf: the byte field that HasFlag reads.
func (p *Prog) flagsFieldOf(typ string) (int, bool) {
	fn := p.Method(typ, "HasFlag")
	if fn == nil {
		return 0, false
	}
	for _, b := range fn.Blocks {
		for _, ins := range b.Instrs {
			if fa, ok := ins.(*ssa.FieldAddr); ok && fa.X == ssa.Value(fn.Params[0]) {
				return fa.Field, true
			}
		}
	}
	return 0, false
}

type specWalk struct {
	p    *Prog
	tn   string
	st   *packetState
	will *packetState
	obs  map[string]string
	evs  []layoutEvent
	pos  int
	errs map[string]string // rule -> first problem
}

func (w *specWalk) fail(rule, format string, a ...interface{}) {
	if w.errs[rule] == "" {
		w.errs[rule] = fmt.Sprintf(format, a...)
	}
}

func (w *specWalk) next() *layoutEvent {
	for w.pos < len(w.evs) {
		e := &w.evs[w.pos]
		w.pos++
		if e.Width == 0 {
			continue // not emitted
		}
		return e
	}
	return nil
}

func (w *specWalk) peek() *layoutEvent {
	for i := w.pos; i < len(w.evs); i++ {
		if w.evs[i].Width != 0 {
			return &w.evs[i]
		}
	}
	return nil
}

// srcMatches: does the event's value come from the field behind accessor on
// the object at recv (directly or through the pointer/slice it holds)?
func (w *specWalk) srcMatches(e *layoutEvent, recv, typ, accessor string) bool {
	path, ok := w.p.fieldPathOf(recv, typ, accessor)
	if !ok {
		// list-valued variant of the accessor (SubscriptionIDs)
		path, ok = w.p.fieldPathOf(recv, typ, accessor+"s")
	}
	if !ok {
		// accessors that are not plain field reads (SubscriptionID): any field of the receiver whose pointee is the source
		for k, v := range w.st.Mem {
			if strings.HasPrefix(k, recv+".f") && v.k == 'p' && v.addr != "" && e.Src == v.addr {
				return true
			}
		}
		return false
	}
	if e.Src == path || strings.HasPrefix(e.Src, path+"[") {
		return true
	}
	if v, ok := w.st.Mem[path]; ok && v.addr != "" && (e.Src == v.addr || strings.HasPrefix(e.Src, v.addr+"[")) {
		return true
	}
	return false
}

// props checks one properties section starting at the property length.
func (w *specWalk) props(section string, mustHave bool) (present bool, nprops int) {
	e := w.peek()
	if e == nil || e.Op != "fill" || e.Kind != "vbi" {
		if mustHave {
			w.fail("R2.3", "property length of %s is missing", section)
		}
		return false, 0
	}
	w.next()
	plen := e.Val.i
	var sum int64
	seen := map[int64]bool{}
	allowed := map[int64]bool{}
	for _, id := range specAllowed[section] {
		allowed[id] = true
	}
	for {
		pe := w.peek()
		if pe == nil || pe.Op != "fillProp" {
			break
		}
		w.next()
		sum += pe.Width
		nprops++
		sp := specPropByID(pe.ID)
		switch {
		case sp == nil:
			w.fail("R2.1", "property identifier %#02x is not defined by MQTT v5.0", pe.ID)
		case !allowed[pe.ID]:
			w.fail("R2.1", "property %#02x (%s) is not allowed in %s", pe.ID, sp.Name, section)
		case !specKindMatches(pe.Kind, sp.Kind):
			w.fail("R2.1", "property %#02x (%s) is written as %s (%s); the specification says %s", pe.ID, sp.Name, pe.Wire, pe.Kind, sp.Kind)
		default:
			if seen[pe.ID] && pe.ID != 0x26 && pe.ID != 0x0B {
				w.fail("R2.1", "property %#02x (%s) is emitted twice", pe.ID, sp.Name)
			}
			seen[pe.ID] = true
			// the value comes from the field behind the accessor of that name
			recv, typ := w.st.Recv, w.tn
			if section == "Will" && sp.Accessor != "WillDelayInterval" && w.will != nil {
				recv, typ = w.will.Recv, "Publish"
			}
			if sp.Accessor != "" && !w.srcMatches(pe, recv, typ, sp.Accessor) {
				w.fail("R2.1", "property %#02x (%s) does not carry the value of %s.%s() (it comes from %s)", pe.ID, sp.Name, typ, sp.Accessor, pe.Src)
			}
		}
	}
	if plen != sum {
		w.fail("R2.4", "the property length of %s says %d but %d bytes of properties follow", section, plen, sum)
	}
	return true, nprops
}

func checkC02(p *Prog, c *Check) {
	c.Rule("R2.1", "every property emitted uses an identifier defined by MQTT v5.0 and allowed for that packet, with the wire type the specification assigns to it, at most once (user properties and subscription identifiers excepted), and carries the value of the field behind the accessor of that name")
	c.Rule("R2.2", "the first item emitted is the first byte: type code of the packet in the upper nibble and the reserved bits of the specification in the lower (PUBLISH: DUP/QoS/RETAIN)")
	c.Rule("R2.3", "the items after the fixed header are those of the specification for that packet type, in its order, each with its wire type and from the right field; optional items are present exactly as their presence rule says (will, user name and password by the CONNECT flags; packet identifier iff QoS 1/2)")
	c.Rule("R2.4", "every length prefix equals the bytes it covers: remaining length = everything after it; property length = the properties that follow")
	c.Rule("R2.8", "a CONNECT that keeps its defaults carries protocol name \"MQTT\" and protocol version 5: the constants the constructor stores behind ProtocolName()/ProtocolVersion()")
	c.Rule("R2.7", "the values written are the values set: no list field that may hold the caller's own slice is grown in place, and no packet is copied by value (two packets would then share list storage and overwrite each other's elements before encoding) — shared with C14 R14.7/R14.8")
	c.Rule("R2.6", "the exported CONNECT flag constants and subscription option constants have the bit values of the specification (§3.1.2.3, §3.8.3.1)")
	c.Rule("R2.5", "optional-section chain: where trailing sections may be omitted (PUBACK family, DISCONNECT, AUTH), properties present ⇒ property length present ⇒ reason code present")
	c.Explanation = "Oracle: the MQTT v5.0 layout table carried by the checker (ordered fields, presence rules, allowed property sets, wire kinds), keyed by exported names. For every abstract well-formed packet state (same generator as C01) the encoder's event sequence — obtained by evaluating its SSA form with the wire primitives observed — is walked against the table. Minimality of the variable byte integers themselves is C15's subject; primitive encodings are C01 R1.4."
	c.Trusted = []string{"go/types + go/ssa (x/tools v0.29.0) faithful IR", "the layout table transcribed from the MQTT v5.0 specification (DESIGN Appendix A)", "wire kinds are recognised from the shape of each codec (width summaries), not from names"}
	c.NotDecided = []string{"numeric correctness of the primitive encoders beyond C01 R1.4 / C15", "UTF-8 well-formedness of strings"}
	codeOf := map[string]int64{}
	for k, n := range specPacketTypes {
		codeOf[n] = k
	}
	nstates := 0
	for _, tn := range packetTypeNames() {
		fill := p.Method(tn, "fill")
		if fill == nil {
			c.Bad("anchor", tn, "-", "fill not found")
			continue
		}
		c.Fn(qname(fill))
		errs := map[string]string{}
		var will *packetState
		n := 0
		wf := p.Method(tn, "WellFormed")
		specs := p.stateSpecs(tn)
		// CONNECT: the will may be any PUBLISH the API can build, also one carrying what a will cannot carry on
		// the wire (topic alias, subscription identifiers, packet identifier, DUP): those must not be written
		var fullWill *packetState
		for _, spec := range append([]stateSpec(nil), specs...) {
			if spec.will == 1 && (strings.HasPrefix(spec.name, "all+will") || strings.HasPrefix(spec.name, "none+will")) {
				fw := spec
				fw.name = spec.name + " (will built with every PUBLISH setter)"
				fw.will = 2
				specs = append(specs, fw)
			}
		}
		for _, spec := range specs {
			if spec.will == 1 && will == nil {
				will, _ = p.willState()
			}
			if spec.will == 2 && fullWill == nil {
				fullWill, _ = p.buildState("Publish", func(string) int { return 0 }, nil)
			}
			var wp *packetState
			if spec.will == 1 {
				wp = will
			}
			if spec.will == 3 || spec.will == 1 && spec.bias > 0 {
				wp, _ = p.willFor(spec)
			}
			if spec.will == 2 {
				wp = fullWill
				if wp == nil {
					continue
				}
			}
			choose := func(s string) int {
				if s == "SetProtocolName" || s == "SetProtocolVersion" {
					return -1 // C02 keeps the default protocol name and version
				}
				return spec.choose(s)
			}
			st, why := p.buildStateSpec(tn, spec, choose, wp)
			if st == nil {
				if errs["R2.3"] == "" {
					errs["R2.3"] = "state " + spec.name + ": " + why
				}
				continue
			}
			// well-formedness by MQTT's own rules
			if wf != nil {
				ctx := p.newSym(p.globalInput())
				for k, v := range st.Mem {
					ctx.mem[k] = v
				}
				ctx.opaqueNonNil["newMalformed"] = true
				if rs, ok := ctx.evalPure(wf, []sv{{k: 'p', addr: st.Recv}}, nil, 0); ok && !isNilResult(rs[0]) {
					continue
				}
			}
			evs, _, why := p.encoderTrace(st, fill)
			if why != "" {
				if errs["R2.3"] == "" {
					errs["R2.3"] = "state " + spec.name + ": " + why
				}
				continue
			}
			obs, why := p.observe(tn, st.Recv, st.Mem, st.Maps, 0)
			if why != "" {
				if errs["R2.3"] == "" {
					errs["R2.3"] = "state " + spec.name + ": " + why
				}
				continue
			}
			n++
			if st.Will != nil {
				wp = st.Will // the message of the last SetWill call
			}
			w := &specWalk{p: p, tn: tn, st: st, will: wp, obs: obs, evs: evs, errs: map[string]string{}}
			w.walk(codeOf[tn])
			for r, e := range w.errs {
				if errs[r] == "" {
					errs[r] = fmt.Sprintf("state %s (setters %v): %s; emitted: %s", spec.name, st.Calls, e, traceString(evs))
				}
			}
		}
		// … and on states steered so that the remaining length, or the property length, sits on a boundary (the sizes
		// at which a length field grows by a byte, and the neighbourhood of every constant in the encoder's code)
		for _, ts := range p.targetedStates(tn, fill) {
			evs, _, why := p.encoderTrace(ts.st, fill)
			if why != "" {
				continue
			}
			obs, why := p.observe(tn, ts.st.Recv, ts.st.Mem, ts.st.Maps, 0)
			if why != "" {
				continue
			}
			n++
			w := &specWalk{p: p, tn: tn, st: ts.st, will: ts.st.Will, obs: obs, evs: evs, errs: map[string]string{}}
			w.walk(codeOf[tn])
			for r, e := range w.errs {
				if errs[r] == "" {
					errs[r] = fmt.Sprintf("state %s: %s; emitted: %s", ts.name, e, traceStringShort(evs))
				}
			}
		}
		nstates += n
		for _, rule := range []string{"R2.1", "R2.2", "R2.3", "R2.4", "R2.5"} {
			if e, bad := errs[rule]; bad {
				c.Bad(rule, tn, p.Pos(fill.Pos()), e)
			} else {
				c.OK(rule, tn, p.Pos(fill.Pos()), fmt.Sprintf("holds on all %d well-formed abstract states", n))
			}
		}
	}
	c.Measured["abstract_states"] = nstates
	// static part of R2.1: the exported identifier constants have the specification's values
	for _, sp := range specProps {
		_ = sp
	}
	checkIdentConstants(p, c)
	checkFlagConstants(p, c)
	checkConnectDefaults(p, c)
	// R2.7: what was set through the API cannot be overwritten behind the packet's back (shared with C14 R14.7/R14.8)
	{
		sub := NewCheck(c.ID, p)
		rulePacketsByPointerOnly(p, sub, "R2.7")
		ruleNoAppendOntoCallerStorage(p, sub, "R2.7")
		for _, o := range sub.Obls {
			c.add("R2.7", o.Construct, o.Pos, o.Status, o.Detail)
		}
	}
	// structural part of R2.4 (shared with C10 R10.8): for all states, not only the abstract ones
	top := map[*ssa.Function]bool{}
	for _, tn := range packetTypeNames() {
		if f := p.Method(tn, "fill"); f != nil {
			top[f] = true
		}
	}
	for _, f := range lengthPrefixFindings(p, top) {
		switch {
		case f.ok:
			c.OK("R2.4", f.cons, f.pos, f.how)
		case f.unk && f.top != nil && (evaluatedOK(c, "R2.4", f.top) || allEvaluatedOK(c, "R2.4", f.tops)):
			c.OK("R2.4", f.cons, f.pos, "not decided structurally ("+f.how+"); backed by the evaluation: the remaining length equals the bytes that follow on every well-formed abstract packet state of the type")
		case f.unk:
			c.Unk("R2.4", f.cons, f.pos, f.how)
		default:
			c.Bad("R2.4", f.cons, f.pos, f.how)
		}
	}
	c.Floor("packet types", len(packetTypeNames()), 15, "15 MQTT packet types")
}

// specErrorsForState: the encoder's trace on the state, walked against the specification (the per-state part of
// R2.1–R2.5): the first problem per rule, or why the state could not be evaluated.
func (p *Prog) specErrorsForState(tn string, st *packetState, wp *packetState) (map[string]string, string) {
	fill := p.Method(tn, "fill")
	if fill == nil {
		return nil, "no encoder"
	}
	codeOf := map[string]int64{}
	for k, n := range specPacketTypes {
		codeOf[n] = k
	}
	evs, _, why := p.encoderTrace(st, fill)
	if why != "" {
		return nil, why
	}
	obs, why := p.observe(tn, st.Recv, st.Mem, st.Maps, 0)
	if why != "" {
		return nil, why
	}
	if st.Will != nil {
		wp = st.Will
	}
	w := &specWalk{p: p, tn: tn, st: st, will: wp, obs: obs, evs: evs, errs: map[string]string{}}
	w.walk(codeOf[tn])
	out := map[string]string{}
	for r, e := range w.errs {
		out[r] = e + "; emitted: " + traceStringShort(evs)
	}
	return out, ""
}

// exported Ident constants: value must be a defined identifier whose name the
// library associates with the same accessor.
func checkIdentConstants(p *Prog, c *Check) {
	it := p.Pkg.Scope().Lookup("Ident")
	if it == nil {
		return
	}
	sc := p.Pkg.Scope()
	var names []string
	for _, n := range sc.Names() {
		if cn, ok := sc.Lookup(n).(*types.Const); ok && types.Identical(cn.Type(), it.Type()) {
			names = append(names, n)
		}
	}
	sort.Strings(names)
	seen := map[int64]string{}
	for _, n := range names {
		v, _ := constantInt(sc.Lookup(n).(*types.Const))
		cons := "const " + n
		if prev, dup := seen[v]; dup {
			c.Bad("R2.1", cons, "-", fmt.Sprintf("value %#02x is also used by %s", v, prev))
			continue
		}
		seen[v] = n
		if sp := specPropByID(v); sp == nil {
			c.Bad("R2.1", cons, "-", fmt.Sprintf("value %#02x is not a property identifier of MQTT v5.0", v))
		} else {
			c.OK("R2.1", cons, "-", fmt.Sprintf("%#02x = %s", v, sp.Name))
		}
	}
	c.Measured["identifier_constants"] = len(names)
	c.Floor("identifier constants", len(names), 27, "27 property identifiers")
}

func (w *specWalk) walk(code int64) {
	p := w.p
	// first byte
	e := w.next()
	hf, _, okH := p.headerField(w.tn)
	if e == nil || e.Op != "fill" || e.Kind != "byte" {
		w.fail("R2.2", "the first item is not a single byte")
		return
	}
	if okH && e.Src != fmt.Sprintf("%s.f%d", w.st.Recv, hf) {
		w.fail("R2.2", "the first byte does not come from the header field")
	}
	if e.Val.k == 'i' {
		switch {
		case e.Val.i&0xF0 != code:
			w.fail("R2.2", "first byte %#02x has type code %#02x, want %#02x", e.Val.i, e.Val.i&0xF0, code)
		case w.tn == "Publish":
			want := code
			if w.obs["Duplicate()"] == "true" {
				want |= 8
			}
			if w.obs["Retain()"] == "true" {
				want |= 1
			}
			var q int64
			fmt.Sscan(w.obs["QoS()"], &q)
			want |= q << 1
			if e.Val.i != want {
				w.fail("R2.2", "first byte %#02x does not encode DUP/QoS/RETAIN of the packet (want %#02x)", e.Val.i, want)
			}
		case e.Val.i&0x0F != specReservedBits[w.tn]:
			w.fail("R2.2", "first byte %#02x: reserved bits are %#x, the specification requires %#x", e.Val.i, e.Val.i&0x0F, specReservedBits[w.tn])
		}
	}
	// remaining length
	e = w.next()
	if e == nil || e.Op != "fill" || e.Kind != "vbi" {
		w.fail("R2.4", "the second item is not the remaining length")
		return
	}
	var rest int64
	for _, x := range w.evs[w.pos:] {
		rest += x.Width
	}
	if e.Val.i != rest {
		w.fail("R2.4", "remaining length says %d but %d bytes follow", e.Val.i, rest)
	}
	// body
	layout := specLayout[w.tn]
	reasonPresent := false
	for _, sf := range layout {
		switch {
		case strings.HasPrefix(sf.Name, "#props:"):
			section := strings.TrimPrefix(sf.Name, "#props:")
			must := sf.Optional == ""
			if sf.Optional == "will" {
				if w.obs["Will().TopicName()"] == "" && !w.hasWill() {
					continue
				}
				must = true
			}
			present, n := w.props(section, must)
			if sf.Optional == "props" || sf.Optional == "reason|props" {
				if present && !reasonPresent {
					w.fail("R2.5", "a property length is written although the reason code was left out")
				}
				if sf.Optional == "reason|props" && reasonPresent && !present {
					// §3.15.2.1: AUTH may leave out reason code and property length only together (remaining length 0);
					// the short form "reason code alone" exists for the PUBACK family and DISCONNECT, not here
					w.fail("R2.5", "the reason code is written without a property length after it: for this packet type the specification allows leaving out both together only")
				}
				_ = n
			}
		case sf.Kind == "list":
			w.list(sf)
		default:
			w.field(sf, &reasonPresent)
		}
	}
	if x := w.next(); x != nil {
		// properties left over without their section
		if x.Op == "fillProp" {
			w.fail("R2.5", "properties are written without a property length / reason code before them (%s)", x.String())
		} else {
			w.fail("R2.3", "unexpected item after the specified layout: %s", x.String())
		}
	}
}

func (w *specWalk) hasWill() bool {
	for k := range w.obs {
		if strings.HasPrefix(k, "Will().") {
			return true
		}
	}
	return false
}

func (w *specWalk) field(sf specField, reasonPresent *bool) {
	p := w.p
	// presence
	want := true
	optional := false
	switch sf.Optional {
	case "will":
		want = w.hasWill()
	case "username":
		want = w.obs["Username()"] != "\"\""
	case "password":
		want = w.obs["Password()"] != "\"\""
	case "qos>0":
		want = w.obs["QoS()"] == "1" || w.obs["QoS()"] == "2"
	case "rest":
		want = w.obs["Payload()"] != "\"\""
	case "reason|props":
		optional = true
	}
	e := w.peek()
	matches := func(e *layoutEvent) bool {
		if e == nil || e.Op == "fillProp" {
			return false
		}
		if !specKindMatches(e.Kind, sf.Kind) {
			return false
		}
		switch {
		case sf.Name == "#flags":
			ff, ok := p.flagsFieldOf(w.tn)
			return ok && e.Src == fmt.Sprintf("%s.f%d", w.st.Recv, ff)
		case sf.Name == "#will.TopicName":
			return w.will != nil && w.srcMatches(e, w.will.Recv, "Publish", "TopicName")
		case sf.Name == "#will.Payload":
			// the will payload: same value as the will message's Payload()
			if w.will == nil {
				return false
			}
			if pp, ok := p.fieldPathOf(w.will.Recv, "Publish", "Payload"); ok {
				v, ok := w.st.Mem[pp]
				if !ok || v.i == 0 {
					return e.Val.i == 0 // a will without payload: the empty binary field is still written
				}
				return v.addr == e.Val.addr && v.i == e.Val.i
			}
			return false
		}
		return w.srcMatches(e, w.st.Recv, w.tn, sf.Name)
	}
	if optional {
		if matches(e) && (e.Op == "fill" || e.Op == "fillOpt") {
			// is it really the reason code (and not the property length)?
			w.next()
			*reasonPresent = true
			return
		}
		// absent: allowed only if the reason code is zero and no properties follow
		if w.obs["ReasonCode()"] != "0" && w.obs["ReasonCode()"] != "" {
			w.fail("R2.5", "the reason code %s is not written", w.obs["ReasonCode()"])
		}
		if x := w.peek(); x != nil {
			w.fail("R2.5", "the reason code is left out although more follows (%s): a reader takes the next byte for the reason code", x.String())
		}
		return
	}
	if !want {
		if matches(e) && sf.Optional != "" {
			w.fail("R2.3", "%s is written although its presence rule (%s) does not hold", sf.Name, sf.Optional)
			w.next()
		}
		return
	}
	if !matches(e) {
		got := "nothing"
		if e != nil {
			got = e.String()
		}
		w.fail("R2.3", "expected %s (%s) here, the encoder writes %s", sf.Name, sf.Kind, got)
		return
	}
	w.next()
	if sf.Name == "#flags" && w.tn == "ConnAck" && e.Val.k == 'i' {
		// connect acknowledge flags (§3.2.2.1): bit 0 session present, bits 7-1 reserved
		var want int64
		if w.obs["SessionPresent()"] == "true" {
			want = 1
		}
		if e.Val.i != want {
			w.fail("R2.3", "CONNACK acknowledge flags %#02x; with SessionPresent() = %s the specification requires %#02x", e.Val.i, w.obs["SessionPresent()"], want)
		}
	}
	if sf.Name == "#flags" && w.tn == "Connect" {
		w.connectFlags(e)
	}
}

// connectFlags: the CONNECT flags byte written must be the specification's function of the packet
// (§3.1.2.3): bit 7 user name present, bit 6 password present, bit 5 will retain, bits 4-3 will QoS,
// bit 2 will present, bit 0 reserved = 0.  Bit 1 (clean start) has no second observer and is left to R2.6.
func (w *specWalk) connectFlags(e *layoutEvent) {
	if e.Val.k != 'i' {
		w.fail("R2.3", "the CONNECT flags byte written is not a determined value (%s)", e.Val.String())
		return
	}
	var want int64
	if w.obs["Username()"] != "\"\"" {
		want |= specConnectFlags["UsernameFlag"]
	}
	if w.obs["Password()"] != "\"\"" {
		want |= specConnectFlags["PasswordFlag"]
	}
	if w.hasWill() {
		want |= specConnectFlags["WillFlag"]
		if w.obs["Will().Retain()"] == "true" {
			want |= specConnectFlags["WillRetain"]
		}
		var q int64
		fmt.Sscan(w.obs["Will().QoS()"], &q)
		want |= q << 3
	}
	cs := specConnectFlags["CleanStart"]
	if e.Val.i&^cs != want {
		w.fail("R2.3", "CONNECT flags byte %#02x; by the specification (user name %s, password %s, will %v retain %s QoS %s) it is %#02x (clean start aside)", e.Val.i, w.obs["Username()"], w.obs["Password()"], w.hasWill(), w.obs["Will().Retain()"], w.obs["Will().QoS()"], want)
	}
}

// checkFlagConstants (R2.6): the exported CONNECT flag and subscription option constants have the bit values
// the specification gives to the flags of those names.
func checkFlagConstants(p *Prog, c *Check) {
	n := 0
	for _, tab := range []map[string]int64{specConnectFlags, specSubOptions, specConnAckFlags} {
		var names []string
		for k := range tab {
			names = append(names, k)
		}
		sort.Strings(names)
		for _, name := range names {
			cn, ok := p.Pkg.Scope().Lookup(name).(*types.Const)
			if !ok {
				continue // the library need not export every name
			}
			n++
			v, _ := constantInt(cn)
			if v != tab[name] {
				c.Bad("R2.6", "const "+name, p.Pos(cn.Pos()), fmt.Sprintf("value %#02x, the specification assigns %#02x to it", v, tab[name]))
			} else {
				c.OK("R2.6", "const "+name, p.Pos(cn.Pos()), fmt.Sprintf("%#02x", v))
			}
		}
	}
	c.Measured["flag_constants"] = n
	c.Floor("flag constants", n, 8, "user name, password, will retain, will QoS (2), will flag, clean start and at least one subscription option are exported")
}

func (w *specWalk) list(sf specField) {
	n := 0
	for {
		e := w.peek()
		if e == nil || e.Op == "fillProp" {
			break
		}
		switch sf.Name {
		case "#filters+options":
			if e.Kind != "lp" {
				w.fail("R2.3", "expected a topic filter, the encoder writes %s", e.String())
				return
			}
			w.next()
			o := w.next()
			if o == nil || o.Kind != "byte" {
				w.fail("R2.3", "a topic filter is not followed by its options byte")
				return
			}
		case "Filters":
			if e.Kind != "lp" {
				w.fail("R2.3", "expected a topic filter, the encoder writes %s", e.String())
				return
			}
			w.next()
		case "ReasonCodes":
			if e.Kind != "byte" {
				w.fail("R2.3", "expected a reason code byte, the encoder writes %s", e.String())
				return
			}
			w.next()
		}
		n++
	}
	if n == 0 {
		w.fail("R2.3", "the payload list %s is empty", sf.Name)
	}
}

// checkConnectDefaults (R2.8): a CONNECT that keeps its defaults announces protocol name "MQTT" and version 5
// (§3.1.2.1, §3.1.2.2): the constructor stores the constant 5 into the field behind ProtocolVersion() and, into the
// field behind ProtocolName(), the bytes of the constant "MQTT" (directly or through a package variable that is
// assigned exactly once, from that constant).
func checkConnectDefaults(p *Prog, c *Check) {
	var ctor *ssa.Function
	for _, fn := range p.Roots().Ctor {
		if fn.Signature.Params().Len() == 0 && fn.Signature.Results().Len() == 1 {
			if nt := namedOf(fn.Signature.Results().At(0).Type()); nt != nil && nt.Obj().Name() == "Connect" {
				ctor = fn
			}
		}
	}
	fv, okv := p.accessorField("Connect", "ProtocolVersion")
	fnm, okn := p.accessorField("Connect", "ProtocolName")
	if ctor == nil || !okv || !okn {
		c.Unk("R2.8", "NewConnect", "-", "constructor or the fields behind ProtocolVersion()/ProtocolName() not found")
		return
	}
	pos := p.Pos(ctor.Pos())
	constString := func(v ssa.Value) (string, bool) {
		cv, ok := stripConvs(v).(*ssa.Const)
		if !ok || cv.Value == nil || cv.Value.Kind() != constant.String {
			return "", false
		}
		return constant.StringVal(cv.Value), true
	}
	ver, name := int64(-1), ""
	nameOK := false
	for _, b := range ctor.Blocks {
		for _, ins := range b.Instrs {
			st, ok := ins.(*ssa.Store)
			if !ok {
				continue
			}
			fa, ok := st.Addr.(*ssa.FieldAddr)
			if !ok {
				continue
			}
			if fa.Field == fv {
				if k, isC := constInt(st.Val); isC {
					ver = k
				}
			}
			if fa.Field == fnm {
				if s, ok := constString(st.Val); ok {
					name, nameOK = s, true
				} else if ld, ok := stripConvs(st.Val).(*ssa.UnOp); ok && ld.Op == token.MUL {
					if g, ok := ld.X.(*ssa.Global); ok {
						// exactly one store to the global in the whole package, in init, of the constant
						n := 0
						for _, f := range p.AllFuncs() {
							for _, fb := range f.Blocks {
								for _, fi := range fb.Instrs {
									if gs, ok := fi.(*ssa.Store); ok && gs.Addr == ssa.Value(g) {
										n++
										if s, ok := constString(gs.Val); ok && f.Name() == "init" {
											name, nameOK = s, true
										} else {
											nameOK = false
											n += 100
										}
									}
								}
							}
						}
						if n != 1 {
							nameOK = false
						}
					}
				}
			}
		}
	}
	if ver == 5 {
		c.OK("R2.8", "NewConnect#version", pos, "the default protocol version is 5")
	} else {
		c.Bad("R2.8", "NewConnect#version", pos, fmt.Sprintf("the default protocol version is %d, MQTT v5.0 requires 5", ver))
	}
	if nameOK && name == "MQTT" {
		c.OK("R2.8", "NewConnect#name", pos, `the default protocol name is "MQTT"`)
	} else if nameOK {
		c.Bad("R2.8", "NewConnect#name", pos, fmt.Sprintf("the default protocol name is %q, MQTT v5.0 requires \"MQTT\"", name))
	} else {
		c.Unk("R2.8", "NewConnect#name", pos, "cannot determine the default protocol name as a constant")
	}
}
