package main

// Loop classification for termination rules (C05 R5.1, C19 R19.3).

import (
	"fmt"
	"go/token"
	"go/types"
	"math"

	"golang.org/x/tools/go/ssa"
)

type loopClass struct {
	Kind     string // "range", "counted", "cursor", "geometric", "divisive"
	Bound    string // "const" or "len"
	Why      string
	BoundVal ssa.Value // counted loops: the loop-invariant bound
}

// acyclicWithout: does removing the given blocks break every cycle of l?
func acyclicWithout(l *Loop, removed map[*ssa.BasicBlock]bool) bool {
	// DFS for a cycle in l.Blocks \ removed
	state := map[*ssa.BasicBlock]int{}
	var cyc bool
	var visit func(b *ssa.BasicBlock)
	visit = func(b *ssa.BasicBlock) {
		state[b] = 1
		for _, s := range b.Succs {
			if !l.Blocks[s] || removed[s] {
				continue
			}
			switch state[s] {
			case 0:
				visit(s)
			case 1:
				cyc = true
			}
		}
		state[b] = 2
	}
	for b := range l.Blocks {
		if !removed[b] && state[b] == 0 {
			visit(b)
		}
	}
	return !cyc
}

func definedOutside(l *Loop, v ssa.Value) bool {
	switch x := v.(type) {
	case *ssa.Const, *ssa.Parameter, *ssa.FreeVar, *ssa.Global:
		return true
	case ssa.Instruction:
		if !l.Blocks[x.Block()] {
			return true
		}
		// len/cap of an invariant value is invariant
		if c, ok := v.(*ssa.Call); ok {
			if bi, ok := c.Call.Value.(*ssa.Builtin); ok && (bi.Name() == "len" || bi.Name() == "cap") {
				return definedOutside(l, c.Call.Args[0])
			}
		}
		if ct, ok := v.(*ssa.ChangeType); ok {
			return definedOutside(l, ct.X)
		}
		if cv, ok := v.(*ssa.Convert); ok {
			return definedOutside(l, cv.X)
		}
	}
	return false
}

// inductionStep: v is phi or phi+c for a phi of the loop that is advanced by a
// positive constant on every back edge.
func inductionStep(l *Loop, v ssa.Value) (*ssa.Phi, bool) {
	var phi *ssa.Phi
	switch x := v.(type) {
	case *ssa.Phi:
		phi = x
	case *ssa.BinOp:
		if x.Op == token.ADD {
			if p, ok := x.X.(*ssa.Phi); ok {
				if k, ok := constInt(x.Y); ok && k >= 0 {
					phi = p
				}
			}
		}
	case *ssa.Convert:
		return inductionStep(l, x.X)
	case *ssa.Call:
		// `for len(s) < n { …; s = append(s, x) }`: the length of a slice that grows by a constant number of
		// elements on every back edge
		bi, ok := x.Call.Value.(*ssa.Builtin)
		if !ok || bi.Name() != "len" || len(x.Call.Args) != 1 {
			return nil, false
		}
		sp, ok := x.Call.Args[0].(*ssa.Phi)
		if !ok || !l.Blocks[sp.Block()] {
			return nil, false
		}
		if _, isSl := sp.Type().Underlying().(*types.Slice); !isSl {
			return nil, false
		}
		inside := 0
		for i, e := range sp.Edges {
			if !l.Blocks[sp.Block().Preds[i]] {
				continue
			}
			inside++
			ap, ok := e.(*ssa.Call)
			if !ok {
				return nil, false
			}
			ab, ok := ap.Call.Value.(*ssa.Builtin)
			if !ok || ab.Name() != "append" || len(ap.Call.Args) != 2 || ap.Call.Args[0] != ssa.Value(sp) {
				return nil, false
			}
			if k, ok := constLenOfBuf(ap.Call.Args[1]); !ok || k < 1 {
				return nil, false
			}
		}
		return sp, inside > 0
	}
	if phi == nil || !l.Blocks[phi.Block()] {
		return nil, false
	}
	inside := 0
	for i, e := range phi.Edges {
		pred := phi.Block().Preds[i]
		if !l.Blocks[pred] {
			continue
		}
		inside++
		bo, ok := e.(*ssa.BinOp)
		if !ok || bo.Op != token.ADD {
			return nil, false
		}
		k, isC := constInt(bo.Y)
		if bo.X != ssa.Value(phi) || !isC || k < 1 {
			return nil, false
		}
	}
	return phi, inside > 0
}

// inductionStepDown: v is a phi of the loop that is lowered by a positive constant on every back edge; returns the
// phi and the (largest) step.
func inductionStepDown(l *Loop, v ssa.Value) (*ssa.Phi, int64, bool) {
	if cv, ok := v.(*ssa.Convert); ok {
		return inductionStepDown(l, cv.X)
	}
	phi, ok := v.(*ssa.Phi)
	if !ok || !l.Blocks[phi.Block()] {
		return nil, 0, false
	}
	inside := 0
	var step int64
	for i, e := range phi.Edges {
		if !l.Blocks[phi.Block().Preds[i]] {
			continue
		}
		inside++
		bo, ok := e.(*ssa.BinOp)
		if !ok || bo.X != ssa.Value(phi) {
			return nil, 0, false
		}
		k, isC := constInt(bo.Y)
		switch {
		case isC && bo.Op == token.SUB && k >= 1:
		case isC && bo.Op == token.ADD && k <= -1:
			k = -k
		default:
			return nil, 0, false
		}
		if k > step {
			step = k
		}
	}
	return phi, step, inside > 0
}

// classifyLoop decides why loop l of fn terminates.
func (p *Prog) classifyLoop(fn *ssa.Function, l *Loop) (loopClass, bool) {
	// geometric / divisive first: they give constant bounds
	if lc, ok := p.geometricLoop(fn, l); ok {
		return lc, true
	}
	// the decoding loop of a variable-byte-integer decoder of another shape (per-byte step in a helper): by
	// evaluation (C15 R15.6) it gives up at the fifth byte however long the input is
	if r := p.vbiEvalFor(fn); r != nil && r.ok(fn) && r.boundedWork[fn] && len(AllLoops(fn)) == 1 {
		return loopClass{Kind: "geometric", Bound: "const", Why: "decoder of a variable byte integer: by evaluation it stops at the fifth byte at the latest, whatever follows (C15 R15.6)"}, true
	}
	// counted and range loops
	for b := range l.Blocks {
		iff, ok := terminator(b).(*ssa.If)
		if !ok {
			continue
		}
		exitsTrue, exitsFalse := !l.Blocks[b.Succs[0]], !l.Blocks[b.Succs[1]]
		if !exitsTrue && !exitsFalse {
			continue
		}
		if !acyclicWithout(l, map[*ssa.BasicBlock]bool{b: true}) {
			continue
		}
		// range over map / string: ok flag of Next
		if ex, ok := iff.Cond.(*ssa.Extract); ok && ex.Index == 0 {
			if nx, ok := ex.Tuple.(*ssa.Next); ok && exitsFalse {
				if r, ok := nx.Iter.(*ssa.Range); ok && !l.Blocks[r.Block()] {
					return loopClass{Kind: "range", Bound: "len", Why: "range over " + typeStr(r.X.Type()) + ": one iteration per element"}, true
				}
			}
		}
		bo, ok := iff.Cond.(*ssa.BinOp)
		if !ok {
			continue
		}
		// continue while ind < bound / ind <= bound
		try := func(ind, bound ssa.Value, op token.Token, contOnTrue bool) (loopClass, bool) {
			if op != token.LSS && op != token.LEQ {
				return loopClass{}, false
			}
			if contOnTrue != exitsFalse {
				return loopClass{}, false
			}
			phi, ok := inductionStep(l, ind)
			if !ok || !definedOutside(l, bound) {
				return loopClass{}, false
			}
			// a counter narrower than the type it is compared in (`for i := uint8(0); int(i) < len(codes); i++`) wraps
			// around before it reaches a bound above its own range
			if cv, isConv := ind.(*ssa.Convert); isConv {
				ft, ok1 := cv.X.Type().Underlying().(*types.Basic)
				tt, ok2 := cv.Type().Underlying().(*types.Basic)
				if ok1 && ok2 && p.U.Sizes.Sizeof(ft) < p.U.Sizes.Sizeof(tt) {
					lim := int64(1)<<uint(p.U.Sizes.Sizeof(ft)*8) - 1
					if ft.Info()&types.IsUnsigned == 0 {
						lim = int64(1)<<uint(p.U.Sizes.Sizeof(ft)*8-1) - 1
					}
					if k, isC := constInt(bound); !isC || k > lim {
						return loopClass{}, false
					}
				}
			}
			// the induction variable must be able to pass the bound without wrapping around in its own type
			// (`for b := byte(0); b <= 255; b++` never ends)
			if bt, isB := phi.Type().Underlying().(*types.Basic); isB && bt.Info()&types.IsInteger != 0 {
				var step int64 = 1
				for i, e := range phi.Edges {
					if l.Blocks[phi.Block().Preds[i]] {
						if add, ok := e.(*ssa.BinOp); ok {
							if k, isC := constInt(add.Y); isC && k > step {
								step = k
							}
						}
					}
				}
				bits := uint(p.U.Sizes.Sizeof(bt) * 8)
				var max int64 = math.MaxInt64
				if bits < 64 {
					max = int64(1)<<bits - 1
					if bt.Info()&types.IsUnsigned == 0 {
						max = int64(1)<<(bits-1) - 1
					}
				} else if bt.Info()&types.IsUnsigned == 0 {
					max = math.MaxInt64
				}
				last := step - 1 // with `<`: the largest value tested is bound-1+step-… ; the value after the last increment is at most bound-1+step
				if op == token.LEQ {
					last = step
				}
				if k, isC := constInt(bound); isC {
					if k > max-last {
						return loopClass{}, false
					}
				} else if bits < 64 && (op == token.LEQ || step > 1) {
					return loopClass{}, false // the bound may be the type's largest value
				}
			}
			kind := "counted"
			if phi.Comment == "rangeindex" || phi.Comment == "" {
				kind = "counted"
			}
			bk := "len"
			if _, isC := bound.(*ssa.Const); isC {
				bk = "const"
			}
			return loopClass{Kind: kind, Bound: bk, Why: "induction variable advances by a positive constant towards a loop-invariant bound; the test is on every cycle", BoundVal: bound}, true
		}
		// continue while ind > bound / ind >= bound, the induction variable counting down
		tryDown := func(ind, bound ssa.Value, op token.Token) (loopClass, bool) {
			if !exitsFalse {
				return loopClass{}, false
			}
			phi, step, ok := inductionStepDown(l, ind)
			if !ok || !definedOutside(l, bound) {
				return loopClass{}, false
			}
			bt, isB := phi.Type().Underlying().(*types.Basic)
			if !isB || bt.Info()&types.IsInteger == 0 {
				return loopClass{}, false
			}
			// the variable must be able to fall below the bound without wrapping around in its own type
			// (`for i := uint8(7); i >= 0; i--` never ends)
			bits := uint(p.U.Sizes.Sizeof(bt) * 8)
			var min int64 = math.MinInt64
			if bt.Info()&types.IsUnsigned != 0 {
				min = 0
			} else if bits < 64 {
				min = -(int64(1) << (bits - 1))
			}
			k, isC := constInt(bound)
			if !isC {
				return loopClass{}, false
			}
			last := k - step // with `>=`: the smallest value that still passes is bound; after the step: bound-step
			if op == token.GTR {
				last = k + 1 - step
			}
			if last < min {
				return loopClass{}, false
			}
			return loopClass{Kind: "counted", Bound: "const", Why: "induction variable is lowered by a positive constant towards a constant bound it can pass without wrapping; the test is on every cycle"}, true
		}
		switch bo.Op {
		case token.GTR, token.GEQ:
			if lc, ok := tryDown(bo.X, bo.Y, bo.Op); ok {
				return lc, true
			}
		}
		switch bo.Op {
		case token.LSS, token.LEQ:
			if lc, ok := try(bo.X, bo.Y, bo.Op, true); ok {
				return lc, true
			}
		case token.GTR:
			if lc, ok := try(bo.Y, bo.X, token.LSS, true); ok {
				return lc, true
			}
		case token.GEQ:
			if lc, ok := try(bo.Y, bo.X, token.LEQ, true); ok {
				return lc, true
			}
		}
	}
	if lc, ok := p.cursorLoop(fn, l); ok {
		return lc, true
	}
	return loopClass{}, false
}

// geometricLoop: m ← m·R (R >= 2) with an exit as soon as m > B, or
// x ← x / k (k >= 2, unsigned) with an exit as soon as x == 0; the update and
// the test are on every cycle.
// loopCondValue sees through a "keep going" flag: a boolean phi in the loop whose incoming values from outside
// the loop are the constant true and whose incoming values from inside are one and the same value B.  A test of
// the phi is then, on every visit but the first (where it lets the loop run), a test of B as computed at the
// end of the previous cycle:  for more := true; more; { ...; more = x > 0 }  ≡  for { ...; if !(x > 0) { break } }.
func loopCondValue(l *Loop, v ssa.Value) ssa.Value {
	phi, ok := v.(*ssa.Phi)
	if !ok || !l.Blocks[phi.Block()] {
		return v
	}
	if bt, ok := phi.Type().Underlying().(*types.Basic); !ok || bt.Kind() != types.Bool {
		return v
	}
	var inner ssa.Value
	for i, e := range phi.Edges {
		if !l.Blocks[phi.Block().Preds[i]] {
			if c, ok := e.(*ssa.Const); !ok || c.Value == nil || c.Value.String() != "true" {
				return v
			}
			continue
		}
		if inner != nil && inner != e {
			return v
		}
		inner = e
	}
	if inner == nil {
		return v
	}
	return inner
}

func (p *Prog) geometricLoop(fn *ssa.Function, l *Loop) (loopClass, bool) {
	for b := range l.Blocks {
		iff, ok := terminator(b).(*ssa.If)
		if !ok {
			continue
		}
		exitsTrue, exitsFalse := !l.Blocks[b.Succs[0]], !l.Blocks[b.Succs[1]]
		if !exitsTrue && !exitsFalse {
			continue
		}
		bo, ok := loopCondValue(l, iff.Cond).(*ssa.BinOp)
		if !ok {
			continue
		}
		if !acyclicWithout(l, map[*ssa.BasicBlock]bool{b: true}) {
			continue
		}
		// multiplicative
		if phi, ok := bo.X.(*ssa.Phi); ok && l.Blocks[phi.Block()] && (bo.Op == token.GTR || bo.Op == token.GEQ) && exitsTrue {
			if B, isC := constInt(bo.Y); isC {
				good := true
				var mulBlock *ssa.BasicBlock
				var c0, factor int64 = 1, 2
				for i, e := range phi.Edges {
					if !l.Blocks[phi.Block().Preds[i]] {
						if k, ok := constInt(e); !ok || k < 1 {
							good = false
						} else {
							c0 = k
						}
						continue
					}
					m, ok := e.(*ssa.BinOp)
					if !ok || m.X != ssa.Value(phi) {
						good = false
						continue
					}
					k, isK := constInt(m.Y)
					switch {
					case m.Op == token.MUL && isK && k >= 2:
						factor = k
					case m.Op == token.SHL && isK && k >= 1 && k < 32:
						factor = int64(1) << uint(k)
					default:
						good = false
					}
					mulBlock = m.Block()
				}
				// the multiplier must be able to pass the bound inside its own type: a byte that is doubled wraps from
				// 0x80 to 0 and never exceeds 1<<7
				if good {
					if bt, isB := phi.Type().Underlying().(*types.Basic); isB && bt.Info()&types.IsInteger != 0 {
						bits := uint(p.U.Sizes.Sizeof(bt) * 8)
						var max uint64 = math.MaxUint64
						if bt.Info()&types.IsUnsigned == 0 {
							max = uint64(1)<<(bits-1) - 1
						} else if bits < 64 {
							max = uint64(1)<<bits - 1
						}
						v := uint64(c0)
						for steps := 0; steps < 70; steps++ {
							if int64(v) > B || (bo.Op == token.GEQ && int64(v) >= B) {
								break
							}
							if v > max/uint64(factor) {
								good = false // the next step leaves the type's range before the bound is passed
								break
							}
							v *= uint64(factor)
						}
					}
				}
				if good && mulBlock != nil {
					return loopClass{Kind: "geometric", Bound: "const", Why: "multiplier grows by a constant factor >= 2 and the loop is left once it exceeds a constant"}, true
				}
			}
		}
		// divisive, test on the running value itself: continue while x >= K (K >= 1), x <- x / k (k >= 2)
		if phi, ok := bo.X.(*ssa.Phi); ok && l.Blocks[phi.Block()] {
			if K, isC := constInt(bo.Y); isC && (K >= 1 && (bo.Op == token.GEQ && exitsFalse || bo.Op == token.LSS && exitsTrue) || K >= 0 && bo.Op == token.GTR && exitsFalse || K == 0 && bo.Op == token.NEQ && exitsFalse) {
				bt, isB := phi.Type().Underlying().(*types.Basic)
				good := isB && bt.Info()&types.IsUnsigned != 0
				n := 0
				for i, e := range phi.Edges {
					if !l.Blocks[phi.Block().Preds[i]] {
						continue
					}
					n++
					div, ok := e.(*ssa.BinOp)
					if !ok || div.X != ssa.Value(phi) {
						good = false
						continue
					}
					k, isK := constInt(div.Y)
					switch {
					case div.Op == token.QUO && isK && k >= 2:
					case div.Op == token.SHR && isK && k >= 1:
					default:
						good = false
					}
				}
				if good && n > 0 {
					return loopClass{Kind: "divisive", Bound: "const", Why: "an unsigned value is divided by a constant >= 2 on every cycle and the loop is left once it drops below a positive constant"}, true
				}
			}
		}
		// divisive: exit when x == 0 where x = phi / k  or the phi itself
		if k0, isC := constInt(bo.Y); isC && k0 == 0 && (bo.Op == token.EQL && exitsTrue || bo.Op == token.NEQ && exitsFalse || bo.Op == token.GTR && exitsFalse) {
			v := bo.X
			div, ok := v.(*ssa.BinOp)
			if !ok || div.Op != token.QUO {
				continue
			}
			k, isK := constInt(div.Y)
			phi, isPhi := div.X.(*ssa.Phi)
			bt, isB := div.Type().Underlying().(*types.Basic)
			if !isK || k < 2 || !isPhi || !l.Blocks[phi.Block()] || !isB || bt.Info()&types.IsUnsigned == 0 {
				continue
			}
			good := true
			for i, e := range phi.Edges {
				if l.Blocks[phi.Block().Preds[i]] && e != ssa.Value(div) {
					good = false
				}
			}
			if good {
				return loopClass{Kind: "divisive", Bound: "const", Why: "an unsigned value is divided by a constant >= 2 on every cycle and the loop is left when it reaches 0"}, true
			}
		}
	}
	return loopClass{}, false
}

// cursorLoop: every cycle calls the sequential reader's guarded primitive with
// a value of width >= 1 and tests the reader's sticky error, leaving the loop
// when it is set.
func (p *Prog) cursorLoop(fn *ssa.Function, l *Loop) (loopClass, bool) {
	cur := p.Cursor()
	if cur.G == nil {
		return loopClass{}, false
	}
	pr := NewProver(p, fn)
	getBlocks := map[string]map[*ssa.BasicBlock]bool{} // cursor object key -> blocks with a qualifying get
	testBlocks := map[string]map[*ssa.BasicBlock]bool{}
	for b := range l.Blocks {
		for _, ins := range b.Instrs {
			call, ok := ins.(*ssa.Call)
			if !ok {
				continue
			}
			callees, _ := p.CG().Callees(call)
			if len(callees) != 1 {
				continue
			}
			var obj, arg ssa.Value
			switch {
			case callees[0] == cur.G && len(call.Call.Args) == 2:
				obj, arg = call.Call.Args[0], call.Call.Args[1]
			case callees[0] != cur.G && len(call.Call.Args) >= 1 && p.readerHelperConsumes(cur, callees[0], 0):
				// a helper of the reader that, on every path, reads a value of width >= 1 through the guarded
				// primitive (`f, err := b.getTopicFilter()`)
				k := pr.key(call.Call.Args[0])
				if getBlocks[k] == nil {
					getBlocks[k] = map[*ssa.BasicBlock]bool{}
				}
				getBlocks[k][b] = true
				continue
			case callees[0].Synthetic != "" && len(callees[0].FreeVars) == 1 && len(call.Call.Args) == 1:
				// bound method value of G
				isG := false
				for _, ci := range p.Calls(callees[0]) {
					for _, c2 := range ci.Callees {
						if c2 == cur.G {
							isG = true
						}
					}
				}
				if !isG {
					continue
				}
				mc := resolveClosure(call.Call.Value)
				if mc == nil {
					continue
				}
				obj, arg = mc.Bindings[0], call.Call.Args[0]
			default:
				continue
			}
			mi, ok := arg.(*ssa.MakeInterface)
			if !ok {
				continue
			}
			if w := p.widthLower(mi.X.Type()); w < 1 {
				continue
			}
			k := pr.key(obj)
			if getBlocks[k] == nil {
				getBlocks[k] = map[*ssa.BasicBlock]bool{}
			}
			getBlocks[k][b] = true
		}
		iff, ok := terminator(b).(*ssa.If)
		if !ok {
			continue
		}
		bo, ok := iff.Cond.(*ssa.BinOp)
		if !ok || (bo.Op != token.NEQ && bo.Op != token.EQL) || !isNilConst(bo.Y) {
			continue
		}
		var base ssa.Value
		if ld, ok := bo.X.(*ssa.UnOp); ok && ld.Op == token.MUL {
			if bb, ok := cur.isField(ld.X, cur.E); ok {
				base = bb
			}
		}
		// … or the error a helper of the reader hands back as the reader's own
		if ex, ok := bo.X.(*ssa.Extract); ok && base == nil {
			if hc, ok := ex.Tuple.(*ssa.Call); ok {
				if sc := hc.Call.StaticCallee(); sc != nil {
					if k := p.helperReturnsSticky(cur, sc, ex.Index, 0); k >= 0 && k < len(hc.Call.Args) {
						base = hc.Call.Args[k]
					}
				}
			}
		}
		// … or through an accessor (`if b.Err() != nil`)
		if hc, ok := bo.X.(*ssa.Call); ok && base == nil {
			if sc := hc.Call.StaticCallee(); sc != nil && sc.Signature.Results().Len() == 1 {
				if k := p.helperReturnsSticky(cur, sc, 0, 0); k >= 0 && k < len(hc.Call.Args) {
					base = hc.Call.Args[k]
				}
			}
		}
		if base == nil {
			continue
		}
		errSucc := 0
		if bo.Op == token.EQL {
			errSucc = 1
		}
		if l.Blocks[b.Succs[errSucc]] {
			continue
		}
		k := pr.key(base)
		if testBlocks[k] == nil {
			testBlocks[k] = map[*ssa.BasicBlock]bool{}
		}
		testBlocks[k][b] = true
	}
	for k, gb := range getBlocks {
		tb := testBlocks[k]
		if len(tb) == 0 {
			continue
		}
		if acyclicWithout(l, gb) && acyclicWithout(l, tb) {
			return loopClass{Kind: "cursor", Bound: "len", Why: "every cycle reads a value of width >= 1 through the guarded primitive (which advances the offset, bounded by len(data), or sets the sticky error) and leaves the loop when the error is set"}, true
		}
	}
	return loopClass{}, false
}

// resolveClosure follows a function value back to the MakeClosure that
// produced it (directly or through a private local variable cell).
func resolveClosure(v ssa.Value) *ssa.MakeClosure {
	switch x := v.(type) {
	case *ssa.MakeClosure:
		return x
	case *ssa.UnOp:
		if x.Op != token.MUL {
			return nil
		}
		al, ok := x.X.(*ssa.Alloc)
		if !ok || !allocIsPrivate(al) {
			return nil
		}
		var mc *ssa.MakeClosure
		n := 0
		for _, r := range *al.Referrers() {
			if st, ok := r.(*ssa.Store); ok {
				n++
				mc, _ = st.Val.(*ssa.MakeClosure)
			}
		}
		if n == 1 {
			return mc
		}
	}
	return nil
}

// widthLower: proven lower bound of width() for the wire type behind a
// pointer type *T.
func (p *Prog) widthLower(t types.Type) float64 {
	ms := p.Prog.MethodSets.MethodSet(t)
	sel := ms.Lookup(p.Pkg, "width")
	if sel == nil {
		return math.Inf(-1)
	}
	fn := p.Prog.MethodValue(sel)
	if fn == nil {
		return math.Inf(-1)
	}
	return p.retSummary(fn).lower
}

// loopsIn lists the loops of every function in the set, with a stable name.
type namedLoop struct {
	Fn   *ssa.Function
	L    *Loop
	Name string
}

func (p *Prog) loopsIn(fns map[*ssa.Function]bool) []namedLoop {
	var out []namedLoop
	for _, fn := range sortedFuncs(fns) {
		for i, l := range AllLoops(fn) {
			out = append(out, namedLoop{fn, l, fmt.Sprintf("%s#loop%d", qname(fn), i+1)})
		}
	}
	return out
}

// readerHelperConsumes: h is a method of the sequential reader (first parameter) that, on every path to a return,
// reads a value of width >= 1 through the guarded primitive, stores a non-nil error, or calls a helper that does.
func (p *Prog) readerHelperConsumes(cur *Cursor, h *ssa.Function, depth int) bool {
	if h == nil || len(h.Blocks) == 0 || depth > 3 || !p.inMQ(h) || len(h.Params) == 0 || len(AllLoops(h)) > 0 {
		return false
	}
	pt, ok := h.Params[0].Type().Underlying().(*types.Pointer)
	if !ok || !types.Identical(pt.Elem(), cur.T) {
		return false
	}
	key := "rhc:" + qname(h)
	if v, ok := p.cache[key]; ok {
		return v.(bool)
	}
	p.cache[key] = false
	hpr := NewProver(p, h)
	done := map[*ssa.BasicBlock]bool{}
	for _, b := range h.Blocks {
		for _, ins := range b.Instrs {
			switch x := ins.(type) {
			case *ssa.Call:
				callees, _ := p.CG().Callees(x)
				if len(callees) != 1 || len(x.Call.Args) == 0 || x.Call.Args[0] != ssa.Value(h.Params[0]) {
					continue
				}
				if callees[0] == cur.G && len(x.Call.Args) == 2 {
					if mi, ok := x.Call.Args[1].(*ssa.MakeInterface); ok && p.widthLower(mi.X.Type()) >= 1 {
						done[b] = true
					}
				} else if callees[0] != cur.G && p.readerHelperConsumes(cur, callees[0], depth+1) {
					done[b] = true
				}
			case *ssa.Store:
				if bb, ok := cur.isField(x.Addr, cur.E); ok && bb == ssa.Value(h.Params[0]) && hpr.NonNil(x.Val, b, 0) {
					done[b] = true
				}
			}
		}
	}
	res := true
	seen := map[*ssa.BasicBlock]bool{}
	var dfs func(b *ssa.BasicBlock)
	dfs = func(b *ssa.BasicBlock) {
		if seen[b] || done[b] {
			return
		}
		seen[b] = true
		if _, isRet := terminator(b).(*ssa.Return); isRet {
			res = false
		}
		for _, sc := range b.Succs {
			dfs(sc)
		}
	}
	dfs(h.Blocks[0])
	p.cache[key] = res
	return res
}
