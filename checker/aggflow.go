package main

import (
	"fmt"
	"go/token"
	"go/types"
	"os"

	"golang.org/x/tools/go/ssa"
)

// Values of a field through copies of small aggregates: `for _, f := range p.singleProps() { f.field.fillProp(…) }`
// reads field `field` of a local struct that is a copy of an element of an array value returned by a function whose
// composite literal sets that field in every element.  aggLeaf is one value the field may hold, with the function it
// lives in.
type aggLeaf struct {
	v  ssa.Value
	fn *ssa.Function
}

// structFieldLeaves: the values field f of the struct VALUE v may hold (flow-insensitive over local composite
// temporaries, which are written before they are read).  ok is false when a source is not understood.
func (p *Prog) structFieldLeaves(v ssa.Value, f int, depth int) ([]aggLeaf, bool) {
	if depth > 14 {
		return aggFail(1)
	}
	switch x := v.(type) {
	case *ssa.UnOp:
		if x.Op != token.MUL {
			return aggFail(2)
		}
		al, ok := x.X.(*ssa.Alloc)
		if !ok {
			return aggFail(3)
		}
		return p.localStructFieldLeaves(al, f, depth, x)
	case *ssa.Index:
		elems, ok := p.arrayElemValues(x.X, f, depth+1)
		if !ok {
			return aggFail(4)
		}
		var out []aggLeaf
		for _, e := range elems {
			if e.field >= 0 {
				// element given field by field: the store into field f, if this is it
				if e.field == f {
					out = append(out, aggLeaf{e.v, e.fn})
				}
				continue
			}
			ls, ok := p.structFieldLeaves(e.v, f, depth+1)
			if !ok {
				return aggFail(5)
			}
			out = append(out, ls...)
		}
		return out, len(out) > 0
	case *ssa.Parameter:
		// a struct handed in by value to an unexported function that is only ever called directly: what its call
		// sites pass
		fn := x.Parent()
		sites, ok := p.staticCallSites(fn)
		k := paramIndex(fn, x)
		if !ok || len(sites) == 0 || k < 0 {
			return aggFail(32)
		}
		var out []aggLeaf
		for _, site := range sites {
			if k >= len(site.Call.Args) {
				return aggFail(33)
			}
			ls, ok := p.structFieldLeaves(site.Call.Args[k], f, depth+1)
			if !ok {
				return aggFail(34)
			}
			out = append(out, ls...)
		}
		return out, len(out) > 0
	case *ssa.Phi:
		var out []aggLeaf
		for _, e := range x.Edges {
			ls, ok := p.structFieldLeaves(e, f, depth+1)
			if !ok {
				return aggFail(6)
			}
			out = append(out, ls...)
		}
		return out, len(out) > 0
	case *ssa.Call:
		sc := x.Call.StaticCallee()
		if sc == nil || len(sc.Blocks) == 0 || !p.inMQ(sc) || sc.Signature.Results().Len() != 1 {
			return aggFail(7)
		}
		var out []aggLeaf
		for _, b := range sc.Blocks {
			if ret, ok := terminator(b).(*ssa.Return); ok {
				ls, ok := p.structFieldLeaves(ret.Results[0], f, depth+1)
				if !ok {
					return aggFail(8)
				}
				out = append(out, ls...)
			}
		}
		return out, len(out) > 0
	}
	return aggFail(9)
}

// localStructFieldLeaves: what field f of the local struct variable al may hold: every use of al is a whole-struct
// store, a whole-struct load, or a field address that is only stored through (field f: the value) or loaded from.
func (p *Prog) localStructFieldLeaves(al *ssa.Alloc, f int, depth int, at ssa.Instruction) ([]aggLeaf, bool) {
	if al.Referrers() == nil {
		return aggFail(10)
	}
	if _, isStruct := al.Type().Underlying().(*types.Pointer).Elem().Underlying().(*types.Struct); !isStruct {
		return aggFail(11)
	}
	var out []aggLeaf
	// the field must have been given a value on every path to the read
	covered := false
	before := func(st *ssa.Store) bool {
		if at == nil || at.Block() == nil {
			return false
		}
		if st.Block() == at.Block() {
			return instrIndex(st) < instrIndex(at)
		}
		return st.Block().Dominates(at.Block())
	}
	defer func() { _ = covered }()
	for _, r := range *al.Referrers() {
		switch y := r.(type) {
		case *ssa.DebugRef:
		case *ssa.UnOp:
			if y.Op != token.MUL {
				return aggFail(12)
			}
		case *ssa.Store:
			if y.Addr != ssa.Value(al) {
				return aggFail(13) // the address escapes
			}
			if before(y) {
				covered = true
			}
			ls, ok := p.structFieldLeaves(y.Val, f, depth+1)
			if !ok {
				return aggFail(14)
			}
			out = append(out, ls...)
		case *ssa.FieldAddr:
			if y.Referrers() == nil {
				continue
			}
			for _, r2 := range *y.Referrers() {
				switch z := r2.(type) {
				case *ssa.DebugRef:
				case *ssa.UnOp:
					if z.Op != token.MUL {
						return aggFail(15)
					}
				case *ssa.Store:
					if z.Addr != ssa.Value(y) {
						return aggFail(16)
					}
					if y.Field == f {
						if before(z) {
							covered = true
						}
						out = append(out, aggLeaf{z.Val, al.Parent()})
					}
				default:
					return aggFail(17)
				}
			}
		default:
			return aggFail(18)
		}
	}
	if !covered {
		return aggFail(18)
	}
	return out, len(out) > 0
}

type aggElem struct {
	v     ssa.Value // the element (a struct value), or the value stored into one field of it
	field int       // -1: whole element
	fn    *ssa.Function
}

// arrayElemValues: the elements of the array VALUE v, when it is the content of a local array filled element by
// element at constant indices (every index of the array), or the result of an mq function returning such an array.
func (p *Prog) arrayElemValues(v ssa.Value, f int, depth int) ([]aggElem, bool) {
	if depth > 6 {
		return aggFailE(19)
	}
	switch x := v.(type) {
	case *ssa.Call:
		sc := x.Call.StaticCallee()
		if sc == nil || len(sc.Blocks) == 0 || !p.inMQ(sc) || sc.Signature.Results().Len() != 1 {
			return aggFailE(20)
		}
		var out []aggElem
		for _, b := range sc.Blocks {
			if ret, ok := terminator(b).(*ssa.Return); ok {
				es, ok := p.arrayElemValues(ret.Results[0], f, depth+1)
				if !ok {
					return aggFailE(21)
				}
				out = append(out, es...)
			}
		}
		return out, len(out) > 0
	case *ssa.UnOp:
		if x.Op != token.MUL {
			return aggFailE(22)
		}
		al, ok := x.X.(*ssa.Alloc)
		if !ok || al.Referrers() == nil {
			return aggFailE(23)
		}
		at, isArr := al.Type().Underlying().(*types.Pointer).Elem().Underlying().(*types.Array)
		if !isArr {
			return aggFailE(24)
		}
		whole := map[int64]bool{}
		var out []aggElem
		// an index counts as filled only by a store that is made on every path to the load of the array (a store
		// under a condition leaves the zero value on the other path)
		before := func(st *ssa.Store) bool {
			if st.Block() == x.Block() {
				return instrIndex(st) < instrIndex(x)
			}
			return st.Block().Dominates(x.Block())
		}
		for _, r := range *al.Referrers() {
			switch y := r.(type) {
			case *ssa.DebugRef:
			case *ssa.UnOp:
				if y.Op != token.MUL {
					return aggFailE(25)
				}
			case *ssa.IndexAddr:
				k, isC := constInt(y.Index)
				if !isC || y.Referrers() == nil {
					return aggFailE(26)
				}
				for _, r2 := range *y.Referrers() {
					switch z := r2.(type) {
					case *ssa.DebugRef:
					case *ssa.Store:
						if z.Addr != ssa.Value(y) {
							return aggFailE(27)
						}
						if before(z) {
							whole[k] = true
						}
						out = append(out, aggElem{z.Val, -1, al.Parent()})
					case *ssa.FieldAddr:
						// the element built in place, field by field
						if z.Referrers() == nil {
							continue
						}
						for _, r3 := range *z.Referrers() {
							switch w := r3.(type) {
							case *ssa.DebugRef:
							case *ssa.Store:
								if w.Addr != ssa.Value(z) {
									return aggFailE(27)
								}
								if z.Field == f {
									if before(w) {
										whole[k] = true
									}
									out = append(out, aggElem{w.Val, f, al.Parent()})
								}
							default:
								return aggFailE(28)
							}
						}
					default:
						return aggFailE(28)
					}
				}
			default:
				return aggFailE(29)
			}
		}
		if int64(len(whole)) != at.Len() {
			return aggFailE(30) // an element left at its zero value
		}
		return out, true
	}
	return aggFailE(31)
}

// aggFieldStrongNonNil: the interface (or pointer) loaded from field fa of a local struct is strongly non-nil
// because every value the field may hold is.
func (p *Prog) aggFieldStrongNonNil(ld *ssa.UnOp) bool {
	fa, ok := ld.X.(*ssa.FieldAddr)
	if !ok || ld.Op != token.MUL {
		return false
	}
	al, ok := fa.X.(*ssa.Alloc)
	if !ok {
		return false
	}
	leaves, ok := p.localStructFieldLeaves(al, fa.Field, 0, ld)
	if os.Getenv("MQV_AGG") != "" {
		fmt.Fprintf(os.Stderr, "agg %s field %d: ok=%v leaves=%d\n", al.Parent(), fa.Field, ok, len(leaves))
	}
	if !ok || len(leaves) == 0 {
		return false
	}
	provers := map[*ssa.Function]*Prover{}
	for _, l := range leaves {
		if l.fn == nil {
			return false
		}
		pr := provers[l.fn]
		if pr == nil {
			pr = NewProver(p, l.fn)
			pr.assumeContracts()
			provers[l.fn] = pr
		}
		ins, isIns := l.v.(ssa.Instruction)
		if !isIns || ins.Block() == nil {
			return false
		}
		if !isStrongNonNil(pr, l.v, ins.Block()) {
			if os.Getenv("MQV_AGG") != "" {
				fmt.Fprintf(os.Stderr, "agg leaf not strong: %s in %s\n", l.v, l.fn)
			}
			return false
		}
	}
	return true
}

func aggFail(k int) ([]aggLeaf, bool) {
	if os.Getenv("MQV_AGG") != "" {
		fmt.Fprintf(os.Stderr, "aggfail %d\n", k)
	}
	return nil, false
}

func aggFailE(k int) ([]aggElem, bool) {
	aggFail(k)
	return nil, false
}
