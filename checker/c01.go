package main

// C01 — write then read returns the same packet, field for field
// (the structural necessary conditions; see DESIGN §4 C01).

import (
	"fmt"
	"go/token"
	"go/types"
	"sort"
	"strings"

	"golang.org/x/tools/go/ssa"
)

func init() {
	register(&PropertyCheck{ID: "C01", Level: "other", Run: checkC01, Canaries: []Canary{
		{Name: "rf8-single-byte-types-delegate-to-bits", Silent: true, Edits: []Edit{{"wiretypes.go", "\tif len(data) >= i+1 {\n\t\tif v {\n\t\t\tdata[i] = 0x01\n\t\t} else {\n\t\t\tdata[i] = 0x00\n\t\t}\n\t}\n\treturn 1\n}\nfunc (v *wbool) UnmarshalBinary(data []byte) error {\n\tif len(data) < 1 {\n\t\treturn ErrMissingData\n\t}\n\tswitch data[0] {\n\tcase 0:\n\t\t*v = wbool(false)\n\tcase 1:\n\t\t*v = wbool(true)\n\tdefault:\n\t\treturn fmt.Errorf(\"malformed bool\")\n\t}\n\treturn nil\n}\nfunc (v wbool) width() int { return 1 }\n\n// https://docs.oasis-open.org/mqtt/mqtt/v5.0/os/mqtt-v5.0-os.html#_Toc3901007\ntype bits byte\n\nfunc (v bits) Has(b byte) bool { return byte(v)&b == b }\n\nfunc (v bits) fillProp(data []byte, i int, id Ident) int {\n\tif v == 0 {\n\t\treturn 0\n\t}\n\tn := i\n\ti += id.fill(data, i)\n\ti += v.fill(data, i)\n\treturn i - n\n}\n\nfunc (v bits) fill(data []byte, i int) int {\n\tif len(data) >= i+1 {\n\t\tdata[i] = byte(v)\n\t}\n\treturn 1\n}\n\n// fillOpt fills the bits if > 0\nfunc (v bits) fillOpt(data []byte, i int) int {\n\tif v == 0 {\n\t\treturn 0\n\t}\n\treturn v.fill(data, i)\n}\n\nfunc (v *bits) ReadFrom(r io.Reader) (int64, error) {\n\tdata := make([]byte, 1)\n\tif n, err := io.ReadFull(r, data); err != nil {\n\t\treturn int64(n), err\n\t}\n\treturn 1, v.UnmarshalBinary(data)\n}\nfunc (v *bits) UnmarshalBinary(data []byte) error {\n\tif len(data) < 1 {\n\t\treturn ErrMissingData\n\t}\n\t*v = bits(data[0])\n\treturn nil\n}\nfunc (v bits) width() int { return 1 }\nfunc (v *bits) toggle(flag byte, on bool) {\n\tif on {\n\t\t*v = *v | bits(flag)\n\t\treturn\n\t}\n\t*v = *v & bits(^flag)\n}\n\n// https://docs.oasis-open.org/mqtt/mqtt/v5.0/os/mqtt-v5.0-os.html#_Toc3901008\ntype wuint16 uint16\n\nfunc (v wuint16) fillProp(data []byte, i int, id Ident) int {\n\tif v == 0 {\n\t\treturn 0\n\t}\n\tn := i\n\ti += id.fill(data, i)\n\ti += v.fill(data, i)\n\treturn i - n\n}\n\nfunc (v wuint16) fill(data []byte, i int) int {\n\tif len(data) >= i+2 {\n\t\tbinary.BigEndian.PutUint16(data[i:], uint16(v))\n\t}\n\treturn 2\n}\n\nfunc (v *wuint16) UnmarshalBinary(data []byte) error {\n\tif len(data) < 2 {\n\t\treturn ErrMissingData\n\t}\n\t*v = wuint16(binary.BigEndian.Uint16(data))\n\treturn nil\n}\n\nfunc (v wuint16) width() int { return 2 }\n\n// https://docs.oasis-open.org/mqtt/mqtt/v5.0/os/mqtt-v5.0-os.html#_Toc3901009\ntype wuint32 uint32\n\nfunc (v wuint32) fillProp(data []byte, i int, id Ident) int {\n\tif v == 0 {\n\t\treturn 0\n\t}\n\tn := i\n\ti += id.fill(data, i)\n\ti += v.fill(data, i)\n\treturn i - n\n}\n\nfunc (v wuint32) fill(data []byte, i int) int {\n\tif len(data) >= i+v.width() {\n\t\tbinary.BigEndian.PutUint32(data[i:], uint32(v))\n\t}\n\treturn v.width()\n}\n\nfunc (v *wuint32) UnmarshalBinary(data []byte) error {\n\tif len(data) < 4 {\n\t\treturn ErrMissingData\n\t}\n\t*v = wuint32(binary.BigEndian.Uint32(data))\n\treturn nil\n}\n\nfunc (v wuint32) width() int { return 4 }\n\n// only here to fulfill interface\nfunc (v Ident) fillProp(data []byte, i int, id Ident) int { return 0 }\n\nfunc (v Ident) fill(data []byte, i int) int {\n\tif len(data) >= i+1 {\n\t\tdata[i] = byte(v)\n\t}\n\treturn 1\n}\n\nfunc (v *Ident) UnmarshalBinary(data []byte) error {\n\tif len(data) < 1 {\n\t\treturn ErrMissingData\n\t}\n\t*v = Ident(data[0])\n\treturn nil", "\treturn v.wire().fill(data, i)\n}\n\n// wire returns the byte sent for v, 0x01 for true and 0x00 for false.\nfunc (v wbool) wire() bits {\n\tif v {\n\t\treturn 0x01\n\t}\n\treturn 0x00\n}\nfunc (v *wbool) UnmarshalBinary(data []byte) error {\n\tvar b bits\n\tif err := b.UnmarshalBinary(data); err != nil {\n\t\treturn err\n\t}\n\tswitch b {\n\tcase 0x00:\n\t\t*v = false\n\tcase 0x01:\n\t\t*v = true\n\tdefault:\n\t\treturn fmt.Errorf(\"malformed bool\")\n\t}\n\treturn nil\n}\nfunc (v wbool) width() int { return 1 }\n\n// https://docs.oasis-open.org/mqtt/mqtt/v5.0/os/mqtt-v5.0-os.html#_Toc3901007\ntype bits byte\n\nfunc (v bits) Has(b byte) bool { return byte(v)&b == b }\n\nfunc (v bits) fillProp(data []byte, i int, id Ident) int {\n\tif v == 0 {\n\t\treturn 0\n\t}\n\tn := i\n\ti += id.fill(data, i)\n\ti += v.fill(data, i)\n\treturn i - n\n}\n\nfunc (v bits) fill(data []byte, i int) int {\n\tif len(data) >= i+1 {\n\t\tdata[i] = byte(v)\n\t}\n\treturn 1\n}\n\n// fillOpt fills the bits if > 0\nfunc (v bits) fillOpt(data []byte, i int) int {\n\tif v == 0 {\n\t\treturn 0\n\t}\n\treturn v.fill(data, i)\n}\n\nfunc (v *bits) ReadFrom(r io.Reader) (int64, error) {\n\tdata := make([]byte, 1)\n\tif n, err := io.ReadFull(r, data); err != nil {\n\t\treturn int64(n), err\n\t}\n\treturn 1, v.UnmarshalBinary(data)\n}\nfunc (v *bits) UnmarshalBinary(data []byte) error {\n\tif len(data) < 1 {\n\t\treturn ErrMissingData\n\t}\n\t*v = bits(data[0])\n\treturn nil\n}\nfunc (v bits) width() int { return 1 }\nfunc (v *bits) toggle(flag byte, on bool) {\n\tmask := bits(flag)\n\tx := *v &^ mask // flag cleared\n\tif on {\n\t\tx |= mask\n\t}\n\t*v = x\n}\n\n// https://docs.oasis-open.org/mqtt/mqtt/v5.0/os/mqtt-v5.0-os.html#_Toc3901008\ntype wuint16 uint16\n\nfunc (v wuint16) fillProp(data []byte, i int, id Ident) int {\n\tif v == 0 {\n\t\treturn 0\n\t}\n\tn := i\n\ti += id.fill(data, i)\n\ti += v.fill(data, i)\n\treturn i - n\n}\n\nfunc (v wuint16) fill(data []byte, i int) int {\n\tif len(data) >= i+2 {\n\t\tbinary.BigEndian.PutUint16(data[i:], uint16(v))\n\t}\n\treturn 2\n}\n\nfunc (v *wuint16) UnmarshalBinary(data []byte) error {\n\tif len(data) < 2 {\n\t\treturn ErrMissingData\n\t}\n\t*v = wuint16(binary.BigEndian.Uint16(data))\n\treturn nil\n}\n\nfunc (v wuint16) width() int { return 2 }\n\n// https://docs.oasis-open.org/mqtt/mqtt/v5.0/os/mqtt-v5.0-os.html#_Toc3901009\ntype wuint32 uint32\n\nfunc (v wuint32) fillProp(data []byte, i int, id Ident) int {\n\tif v == 0 {\n\t\treturn 0\n\t}\n\tn := i\n\ti += id.fill(data, i)\n\ti += v.fill(data, i)\n\treturn i - n\n}\n\nfunc (v wuint32) fill(data []byte, i int) int {\n\tif len(data) >= i+v.width() {\n\t\tbinary.BigEndian.PutUint32(data[i:], uint32(v))\n\t}\n\treturn v.width()\n}\n\nfunc (v *wuint32) UnmarshalBinary(data []byte) error {\n\tif len(data) < 4 {\n\t\treturn ErrMissingData\n\t}\n\t*v = wuint32(binary.BigEndian.Uint32(data))\n\treturn nil\n}\n\nfunc (v wuint32) width() int { return 4 }\n\n// only here to fulfill interface\nfunc (v Ident) fillProp(data []byte, i int, id Ident) int { return 0 }\n\n// An Ident is a single byte on the wire, same as bits.\nfunc (v Ident) fill(data []byte, i int) int {\n\treturn bits(v).fill(data, i)\n}\n\nfunc (v *Ident) UnmarshalBinary(data []byte) error {\n\treturn (*bits)(v).UnmarshalBinary(data)"}}},
		{Name: "adv5-A2-fillprop-with-an-encoding-of-its-own", Rule: "R1.4", Where: "bindata#fillProp", Edits: []Edit{{"wiretypes.go", "\tif len(v) == 0 {\n\t\treturn 0\n\t}\n\tn := i\n\ti += id.fill(data, i)\n\ti += v.fill(data, i)\n\treturn i - n", "\tif len(v) == 0 {\n\t\treturn 0\n\t}\n\treturn v.fillTagged(data, i, id)\n}\n\n// fillTagged writes the identifier, the two byte length and the value\n// in one go.\nfunc (v bindata) fillTagged(data []byte, i int, id Ident) int {\n\tn := 1 + v.width()\n\tif len(data) >= i+n {\n\t\tdata[i] = byte(id)\n\t\tdata[i+1] = byte(len(v)) >> 8\n\t\tdata[i+2] = byte(len(v))\n\t\tcopy(data[i+3:], v)\n\t}\n\treturn n"}}},
		{Name: "rf7-u16-decoded-little-endian-by-shifts", Rule: "R1.4", Where: "wuint16", Edits: []Edit{{"wiretypes.go", "\t\"encoding/binary\"\n\t\"fmt\"\n\t\"io\"\n\t\"strings\"\n)\n\n// wireType defines the interface for types that can be send over the\n// wire\ntype wireType interface {\n\tencoding.BinaryUnmarshaler\n\n\t// fill unmarshals the data type into buf at position i. The\n\t// returned value is the width of the data marshaled.  fill should\n\t// work with a nil buf as a noop but return the width.  This\n\t// enables efficient calculation of partial lengths without\n\t// actually allocating a buf.\n\tfill(buf []byte, i int) int\n\n\t// fillProp fills the identified UserProp if not empty as this is\n\t// the case for most UserProp values.\n\tfillProp(buf []byte, i int, id Ident) int\n\n\t// returns the width of the wire data in bytes\n\twidth() int\n}\n\n// firstByte represents the first byte in a control packet.\ntype firstByte byte\n\n// String returns a readable string TYPEFLAGS, e.g. PUBLISH d1-r\nfunc (f firstByte) String() string {\n\tvar sb strings.Builder\n\tsb.WriteString(typeNames[byte(f)&0b1111_0000])\n\tsb.WriteString(\" \")\n\tflags := []byte(\"----\")\n\tif bits(f).Has(DUP) {\n\t\tflags[0] = 'd'\n\t}\n\tswitch {\n\tcase bits(f).Has(QoS3):\n\t\tflags[1] = '!' // malformed\n\t\tflags[2] = '!' // malformed\n\tcase bits(f).Has(QoS1):\n\t\tflags[2] = '1'\n\tcase bits(f).Has(QoS2):\n\t\tflags[1] = '2'\n\t}\n\tif bits(f).Has(RETAIN) {\n\t\tflags[3] = 'r'\n\t}\n\tsb.Write(flags)\n\treturn sb.String()\n}\n\n// https://docs.oasis-open.org/mqtt/mqtt/v5.0/os/mqtt-v5.0-os.html#_Toc3901013\ntype UserProp [2]string\n\nfunc (v UserProp) fillProp(data []byte, i int, id Ident) int {\n\tif len(v[0]) == 0 {\n\t\treturn 0\n\t}\n\tn := i\n\ti += id.fill(data, i)\n\ti += v.fill(data, i)\n\treturn i - n\n}\nfunc (v UserProp) fill(data []byte, i int) int {\n\ti += wstring(v[0]).fill(data, i)\n\t_ = wstring(v[1]).fill(data, i)\n\treturn v.width()\n}\n\nfunc (v *UserProp) UnmarshalBinary(data []byte) error {\n\tvar key wstring\n\tif err := key.UnmarshalBinary(data); err != nil {\n\t\treturn unmarshalErr(v, \"key\", err.(*Malformed))\n\t}\n\tv[0] = string(key)\n\n\ti := len(v[0]) + 2\n\tvar val wstring\n\tif err := val.UnmarshalBinary(data[i:]); err != nil {\n\t\treturn unmarshalErr(v, \"value\", err.(*Malformed))\n\t}\n\tv[1] = string(val)\n\treturn nil\n}\nfunc (v UserProp) String() string {\n\treturn fmt.Sprintf(\"%s:%s\", v[0], v[1])\n}\nfunc (v UserProp) width() int {\n\treturn wstring(v[0]).width() + wstring(v[1]).width()\n}\n\n// https://docs.oasis-open.org/mqtt/mqtt/v5.0/os/mqtt-v5.0-os.html#_Toc3901010\ntype wstring = bindata\n\n// https://docs.oasis-open.org/mqtt/mqtt/v5.0/os/mqtt-v5.0-os.html#_Toc3901012\ntype bindata []byte\n\nfunc (v bindata) fillProp(data []byte, i int, id Ident) int {\n\tif len(v) == 0 {\n\t\treturn 0\n\t}\n\tn := i\n\ti += id.fill(data, i)\n\ti += v.fill(data, i)\n\treturn i - n\n}\nfunc (v bindata) fill(data []byte, i int) int {\n\tif len(data) >= i+v.width() {\n\t\ti += wuint16(len(v)).fill(data, i)\n\t\tcopy(data[i:], []byte(v))\n\t}\n\treturn v.width()\n}\n\nfunc (v *bindata) UnmarshalBinary(data []byte) error {\n\tif len(data) < 2 {\n\t\treturn unmarshalErr(v, \"\", \"missing data\")\n\t}\n\tlength := int(binary.BigEndian.Uint16(data))\n\tif len(data) < length+2 {\n\t\treturn unmarshalErr(v, \"\", \"missing data\")\n\t}\n\tif length == 0 {\n\t\treturn nil\n\t}\n\t*v = make([]byte, length)\n\tcopy(*v, data[2:length+2])\n\treturn nil\n}\n\nfunc (v bindata) width() int {\n\treturn 2 + len(v)\n}\n\ntype rawdata []byte\n\nfunc (v *rawdata) UnmarshalBinary(data []byte) error {\n\t*v = make([]byte, len(data))\n\tcopy(*v, data)\n\treturn nil\n}\nfunc (v rawdata) fill(data []byte, i int) int {\n\tif len(data) >= i+v.width() {\n\t\treturn copy(data[i:], []byte(v))\n\t}\n\treturn v.width()\n}\nfunc (v rawdata) width() int {\n\treturn len(v)\n}\n\n// fillProp is here to fullfill the wireType interface, though it\n// cannot be used as a property as the length is not written. fillProp\n// always panics.\nfunc (v rawdata) fillProp(data []byte, i int, id Ident) int {\n\tpanic(\"cannot use rawdata as property\")\n}\n\n// https://docs.oasis-open.org/mqtt/mqtt/v5.0/os/mqtt-v5.0-os.html#_Toc3901011\ntype vbint uint\n\nfunc (v vbint) fillProp(data []byte, i int, id Ident) int {\n\tif v == 0 {\n\t\treturn 0\n\t}\n\tn := i\n\ti += id.fill(data, i)\n\ti += v.fill(data, i)\n\treturn i - n\n}\n\nfunc (v vbint) fill(data []byte, i int) int {\n\tx := v\n\tn := i\n\tfor {\n\t\tencodedByte := byte(x % 128)\n\t\tx = x / 128\n\t\tif x > 0 {\n\t\t\tencodedByte = encodedByte | 128\n\t\t}\n\t\tif i < len(data) {\n\t\t\tdata[i] = encodedByte\n\t\t}\n\t\ti++\n\t\tif x == 0 {\n\t\t\tbreak\n\t\t}\n\t}\n\treturn i - n\n}\n\nfunc (v vbint) width() int {\n\treturn v.fill(_LEN, 0)\n}\n\nfunc (v *vbint) ReadFrom(r io.Reader) (int64, error) {\n\tvar multiplier uint = 1\n\tvar value uint\n\tdata := make([]byte, 1)\n\tvar i int64\n\tfor {\n\t\tif _, err := io.ReadFull(r, data); err != nil {\n\t\t\treturn i, err\n\t\t}\n\t\ti++\n\t\tencodedByte := data[0]\n\t\tvalue += uint(encodedByte) & uint(127) * multiplier\n\t\tif multiplier > 128*128*128 {\n\t\t\treturn i, unmarshalErr(v, \"\", \"size exceeded\")\n\t\t}\n\t\tif encodedByte&128 == 0 {\n\t\t\tbreak\n\t\t}\n\t\tmultiplier = multiplier * 128\n\t}\n\t*v = vbint(value)\n\treturn i, nil\n}\n\n// UnmarshalBinary data, returns nil or *Malformed error\nfunc (v *vbint) UnmarshalBinary(data []byte) error {\n\tif len(data) == 0 {\n\t\treturn unmarshalErr(v, \"\", \"missing data\")\n\t}\n\tvar multiplier uint = 1\n\tvar value uint\n\tfor _, encodedByte := range data {\n\t\tvalue += uint(encodedByte) & uint(127) * multiplier\n\t\tif multiplier > 128*128*128 {\n\t\t\treturn unmarshalErr(v, \"\", \"size exceeded\")\n\t\t}\n\t\tif encodedByte&128 == 0 {\n\t\t\t*v = vbint(value)\n\t\t\treturn nil\n\t\t}\n\t\tmultiplier = multiplier * 128\n\t}\n\treturn unmarshalErr(v, \"\", \"missing data\")\n}\n\n// wire types\ntype (\n\twuint8 = bits // byte\n)\n\ntype wbool bool\n\nfunc (v wbool) fillProp(data []byte, i int, id Ident) int {\n\tif !v {\n\t\treturn 0\n\t}\n\tn := i\n\ti += id.fill(data, i)\n\ti += v.fill(data, i)\n\treturn i - n\n}\nfunc (v wbool) fill(data []byte, i int) int {\n\tif len(data) >= i+1 {\n\t\tif v {\n\t\t\tdata[i] = 0x01\n\t\t} else {\n\t\t\tdata[i] = 0x00\n\t\t}\n\t}\n\treturn 1\n}\nfunc (v *wbool) UnmarshalBinary(data []byte) error {\n\tif len(data) < 1 {\n\t\treturn ErrMissingData\n\t}\n\tswitch data[0] {\n\tcase 0:\n\t\t*v = wbool(false)\n\tcase 1:\n\t\t*v = wbool(true)\n\tdefault:\n\t\treturn fmt.Errorf(\"malformed bool\")\n\t}\n\treturn nil\n}\nfunc (v wbool) width() int { return 1 }\n\n// https://docs.oasis-open.org/mqtt/mqtt/v5.0/os/mqtt-v5.0-os.html#_Toc3901007\ntype bits byte\n\nfunc (v bits) Has(b byte) bool { return byte(v)&b == b }\n\nfunc (v bits) fillProp(data []byte, i int, id Ident) int {\n\tif v == 0 {\n\t\treturn 0\n\t}\n\tn := i\n\ti += id.fill(data, i)\n\ti += v.fill(data, i)\n\treturn i - n\n}\n\nfunc (v bits) fill(data []byte, i int) int {\n\tif len(data) >= i+1 {\n\t\tdata[i] = byte(v)\n\t}\n\treturn 1\n}\n\n// fillOpt fills the bits if > 0\nfunc (v bits) fillOpt(data []byte, i int) int {\n\tif v == 0 {\n\t\treturn 0\n\t}\n\treturn v.fill(data, i)\n}\n\nfunc (v *bits) ReadFrom(r io.Reader) (int64, error) {\n\tdata := make([]byte, 1)\n\tif n, err := io.ReadFull(r, data); err != nil {\n\t\treturn int64(n), err\n\t}\n\treturn 1, v.UnmarshalBinary(data)\n}\nfunc (v *bits) UnmarshalBinary(data []byte) error {\n\tif len(data) < 1 {\n\t\treturn ErrMissingData\n\t}\n\t*v = bits(data[0])\n\treturn nil\n}\nfunc (v bits) width() int { return 1 }\nfunc (v *bits) toggle(flag byte, on bool) {\n\tif on {\n\t\t*v = *v | bits(flag)\n\t\treturn\n\t}\n\t*v = *v & bits(^flag)\n}\n\n// https://docs.oasis-open.org/mqtt/mqtt/v5.0/os/mqtt-v5.0-os.html#_Toc3901008\ntype wuint16 uint16\n\nfunc (v wuint16) fillProp(data []byte, i int, id Ident) int {\n\tif v == 0 {\n\t\treturn 0\n\t}\n\tn := i\n\ti += id.fill(data, i)\n\ti += v.fill(data, i)\n\treturn i - n\n}\n\nfunc (v wuint16) fill(data []byte, i int) int {\n\tif len(data) >= i+2 {\n\t\tbinary.BigEndian.PutUint16(data[i:], uint16(v))\n\t}\n\treturn 2\n}\n\nfunc (v *wuint16) UnmarshalBinary(data []byte) error {\n\tif len(data) < 2 {\n\t\treturn ErrMissingData\n\t}\n\t*v = wuint16(binary.BigEndian.Uint16(data))\n\treturn nil\n}\n\nfunc (v wuint16) width() int { return 2 }\n\n// https://docs.oasis-open.org/mqtt/mqtt/v5.0/os/mqtt-v5.0-os.html#_Toc3901009\ntype wuint32 uint32\n\nfunc (v wuint32) fillProp(data []byte, i int, id Ident) int {\n\tif v == 0 {\n\t\treturn 0\n\t}\n\tn := i\n\ti += id.fill(data, i)\n\ti += v.fill(data, i)\n\treturn i - n\n}\n\nfunc (v wuint32) fill(data []byte, i int) int {\n\tif len(data) >= i+v.width() {\n\t\tbinary.BigEndian.PutUint32(data[i:], uint32(v))\n\t}\n\treturn v.width()\n}\n\nfunc (v *wuint32) UnmarshalBinary(data []byte) error {\n\tif len(data) < 4 {\n\t\treturn ErrMissingData\n\t}\n\t*v = wuint32(binary.BigEndian.Uint32(data))\n\treturn nil\n}\n\nfunc (v wuint32) width() int { return 4 }\n\n// only here to fulfill interface\nfunc (v Ident) fillProp(data []byte, i int, id Ident) int { return 0 }\n\nfunc (v Ident) fill(data []byte, i int) int {\n\tif len(data) >= i+1 {", "\t\"fmt\"\n\t\"io\"\n\t\"strings\"\n)\n\n// wireType defines the interface for types that can be send over the\n// wire\ntype wireType interface {\n\tencoding.BinaryUnmarshaler\n\n\t// fill unmarshals the data type into buf at position i. The\n\t// returned value is the width of the data marshaled.  fill should\n\t// work with a nil buf as a noop but return the width.  This\n\t// enables efficient calculation of partial lengths without\n\t// actually allocating a buf.\n\tfill(buf []byte, i int) int\n\n\t// fillProp fills the identified UserProp if not empty as this is\n\t// the case for most UserProp values.\n\tfillProp(buf []byte, i int, id Ident) int\n\n\t// returns the width of the wire data in bytes\n\twidth() int\n}\n\n// fits returns true if n bytes can be written to data starting at\n// position i.\nfunc fits(data []byte, i, n int) bool {\n\treturn len(data) >= i+n\n}\n\n// firstByte represents the first byte in a control packet.\ntype firstByte byte\n\n// String returns a readable string TYPEFLAGS, e.g. PUBLISH d1-r\nfunc (f firstByte) String() string {\n\tvar sb strings.Builder\n\tsb.WriteString(typeNames[byte(f)&0b1111_0000])\n\tsb.WriteString(\" \")\n\tflags := []byte(\"----\")\n\tif bits(f).Has(DUP) {\n\t\tflags[0] = 'd'\n\t}\n\tswitch {\n\tcase bits(f).Has(QoS3):\n\t\tflags[1] = '!' // malformed\n\t\tflags[2] = '!' // malformed\n\tcase bits(f).Has(QoS1):\n\t\tflags[2] = '1'\n\tcase bits(f).Has(QoS2):\n\t\tflags[1] = '2'\n\t}\n\tif bits(f).Has(RETAIN) {\n\t\tflags[3] = 'r'\n\t}\n\tsb.Write(flags)\n\treturn sb.String()\n}\n\n// https://docs.oasis-open.org/mqtt/mqtt/v5.0/os/mqtt-v5.0-os.html#_Toc3901013\ntype UserProp [2]string\n\nfunc (v UserProp) fillProp(data []byte, i int, id Ident) int {\n\tif len(v[0]) == 0 {\n\t\treturn 0\n\t}\n\tn := i\n\ti += id.fill(data, i)\n\ti += v.fill(data, i)\n\treturn i - n\n}\nfunc (v UserProp) fill(data []byte, i int) int {\n\ti += wstring(v[0]).fill(data, i)\n\t_ = wstring(v[1]).fill(data, i)\n\treturn v.width()\n}\n\nfunc (v *UserProp) UnmarshalBinary(data []byte) error {\n\tvar key wstring\n\tif err := key.UnmarshalBinary(data); err != nil {\n\t\treturn unmarshalErr(v, \"key\", err.(*Malformed))\n\t}\n\tv[0] = string(key)\n\n\ti := len(v[0]) + 2\n\tvar val wstring\n\tif err := val.UnmarshalBinary(data[i:]); err != nil {\n\t\treturn unmarshalErr(v, \"value\", err.(*Malformed))\n\t}\n\tv[1] = string(val)\n\treturn nil\n}\nfunc (v UserProp) String() string {\n\treturn fmt.Sprintf(\"%s:%s\", v[0], v[1])\n}\nfunc (v UserProp) width() int {\n\treturn wstring(v[0]).width() + wstring(v[1]).width()\n}\n\n// https://docs.oasis-open.org/mqtt/mqtt/v5.0/os/mqtt-v5.0-os.html#_Toc3901010\ntype wstring = bindata\n\n// https://docs.oasis-open.org/mqtt/mqtt/v5.0/os/mqtt-v5.0-os.html#_Toc3901012\ntype bindata []byte\n\nfunc (v bindata) fillProp(data []byte, i int, id Ident) int {\n\tif len(v) == 0 {\n\t\treturn 0\n\t}\n\tn := i\n\ti += id.fill(data, i)\n\ti += v.fill(data, i)\n\treturn i - n\n}\nfunc (v bindata) fill(data []byte, i int) int {\n\tif fits(data, i, v.width()) {\n\t\ti += wuint16(len(v)).fill(data, i)\n\t\tcopy(data[i:], []byte(v))\n\t}\n\treturn v.width()\n}\n\nfunc (v *bindata) UnmarshalBinary(data []byte) error {\n\tif len(data) < 2 {\n\t\treturn unmarshalErr(v, \"\", \"missing data\")\n\t}\n\tlength := int(data[0])<<8 | int(data[1])\n\tif len(data) < length+2 {\n\t\treturn unmarshalErr(v, \"\", \"missing data\")\n\t}\n\tif length == 0 {\n\t\treturn nil\n\t}\n\t*v = make([]byte, length)\n\tcopy(*v, data[2:length+2])\n\treturn nil\n}\n\nfunc (v bindata) width() int {\n\treturn 2 + len(v)\n}\n\ntype rawdata []byte\n\nfunc (v *rawdata) UnmarshalBinary(data []byte) error {\n\t*v = make([]byte, len(data))\n\tcopy(*v, data)\n\treturn nil\n}\nfunc (v rawdata) fill(data []byte, i int) int {\n\tif fits(data, i, v.width()) {\n\t\treturn copy(data[i:], []byte(v))\n\t}\n\treturn v.width()\n}\nfunc (v rawdata) width() int {\n\treturn len(v)\n}\n\n// fillProp is here to fullfill the wireType interface, though it\n// cannot be used as a property as the length is not written. fillProp\n// always panics.\nfunc (v rawdata) fillProp(data []byte, i int, id Ident) int {\n\tpanic(\"cannot use rawdata as property\")\n}\n\n// https://docs.oasis-open.org/mqtt/mqtt/v5.0/os/mqtt-v5.0-os.html#_Toc3901011\ntype vbint uint\n\nfunc (v vbint) fillProp(data []byte, i int, id Ident) int {\n\tif v == 0 {\n\t\treturn 0\n\t}\n\tn := i\n\ti += id.fill(data, i)\n\ti += v.fill(data, i)\n\treturn i - n\n}\n\nfunc (v vbint) fill(data []byte, i int) int {\n\tx := v\n\tn := i\n\tfor {\n\t\tencodedByte := byte(x % 128)\n\t\tx = x / 128\n\t\tif x > 0 {\n\t\t\tencodedByte = encodedByte | 128\n\t\t}\n\t\tif i < len(data) {\n\t\t\tdata[i] = encodedByte\n\t\t}\n\t\ti++\n\t\tif x == 0 {\n\t\t\tbreak\n\t\t}\n\t}\n\treturn i - n\n}\n\nfunc (v vbint) width() int {\n\treturn v.fill(_LEN, 0)\n}\n\nfunc (v *vbint) ReadFrom(r io.Reader) (int64, error) {\n\tvar multiplier uint = 1\n\tvar value uint\n\tdata := make([]byte, 1)\n\tvar i int64\n\tfor {\n\t\tif _, err := io.ReadFull(r, data); err != nil {\n\t\t\treturn i, err\n\t\t}\n\t\ti++\n\t\tencodedByte := data[0]\n\t\tvalue += uint(encodedByte) & uint(127) * multiplier\n\t\tif multiplier > 128*128*128 {\n\t\t\treturn i, unmarshalErr(v, \"\", \"size exceeded\")\n\t\t}\n\t\tif encodedByte&128 == 0 {\n\t\t\tbreak\n\t\t}\n\t\tmultiplier = multiplier * 128\n\t}\n\t*v = vbint(value)\n\treturn i, nil\n}\n\n// UnmarshalBinary data, returns nil or *Malformed error\nfunc (v *vbint) UnmarshalBinary(data []byte) error {\n\tif len(data) == 0 {\n\t\treturn unmarshalErr(v, \"\", \"missing data\")\n\t}\n\tvar multiplier uint = 1\n\tvar value uint\n\tfor _, encodedByte := range data {\n\t\tvalue += uint(encodedByte) & uint(127) * multiplier\n\t\tif multiplier > 128*128*128 {\n\t\t\treturn unmarshalErr(v, \"\", \"size exceeded\")\n\t\t}\n\t\tif encodedByte&128 == 0 {\n\t\t\t*v = vbint(value)\n\t\t\treturn nil\n\t\t}\n\t\tmultiplier = multiplier * 128\n\t}\n\treturn unmarshalErr(v, \"\", \"missing data\")\n}\n\n// wire types\ntype (\n\twuint8 = bits // byte\n)\n\ntype wbool bool\n\nfunc (v wbool) fillProp(data []byte, i int, id Ident) int {\n\tif !v {\n\t\treturn 0\n\t}\n\tn := i\n\ti += id.fill(data, i)\n\ti += v.fill(data, i)\n\treturn i - n\n}\nfunc (v wbool) fill(data []byte, i int) int {\n\tif fits(data, i, 1) {\n\t\tif v {\n\t\t\tdata[i] = 0x01\n\t\t} else {\n\t\t\tdata[i] = 0x00\n\t\t}\n\t}\n\treturn 1\n}\nfunc (v *wbool) UnmarshalBinary(data []byte) error {\n\tif len(data) < 1 {\n\t\treturn ErrMissingData\n\t}\n\tswitch data[0] {\n\tcase 0:\n\t\t*v = wbool(false)\n\tcase 1:\n\t\t*v = wbool(true)\n\tdefault:\n\t\treturn fmt.Errorf(\"malformed bool\")\n\t}\n\treturn nil\n}\nfunc (v wbool) width() int { return 1 }\n\n// https://docs.oasis-open.org/mqtt/mqtt/v5.0/os/mqtt-v5.0-os.html#_Toc3901007\ntype bits byte\n\nfunc (v bits) Has(b byte) bool { return byte(v)&b == b }\n\nfunc (v bits) fillProp(data []byte, i int, id Ident) int {\n\tif v == 0 {\n\t\treturn 0\n\t}\n\tn := i\n\ti += id.fill(data, i)\n\ti += v.fill(data, i)\n\treturn i - n\n}\n\nfunc (v bits) fill(data []byte, i int) int {\n\tif fits(data, i, 1) {\n\t\tdata[i] = byte(v)\n\t}\n\treturn 1\n}\n\n// fillOpt fills the bits if > 0\nfunc (v bits) fillOpt(data []byte, i int) int {\n\tif v == 0 {\n\t\treturn 0\n\t}\n\treturn v.fill(data, i)\n}\n\nfunc (v *bits) ReadFrom(r io.Reader) (int64, error) {\n\tdata := make([]byte, 1)\n\tif n, err := io.ReadFull(r, data); err != nil {\n\t\treturn int64(n), err\n\t}\n\treturn 1, v.UnmarshalBinary(data)\n}\nfunc (v *bits) UnmarshalBinary(data []byte) error {\n\tif len(data) < 1 {\n\t\treturn ErrMissingData\n\t}\n\t*v = bits(data[0])\n\treturn nil\n}\nfunc (v bits) width() int { return 1 }\nfunc (v *bits) toggle(flag byte, on bool) {\n\tif on {\n\t\t*v = *v | bits(flag)\n\t\treturn\n\t}\n\t*v = *v & bits(^flag)\n}\n\n// https://docs.oasis-open.org/mqtt/mqtt/v5.0/os/mqtt-v5.0-os.html#_Toc3901008\ntype wuint16 uint16\n\nfunc (v wuint16) fillProp(data []byte, i int, id Ident) int {\n\tif v == 0 {\n\t\treturn 0\n\t}\n\tn := i\n\ti += id.fill(data, i)\n\ti += v.fill(data, i)\n\treturn i - n\n}\n\nfunc (v wuint16) fill(data []byte, i int) int {\n\tif fits(data, i, 2) {\n\t\tdata[i] = byte(v >> 8)\n\t\tdata[i+1] = byte(v)\n\t}\n\treturn 2\n}\n\nfunc (v *wuint16) UnmarshalBinary(data []byte) error {\n\tif len(data) < 2 {\n\t\treturn ErrMissingData\n\t}\n\t*v = wuint16(data[1])<<8 | wuint16(data[0])\n\treturn nil\n}\n\nfunc (v wuint16) width() int { return 2 }\n\n// https://docs.oasis-open.org/mqtt/mqtt/v5.0/os/mqtt-v5.0-os.html#_Toc3901009\ntype wuint32 uint32\n\nfunc (v wuint32) fillProp(data []byte, i int, id Ident) int {\n\tif v == 0 {\n\t\treturn 0\n\t}\n\tn := i\n\ti += id.fill(data, i)\n\ti += v.fill(data, i)\n\treturn i - n\n}\n\nfunc (v wuint32) fill(data []byte, i int) int {\n\tif fits(data, i, v.width()) {\n\t\tdata[i] = byte(v >> 24)\n\t\tdata[i+1] = byte(v >> 16)\n\t\tdata[i+2] = byte(v >> 8)\n\t\tdata[i+3] = byte(v)\n\t}\n\treturn v.width()\n}\n\nfunc (v *wuint32) UnmarshalBinary(data []byte) error {\n\tif len(data) < 4 {\n\t\treturn ErrMissingData\n\t}\n\t*v = wuint32(data[0])<<24 | wuint32(data[1])<<16 |\n\t\twuint32(data[2])<<8 | wuint32(data[3])\n\treturn nil\n}\n\nfunc (v wuint32) width() int { return 4 }\n\n// only here to fulfill interface\nfunc (v Ident) fillProp(data []byte, i int, id Ident) int { return 0 }\n\nfunc (v Ident) fill(data []byte, i int) int {\n\tif fits(data, i, 1) {"}}},
		{Name: "rf7-integers-by-shifts", Silent: true, Edits: []Edit{{"wiretypes.go", "\t\"encoding/binary\"\n\t\"fmt\"\n\t\"io\"\n\t\"strings\"\n)\n\n// wireType defines the interface for types that can be send over the\n// wire\ntype wireType interface {\n\tencoding.BinaryUnmarshaler\n\n\t// fill unmarshals the data type into buf at position i. The\n\t// returned value is the width of the data marshaled.  fill should\n\t// work with a nil buf as a noop but return the width.  This\n\t// enables efficient calculation of partial lengths without\n\t// actually allocating a buf.\n\tfill(buf []byte, i int) int\n\n\t// fillProp fills the identified UserProp if not empty as this is\n\t// the case for most UserProp values.\n\tfillProp(buf []byte, i int, id Ident) int\n\n\t// returns the width of the wire data in bytes\n\twidth() int\n}\n\n// firstByte represents the first byte in a control packet.\ntype firstByte byte\n\n// String returns a readable string TYPEFLAGS, e.g. PUBLISH d1-r\nfunc (f firstByte) String() string {\n\tvar sb strings.Builder\n\tsb.WriteString(typeNames[byte(f)&0b1111_0000])\n\tsb.WriteString(\" \")\n\tflags := []byte(\"----\")\n\tif bits(f).Has(DUP) {\n\t\tflags[0] = 'd'\n\t}\n\tswitch {\n\tcase bits(f).Has(QoS3):\n\t\tflags[1] = '!' // malformed\n\t\tflags[2] = '!' // malformed\n\tcase bits(f).Has(QoS1):\n\t\tflags[2] = '1'\n\tcase bits(f).Has(QoS2):\n\t\tflags[1] = '2'\n\t}\n\tif bits(f).Has(RETAIN) {\n\t\tflags[3] = 'r'\n\t}\n\tsb.Write(flags)\n\treturn sb.String()\n}\n\n// https://docs.oasis-open.org/mqtt/mqtt/v5.0/os/mqtt-v5.0-os.html#_Toc3901013\ntype UserProp [2]string\n\nfunc (v UserProp) fillProp(data []byte, i int, id Ident) int {\n\tif len(v[0]) == 0 {\n\t\treturn 0\n\t}\n\tn := i\n\ti += id.fill(data, i)\n\ti += v.fill(data, i)\n\treturn i - n\n}\nfunc (v UserProp) fill(data []byte, i int) int {\n\ti += wstring(v[0]).fill(data, i)\n\t_ = wstring(v[1]).fill(data, i)\n\treturn v.width()\n}\n\nfunc (v *UserProp) UnmarshalBinary(data []byte) error {\n\tvar key wstring\n\tif err := key.UnmarshalBinary(data); err != nil {\n\t\treturn unmarshalErr(v, \"key\", err.(*Malformed))\n\t}\n\tv[0] = string(key)\n\n\ti := len(v[0]) + 2\n\tvar val wstring\n\tif err := val.UnmarshalBinary(data[i:]); err != nil {\n\t\treturn unmarshalErr(v, \"value\", err.(*Malformed))\n\t}\n\tv[1] = string(val)\n\treturn nil\n}\nfunc (v UserProp) String() string {\n\treturn fmt.Sprintf(\"%s:%s\", v[0], v[1])\n}\nfunc (v UserProp) width() int {\n\treturn wstring(v[0]).width() + wstring(v[1]).width()\n}\n\n// https://docs.oasis-open.org/mqtt/mqtt/v5.0/os/mqtt-v5.0-os.html#_Toc3901010\ntype wstring = bindata\n\n// https://docs.oasis-open.org/mqtt/mqtt/v5.0/os/mqtt-v5.0-os.html#_Toc3901012\ntype bindata []byte\n\nfunc (v bindata) fillProp(data []byte, i int, id Ident) int {\n\tif len(v) == 0 {\n\t\treturn 0\n\t}\n\tn := i\n\ti += id.fill(data, i)\n\ti += v.fill(data, i)\n\treturn i - n\n}\nfunc (v bindata) fill(data []byte, i int) int {\n\tif len(data) >= i+v.width() {\n\t\ti += wuint16(len(v)).fill(data, i)\n\t\tcopy(data[i:], []byte(v))\n\t}\n\treturn v.width()\n}\n\nfunc (v *bindata) UnmarshalBinary(data []byte) error {\n\tif len(data) < 2 {\n\t\treturn unmarshalErr(v, \"\", \"missing data\")\n\t}\n\tlength := int(binary.BigEndian.Uint16(data))\n\tif len(data) < length+2 {\n\t\treturn unmarshalErr(v, \"\", \"missing data\")\n\t}\n\tif length == 0 {\n\t\treturn nil\n\t}\n\t*v = make([]byte, length)\n\tcopy(*v, data[2:length+2])\n\treturn nil\n}\n\nfunc (v bindata) width() int {\n\treturn 2 + len(v)\n}\n\ntype rawdata []byte\n\nfunc (v *rawdata) UnmarshalBinary(data []byte) error {\n\t*v = make([]byte, len(data))\n\tcopy(*v, data)\n\treturn nil\n}\nfunc (v rawdata) fill(data []byte, i int) int {\n\tif len(data) >= i+v.width() {\n\t\treturn copy(data[i:], []byte(v))\n\t}\n\treturn v.width()\n}\nfunc (v rawdata) width() int {\n\treturn len(v)\n}\n\n// fillProp is here to fullfill the wireType interface, though it\n// cannot be used as a property as the length is not written. fillProp\n// always panics.\nfunc (v rawdata) fillProp(data []byte, i int, id Ident) int {\n\tpanic(\"cannot use rawdata as property\")\n}\n\n// https://docs.oasis-open.org/mqtt/mqtt/v5.0/os/mqtt-v5.0-os.html#_Toc3901011\ntype vbint uint\n\nfunc (v vbint) fillProp(data []byte, i int, id Ident) int {\n\tif v == 0 {\n\t\treturn 0\n\t}\n\tn := i\n\ti += id.fill(data, i)\n\ti += v.fill(data, i)\n\treturn i - n\n}\n\nfunc (v vbint) fill(data []byte, i int) int {\n\tx := v\n\tn := i\n\tfor {\n\t\tencodedByte := byte(x % 128)\n\t\tx = x / 128\n\t\tif x > 0 {\n\t\t\tencodedByte = encodedByte | 128\n\t\t}\n\t\tif i < len(data) {\n\t\t\tdata[i] = encodedByte\n\t\t}\n\t\ti++\n\t\tif x == 0 {\n\t\t\tbreak\n\t\t}\n\t}\n\treturn i - n\n}\n\nfunc (v vbint) width() int {\n\treturn v.fill(_LEN, 0)\n}\n\nfunc (v *vbint) ReadFrom(r io.Reader) (int64, error) {\n\tvar multiplier uint = 1\n\tvar value uint\n\tdata := make([]byte, 1)\n\tvar i int64\n\tfor {\n\t\tif _, err := io.ReadFull(r, data); err != nil {\n\t\t\treturn i, err\n\t\t}\n\t\ti++\n\t\tencodedByte := data[0]\n\t\tvalue += uint(encodedByte) & uint(127) * multiplier\n\t\tif multiplier > 128*128*128 {\n\t\t\treturn i, unmarshalErr(v, \"\", \"size exceeded\")\n\t\t}\n\t\tif encodedByte&128 == 0 {\n\t\t\tbreak\n\t\t}\n\t\tmultiplier = multiplier * 128\n\t}\n\t*v = vbint(value)\n\treturn i, nil\n}\n\n// UnmarshalBinary data, returns nil or *Malformed error\nfunc (v *vbint) UnmarshalBinary(data []byte) error {\n\tif len(data) == 0 {\n\t\treturn unmarshalErr(v, \"\", \"missing data\")\n\t}\n\tvar multiplier uint = 1\n\tvar value uint\n\tfor _, encodedByte := range data {\n\t\tvalue += uint(encodedByte) & uint(127) * multiplier\n\t\tif multiplier > 128*128*128 {\n\t\t\treturn unmarshalErr(v, \"\", \"size exceeded\")\n\t\t}\n\t\tif encodedByte&128 == 0 {\n\t\t\t*v = vbint(value)\n\t\t\treturn nil\n\t\t}\n\t\tmultiplier = multiplier * 128\n\t}\n\treturn unmarshalErr(v, \"\", \"missing data\")\n}\n\n// wire types\ntype (\n\twuint8 = bits // byte\n)\n\ntype wbool bool\n\nfunc (v wbool) fillProp(data []byte, i int, id Ident) int {\n\tif !v {\n\t\treturn 0\n\t}\n\tn := i\n\ti += id.fill(data, i)\n\ti += v.fill(data, i)\n\treturn i - n\n}\nfunc (v wbool) fill(data []byte, i int) int {\n\tif len(data) >= i+1 {\n\t\tif v {\n\t\t\tdata[i] = 0x01\n\t\t} else {\n\t\t\tdata[i] = 0x00\n\t\t}\n\t}\n\treturn 1\n}\nfunc (v *wbool) UnmarshalBinary(data []byte) error {\n\tif len(data) < 1 {\n\t\treturn ErrMissingData\n\t}\n\tswitch data[0] {\n\tcase 0:\n\t\t*v = wbool(false)\n\tcase 1:\n\t\t*v = wbool(true)\n\tdefault:\n\t\treturn fmt.Errorf(\"malformed bool\")\n\t}\n\treturn nil\n}\nfunc (v wbool) width() int { return 1 }\n\n// https://docs.oasis-open.org/mqtt/mqtt/v5.0/os/mqtt-v5.0-os.html#_Toc3901007\ntype bits byte\n\nfunc (v bits) Has(b byte) bool { return byte(v)&b == b }\n\nfunc (v bits) fillProp(data []byte, i int, id Ident) int {\n\tif v == 0 {\n\t\treturn 0\n\t}\n\tn := i\n\ti += id.fill(data, i)\n\ti += v.fill(data, i)\n\treturn i - n\n}\n\nfunc (v bits) fill(data []byte, i int) int {\n\tif len(data) >= i+1 {\n\t\tdata[i] = byte(v)\n\t}\n\treturn 1\n}\n\n// fillOpt fills the bits if > 0\nfunc (v bits) fillOpt(data []byte, i int) int {\n\tif v == 0 {\n\t\treturn 0\n\t}\n\treturn v.fill(data, i)\n}\n\nfunc (v *bits) ReadFrom(r io.Reader) (int64, error) {\n\tdata := make([]byte, 1)\n\tif n, err := io.ReadFull(r, data); err != nil {\n\t\treturn int64(n), err\n\t}\n\treturn 1, v.UnmarshalBinary(data)\n}\nfunc (v *bits) UnmarshalBinary(data []byte) error {\n\tif len(data) < 1 {\n\t\treturn ErrMissingData\n\t}\n\t*v = bits(data[0])\n\treturn nil\n}\nfunc (v bits) width() int { return 1 }\nfunc (v *bits) toggle(flag byte, on bool) {\n\tif on {\n\t\t*v = *v | bits(flag)\n\t\treturn\n\t}\n\t*v = *v & bits(^flag)\n}\n\n// https://docs.oasis-open.org/mqtt/mqtt/v5.0/os/mqtt-v5.0-os.html#_Toc3901008\ntype wuint16 uint16\n\nfunc (v wuint16) fillProp(data []byte, i int, id Ident) int {\n\tif v == 0 {\n\t\treturn 0\n\t}\n\tn := i\n\ti += id.fill(data, i)\n\ti += v.fill(data, i)\n\treturn i - n\n}\n\nfunc (v wuint16) fill(data []byte, i int) int {\n\tif len(data) >= i+2 {\n\t\tbinary.BigEndian.PutUint16(data[i:], uint16(v))\n\t}\n\treturn 2\n}\n\nfunc (v *wuint16) UnmarshalBinary(data []byte) error {\n\tif len(data) < 2 {\n\t\treturn ErrMissingData\n\t}\n\t*v = wuint16(binary.BigEndian.Uint16(data))\n\treturn nil\n}\n\nfunc (v wuint16) width() int { return 2 }\n\n// https://docs.oasis-open.org/mqtt/mqtt/v5.0/os/mqtt-v5.0-os.html#_Toc3901009\ntype wuint32 uint32\n\nfunc (v wuint32) fillProp(data []byte, i int, id Ident) int {\n\tif v == 0 {\n\t\treturn 0\n\t}\n\tn := i\n\ti += id.fill(data, i)\n\ti += v.fill(data, i)\n\treturn i - n\n}\n\nfunc (v wuint32) fill(data []byte, i int) int {\n\tif len(data) >= i+v.width() {\n\t\tbinary.BigEndian.PutUint32(data[i:], uint32(v))\n\t}\n\treturn v.width()\n}\n\nfunc (v *wuint32) UnmarshalBinary(data []byte) error {\n\tif len(data) < 4 {\n\t\treturn ErrMissingData\n\t}\n\t*v = wuint32(binary.BigEndian.Uint32(data))\n\treturn nil\n}\n\nfunc (v wuint32) width() int { return 4 }\n\n// only here to fulfill interface\nfunc (v Ident) fillProp(data []byte, i int, id Ident) int { return 0 }\n\nfunc (v Ident) fill(data []byte, i int) int {\n\tif len(data) >= i+1 {", "\t\"fmt\"\n\t\"io\"\n\t\"strings\"\n)\n\n// wireType defines the interface for types that can be send over the\n// wire\ntype wireType interface {\n\tencoding.BinaryUnmarshaler\n\n\t// fill unmarshals the data type into buf at position i. The\n\t// returned value is the width of the data marshaled.  fill should\n\t// work with a nil buf as a noop but return the width.  This\n\t// enables efficient calculation of partial lengths without\n\t// actually allocating a buf.\n\tfill(buf []byte, i int) int\n\n\t// fillProp fills the identified UserProp if not empty as this is\n\t// the case for most UserProp values.\n\tfillProp(buf []byte, i int, id Ident) int\n\n\t// returns the width of the wire data in bytes\n\twidth() int\n}\n\n// fits returns true if n bytes can be written to data starting at\n// position i.\nfunc fits(data []byte, i, n int) bool {\n\treturn len(data) >= i+n\n}\n\n// firstByte represents the first byte in a control packet.\ntype firstByte byte\n\n// String returns a readable string TYPEFLAGS, e.g. PUBLISH d1-r\nfunc (f firstByte) String() string {\n\tvar sb strings.Builder\n\tsb.WriteString(typeNames[byte(f)&0b1111_0000])\n\tsb.WriteString(\" \")\n\tflags := []byte(\"----\")\n\tif bits(f).Has(DUP) {\n\t\tflags[0] = 'd'\n\t}\n\tswitch {\n\tcase bits(f).Has(QoS3):\n\t\tflags[1] = '!' // malformed\n\t\tflags[2] = '!' // malformed\n\tcase bits(f).Has(QoS1):\n\t\tflags[2] = '1'\n\tcase bits(f).Has(QoS2):\n\t\tflags[1] = '2'\n\t}\n\tif bits(f).Has(RETAIN) {\n\t\tflags[3] = 'r'\n\t}\n\tsb.Write(flags)\n\treturn sb.String()\n}\n\n// https://docs.oasis-open.org/mqtt/mqtt/v5.0/os/mqtt-v5.0-os.html#_Toc3901013\ntype UserProp [2]string\n\nfunc (v UserProp) fillProp(data []byte, i int, id Ident) int {\n\tif len(v[0]) == 0 {\n\t\treturn 0\n\t}\n\tn := i\n\ti += id.fill(data, i)\n\ti += v.fill(data, i)\n\treturn i - n\n}\nfunc (v UserProp) fill(data []byte, i int) int {\n\ti += wstring(v[0]).fill(data, i)\n\t_ = wstring(v[1]).fill(data, i)\n\treturn v.width()\n}\n\nfunc (v *UserProp) UnmarshalBinary(data []byte) error {\n\tvar key wstring\n\tif err := key.UnmarshalBinary(data); err != nil {\n\t\treturn unmarshalErr(v, \"key\", err.(*Malformed))\n\t}\n\tv[0] = string(key)\n\n\ti := len(v[0]) + 2\n\tvar val wstring\n\tif err := val.UnmarshalBinary(data[i:]); err != nil {\n\t\treturn unmarshalErr(v, \"value\", err.(*Malformed))\n\t}\n\tv[1] = string(val)\n\treturn nil\n}\nfunc (v UserProp) String() string {\n\treturn fmt.Sprintf(\"%s:%s\", v[0], v[1])\n}\nfunc (v UserProp) width() int {\n\treturn wstring(v[0]).width() + wstring(v[1]).width()\n}\n\n// https://docs.oasis-open.org/mqtt/mqtt/v5.0/os/mqtt-v5.0-os.html#_Toc3901010\ntype wstring = bindata\n\n// https://docs.oasis-open.org/mqtt/mqtt/v5.0/os/mqtt-v5.0-os.html#_Toc3901012\ntype bindata []byte\n\nfunc (v bindata) fillProp(data []byte, i int, id Ident) int {\n\tif len(v) == 0 {\n\t\treturn 0\n\t}\n\tn := i\n\ti += id.fill(data, i)\n\ti += v.fill(data, i)\n\treturn i - n\n}\nfunc (v bindata) fill(data []byte, i int) int {\n\tif fits(data, i, v.width()) {\n\t\ti += wuint16(len(v)).fill(data, i)\n\t\tcopy(data[i:], []byte(v))\n\t}\n\treturn v.width()\n}\n\nfunc (v *bindata) UnmarshalBinary(data []byte) error {\n\tif len(data) < 2 {\n\t\treturn unmarshalErr(v, \"\", \"missing data\")\n\t}\n\tlength := int(data[0])<<8 | int(data[1])\n\tif len(data) < length+2 {\n\t\treturn unmarshalErr(v, \"\", \"missing data\")\n\t}\n\tif length == 0 {\n\t\treturn nil\n\t}\n\t*v = make([]byte, length)\n\tcopy(*v, data[2:length+2])\n\treturn nil\n}\n\nfunc (v bindata) width() int {\n\treturn 2 + len(v)\n}\n\ntype rawdata []byte\n\nfunc (v *rawdata) UnmarshalBinary(data []byte) error {\n\t*v = make([]byte, len(data))\n\tcopy(*v, data)\n\treturn nil\n}\nfunc (v rawdata) fill(data []byte, i int) int {\n\tif fits(data, i, v.width()) {\n\t\treturn copy(data[i:], []byte(v))\n\t}\n\treturn v.width()\n}\nfunc (v rawdata) width() int {\n\treturn len(v)\n}\n\n// fillProp is here to fullfill the wireType interface, though it\n// cannot be used as a property as the length is not written. fillProp\n// always panics.\nfunc (v rawdata) fillProp(data []byte, i int, id Ident) int {\n\tpanic(\"cannot use rawdata as property\")\n}\n\n// https://docs.oasis-open.org/mqtt/mqtt/v5.0/os/mqtt-v5.0-os.html#_Toc3901011\ntype vbint uint\n\nfunc (v vbint) fillProp(data []byte, i int, id Ident) int {\n\tif v == 0 {\n\t\treturn 0\n\t}\n\tn := i\n\ti += id.fill(data, i)\n\ti += v.fill(data, i)\n\treturn i - n\n}\n\nfunc (v vbint) fill(data []byte, i int) int {\n\tx := v\n\tn := i\n\tfor {\n\t\tencodedByte := byte(x % 128)\n\t\tx = x / 128\n\t\tif x > 0 {\n\t\t\tencodedByte = encodedByte | 128\n\t\t}\n\t\tif i < len(data) {\n\t\t\tdata[i] = encodedByte\n\t\t}\n\t\ti++\n\t\tif x == 0 {\n\t\t\tbreak\n\t\t}\n\t}\n\treturn i - n\n}\n\nfunc (v vbint) width() int {\n\treturn v.fill(_LEN, 0)\n}\n\nfunc (v *vbint) ReadFrom(r io.Reader) (int64, error) {\n\tvar multiplier uint = 1\n\tvar value uint\n\tdata := make([]byte, 1)\n\tvar i int64\n\tfor {\n\t\tif _, err := io.ReadFull(r, data); err != nil {\n\t\t\treturn i, err\n\t\t}\n\t\ti++\n\t\tencodedByte := data[0]\n\t\tvalue += uint(encodedByte) & uint(127) * multiplier\n\t\tif multiplier > 128*128*128 {\n\t\t\treturn i, unmarshalErr(v, \"\", \"size exceeded\")\n\t\t}\n\t\tif encodedByte&128 == 0 {\n\t\t\tbreak\n\t\t}\n\t\tmultiplier = multiplier * 128\n\t}\n\t*v = vbint(value)\n\treturn i, nil\n}\n\n// UnmarshalBinary data, returns nil or *Malformed error\nfunc (v *vbint) UnmarshalBinary(data []byte) error {\n\tif len(data) == 0 {\n\t\treturn unmarshalErr(v, \"\", \"missing data\")\n\t}\n\tvar multiplier uint = 1\n\tvar value uint\n\tfor _, encodedByte := range data {\n\t\tvalue += uint(encodedByte) & uint(127) * multiplier\n\t\tif multiplier > 128*128*128 {\n\t\t\treturn unmarshalErr(v, \"\", \"size exceeded\")\n\t\t}\n\t\tif encodedByte&128 == 0 {\n\t\t\t*v = vbint(value)\n\t\t\treturn nil\n\t\t}\n\t\tmultiplier = multiplier * 128\n\t}\n\treturn unmarshalErr(v, \"\", \"missing data\")\n}\n\n// wire types\ntype (\n\twuint8 = bits // byte\n)\n\ntype wbool bool\n\nfunc (v wbool) fillProp(data []byte, i int, id Ident) int {\n\tif !v {\n\t\treturn 0\n\t}\n\tn := i\n\ti += id.fill(data, i)\n\ti += v.fill(data, i)\n\treturn i - n\n}\nfunc (v wbool) fill(data []byte, i int) int {\n\tif fits(data, i, 1) {\n\t\tif v {\n\t\t\tdata[i] = 0x01\n\t\t} else {\n\t\t\tdata[i] = 0x00\n\t\t}\n\t}\n\treturn 1\n}\nfunc (v *wbool) UnmarshalBinary(data []byte) error {\n\tif len(data) < 1 {\n\t\treturn ErrMissingData\n\t}\n\tswitch data[0] {\n\tcase 0:\n\t\t*v = wbool(false)\n\tcase 1:\n\t\t*v = wbool(true)\n\tdefault:\n\t\treturn fmt.Errorf(\"malformed bool\")\n\t}\n\treturn nil\n}\nfunc (v wbool) width() int { return 1 }\n\n// https://docs.oasis-open.org/mqtt/mqtt/v5.0/os/mqtt-v5.0-os.html#_Toc3901007\ntype bits byte\n\nfunc (v bits) Has(b byte) bool { return byte(v)&b == b }\n\nfunc (v bits) fillProp(data []byte, i int, id Ident) int {\n\tif v == 0 {\n\t\treturn 0\n\t}\n\tn := i\n\ti += id.fill(data, i)\n\ti += v.fill(data, i)\n\treturn i - n\n}\n\nfunc (v bits) fill(data []byte, i int) int {\n\tif fits(data, i, 1) {\n\t\tdata[i] = byte(v)\n\t}\n\treturn 1\n}\n\n// fillOpt fills the bits if > 0\nfunc (v bits) fillOpt(data []byte, i int) int {\n\tif v == 0 {\n\t\treturn 0\n\t}\n\treturn v.fill(data, i)\n}\n\nfunc (v *bits) ReadFrom(r io.Reader) (int64, error) {\n\tdata := make([]byte, 1)\n\tif n, err := io.ReadFull(r, data); err != nil {\n\t\treturn int64(n), err\n\t}\n\treturn 1, v.UnmarshalBinary(data)\n}\nfunc (v *bits) UnmarshalBinary(data []byte) error {\n\tif len(data) < 1 {\n\t\treturn ErrMissingData\n\t}\n\t*v = bits(data[0])\n\treturn nil\n}\nfunc (v bits) width() int { return 1 }\nfunc (v *bits) toggle(flag byte, on bool) {\n\tif on {\n\t\t*v = *v | bits(flag)\n\t\treturn\n\t}\n\t*v = *v & bits(^flag)\n}\n\n// https://docs.oasis-open.org/mqtt/mqtt/v5.0/os/mqtt-v5.0-os.html#_Toc3901008\ntype wuint16 uint16\n\nfunc (v wuint16) fillProp(data []byte, i int, id Ident) int {\n\tif v == 0 {\n\t\treturn 0\n\t}\n\tn := i\n\ti += id.fill(data, i)\n\ti += v.fill(data, i)\n\treturn i - n\n}\n\nfunc (v wuint16) fill(data []byte, i int) int {\n\tif fits(data, i, 2) {\n\t\tdata[i] = byte(v >> 8)\n\t\tdata[i+1] = byte(v)\n\t}\n\treturn 2\n}\n\nfunc (v *wuint16) UnmarshalBinary(data []byte) error {\n\tif len(data) < 2 {\n\t\treturn ErrMissingData\n\t}\n\t*v = wuint16(data[0])<<8 | wuint16(data[1])\n\treturn nil\n}\n\nfunc (v wuint16) width() int { return 2 }\n\n// https://docs.oasis-open.org/mqtt/mqtt/v5.0/os/mqtt-v5.0-os.html#_Toc3901009\ntype wuint32 uint32\n\nfunc (v wuint32) fillProp(data []byte, i int, id Ident) int {\n\tif v == 0 {\n\t\treturn 0\n\t}\n\tn := i\n\ti += id.fill(data, i)\n\ti += v.fill(data, i)\n\treturn i - n\n}\n\nfunc (v wuint32) fill(data []byte, i int) int {\n\tif fits(data, i, v.width()) {\n\t\tdata[i] = byte(v >> 24)\n\t\tdata[i+1] = byte(v >> 16)\n\t\tdata[i+2] = byte(v >> 8)\n\t\tdata[i+3] = byte(v)\n\t}\n\treturn v.width()\n}\n\nfunc (v *wuint32) UnmarshalBinary(data []byte) error {\n\tif len(data) < 4 {\n\t\treturn ErrMissingData\n\t}\n\t*v = wuint32(data[0])<<24 | wuint32(data[1])<<16 |\n\t\twuint32(data[2])<<8 | wuint32(data[3])\n\treturn nil\n}\n\nfunc (v wuint32) width() int { return 4 }\n\n// only here to fulfill interface\nfunc (v Ident) fillProp(data []byte, i int, id Ident) int { return 0 }\n\nfunc (v Ident) fill(data []byte, i int) int {\n\tif fits(data, i, 1) {"}}},
		{Name: "property-fast-path-writes-the-integer-low-byte-first", Rule: "R1.4", Where: "wuint16#fillProp", Edits: []Edit{{"wiretypes.go", "func (v wuint16) fillProp(data []byte, i int, id Ident) int {\n\tif v == 0 {\n\t\treturn 0\n\t}\n\tn := i\n\ti += id.fill(data, i)\n\ti += v.fill(data, i)\n\treturn i - n\n}", "func (v wuint16) fillProp(data []byte, i int, id Ident) int {\n\tif v == 0 {\n\t\treturn 0\n\t}\n\treturn fillBytes(data, i, byte(id), byte(v), byte(v>>8))\n}\n\nfunc fillBytes(data []byte, i int, b ...byte) int {\n\tif len(data) >= i+len(b) {\n\t\tcopy(data[i:], b)\n\t}\n\treturn len(b)\n}"}}},
		{Name: "reason-codes-moved-by-bulk-copy", Silent: true, Edits: []Edit{{"suback.go", "func (p *SubAck) payload(b []byte, i int) int {\n\tn := i\n\tfor j, _ := range p.reasonCodes {\n\t\ti += wuint8(p.reasonCodes[j]).fill(b, i)\n\t}\n\treturn i - n\n}\n\nfunc (p *SubAck) UnmarshalBinary(data []byte) error {\n\tb := &buffer{data: data}\n\tb.get(&p.packetID)\n\tb.getAny(p.propertyMap(), p.appendUserProperty)\n\n\tp.reasonCodes = make([]uint8, len(data)-b.i)\n\n\tfor i, _ := range p.reasonCodes {\n\t\tvar v wuint8\n\t\tb.get(&v)\n\t\tp.reasonCodes[i] = uint8(v)\n\t}\n\treturn b.err", "// payload writes the reason codes, one byte each.\nfunc (p *SubAck) payload(b []byte, i int) int {\n\tn := len(p.reasonCodes)\n\tif len(b) >= i+n {\n\t\tcopy(b[i:], p.reasonCodes)\n\t}\n\treturn n\n}\n\nfunc (p *SubAck) UnmarshalBinary(data []byte) error {\n\tb := &buffer{data: data}\n\tb.get(&p.packetID)\n\tb.getAny(p.propertyMap(), p.appendUserProperty)\n\n\t// the rest of the data is the list of reason codes, one byte each\n\trest := data[b.i:]\n\tp.reasonCodes = make([]uint8, len(rest))\n\tif b.err != nil {\n\t\treturn b.err\n\t}\n\tb.i += copy(p.reasonCodes, rest)\n\treturn nil"}, {"unsuback.go", "func (p *UnsubAck) payload(b []byte, i int) int {\n\tn := i\n\tfor j, _ := range p.reasonCodes {\n\t\ti += wuint8(p.reasonCodes[j]).fill(b, i)\n\t}\n\treturn i - n\n}\n\nfunc (p *UnsubAck) UnmarshalBinary(data []byte) error {\n\tb := &buffer{data: data}\n\tb.get(&p.packetID)\n\tb.getAny(p.propertyMap(), p.appendUserProperty)\n\n\tp.reasonCodes = make([]uint8, len(data)-b.i)\n\n\tfor i, _ := range p.reasonCodes {\n\t\tvar v wuint8\n\t\tb.get(&v)\n\t\tp.reasonCodes[i] = uint8(v)\n\t}\n\treturn b.err", "// payload writes the reason codes, one byte each.\nfunc (p *UnsubAck) payload(b []byte, i int) int {\n\tn := len(p.reasonCodes)\n\tif len(b) >= i+n {\n\t\tcopy(b[i:], p.reasonCodes)\n\t}\n\treturn n\n}\n\nfunc (p *UnsubAck) UnmarshalBinary(data []byte) error {\n\tb := &buffer{data: data}\n\tb.get(&p.packetID)\n\tb.getAny(p.propertyMap(), p.appendUserProperty)\n\n\t// the rest of the data is the list of reason codes, one byte each\n\trest := data[b.i:]\n\tp.reasonCodes = make([]uint8, len(rest))\n\tif b.err != nil {\n\t\treturn b.err\n\t}\n\tb.i += copy(p.reasonCodes, rest)\n\treturn nil"}}},
		{Name: "bulk-copy-decodes-the-list-from-the-wrong-offset", Rule: "R1.1", Where: "SubAck", Edits: []Edit{{"suback.go", "func (p *SubAck) payload(b []byte, i int) int {\n\tn := i\n\tfor j, _ := range p.reasonCodes {\n\t\ti += wuint8(p.reasonCodes[j]).fill(b, i)\n\t}\n\treturn i - n\n}\n\nfunc (p *SubAck) UnmarshalBinary(data []byte) error {\n\tb := &buffer{data: data}\n\tb.get(&p.packetID)\n\tb.getAny(p.propertyMap(), p.appendUserProperty)\n\n\tp.reasonCodes = make([]uint8, len(data)-b.i)\n\n\tfor i, _ := range p.reasonCodes {\n\t\tvar v wuint8\n\t\tb.get(&v)\n\t\tp.reasonCodes[i] = uint8(v)\n\t}\n\treturn b.err", "// payload writes the reason codes, one byte each.\nfunc (p *SubAck) payload(b []byte, i int) int {\n\tn := len(p.reasonCodes)\n\tif len(b) >= i+n {\n\t\tcopy(b[i:], p.reasonCodes)\n\t}\n\treturn n\n}\n\nfunc (p *SubAck) UnmarshalBinary(data []byte) error {\n\tb := &buffer{data: data}\n\tb.get(&p.packetID)\n\tb.getAny(p.propertyMap(), p.appendUserProperty)\n\n\t// the rest of the data is the list of reason codes, one byte each\n\trest := data[b.i-1:]\n\tp.reasonCodes = make([]uint8, len(rest))\n\tif b.err != nil {\n\t\treturn b.err\n\t}\n\tb.i += copy(p.reasonCodes, rest)\n\treturn nil"}, {"unsuback.go", "func (p *UnsubAck) payload(b []byte, i int) int {\n\tn := i\n\tfor j, _ := range p.reasonCodes {\n\t\ti += wuint8(p.reasonCodes[j]).fill(b, i)\n\t}\n\treturn i - n\n}\n\nfunc (p *UnsubAck) UnmarshalBinary(data []byte) error {\n\tb := &buffer{data: data}\n\tb.get(&p.packetID)\n\tb.getAny(p.propertyMap(), p.appendUserProperty)\n\n\tp.reasonCodes = make([]uint8, len(data)-b.i)\n\n\tfor i, _ := range p.reasonCodes {\n\t\tvar v wuint8\n\t\tb.get(&v)\n\t\tp.reasonCodes[i] = uint8(v)\n\t}\n\treturn b.err", "// payload writes the reason codes, one byte each.\nfunc (p *UnsubAck) payload(b []byte, i int) int {\n\tn := len(p.reasonCodes)\n\tif len(b) >= i+n {\n\t\tcopy(b[i:], p.reasonCodes)\n\t}\n\treturn n\n}\n\nfunc (p *UnsubAck) UnmarshalBinary(data []byte) error {\n\tb := &buffer{data: data}\n\tb.get(&p.packetID)\n\tb.getAny(p.propertyMap(), p.appendUserProperty)\n\n\t// the rest of the data is the list of reason codes, one byte each\n\trest := data[b.i:]\n\tp.reasonCodes = make([]uint8, len(rest))\n\tif b.err != nil {\n\t\treturn b.err\n\t}\n\tb.i += copy(p.reasonCodes, rest)\n\treturn nil"}}},
		{Name: "options-byte-written-only-when-non-zero", Rule: "R1.1", Where: "Subscribe", Edits: []Edit{{"topicfilter.go", "\ti += c.options.fill(b, i)", "\ti += c.options.fillOpt(b, i) // subscription options"}}},
		{Name: "user-property-value-before-key-on-both-sides", Rule: "R1.4", Where: "UserProp", Edits: []Edit{
			{"wiretypes.go", "\ti += wstring(v[0]).fill(data, i)\n\t_ = wstring(v[1]).fill(data, i)", "\ti += wstring(v[1]).fill(data, i)\n\t_ = wstring(v[0]).fill(data, i)"},
			{"wiretypes.go", "\tv[0] = string(key)\n\n\ti := len(v[0]) + 2", "\tv[1] = string(key)\n\n\ti := len(v[1]) + 2"},
			{"wiretypes.go", "\tv[1] = string(val)\n\treturn nil", "\tv[0] = string(val)\n\treturn nil"}}},
		{Name: "empty-valued-user-property-dropped", Rule: "R1.2", Where: "Auth", Edits: []Edit{{"wiretypes.go", "func (v UserProp) fillProp(data []byte, i int, id Ident) int {\n\tif len(v[0]) == 0 {", "func (v UserProp) fillProp(data []byte, i int, id Ident) int {\n\tif len(v[0]) == 0 || len(v[1]) == 0 {"}}},
		{Name: "success-class-reason-codes-take-the-short-form", Rule: "R1.2", Where: "PubAck", Edits: []Edit{{"puback.go", "\tif p.reasonCode > 0 || propl > 0 {", "\tif p.reasonCode >= 0x80 || propl > 0 {"}}},
		{Name: "nil-test-instead-of-length-test-in-property-encoder", Rule: "R1.5", Where: "Auth", Edits: []Edit{{"wiretypes.go", "func (v bindata) fillProp(data []byte, i int, id Ident) int {\n\tif len(v) == 0 {", "func (v bindata) fillProp(data []byte, i int, id Ident) int {\n\tif v == nil {"}}},
		{Name: "empty-will-payload-not-written", Rule: "R1.1", Where: "Connect", Edits: []Edit{{"connect.go", "\t\ti += p.willPayload.fill(b, i)\n", "\t\tif len(p.willPayload) > 0 {\n\t\t\ti += p.willPayload.fill(b, i)\n\t\t}\n"}}},
		{Name: "dispatch-starts-from-constructor-defaults", Rule: "R1.1", Where: "Connect", Edits: []Edit{{"packet.go", "\t\tp = &Connect{fixed: f.fixed}", "\t\tq := NewConnect()\n\t\tq.fixed = f.fixed\n\t\tp = q"}}},
		{Name: "keepalive-dropped-both-sides", Rule: "R1.3", Where: "ConnAck", Edits: []Edit{
			{"connack.go", "\ti += p.serverKeepAlive.fillProp(b, i, ServerKeepAlive)\n", ""},
			{"connack.go", "\t\tServerKeepAlive:       func() wireType { return &p.serverKeepAlive },\n", ""}}},
		{Name: "packet-id-guard-decoder-only", Rule: "R1.1", Where: "Publish", Edits: []Edit{{"publish.go", "\tget(&p.topicName)\n\tif v := p.QoS(); v == 1 || v == 2 {", "\tget(&p.topicName)\n\tif v := p.QoS(); v == 1 {"}}},
		{Name: "will-qos-not-restored", Rule: "R1.2", Where: "Connect", Edits: []Edit{{"connect.go", "\t\tp.will.SetQoS(p.willQoS())\n", ""}}},
		{Name: "will-retain-not-restored", Rule: "R1.2", Where: "Connect", Edits: []Edit{{"connect.go", "\t\tp.will.SetRetain(p.flags.Has(WillRetain))\n", ""}}},
		{Name: "auth-ids-swapped-in-encoder", Rule: "R1.2", Where: "Auth", Edits: []Edit{{"auth.go", "\ti += p.authMethod.fillProp(b, i, AuthMethod)\n\ti += p.authData.fillProp(b, i, AuthData)", "\ti += p.authMethod.fillProp(b, i, AuthData)\n\ti += p.authData.fillProp(b, i, AuthMethod)"}}},
		{Name: "keepalive-not-decoded", Rule: "R1.1", Where: "Connect", Edits: []Edit{{"connect.go", "\tget(&p.flags)\n\tget(&p.keepAlive)\n", "\tget(&p.flags)\n"}}},
		{Name: "reason-code-omitted-with-properties", Rule: "R1.1", Where: "PubRec", Edits: []Edit{{"pubrec.go", "\tif p.reasonCode > 0 || propl > 0 {\n\t\ti += p.reasonCode.fill(b, i)\n\t}", "\ti += p.reasonCode.fillOpt(b, i)"}}},
		{Name: "length-prefix-off-by-one", Rule: "R1.4", Where: "bindata", Edits: []Edit{{"wiretypes.go", "\t\ti += wuint16(len(v)).fill(data, i)", "\t\ti += wuint16(len(v) + 1).fill(data, i)"}}},
		{Name: "bool-not-written-into-last-byte", Rule: "R1.4", Where: "(wbool).fill", Edits: []Edit{{"wiretypes.go", "\tif len(data) >= i+1 {\n\t\tif v {", "\tif len(data) > i+1 {\n\t\tif v {"}}},
		{Name: "u16-width-disagrees-with-encoder", Rule: "R1.4", Where: "wire type wuint16#width", Edits: []Edit{{"wiretypes.go", "func (v wuint16) width() int { return 2 }", "func (v wuint16) width() int { return 3 }"}}},
		{Name: "raw-payload-never-copied", Rule: "R1.4", Where: "wire type rawdata", Edits: []Edit{{"wiretypes.go", "\tif len(data) >= i+v.width() {\n\t\treturn copy(data[i:], []byte(v))\n\t}\n\treturn v.width()", "\treturn v.width()"}}},
		{Name: "user-property-key-and-value-share-a-variable", Rule: "R1.4", Where: "wire type UserProp", Edits: []Edit{{"wiretypes.go", "\tvar val wstring\n\tif err := val.UnmarshalBinary(data[i:]); err != nil {\n\t\treturn unmarshalErr(v, \"value\", err.(*Malformed))\n\t}\n\tv[1] = string(val)", "\tif err := key.UnmarshalBinary(data[i:]); err != nil {\n\t\treturn unmarshalErr(v, \"value\", err.(*Malformed))\n\t}\n\tv[1] = string(key)"}}},
		{Name: "u32-little-endian-decoder", Rule: "R1.4", Where: "wuint32", Edits: []Edit{{"wiretypes.go", "\t*v = wuint32(binary.BigEndian.Uint32(data))", "\t*v = wuint32(binary.LittleEndian.Uint32(data))"}}},
		{Name: "adv4-A1-hoisted-filter", Rule: "R1.1", Where: "Unsubscribe", Edits: []Edit{{"unsubscribe.go", "\tfor {\n\t\tvar f wstring", "\tvar f wstring // decoded into once per filter, avoids one allocation per iteration\n\tfor {"}}},
		{Name: "adv4-A2-flag-mask-omits-will-retain", Rule: "R1.5", Where: "Connect", Edits: []Edit{{"connect.go", "\n\treturn buf.Err()\n}", "\tp.flags &= bits(definedConnectFlags)\n\n\treturn buf.Err()\n}"}, {"connect.go", "// CONNECT flags used in Connect.HasFlag()", "const definedConnectFlags = UsernameFlag | PasswordFlag |\n\tWillQoS2 | WillQoS1 | WillFlag | CleanStart\n\n// CONNECT flags used in Connect.HasFlag()"}}},
		{Name: "adv4-A2-flag-mask-complete", Silent: true, Edits: []Edit{{"connect.go", "\n\treturn buf.Err()\n}", "\tp.flags &= bits(definedConnectFlags)\n\n\treturn buf.Err()\n}"}, {"connect.go", "// CONNECT flags used in Connect.HasFlag()", "const definedConnectFlags = UsernameFlag | PasswordFlag | WillRetain |\n\tWillQoS2 | WillQoS1 | WillFlag | CleanStart | Reserved\n\n// CONNECT flags used in Connect.HasFlag()"}}},
		{Name: "adv4-A3-clamp-for-one-identifier", Rule: "R1.4", Where: "wuint32#fillProp", Edits: []Edit{{"const.go", "\tmaxUint16 = 1<<16 - 1", "\tmaxUint16 = 1<<16 - 1\n\n\tmaxPacketSize = 1 + 4 + 268_435_455"}, {"wiretypes.go", "func (v wuint32) fillProp(data []byte, i int, id Ident) int {\n\tif v == 0 {\n\t\treturn 0\n\t}", "func (v wuint32) fillProp(data []byte, i int, id Ident) int {\n\tif v == 0 {\n\t\treturn 0\n\t}\n\tif id == MaxPacketSize && v > maxPacketSize {\n\t\tv = maxPacketSize\n\t}"}}},
		{Name: "unsubscribe-filter-list-decoded-once", Rule: "R1.1", Where: "Unsubscribe", Edits: []Edit{{"unsubscribe.go", "\t\tp.filters = append(p.filters, f)\n\t\tif b.i == len(data) {\n\t\t\tbreak\n\t\t}", "\t\tp.filters = append(p.filters, f)\n\t\tbreak"}}},
		{Name: "subscription-ids-emitted-once", Rule: "R1.2", Where: "Publish", Edits: []Edit{{"publish.go", "\tfor j, _ := range p.subscriptionIDs {\n\t\ti += vbint(p.subscriptionIDs[j]).fillProp(b, i, SubscriptionID)\n\t}", "\tif len(p.subscriptionIDs) > 0 {\n\t\ti += vbint(p.subscriptionIDs[0]).fillProp(b, i, SubscriptionID)\n\t}"}}},
		{Name: "property-lines-reordered", Silent: true, Edits: []Edit{{"auth.go", "\ti += p.authMethod.fillProp(b, i, AuthMethod)\n\ti += p.authData.fillProp(b, i, AuthData)", "\ti += p.authData.fillProp(b, i, AuthData)\n\ti += p.authMethod.fillProp(b, i, AuthMethod)"}}},
		{Name: "guard-as-switch", Silent: true, Edits: []Edit{{"publish.go", "\ti += p.topicName.fill(b, i)\n\tif v := p.QoS(); v == 1 || v == 2 {\n\t\ti += p.packetID.fill(b, i)\n\t}", "\ti += p.topicName.fill(b, i)\n\tswitch p.QoS() {\n\tcase 1, 2:\n\t\ti += p.packetID.fill(b, i)\n\t}"}}},
		{Name: "guard-in-helper", Silent: true, Edits: []Edit{
			{"publish.go", "\tget(&p.topicName)\n\tif v := p.QoS(); v == 1 || v == 2 {", "\tget(&p.topicName)\n\tif p.hasPacketID() {"},
			{"publish.go", "func (p *Publish) propertyMap() map[Ident]func() wireType {", "func (p *Publish) hasPacketID() bool { q := p.QoS(); return q == 1 || q == 2 }\n\nfunc (p *Publish) propertyMap() map[Ident]func() wireType {"}}},
	}})
}

func packetTypeNames() []string {
	var out []string
	for _, n := range specPacketTypes {
		out = append(out, n)
	}
	sort.Strings(out)
	return out
}

type coSim struct {
	state  *packetState
	evs    []layoutEvent
	toks   []wireToken
	total  int64
	replay *replayResult
}

// runCoSim: encoder trace of the state, then decoder replay on its tokens.
func (p *Prog) runCoSim(tn string, fill *ssa.Function, st *packetState) (*coSim, string) {
	evs, _, why := p.encoderTrace(st, fill)
	if why != "" {
		return nil, why
	}
	cs := &coSim{state: st, evs: evs}
	if len(evs) < 2 {
		return cs, "the encoder emits fewer than two items (first byte and remaining length)"
	}
	body := evs[2:]
	cs.toks = tokensOf(body)
	for _, e := range body {
		cs.total += e.Width
	}
	cs.replay = p.decoderReplay(tn, evs[0].Val, cs.toks, cs.total, st.Mem)
	return cs, ""
}

func traceString(evs []layoutEvent) string {
	var parts []string
	for _, e := range evs {
		parts = append(parts, e.String())
	}
	return strings.Join(parts, "; ")
}

func checkC01(p *Prog, c *Check) {
	c.Rule("R1.1", "layout agreement: for every abstract packet state built through the constructor and setters, the decoder — run on the token stream the encoder produced, with the wire primitives replaced by their contracts — reads exactly the items written, each into a destination of the same wire kind, consumes the whole frame and reports no error")
	c.Rule("R1.2", "value agreement through the public API: after that replay every exported zero-argument accessor (and exported field, and the accessors of the nested will message) returns on the decoded packet what it returned on the original")
	c.Rule("R1.3", "completeness: every receiver field written by an exported setter or adder is the source of some emission in some state (so a value that can be set is never silently dropped on both sides)")
	c.Rule("R1.4", "primitive codec pairing: for every wire kind the encoder and decoder primitives are inverse by construction (same width, same byte order, prefix = length, copy of exactly the announced region)")
	c.Rule("R1.5", "re-encoding the decoded abstract state yields the same token stream")
	c.Explanation = "Round-trip equality of runtime values is not statically decidable in general. Decided are its structural necessary conditions, by abstract co-simulation: packet states are built by evaluating the constructor and setters on abstract values (lengths with identity tags, representative integers); the encoder's SSA form is evaluated on the state with the wire primitives observed, giving a field-level event sequence; the decoder's SSA form (guards, sequential reader, property loop, post-processing) is evaluated on the corresponding token stream with the wire primitives replaced by their contracts. States: none / all / each setter alone / all but one / all subsets of the guard-relevant setters, each with and without a will message."
	c.Trusted = []string{"go/types + go/ssa (x/tools v0.29.0) faithful IR", "contracts of the wire primitives as used by the replay (a decoder consumes one item of its own kind and width or fails); their bodies are checked separately by R1.4, C04 and C09", "abstract domains: strings/binary by length and identity, integers by representatives"}
	c.NotDecided = []string{"equality of runtime values for all lengths and contents (boundary lengths 127/128/16383/16384/65534/65535 are covered only through the no-wrap proofs of C04 and the length-prefix lemma)", "states outside the enumerated setter subsets"}
	names := packetTypeNames()
	nstates := 0
	for _, tn := range names {
		fill := p.Method(tn, "fill")
		if fill == nil || p.Method(tn, "UnmarshalBinary") == nil {
			c.Bad("anchor", tn, "-", "fill or UnmarshalBinary not found")
			continue
		}
		c.Fn(qname(fill))
		c.Fn(qname(p.Method(tn, "UnmarshalBinary")))
		var will *packetState
		bad := map[string]string{}
		emitted := map[string]bool{}
		written := map[string]string{} // field path suffix -> setter
		n := 0
		specs := p.stateSpecs(tn)
		// C01's domain (unlike C02's) includes a protocol name and version other than the defaults, the empty
		// name and version 0 among them: the cleared states once more with those two setters cleared as well
		for _, spec := range append([]stateSpec(nil), specs...) {
			if strings.HasPrefix(spec.name, "all set, then cleared with zero values") && p.Method(tn, "SetProtocolName") != nil {
				sp, orig := spec, spec.choose
				sp.name = strings.Replace(spec.name, "zero values", "zero values, protocol name and version too", 1)
				sp.choose = func(n string) int {
					if n == "SetProtocolName" || n == "SetProtocolVersion" {
						return stateClear
					}
					return orig(n)
				}
				specs = append(specs, sp)
			}
		}
		for _, spec := range specs {
			if spec.will == 1 && will == nil {
				w, why := p.willState()
				if w == nil {
					bad["R1.1"] = "cannot build a will message state: " + why
					break
				}
				will = w
			}
			var wp *packetState
			if spec.will == 1 {
				wp = will
			}
			if spec.will == 3 || spec.will == 1 && spec.bias > 0 {
				wp, _ = p.willFor(spec)
			}
			st, why := p.buildStateSpec(tn, spec, nil, wp)
			if st == nil {
				if bad["R1.1"] == "" {
					bad["R1.1"] = "state " + spec.name + ": " + why
				}
				continue
			}
			n++
			for setter, fs := range st.Written {
				for _, f := range fs {
					written[strings.TrimPrefix(f, st.Recv)] = setter
				}
			}
			cs, why := p.runCoSim(tn, fill, st)
			if why != "" {
				if bad["R1.1"] == "" {
					bad["R1.1"] = "state " + spec.name + ": " + why
				}
				continue
			}
			for _, e := range cs.evs {
				if strings.HasPrefix(e.Src, st.Recv+".f") {
					f := strings.TrimPrefix(e.Src, st.Recv)
					if j := strings.IndexAny(f[2:], ".["); j >= 0 {
						f = f[:2+j]
					}
					emitted[f] = true
				}
				// a value reached through a pointer or slice held in a receiver field
				for k, v := range st.Mem {
					if !strings.HasPrefix(k, st.Recv+".f") || strings.ContainsAny(k[len(st.Recv)+2:], ".[") {
						continue
					}
					if (v.k == 'p' || v.k == 's' || v.k == 'S') && v.addr != "" {
						roots := []string{v.addr}
						if v.k == 's' {
							// elements may be aliases of storage elsewhere (appended arguments)
							for j := int64(0); j < v.i && j < 16; j++ { // lists built by the state generator have at most a few elements; byte strings have none
								ep := fmt.Sprintf("%s[%d]", v.addr, v.off+j)
								if _, has := st.Mem[ep]; !has {
									break
								}
								for hop := 0; hop < 4; hop++ {
									ev, ok := st.Mem[ep]
									if !ok || ev.k != 'S' || ev.addr == "" || ev.addr == ep {
										break
									}
									ep = ev.addr
									roots = append(roots, ep)
								}
							}
						}
						for _, r := range roots {
							if e.Src == r || strings.HasPrefix(e.Src, r+"[") || strings.HasPrefix(e.Src, r+".") {
								emitted[strings.TrimPrefix(k, st.Recv)] = true
							}
						}
					}
				}
			}
			r := cs.replay
			where := fmt.Sprintf("state %s (setters %v): ", spec.name, st.Calls)
			switch {
			case r.Why != "":
				if bad["R1.1"] == "" {
					bad["R1.1"] = where + "cannot evaluate the decoder: " + r.Why
				}
				continue
			case r.Mismatch != "":
				if bad["R1.1"] == "" {
					bad["R1.1"] = where + r.Mismatch + "; written: " + traceString(cs.evs)
				}
				continue
			case r.Err.k != 'z':
				if bad["R1.1"] == "" {
					bad["R1.1"] = where + fmt.Sprintf("the decoder rejects the frame its encoder wrote (after %d of %d items); written: %s", r.Consumed, len(cs.toks), traceString(cs.evs))
				}
				continue
			case r.Consumed != len(cs.toks):
				if bad["R1.1"] == "" {
					bad["R1.1"] = where + fmt.Sprintf("the decoder stops after %d of %d items; written: %s", r.Consumed, len(cs.toks), traceString(cs.evs))
				}
				continue
			}
			// R1.2
			o1, why1 := p.observe(tn, st.Recv, st.Mem, st.Maps, 0)
			o2, why2 := p.observe(tn, r.Recv, r.Mem, r.Maps, 0)
			if why1 != "" || why2 != "" {
				if bad["R1.2"] == "" {
					bad["R1.2"] = where + why1 + why2
				}
			} else {
				var ks []string
				for k := range o1 {
					ks = append(ks, k)
				}
				sort.Strings(ks)
				for _, k := range ks {
					if o1[k] != o2[k] && bad["R1.2"] == "" {
						bad["R1.2"] = where + fmt.Sprintf("%s is %s on the original and %s after the round trip", k, o1[k], o2[k])
					}
				}
			}
			// R1.5
			st2 := &packetState{Type: tn, Recv: r.Recv, Mem: r.Mem, Maps: r.Maps}
			evs2, _, why := p.encoderTrace(st2, fill)
			if why != "" {
				if bad["R1.5"] == "" {
					bad["R1.5"] = where + why
				}
			} else {
				t1, t2 := tokensOf(cs.evs), tokensOf(evs2)
				same := len(t1) == len(t2)
				for i := 0; same && i < len(t1); i++ {
					if t1[i].Kind != t2[i].Kind || t1[i].Width != t2[i].Width {
						same = false
					}
					// determined integers and booleans (first byte, flag bytes, lengths, identifiers, numbers) must be
					// the same numbers: "writing the decoded packet again produces byte-identical output"
					a, b2 := t1[i].Val, t2[i].Val
					if (a.k == 'i' && b2.k == 'i' && a.i != b2.i) || (a.k == 'b' && b2.k == 'b' && a.b != b2.b) {
						same = false
						if bad["R1.5"] == "" {
							bad["R1.5"] = where + fmt.Sprintf("re-encoding the decoded packet writes another value for item %d (%s): %v instead of %v", i, t1[i].What, b2, a)
						}
					}
				}
				if !same && bad["R1.5"] == "" {
					bad["R1.5"] = where + "re-encoding the decoded packet gives a different item sequence: " + traceString(evs2) + " instead of " + traceString(cs.evs)
				}
			}
		}
		nstates += n
		// R1.3
		var missing []string
		for f, setter := range written {
			if !emitted[f] {
				missing = append(missing, fmt.Sprintf("field %s%s (written by %s)", tn, f, setter))
			}
		}
		sort.Strings(missing)
		if len(missing) > 0 {
			bad["R1.3"] = "never emitted in any state: " + strings.Join(missing, ", ")
		}
		pos := p.Pos(fill.Pos())
		for _, rule := range []string{"R1.1", "R1.2", "R1.3", "R1.5"} {
			if w, isBad := bad[rule]; isBad {
				c.Bad(rule, tn, pos, w)
			} else {
				c.OK(rule, tn, pos, fmt.Sprintf("holds on all %d abstract states", n))
			}
		}
	}
	p.checkCodecPairing(c)
	c.Rule("R1.6", "adders: every exported Add* method, evaluated on its own with abstract elements and — for integers — every boundary value of the domain, appends what it is given, in order, to what the matching accessor or exported list field returned before; a second call keeps the first call's elements (the round trip cannot see a value that is dropped before it is ever stored)")
	checkAdders(p, c)
	p.checkFillPropByEvaluation(c, "R1.4")
	// R1.7: the property writes with WriteTo: what reaches the writer is the encoder's output examined above — one
	// buffer of the frame's size, filled by that encoder, handed over whole (shape rule of C10 R10.1, shared)
	c.Rule("R1.7", "every packet type's WriteTo hands the writer exactly what the type's encoder produces: one buffer sized by the encoder's dry run (or a size method that agrees with it on every abstract state), filled by it from offset 0, written once (C10 R10.1, shared)")
	for _, tn := range packetTypeNames() {
		wt := p.Method(tn, "WriteTo")
		fill := p.Method(tn, "fill")
		cons := "(*" + tn + ").WriteTo"
		if wt == nil || fill == nil {
			c.Bad("R1.7", cons, "-", "WriteTo or the encoder is missing")
			continue
		}
		sc := NewCheck(c.ID, p)
		used, _ := checkWriteTo(p, sc, wt)
		if bad := sc.Failing(); len(bad) > 0 {
			c.Bad("R1.7", cons, p.Pos(wt.Pos()), "WriteTo does not hand the writer exactly what the encoder produces: "+bad[0].Detail)
		} else if used != fill {
			c.Bad("R1.7", cons, p.Pos(wt.Pos()), "WriteTo does not use the type's encoder")
		} else {
			c.OK("R1.7", cons, p.Pos(wt.Pos()), "one Write of the buffer filled by "+qname(fill))
		}
	}
	p.widthAgreement(c, "R1.4")
	c.Measured["abstract_states"] = nstates
	c.Floor("packet types co-simulated", len(names), 15, "15 MQTT packet types")
}

func min(a, b int) int {
	if a < b {
		return a
	}
	return b
}

// ---------- R1.4 primitive codec pairing ----------

// stripSameWidth removes conversions between integer types of the same size
// and ChangeType only: a narrowing conversion on the way is a lossy codec.
func (p *Prog) stripSameWidth(v ssa.Value) ssa.Value {
	for {
		switch x := v.(type) {
		case *ssa.ChangeType:
			v = x.X
		case *ssa.Convert:
			a, ok1 := x.X.Type().Underlying().(*types.Basic)
			b, ok2 := x.Type().Underlying().(*types.Basic)
			if !ok1 || !ok2 || a.Info()&types.IsInteger == 0 || b.Info()&types.IsInteger == 0 || p.U.Sizes.Sizeof(a) != p.U.Sizes.Sizeof(b) {
				return v
			}
			v = x.X
		default:
			return v
		}
	}
}

// stripNonNarrowing removes ChangeType and integer conversions that cannot lose bits of a non-negative value
// (destination at least as wide as the source).
func (p *Prog) stripNonNarrowing(v ssa.Value) ssa.Value {
	for {
		switch x := v.(type) {
		case *ssa.ChangeType:
			v = x.X
		case *ssa.Convert:
			a, ok1 := x.X.Type().Underlying().(*types.Basic)
			b, ok2 := x.Type().Underlying().(*types.Basic)
			if !ok1 || !ok2 || a.Info()&types.IsInteger == 0 || b.Info()&types.IsInteger == 0 || p.U.Sizes.Sizeof(b) < p.U.Sizes.Sizeof(a) {
				return v
			}
			v = x.X
		default:
			return v
		}
	}
}

// primitiveWritesReceiver: every write the encoder primitive fn makes into its buffer (element store, PutUintN,
// copy) writes fn's receiver value through same-width conversions only.  n: the number of writes.
func (p *Prog) primitiveWritesReceiver(fn *ssa.Function, buf *ssa.Parameter) (n int, bad string) {
	for _, b := range fn.Blocks {
		for _, ins := range b.Instrs {
			switch x := ins.(type) {
			case *ssa.Store:
				if ia, ok := x.Addr.(*ssa.IndexAddr); ok && ia.X == ssa.Value(buf) {
					n++
					if p.stripSameWidth(x.Val) != ssa.Value(fn.Params[0]) {
						bad = "the byte written at " + posOf(p, x) + " is " + describeVal(x.Val) + ", not the value itself"
					}
				}
			case *ssa.Call:
				if sc := x.Call.StaticCallee(); sc != nil && strings.Contains(fullName(sc), "bigEndian).PutUint") {
					n++
					if p.stripSameWidth(x.Call.Args[2]) != ssa.Value(fn.Params[0]) {
						bad = "the integer written at " + posOf(p, x) + " is " + describeVal(x.Call.Args[2]) + ", not the value itself"
					}
				}
				if bi, ok := x.Call.Value.(*ssa.Builtin); ok && bi.Name() == "copy" {
					n++
					if p.stripSameWidth(x.Call.Args[1]) != ssa.Value(fn.Params[0]) {
						bad = "the bytes copied at " + posOf(p, x) + " are not the value itself"
					}
				}
			}
		}
	}
	return n, bad
}

func (p *Prog) checkCodecPairing(c *Check) {
	decs, _ := p.wireDecoders()
	// encoder primitives of types that have no decoder (used on the encoding side only): the co-simulation takes
	// what such a primitive emits to be its receiver's value, so its body must write exactly that
	hasDec := map[string]bool{}
	for _, d := range decs {
		if nt := namedOf(d.Params[0].Type().Underlying().(*types.Pointer).Elem()); nt != nil {
			hasDec[nt.Obj().Name()] = true
		}
	}
	for _, fn := range p.AllFuncs() {
		if !isWirePrimitive(fn) || fn.Synthetic != "" || fn.Name() != "fill" {
			continue
		}
		nt := namedOf(fn.Signature.Recv().Type())
		if nt == nil || hasDec[nt.Obj().Name()] {
			continue
		}
		kind := p.wireKindOf(nt)
		cons := "encode-only wire type " + nt.Obj().Name() + " (" + kind + ")"
		pos := p.Pos(fn.Pos())
		c.Fn(qname(fn))
		buf, _, _, _ := emissionsOf(p, fn)
		if buf == nil || !writesBufferDirectly(fn, buf) {
			continue // a composition of other emissions: those are checked where they are defined
		}
		nst, bad := p.primitiveWritesReceiver(fn, buf)
		switch {
		case bad != "":
			c.Bad("R1.4", cons, pos, "an encoder primitive without a decoder counterpart must write its receiver as it is: "+bad)
		case kind != "byte" && kind != "u16" && kind != "u32" && kind != "raw":
			c.Unk("R1.4", cons, pos, "encoder primitive without a decoder counterpart, of a kind whose body is not checked here")
		default:
			c.OK("R1.4", cons, pos, fmt.Sprintf("%d write(s), each of the receiver's value through same-width conversions only", nst))
		}
	}
	for _, d := range decs {
		pt := d.Params[0].Type().Underlying().(*types.Pointer)
		nt := namedOf(pt.Elem())
		if nt == nil {
			continue
		}
		name := nt.Obj().Name()
		kind := p.wireKindOf(nt)
		enc := p.Method(name, "fill")
		cons := "wire type " + name + " (" + kind + ")"
		if enc == nil {
			c.Unk("R1.4", cons, p.Pos(d.Pos()), "no fill method")
			continue
		}
		c.Fn(qname(enc))
		c.Fn(qname(d))
		pos := p.Pos(enc.Pos())
		if t := delegateDecoder(d); t != d {
			d = t // `return (*U)(v).UnmarshalBinary(data)`: the body that decodes is U's
			c.Fn(qname(d))
		}
		data := d.Params[1]
		epr := NewProver(p, enc)
		// the encoder writes whenever the buffer has room (shared with C10 R10.6)
		if ebuf, _, eems, _ := emissionsOf(p, enc); ebuf != nil {
			gpr := NewProver(p, enc)
			gpr.assumeContracts()
			for _, f := range writeGuardFindings(p, gpr, enc, ebuf, eems) {
				switch {
				case f.ok:
					c.OK("R1.4", f.cons, f.pos, f.how)
				case f.unk:
					c.Unk("R1.4", f.cons, f.pos, f.how)
				default:
					c.Bad("R1.4", f.cons, f.pos, f.how)
				}
			}
		}
		dpr := NewProver(p, d)
		findCall := func(fn *ssa.Function, suffix string) *ssa.Call {
			for _, b := range fn.Blocks {
				for _, ins := range b.Instrs {
					if call, ok := ins.(*ssa.Call); ok {
						if sc := call.Call.StaticCallee(); sc != nil && strings.HasSuffix(fullName(sc), suffix) {
							return call
						}
					}
				}
			}
			return nil
		}
		storeThroughRecv := func() *ssa.Store {
			var st *ssa.Store
			for _, b := range d.Blocks {
				for _, ins := range b.Instrs {
					if s, ok := ins.(*ssa.Store); ok && s.Addr == ssa.Value(d.Params[0]) {
						st = s
					}
				}
			}
			return st
		}
		switch kind {
		case "u16", "u32":
			n := "16"
			if kind == "u32" {
				n = "32"
			}
			put := findCall(enc, "bigEndian).PutUint"+n)
			get := findCall(d, "bigEndian).Uint"+n)
			st := storeThroughRecv()
			switch {
			case put == nil || get == nil:
				// not the encoding/binary pair (shifts, a helper): decided by evaluating both sides against big endian
				w := 2
				if kind == "u32" {
					w = 4
				}
				bad, unk, nv := p.intCodecByEvaluation(enc, d, w)
				switch {
				case bad != "":
					c.Bad("R1.4", cons, pos, "encoder and decoder do not use binary.BigEndian.PutUint"+n+" / Uint"+n+" as a pair, and evaluated against big endian: "+bad)
				case unk != "":
					c.Unk("R1.4", cons, pos, "encoder and decoder do not use binary.BigEndian.PutUint"+n+" / Uint"+n+" as a pair and "+unk)
				default:
					c.OK("R1.4", cons, pos, fmt.Sprintf("evaluated on %d values (zero, every single bit set, every single bit cleared, all ones, mixed patterns): fill writes and UnmarshalBinary reads %d bytes, big endian", nv, w))
				}
			case p.stripSameWidth(put.Call.Args[2]) != ssa.Value(enc.Params[0]):
				c.Bad("R1.4", cons, pos, "the encoder does not write the value itself")
			case get.Call.Args[1] != ssa.Value(data):
				c.Bad("R1.4", cons, posOf(p, get), "the decoder does not read from the start of its input")
			case st == nil || p.stripSameWidth(st.Val) != ssa.Value(get):
				c.Bad("R1.4", cons, p.Pos(d.Pos()), "the decoder does not store the value read")
			default:
				c.OK("R1.4", cons, pos, "PutUint"+n+"(buf[i:], v) ↔ v = Uint"+n+"(data), big endian both ways")
			}
		case "byte", "ident":
			st := storeThroughRecv()
			okD := false
			if st != nil {
				if ld, ok := p.stripSameWidth(st.Val).(*ssa.UnOp); ok && ld.Op == token.MUL {
					if ia, ok := ld.X.(*ssa.IndexAddr); ok && ia.X == ssa.Value(data) {
						if k, isC := constInt(ia.Index); isC && k == 0 {
							okD = true
						}
					}
				}
			}
			okE, badE := false, false
			// `return bits(v).fill(data, i)`: the encoder of a type with the same underlying type, on the same value
			if t := delegateEncoder(enc); t != enc {
				enc = t
				c.Fn(qname(enc))
			}
			for _, b := range enc.Blocks {
				for _, ins := range b.Instrs {
					if s, ok := ins.(*ssa.Store); ok {
						if _, isIA := s.Addr.(*ssa.IndexAddr); isIA {
							if p.stripSameWidth(s.Val) == ssa.Value(enc.Params[0]) {
								okE = !badE
							} else {
								okE, badE = false, true // some write puts something else than the value into the buffer
							}
						}
					}
				}
			}
			if okD && okE {
				c.OK("R1.4", cons, pos, "buf[i] = byte(v) ↔ v = T(data[0])")
			} else {
				c.Bad("R1.4", cons, pos, "the byte written is not the value / the value stored is not the byte read")
			}
		case "bool":
			// encoder: 1 on true, 0 on false — the primitive is evaluated on a one-byte buffer for both values
			vals := map[bool]int64{}
			why := ""
			for _, bv := range []bool{true, false} {
				ctx := p.newSym(p.globalInput())
				if _, ok := ctx.evalPure(enc, []sv{{k: 'b', b: bv}, {k: 's', i: 1, addr: "BUF"}, {k: 'i', i: 0}}, nil, 0); !ok {
					why = ctx.why
					continue
				}
				if w, ok := ctx.mem["BUF[0]"]; ok && w.k == 'i' {
					vals[bv] = w.i
				}
			}
			switch {
			case why != "":
				c.Unk("R1.4", cons, pos, "cannot evaluate the boolean encoder: "+why)
			case len(vals) == 2 && vals[true] == 1 && vals[false] == 0:
				c.OK("R1.4", cons, pos, "true ↔ 1, false ↔ 0 (decoder side: C09 R9.4)")
			default:
				c.Bad("R1.4", cons, pos, fmt.Sprintf("the encoder does not map true→1 / false→0 (found %v)", vals))
			}
		case "lp":
			get := findCall(d, "bigEndian).Uint16")
			var mk *ssa.MakeSlice
			var cp *ssa.Call
			for _, b := range d.Blocks {
				for _, ins := range b.Instrs {
					if m, ok := ins.(*ssa.MakeSlice); ok {
						mk = m
					}
					if call, ok := ins.(*ssa.Call); ok {
						if bi, ok := call.Call.Value.(*ssa.Builtin); ok && bi.Name() == "copy" {
							cp = call
						}
					}
				}
			}
			var why []string
			if get == nil || get.Call.Args[1] != ssa.Value(data) {
				why = append(why, "the length is not read from the first two bytes")
			}
			if mk == nil || get == nil || !dpr.lin(mk.Len).equal(dpr.lin(get)) {
				why = append(why, "the value's length is not the announced length")
			}
			if cp != nil && get != nil {
				if sl, ok := cp.Call.Args[1].(*ssa.Slice); ok && sl.X == ssa.Value(data) && sl.Low != nil && sl.High != nil {
					lo, hi := dpr.lin(sl.Low), dpr.lin(sl.High)
					if !(lo.isConst() && lo.c == 2) || !hi.equal(dpr.lin(get).addConst(2)) {
						why = append(why, fmt.Sprintf("the bytes copied are data[%s:%s], not data[2:2+length]", lo, hi))
					}
				} else {
					why = append(why, "the value is not copied from data[2:2+length]")
				}
			} else {
				why = append(why, "no copy of the value bytes")
			}
			// encoder: prefix = len(v), value right after it
			_, off, ems, _ := emissionsOf(p, enc)
			okPrefix := false
			for _, e := range ems {
				if e.offset == ssa.Value(off) {
					if call, ok := stripConvs(e.call.Call.Args[0]).(*ssa.Call); ok {
						if bi, ok := call.Call.Value.(*ssa.Builtin); ok && bi.Name() == "len" && call.Call.Args[0] == ssa.Value(enc.Params[0]) {
							okPrefix = true
						}
					}
				}
			}
			if !okPrefix {
				why = append(why, "the encoder's prefix is not len(v)")
			}
			_ = epr
			if len(why) == 0 {
				c.OK("R1.4", cons, pos, "prefix = len(v) then the bytes ↔ length = first two bytes, value = copy of data[2:2+length] (contiguity of the encoder side: C10 R10.2)")
			} else {
				// another spelling (the prefix read by shifts, a helper that cuts the body): both sides evaluated
				bad, unk, nv := p.lpCodecByEvaluation(enc, d)
				switch {
				case bad != "":
					c.Bad("R1.4", cons, pos, strings.Join(why, "; ")+"; evaluated: "+bad)
				case unk != "":
					c.Bad("R1.4", cons, pos, strings.Join(why, "; ")+" (and "+unk+")")
				default:
					c.OK("R1.4", cons, pos, fmt.Sprintf("evaluated on %d lengths (0, 1, 2, 255, 256, 257, 3841): fill writes the two-byte big-endian length and the bytes, UnmarshalBinary makes a copy of exactly the announced bytes", nv))
				}
			}
		case "raw":
			// encoder: the value itself is copied into the buffer at the offset
			okCopy := false
			if ebuf, eoff, _, _ := emissionsOf(p, enc); ebuf != nil {
				for _, b := range enc.Blocks {
					for _, ins := range b.Instrs {
						call, ok := ins.(*ssa.Call)
						if !ok {
							continue
						}
						if bi, isB := call.Call.Value.(*ssa.Builtin); !isB || bi.Name() != "copy" {
							continue
						}
						sl, isSl := call.Call.Args[0].(*ssa.Slice)
						if isSl && sl.X == ssa.Value(ebuf) && sl.Low == ssa.Value(eoff) && sl.High == nil && stripConvs(call.Call.Args[1]) == ssa.Value(enc.Params[0]) {
							okCopy = true
						}
					}
				}
			}
			if okCopy {
				c.OK("R1.4", cons, pos, "copy(buf[i:], v) ↔ whole input copied into the value (decoder side: C14 R14.1)")
			} else {
				c.Bad("R1.4", cons, pos, "the encoder does not copy the value into the buffer at the offset")
			}
		case "vbi":
			c.OK("R1.4", cons, pos, "structural agreement of encoder and decoders: C15")
		case "pair":
			// decoder: key and value are decoded into two different fresh strings, the value from offset
			// 2+len(key) (its slice obligation is proven with the length-prefix lemma, which needs an empty
			// receiver), and stored into element 0 and element 1
			why := ""
			srcOf := map[int64]ssa.Value{}
			for _, b := range d.Blocks {
				for _, ins := range b.Instrs {
					st, ok := ins.(*ssa.Store)
					if !ok {
						continue
					}
					ia, ok := st.Addr.(*ssa.IndexAddr)
					if !ok || ia.X != ssa.Value(d.Params[0]) {
						continue
					}
					k, isC := constInt(ia.Index)
					if !isC {
						why = "a store into the pair at a non-constant index"
						continue
					}
					if ld, ok := stripConvs(st.Val).(*ssa.UnOp); ok && ld.Op == token.MUL {
						srcOf[k] = ld.X
					} else {
						why = "an element of the pair is not stored from a decoded string"
					}
				}
			}
			a0, ok0 := srcOf[0].(*ssa.Alloc)
			a1, ok1 := srcOf[1].(*ssa.Alloc)
			switch {
			case why != "":
			case !ok0 || !ok1:
				why = "key and value are not decoded into local strings"
			case a0 == a1:
				why = "key and value are decoded into the same variable: an empty value keeps the key's bytes (the length-prefixed decoder does not reset its receiver)"
			}
			if why == "" {
				sub := NewCheck(c.ID, p)
				e, _ := p.decodeEffects()
				p.runSafety(sub, safetyCfg{rule: "R1.4", roots: []*ssa.Function{d}, eff: e, scopeTag: "dec"})
				for _, o := range sub.Failing() {
					if strings.HasPrefix(o.Construct, qname(d)+"#") {
						why = "the value is not provably read from offset 2+len(key): " + o.Detail
						break
					}
				}
			}
			if why == "" {
				// encoder: element 0 (the key) is emitted first, element 1 (the value) second — the order the
				// specification fixes (a swap made on both sides would round-trip and still be wrong on the wire)
				_, _, eems, _ := emissionsOf(p, enc)
				var order []int64
				for _, em := range eems {
					if len(em.call.Call.Args) == 0 {
						continue
					}
					// the emitted value's key in the encoder's own terms: "p:<receiver>[k]" for element k of the
					// by-value receiver (read in place, through its spilled copy, or through a component accessor)
					k := epr.key(stripConvs(em.call.Call.Args[0]))
					pre := "p:" + enc.Params[0].Name() + "["
					if strings.HasPrefix(k, pre) && strings.HasSuffix(k, "]") {
						var idx int64
						if _, err := fmt.Sscanf(k[len(pre):], "%d]", &idx); err == nil {
							order = append(order, idx)
						}
					}
				}
				if len(order) != 2 || order[0] != 0 || order[1] != 1 {
					why = fmt.Sprintf("the encoder does not emit element 0 (key) and then element 1 (value): emission order %v", order)
				}
			}
			if why == "" {
				c.OK("R1.4", cons, pos, "key then value, each decoded into its own fresh string; value read from offset 2+len(key) (length-prefix lemma); stored into element 0 and 1")
			} else {
				c.Bad("R1.4", cons, pos, why)
			}
		default:
			c.Unk("R1.4", cons, pos, "wire kind not recognised")
		}
	}
}

// widthAgreement: the sequential reader advances by width() of the value just decoded; that is the
// number of bytes the value occupies only if width() is the encoder's width for the same value.
// Decided per wire type: width() is the encoder's dry run, or both have the same exact linear
// summary over the receiver (constant, len(v)+2, ...).
func (p *Prog) widthAgreement(c *Check, rule string) {
	decs, _ := p.wireDecoders()
	n := 0
	norm := func(l *Lin, fn *ssa.Function) string {
		if l == nil {
			return "-"
		}
		s := l.String()
		if len(fn.Params) > 0 {
			s = strings.ReplaceAll(s, "p:"+fn.Params[0].Name(), "p:$recv")
		}
		return s
	}
	for _, d := range decs {
		pt, ok := d.Params[0].Type().Underlying().(*types.Pointer)
		if !ok {
			continue
		}
		nt := namedOf(pt.Elem())
		if nt == nil {
			continue
		}
		name := nt.Obj().Name()
		w, f := p.Method(name, "width"), p.Method(name, "fill")
		if w == nil || f == nil {
			continue
		}
		n++
		cons := "wire type " + name + "#width"
		pos := p.Pos(w.Pos())
		// (a) width() is literally the dry run of fill
		if len(w.Blocks) == 1 {
			if ret, ok := terminator(w.Blocks[0]).(*ssa.Return); ok && len(ret.Results) == 1 {
				if g, recv, ok := p.dryRunCallValue(ret.Results[0]); ok && g == f && recv == ssa.Value(w.Params[0]) {
					c.OK(rule, cons, pos, "width() is the encoder's dry run on the same value")
					continue
				}
			}
		}
		ws := p.retSummary(w)
		if ws.exact == nil {
			if r := p.vbiEvalFor(w); r != nil && r.ok(w) {
				c.OK(rule, cons, pos, fmt.Sprintf("width() is the length of the encoding (and the encoder's dry run) on all %d evaluated values (C15 R15.6)", r.nvals))
				continue
			}
			c.Unk(rule, cons, pos, "width() has no exact summary and is not the encoder's dry run")
			continue
		}
		want := norm(ws.exact, w)
		// (b) every return of fill has that form (copy(dst, src) under a guard that makes room counts as len(src))
		pr := NewProver(p, f)
		pr.assumeContracts()
		bad := ""
		for _, b := range f.Blocks {
			ret, ok := terminator(b).(*ssa.Return)
			if !ok || len(ret.Results) != 1 {
				continue
			}
			l := pr.lin(ret.Results[0])
			if call, isCall := ret.Results[0].(*ssa.Call); isCall {
				if bi, isB := call.Call.Value.(*ssa.Builtin); isB && bi.Name() == "copy" {
					dl, sl := pr.lenOf(call.Call.Args[0]), pr.lenOf(call.Call.Args[1])
					if pr.Prove(call.Block(), dl.sub(sl)) {
						l = sl
					}
				}
			}
			if got := norm(&l, f); got != want {
				bad = fmt.Sprintf("fill returns %s at %s, width() is %s", got, posOf(p, ret), want)
			}
		}
		if bad != "" {
			c.Bad(rule, cons, pos, "the reader would advance by a different amount than the value occupies: "+bad)
		} else {
			c.OK(rule, cons, pos, "width() = "+want+" = what the encoder emits for the same value")
		}
	}
	c.Floor("wire types with width()", n, 6, "byte, u16, u32, variable byte integer, length-prefixed data and user property at least")
}

// checkAdders (R1.6): the round trip compares the decoded packet with the original — an adder that silently drops
// a value inside its domain (or replaces the list instead of extending it) leaves both sides equal.  So every
// exported Add* method is evaluated on its own: after the call the elements passed are visible, in order, at the
// end of what some accessor (or exported list field) returned before, and a second call keeps the first call's
// elements in front of its own.
func checkAdders(p *Prog, c *Check) {
	nadd := 0
	for _, tn := range packetTypeNames() {
		obj := p.Pkg.Scope().Lookup(tn)
		if obj == nil {
			continue
		}
		nt := obj.Type().(*types.Named)
		for _, s := range p.settersOf(nt) {
			if !strings.HasPrefix(s.Name(), "Add") || s.Signature.Params().Len() != 1 {
				continue
			}
			nadd++
			cons := "(*" + tn + ")." + s.Name()
			pos := p.Pos(s.Pos())
			pt := s.Signature.Params().At(0).Type()
			st0, why := p.buildState(tn, func(string) int { return -1 }, nil)
			if st0 == nil {
				c.Unk("R1.6", cons, pos, "cannot build the empty state: "+why)
				continue
			}
			obs0, why := p.observe(tn, st0.Recv, st0.Mem, st0.Maps, 0)
			if why != "" {
				c.Unk("R1.6", cons, pos, why)
				continue
			}
			// argument sets: two calls; for integer adders every boundary of the C01 domain as the first value
			type callArgs struct {
				desc string
				mk   func(ctx *symCtx, call int) (sv, []string, bool) // the argument and the rendering of its elements
			}
			var sets []callArgs
			elemsOf := func(ctx *symCtx, a sv) []string {
				var out []string
				if sl, ok := pt.Underlying().(*types.Slice); ok && !isByteSlice(pt) {
					for k := int64(0); k < a.i; k++ {
						ep := fmt.Sprintf("%s[%d]", a.addr, a.off+k)
						ev, ok := ctx.read(ep, sl.Elem())
						if !ok {
							continue
						}
						if ev.k == 'S' && ev.addr == "" {
							ev.addr = ep
						}
						out = append(out, p.readDeep(ctx, ev, sl.Elem(), 0))
					}
					return out
				}
				return []string{p.readDeep(ctx, a, pt, 0)}
			}
			if bt, ok := pt.Underlying().(*types.Basic); ok && bt.Info()&types.IsInteger != 0 {
				bits := uint(p.U.Sizes.Sizeof(bt) * 8)
				max := int64(1)<<62 - 1
				if bits < 63 {
					max = int64(1)<<bits - 1
					if bt.Info()&types.IsUnsigned == 0 {
						max = int64(1)<<(bits-1) - 1
					}
				}
				vals := []int64{1, 2, 127, 128, 255, 256, 65535, 65536, 0xFFFFFF, 0x1000000, 268435454, 268435455}
				if strings.Contains(s.Name(), "ReasonCode") {
					vals = []int64{0, 1, 2, 0x10, 0x7F, 0x80, 0x81, 0xA2, 0xFF}
				}
				for _, v := range vals {
					v := v
					if v > max {
						continue
					}
					sets = append(sets, callArgs{fmt.Sprint(v), func(ctx *symCtx, call int) (sv, []string, bool) {
						a := sv{k: 'i', i: v}
						if call == 1 {
							a.i = (v % 100) + 3 // the second call adds another value
						}
						// the third call adds the first value once more: duplicates stay
						return a, []string{fmt.Sprint(a.i)}, true
					}})
				}
			} else {
				for _, variant := range []int{0, 1} {
					variant := variant
					sets = append(sets, callArgs{fmt.Sprintf("abstract elements (variant %d)", variant), func(ctx *symCtx, call int) (sv, []string, bool) {
						if call == 2 {
							call = 0 // the third call passes what the first one passed
						}
						a, ok := p.abstractArg(ctx, fmt.Sprintf("%s·%d", s.Name(), call), pt, variant+2*call)
						if !ok {
							return sv{}, nil, false
						}
						return a, elemsOf(ctx, a), true
					}})
				}
			}
			if bt, ok := pt.Underlying().(*types.Basic); ok && bt.Info()&types.IsString != 0 || isByteSlice(pt) {
				// the empty string is an argument like any other: it is appended (a decoder accepts it from the wire, so a
				// decoded packet could not be rebuilt through the API otherwise)
				sets = append(sets, callArgs{"empty first", func(ctx *symCtx, call int) (sv, []string, bool) {
					if call == 0 || call == 2 {
						a := sv{k: 's', i: 0, addr: "val:" + s.Name() + ":empty"}
						return a, []string{p.readDeep(ctx, a, pt, 0)}, true
					}
					a, ok := p.abstractArg(ctx, fmt.Sprintf("%s·%d", s.Name(), call), pt, 0)
					if !ok {
						return sv{}, nil, false
					}
					return a, elemsOf(ctx, a), true
				}})
			}
			bad, unk := "", ""
			neval := 0
			for _, set := range sets {
				if bad != "" || unk != "" {
					break
				}
				ctx := p.newSym(p.globalInput())
				for k, v := range st0.Mem {
					ctx.mem[k] = v
				}
				for k, v := range st0.Maps {
					ctx.maps[k] = v
				}
				prev := obs0
				var firstElems []string
				for call := 0; call < 3 && bad == "" && unk == ""; call++ {
					a, elems, ok := set.mk(ctx, call)
					if !ok {
						unk = "no abstract argument for " + typeStr(pt)
						break
					}
					if _, ok := ctx.evalPure(s, []sv{{k: 'p', addr: st0.Recv}, a}, nil, 0); !ok {
						unk = fmt.Sprintf("cannot evaluate %s(%s): %s", s.Name(), set.desc, ctx.why)
						break
					}
					neval++
					obs, why := p.observe(tn, st0.Recv, ctx.mem, ctx.maps, 0)
					if why != "" {
						unk = why
						break
					}
					// an accessor whose value changed and now ends with the elements passed, in order
					found := false
					var changed []string
					for k, v := range obs {
						if v == prev[k] {
							continue
						}
						changed = append(changed, k)
						at := 0
						okE := true
						for _, e := range append(append([]string(nil), firstElems...), elems...) {
							j := strings.Index(v[at:], e)
							if j < 0 {
								okE = false
								break
							}
							at += j + len(e)
						}
						// what was there before stays in front
						pre := strings.TrimSuffix(prev[k], "]")
						if okE && (call == 0 || strings.HasPrefix(v, pre)) {
							found = true
						}
					}
					sort.Strings(changed)
					switch {
					case len(changed) == 0:
						bad = fmt.Sprintf("%s(%s), call %d: no accessor or exported field shows any change — the value is dropped", s.Name(), strings.Join(elems, ", "), call+1)
					case !found:
						bad = fmt.Sprintf("%s(%s), call %d: %v changed, but none now holds what was there before followed by the elements passed (in order)", s.Name(), strings.Join(elems, ", "), call+1, changed)
					}
					firstElems = append(firstElems, elems...)
					prev = obs
				}
			}
			switch {
			case unk != "":
				c.Unk("R1.6", cons, pos, unk)
			case bad != "":
				c.Bad("R1.6", cons, pos, bad)
			default:
				c.OK("R1.6", cons, pos, fmt.Sprintf("%d evaluation(s) over %d argument set(s): what is passed is appended, in order, to what was there", neval, len(sets)))
			}
		}
	}
	c.Measured["adders_checked"] = nadd
	c.Floor("exported adders", nadd, 5, "user properties, subscription identifiers, filters, reason codes")
}

// delegateEncoder: enc is nothing but `return U(v).fill(buf, off)` — the encoder of a type with the same underlying
// type applied to the same value, buffer and offset.  Returns that encoder (enc itself otherwise).
func delegateEncoder(enc *ssa.Function) *ssa.Function {
	for depth := 0; depth < 3; depth++ {
		if enc == nil || len(enc.Blocks) != 1 || len(enc.Params) != 3 {
			return enc
		}
		ret, ok := terminator(enc.Blocks[0]).(*ssa.Return)
		if !ok || len(ret.Results) != 1 {
			return enc
		}
		call, ok := ret.Results[0].(*ssa.Call)
		if !ok || len(call.Call.Args) != 3 || call.Call.Args[1] != ssa.Value(enc.Params[1]) || call.Call.Args[2] != ssa.Value(enc.Params[2]) {
			return enc
		}
		t := call.Call.StaticCallee()
		if t == nil || t.Blocks == nil || t.Name() != enc.Name() || len(t.Params) != 3 || !isWirePrimitive(t) {
			return enc
		}
		ct, ok := call.Call.Args[0].(*ssa.ChangeType)
		if !ok || ct.X != ssa.Value(enc.Params[0]) {
			return enc
		}
		for _, ins := range enc.Blocks[0].Instrs {
			switch ins.(type) {
			case *ssa.ChangeType, *ssa.Call, *ssa.Return, *ssa.DebugRef:
			default:
				return enc
			}
		}
		enc = t
	}
	return enc
}

// checkFillPropByEvaluation: for every fixed-width wire type, fillProp(buf, off, id) — evaluated on concrete values —
// writes the identifier byte followed by exactly what fill writes for the same value, returns that many bytes, and
// leaves the bytes around them alone; for the zero value it writes nothing and returns 0 (properties with their
// default value are omitted).  The co-simulation takes a fillProp event for "identifier + value": a fast path inside
// fillProp that encodes the value itself is outside R1.4's pairing of fill with the decoder.
func (p *Prog) checkFillPropByEvaluation(c *Check, rule string) {
	n := 0
	for _, name := range p.Pkg.Scope().Names() {
		tnm, ok := p.Pkg.Scope().Lookup(name).(*types.TypeName)
		if !ok || tnm.IsAlias() {
			continue
		}
		kind := p.wireKindOf(tnm.Type())
		var vals []int64
		// whatever the kind: the only functions that put bytes into the buffer on behalf of fillProp are fill methods of
		// wire types (the identifier's and the value's) — a property writer with an encoding of its own is compared
		// with nothing
		if fpw := p.Method(name, "fillProp"); fpw != nil && kind != "" && !p.alwaysPanics(fpw) {
			var foreign []string
			for _, wfn := range p.fillPropWriters(fpw) {
				if !(isWirePrimitive(wfn) && wfn.Name() == "fill") {
					foreign = append(foreign, qname(wfn))
				}
			}
			if len(foreign) > 0 {
				c.Bad(rule, "wire type "+name+"#fillProp-writers", p.Pos(fpw.Pos()), "fillProp puts bytes into the buffer through "+strings.Join(foreign, ", ")+", not through the identifier's and the value's fill: that encoding is not the one the decoder is paired with")
			} else {
				c.OK(rule, "wire type "+name+"#fillProp-writers", p.Pos(fpw.Pos()), "every byte fillProp writes is written by a fill method of a wire type")
			}
		}
		if kind == "lp" {
			if fill, fp := p.Method(name, "fill"), p.Method(name, "fillProp"); fill != nil && fp != nil {
				n++
				cons := "wire type " + name + "#fillProp"
				bad, unk, nl := p.lpFillPropByEvaluation(fill, fp)
				switch {
				case unk != "":
					c.Unk(rule, cons, p.Pos(fp.Pos()), unk)
				case bad != "":
					c.Bad(rule, cons, p.Pos(fp.Pos()), bad)
				default:
					c.OK(rule, cons, p.Pos(fp.Pos()), fmt.Sprintf("evaluated on %d lengths (0, 1, 2, 255, 256, 300, 3841): identifier byte, then exactly what fill writes; nothing for the empty value", nl))
				}
			}
			continue
		}
		switch kind {
		case "byte":
			vals = []int64{1, 0xA7, 0xFF}
		case "bool":
			vals = []int64{1}
		case "u16":
			vals = []int64{1, 0x1234, 0xFFFF}
		case "u32":
			vals = []int64{1, 0x12345678, 0xFFFFFFFF}
		default:
			continue
		}
		fill, fp := p.Method(name, "fill"), p.Method(name, "fillProp")
		if fill == nil || fp == nil || len(fp.Params) != 4 || len(fill.Params) != 3 {
			continue
		}
		if rs := p.retSummary(fp); rs.exact != nil && rs.exact.isConst() && rs.exact.c == 0 {
			continue // never written as a property (the identifier type itself)
		}
		n++
		cons := "wire type " + name + "#fillProp"
		bad, unk := "", ""
		arg := func(v int64) sv {
			if kind == "bool" {
				return sv{k: 'b', b: v != 0}
			}
			return sv{k: 'i', i: v}
		}
		run := func(fn *ssa.Function, args []sv) ([]int64, int64, string) {
			ctx := p.newSym(p.globalInput())
			for k := 0; k < 10; k++ {
				ctx.mem[fmt.Sprintf("BUF[%d]", k)] = sv{k: 'i', i: 0x55}
			}
			rs, ok := ctx.evalPure(fn, args, nil, 0)
			if !ok || len(rs) != 1 || rs[0].k != 'i' {
				return nil, 0, "cannot evaluate " + qname(fn) + ": " + ctx.why
			}
			var out []int64
			for k := 0; k < 10; k++ {
				cell := ctx.mem[fmt.Sprintf("BUF[%d]", k)]
				if cell.k != 'i' {
					return nil, 0, qname(fn) + ": an output byte is not determined"
				}
				out = append(out, cell.i&0xff)
			}
			return out, rs[0].i, ""
		}
		// with every identifier the specification defines: a value "normalised" for one identifier (Maximum Packet Size
		// clamped, say) is another encoding of what was set
		var ids []int64
		for _, sp := range specProps {
			ids = append(ids, int64(sp.ID))
		}
		sort.Slice(ids, func(i, j int) bool { return ids[i] < ids[j] })
		for _, id := range ids {
			if bad != "" || unk != "" {
				break
			}
			for _, v := range append([]int64{0}, vals...) {
				fb, fw, why := run(fill, []sv{arg(v), {k: 's', i: 10, addr: "BUF"}, {k: 'i', i: 2}})
				if why != "" {
					unk = why
					break
				}
				pb, pw, why := run(fp, []sv{arg(v), {k: 's', i: 10, addr: "BUF"}, {k: 'i', i: 1}, {k: 'i', i: id}})
				if why != "" {
					unk = why
					break
				}
				if v == 0 {
					if pw != 0 {
						continue // a type that writes its zero value as a property: nothing to compare with a convention
					}
					for k := 0; k < 10; k++ {
						if pb[k] != 0x55 {
							bad = fmt.Sprintf("fillProp of the zero value reports 0 bytes but writes at buffer index %d", k)
						}
					}
					continue
				}
				if pw != fw+1 {
					bad = fmt.Sprintf("fillProp(%#x) reports %d byte(s); the identifier and the %d byte(s) fill writes make %d", v, pw, fw, fw+1)
					break
				}
				if pb[1] != id {
					bad = fmt.Sprintf("fillProp(%#x, identifier %#02x) does not write the identifier first (byte %#02x)", v, id, pb[1])
					break
				}
				for k := int64(0); k < fw; k++ {
					if pb[2+k] != fb[2+k] {
						bad = fmt.Sprintf("fillProp(%#x, identifier %#02x) writes % x after the identifier; fill writes % x for the same value", v, id, pb[2:2+fw], fb[2:2+fw])
					}
				}
				if pb[0] != 0x55 || pb[2+fw] != 0x55 {
					bad = fmt.Sprintf("fillProp(%#x) writes outside its %d byte(s)", v, pw)
				}
				if bad != "" {
					break
				}
			}
		}
		switch {
		case unk != "":
			c.Unk(rule, cons, p.Pos(fp.Pos()), unk)
		case bad != "":
			c.Bad(rule, cons, p.Pos(fp.Pos()), bad)
		default:
			c.OK(rule, cons, p.Pos(fp.Pos()), "evaluated: identifier byte, then exactly what fill writes for the same value; nothing for the zero value")
		}
	}
	c.Floor("fixed-width wire types with fillProp evaluated", n, 3, "byte, two-byte and four-byte properties")
}
