package main

// C06 — ReadPacket consumes exactly one frame from the stream.

import (
	"fmt"
	"go/token"
	"go/types"
	"strings"

	"golang.org/x/tools/go/ssa"
)

func init() {
	register(&PropertyCheck{ID: "C06", Level: "proof", Run: checkC06, Canaries: []Canary{
		{Name: "by-value-body-stage-clamps-its-copy-of-the-length", Rule: "R6.2", Where: "remainingLen", Edits: []Edit{{"packet.go", "\tif _, err := fh.ReadFrom(r); err != nil {\n\t\treturn nil, fmt.Errorf(\"ReadPacket: %w\", err)\n\t}\n\n\treturn fh.ReadRemaining(r)\n}\n\n// Dump writes all packet fields to the given writer, including empty\n// value ones.\nfunc Dump(w io.Writer, p Packet) {\n\tif p, ok := p.(interface{ dump(io.Writer) }); ok {\n\t\tp.dump(w)\n\t}\n}\n\n// Packet and ControlPacket can be used interchangebly.\ntype Packet = ControlPacket\n\ntype ControlPacket interface {\n\t// Write the packet in wireformat to a writer\n\tio.WriterTo\n\n\t// Unmarshal wireformat\n\tencoding.BinaryUnmarshaler\n\n\t// Return a short readable string suitable for logging\n\tfmt.Stringer\n}\n\n// HasPacketID is implemented by packets carrying a packet ID.\ntype HasPacketID interface {\n\tPacketID() uint16\n}\n\n// HasReason is implemented by packets carrying a reason code.\ntype HasReason interface {\n\tReasonCode() ReasonCode\n}\n\n// HasWellFormed is implemented by packets that implement WellFormed.\ntype HasWellFormed interface {\n\tWellFormed() *Malformed\n}\n\ntype fixedHeader struct {\n\tfixed        bits\n\tremainingLen vbint\n}\n\n// ReadFrom reads the fixed byte and the remaining length, use\n// ReadRemaining for the rest.\n//\n// Note: ReasonString for splitting this up is so we can compare\n// performance as pahos Unpack works on the remaining only.\nfunc (f *fixedHeader) ReadFrom(r io.Reader) (int64, error) {\n\tn, err := f.fixed.ReadFrom(r)\n\tif err != nil {\n\t\treturn n, err\n\t}\n\tm, err := f.remainingLen.ReadFrom(r)\n\treturn n + m, err\n}\n\n// ReadRemaining reads the reamining data and converts to a control\n// packet.\nfunc (f *fixedHeader) ReadRemaining(r io.Reader) (ControlPacket, error) {\n\tvar p ControlPacket\n\tswitch byte(f.fixed) & 0b1111_0000 {\n\n\tcase PUBLISH:\n\t\tp = &Publish{fixed: f.fixed}\n\n\tcase PUBREL:\n\t\tp = &PubRel{fixed: f.fixed}\n\n\tcase PUBCOMP:\n\t\tp = &PubComp{fixed: f.fixed}\n\n\tcase PUBREC:\n\t\tp = &PubRec{fixed: f.fixed}\n\n\tcase PUBACK:\n\t\tp = &PubAck{fixed: f.fixed}\n\n\tcase CONNECT:\n\t\tp = &Connect{fixed: f.fixed}\n\n\tcase CONNACK:\n\t\tp = &ConnAck{fixed: f.fixed}\n\n\tcase SUBSCRIBE:\n\t\tp = &Subscribe{fixed: f.fixed}\n\n\tcase UNSUBSCRIBE:\n\t\tp = &Unsubscribe{fixed: f.fixed}\n\n\tcase SUBACK:\n\t\tp = &SubAck{fixed: f.fixed}\n\n\tcase UNSUBACK:\n\t\tp = &UnsubAck{fixed: f.fixed}\n\n\tcase PINGREQ:\n\t\tp = &PingReq{fixed: f.fixed}\n\n\tcase PINGRESP:\n\t\tp = &PingResp{fixed: f.fixed}\n\n\tcase DISCONNECT:\n\t\tp = &Disconnect{fixed: f.fixed}\n\n\tcase AUTH:\n\t\tp = &Auth{fixed: f.fixed}\n\n\tdefault:\n\t\tp = &Undefined{}\n\t}\n\tif f.remainingLen == 0 {\n\t\treturn p, nil", "\n\t// header stage; the fixed byte followed by the remaining length\n\tif _, err := fh.fixed.ReadFrom(r); err != nil {\n\t\treturn nil, fmt.Errorf(\"ReadPacket: %w\", err)\n\t}\n\tif _, err := fh.remainingLen.ReadFrom(r); err != nil {\n\t\treturn nil, fmt.Errorf(\"ReadPacket: %w\", err)\n\t}\n\n\t// body stage\n\treturn fh.ReadRemaining(r)\n}\n\n// Dump writes all packet fields to the given writer, including empty\n// value ones.\nfunc Dump(w io.Writer, p Packet) {\n\tif p, ok := p.(interface{ dump(io.Writer) }); ok {\n\t\tp.dump(w)\n\t}\n}\n\n// Packet and ControlPacket can be used interchangebly.\ntype Packet = ControlPacket\n\ntype ControlPacket interface {\n\t// Write the packet in wireformat to a writer\n\tio.WriterTo\n\n\t// Unmarshal wireformat\n\tencoding.BinaryUnmarshaler\n\n\t// Return a short readable string suitable for logging\n\tfmt.Stringer\n}\n\n// HasPacketID is implemented by packets carrying a packet ID.\ntype HasPacketID interface {\n\tPacketID() uint16\n}\n\n// HasReason is implemented by packets carrying a reason code.\ntype HasReason interface {\n\tReasonCode() ReasonCode\n}\n\n// HasWellFormed is implemented by packets that implement WellFormed.\ntype HasWellFormed interface {\n\tWellFormed() *Malformed\n}\n\n// maxBody limits the allocation done for the body of one frame\nconst maxBody = 1 << 24\n\n// fixedHeader is the fixed byte and the remaining length as read by\n// ReadPacket, use ReadRemaining for the rest.\n//\n// Note: ReasonString for splitting this up is so we can compare\n// performance as pahos Unpack works on the remaining only.\ntype fixedHeader struct {\n\tfixed        bits\n\tremainingLen vbint\n}\n\n// ReadRemaining reads the reamining data and converts to a control\n// packet. The receiver is a copy, the caller's header is never updated.\nfunc (f fixedHeader) ReadRemaining(r io.Reader) (ControlPacket, error) {\n\tvar p ControlPacket\n\tswitch byte(f.fixed) & 0b1111_0000 {\n\n\tcase PUBLISH:\n\t\tp = &Publish{fixed: f.fixed}\n\n\tcase PUBREL:\n\t\tp = &PubRel{fixed: f.fixed}\n\n\tcase PUBCOMP:\n\t\tp = &PubComp{fixed: f.fixed}\n\n\tcase PUBREC:\n\t\tp = &PubRec{fixed: f.fixed}\n\n\tcase PUBACK:\n\t\tp = &PubAck{fixed: f.fixed}\n\n\tcase CONNECT:\n\t\tp = &Connect{fixed: f.fixed}\n\n\tcase CONNACK:\n\t\tp = &ConnAck{fixed: f.fixed}\n\n\tcase SUBSCRIBE:\n\t\tp = &Subscribe{fixed: f.fixed}\n\n\tcase UNSUBSCRIBE:\n\t\tp = &Unsubscribe{fixed: f.fixed}\n\n\tcase SUBACK:\n\t\tp = &SubAck{fixed: f.fixed}\n\n\tcase UNSUBACK:\n\t\tp = &UnsubAck{fixed: f.fixed}\n\n\tcase PINGREQ:\n\t\tp = &PingReq{fixed: f.fixed}\n\n\tcase PINGRESP:\n\t\tp = &PingResp{fixed: f.fixed}\n\n\tcase DISCONNECT:\n\t\tp = &Disconnect{fixed: f.fixed}\n\n\tcase AUTH:\n\t\tp = &Auth{fixed: f.fixed}\n\n\tdefault:\n\t\tp = &Undefined{}\n\t}\n\tif f.remainingLen == 0 {\n\t\treturn p, nil\n\t}\n\t// f is our own copy of the header; cap what a single frame may\n\t// make us allocate, larger bodies fail in UnmarshalBinary anyway\n\tif f.remainingLen > maxBody {\n\t\tf.remainingLen = maxBody"}}},
		{Name: "header-stage-refuses-a-ping-with-a-body", Rule: "R6.6", Where: "ReadPacket on PingReq", Edits: []Edit{{"packet.go", "\tm, err := f.remainingLen.ReadFrom(r)\n\treturn n + m, err", "\tm, err := f.remainingLen.ReadFrom(r)\n\tif err == nil && byte(f.fixed)&0xf0 == PINGREQ && f.remainingLen != 0 {\n\t\treturn n + m, ErrMissingData\n\t}\n\treturn n + m, err"}}},
		{Name: "read-after-the-body", Rule: "R6.6", Where: "ReadPacket on Disconnect", Edits: []Edit{{"packet.go", "\tif err := p.UnmarshalBinary(data); err != nil {", "\tif byte(f.fixed)&0xf0 == DISCONNECT {\n\t\tvar one [1]byte\n\t\tif n, _ := io.ReadFull(r, one[:]); n > 0 {\n\t\t\treturn nil, ErrMissingData\n\t\t}\n\t}\n\tif err := p.UnmarshalBinary(data); err != nil {"}}},
		{Name: "extra-byte-read-after-the-length", Rule: "R6.6", Where: "ReadPacket on", Edits: []Edit{{"packet.go", "\tm, err := f.remainingLen.ReadFrom(r)\n\treturn n + m, err", "\tm, err := f.remainingLen.ReadFrom(r)\n\tif err == nil && f.remainingLen > 2 {\n\t\tvar pad bits\n\t\tpad.ReadFrom(r)\n\t}\n\treturn n + m, err"}}},
		{Name: "size-refusal-between-header-and-body-stage", Rule: "R6.4", Where: "ReadPacket#between-stages", Edits: []Edit{{"packet.go", "\tif _, err := fh.ReadFrom(r); err != nil {\n\t\treturn nil, fmt.Errorf(\"ReadPacket: %w\", err)\n\t}\n", "\tn, err := fh.ReadFrom(r)\n\tif err != nil {\n\t\treturn nil, fmt.Errorf(\"ReadPacket: %w\", err)\n\t}\n\tif n > 4 {\n\t\treturn nil, fmt.Errorf(\"ReadPacket: packet too large\")\n\t}\n"}}},
		{Name: "body-plus-one", Rule: "R6.2", Where: "ReadRemaining", Edits: []Edit{{"packet.go", "make([]byte, int(f.remainingLen))", "make([]byte, int(f.remainingLen)+1)"}}},
		{Name: "body-masked", Rule: "R6.2", Where: "ReadRemaining", Edits: []Edit{{"packet.go", "make([]byte, int(f.remainingLen))", "make([]byte, int(f.remainingLen&0xffff))"}}},
		{Name: "body-size-truncated-to-16-bits", Rule: "R6.2", Where: "ReadRemaining", Edits: []Edit{{"packet.go", "make([]byte, int(f.remainingLen))", "make([]byte, int(uint16(f.remainingLen)))"}}},
		{Name: "body-size-via-wider-type", Silent: true, Edits: []Edit{{"packet.go", "make([]byte, int(f.remainingLen))", "make([]byte, int(uint64(f.remainingLen)))"}}},
		{Name: "body-bare-read", Rule: "R6.1", Where: "ReadRemaining", Edits: []Edit{{"packet.go", "io.ReadFull(r, data)", "r.Read(data)"}}},
		{Name: "bufio-wrap", Rule: "R6.1", Where: "ReadPacket", Edits: []Edit{
			{"packet.go", "\tvar fh fixedHeader\n", "\tr = bufio.NewReader(r)\n\tvar fh fixedHeader\n"},
			{"packet.go", "import (\n", "import (\n\t\"bufio\"\n"}}},
		{Name: "limitreader", Rule: "R6.1", Where: "ReadRemaining", Edits: []Edit{{"packet.go", "io.ReadFull(r, data)", "io.ReadFull(io.LimitReader(r, int64(len(data))), data)"}}},
		{Name: "body-stage-in-helpers-single-exit", Silent: true, Edits: []Edit{{"packet.go", "\tif f.remainingLen == 0 {\n\t\treturn p, nil\n\t}\n\tdata := make([]byte, int(f.remainingLen))\n\tif _, err := io.ReadFull(r, data); err != nil {\n\t\treturn nil, fmt.Errorf(\n\t\t\t\"%s ReadRemaining: %w\",\n\t\t\tfirstByte(f.fixed).String(), err,\n\t\t)\n\t}\n\n\tif err := p.UnmarshalBinary(data); err != nil {\n\t\treturn nil, fmt.Errorf(\n\t\t\t\"%s %v UnmarshalBinary: %w\",\n\t\t\tfirstByte(f.fixed).String(), f.remainingLen, err,\n\t\t)\n\t}\n\treturn p, nil\n}\n", "\tif f.remainingLen > 0 {\n\t\tdata, err := f.readBody(r)\n\t\tif err != nil {\n\t\t\treturn nil, f.wrap(\"ReadRemaining\", err)\n\t\t}\n\t\tif err := p.UnmarshalBinary(data); err != nil {\n\t\t\treturn nil, f.wrap(fmt.Sprintf(\"%v UnmarshalBinary\", f.remainingLen), err)\n\t\t}\n\t}\n\treturn p, nil\n}\n\nfunc (f *fixedHeader) readBody(r io.Reader) ([]byte, error) {\n\tdata := make([]byte, int(f.remainingLen))\n\tif _, err := io.ReadFull(r, data); err != nil {\n\t\treturn nil, err\n\t}\n\treturn data, nil\n}\n\nfunc (f *fixedHeader) wrap(op string, err error) error {\n\treturn fmt.Errorf(\"%s %s: %w\", firstByte(f.fixed).String(), op, err)\n}\n"}}},
		{Name: "body-stage-in-helpers-one-byte-body-skipped", Rule: "R6.4", Where: "readBody", Edits: []Edit{{"packet.go", "\tif f.remainingLen == 0 {\n\t\treturn p, nil\n\t}\n\tdata := make([]byte, int(f.remainingLen))\n\tif _, err := io.ReadFull(r, data); err != nil {\n\t\treturn nil, fmt.Errorf(\n\t\t\t\"%s ReadRemaining: %w\",\n\t\t\tfirstByte(f.fixed).String(), err,\n\t\t)\n\t}\n\n\tif err := p.UnmarshalBinary(data); err != nil {\n\t\treturn nil, fmt.Errorf(\n\t\t\t\"%s %v UnmarshalBinary: %w\",\n\t\t\tfirstByte(f.fixed).String(), f.remainingLen, err,\n\t\t)\n\t}\n\treturn p, nil\n}\n", "\tif f.remainingLen > 1 {\n\t\tdata, err := f.readBody(r)\n\t\tif err != nil {\n\t\t\treturn nil, f.wrap(\"ReadRemaining\", err)\n\t\t}\n\t\tif err := p.UnmarshalBinary(data); err != nil {\n\t\t\treturn nil, f.wrap(fmt.Sprintf(\"%v UnmarshalBinary\", f.remainingLen), err)\n\t\t}\n\t}\n\treturn p, nil\n}\n\nfunc (f *fixedHeader) readBody(r io.Reader) ([]byte, error) {\n\tdata := make([]byte, int(f.remainingLen))\n\tif _, err := io.ReadFull(r, data); err != nil {\n\t\treturn nil, err\n\t}\n\treturn data, nil\n}\n\nfunc (f *fixedHeader) wrap(op string, err error) error {\n\treturn fmt.Errorf(\"%s %s: %w\", firstByte(f.fixed).String(), op, err)\n}\n"}}},
		{Name: "header-stage-refuses-a-length-before-the-body-is-read", Rule: "R6.4", Where: "header-exits", Edits: []Edit{{"packet.go", "\tm, err := f.remainingLen.ReadFrom(r)\n\treturn n + m, err", "\tm, err := f.remainingLen.ReadFrom(r)\n\tif err != nil {\n\t\treturn n + m, err\n\t}\n\tif f.remainingLen == 1 && byte(f.fixed)&0xf0 == PUBACK {\n\t\treturn n + m, newMalformed(f, \"remaining length\", \"missing data\")\n\t}\n\treturn n + m, nil"}}},
		{Name: "header-reads-inlined-body-stage-by-value", Silent: true, Edits: []Edit{{"packet.go", "\tif _, err := fh.ReadFrom(r); err != nil {\n\t\treturn nil, fmt.Errorf(\"ReadPacket: %w\", err)\n\t}\n\n\treturn fh.ReadRemaining(r)\n}\n\n// Dump writes all packet fields to the given writer, including empty\n// value ones.\nfunc Dump(w io.Writer, p Packet) {\n\tif p, ok := p.(interface{ dump(io.Writer) }); ok {\n\t\tp.dump(w)\n\t}\n}\n\n// Packet and ControlPacket can be used interchangebly.\ntype Packet = ControlPacket\n\ntype ControlPacket interface {\n\t// Write the packet in wireformat to a writer\n\tio.WriterTo\n\n\t// Unmarshal wireformat\n\tencoding.BinaryUnmarshaler\n\n\t// Return a short readable string suitable for logging\n\tfmt.Stringer\n}\n\n// HasPacketID is implemented by packets carrying a packet ID.\ntype HasPacketID interface {\n\tPacketID() uint16\n}\n\n// HasReason is implemented by packets carrying a reason code.\ntype HasReason interface {\n\tReasonCode() ReasonCode\n}\n\n// HasWellFormed is implemented by packets that implement WellFormed.\ntype HasWellFormed interface {\n\tWellFormed() *Malformed\n}\n\ntype fixedHeader struct {\n\tfixed        bits\n\tremainingLen vbint\n}\n\n// ReadFrom reads the fixed byte and the remaining length, use\n// ReadRemaining for the rest.\n//\n// Note: ReasonString for splitting this up is so we can compare\n// performance as pahos Unpack works on the remaining only.\nfunc (f *fixedHeader) ReadFrom(r io.Reader) (int64, error) {\n\tn, err := f.fixed.ReadFrom(r)\n\tif err != nil {\n\t\treturn n, err\n\t}\n\tm, err := f.remainingLen.ReadFrom(r)\n\treturn n + m, err\n}\n\n// ReadRemaining reads the reamining data and converts to a control\n// packet.\nfunc (f *fixedHeader) ReadRemaining(r io.Reader) (ControlPacket, error) {", "\n\t// header stage; the fixed byte followed by the remaining length\n\tif _, err := fh.fixed.ReadFrom(r); err != nil {\n\t\treturn nil, fmt.Errorf(\"ReadPacket: %w\", err)\n\t}\n\tif _, err := fh.remainingLen.ReadFrom(r); err != nil {\n\t\treturn nil, fmt.Errorf(\"ReadPacket: %w\", err)\n\t}\n\n\t// body stage\n\treturn fh.ReadRemaining(r)\n}\n\n// Dump writes all packet fields to the given writer, including empty\n// value ones.\nfunc Dump(w io.Writer, p Packet) {\n\tif p, ok := p.(interface{ dump(io.Writer) }); ok {\n\t\tp.dump(w)\n\t}\n}\n\n// Packet and ControlPacket can be used interchangebly.\ntype Packet = ControlPacket\n\ntype ControlPacket interface {\n\t// Write the packet in wireformat to a writer\n\tio.WriterTo\n\n\t// Unmarshal wireformat\n\tencoding.BinaryUnmarshaler\n\n\t// Return a short readable string suitable for logging\n\tfmt.Stringer\n}\n\n// HasPacketID is implemented by packets carrying a packet ID.\ntype HasPacketID interface {\n\tPacketID() uint16\n}\n\n// HasReason is implemented by packets carrying a reason code.\ntype HasReason interface {\n\tReasonCode() ReasonCode\n}\n\n// HasWellFormed is implemented by packets that implement WellFormed.\ntype HasWellFormed interface {\n\tWellFormed() *Malformed\n}\n\n// fixedHeader is the fixed byte and the remaining length as read by\n// ReadPacket, use ReadRemaining for the rest.\n//\n// Note: ReasonString for splitting this up is so we can compare\n// performance as pahos Unpack works on the remaining only.\ntype fixedHeader struct {\n\tfixed        bits\n\tremainingLen vbint\n}\n\n// ReadRemaining reads the reamining data and converts to a control\n// packet. The header is only consulted, never updated.\nfunc (f fixedHeader) ReadRemaining(r io.Reader) (ControlPacket, error) {"}}},
		{Name: "inlined-header-stage-refuses-large-frames", Rule: "R6.4", Where: "between-stages", Edits: []Edit{{"packet.go", "\tif _, err := fh.ReadFrom(r); err != nil {\n\t\treturn nil, fmt.Errorf(\"ReadPacket: %w\", err)\n\t}\n\n\treturn fh.ReadRemaining(r)\n}\n\n// Dump writes all packet fields to the given writer, including empty\n// value ones.\nfunc Dump(w io.Writer, p Packet) {\n\tif p, ok := p.(interface{ dump(io.Writer) }); ok {\n\t\tp.dump(w)\n\t}\n}\n\n// Packet and ControlPacket can be used interchangebly.\ntype Packet = ControlPacket\n\ntype ControlPacket interface {\n\t// Write the packet in wireformat to a writer\n\tio.WriterTo\n\n\t// Unmarshal wireformat\n\tencoding.BinaryUnmarshaler\n\n\t// Return a short readable string suitable for logging\n\tfmt.Stringer\n}\n\n// HasPacketID is implemented by packets carrying a packet ID.\ntype HasPacketID interface {\n\tPacketID() uint16\n}\n\n// HasReason is implemented by packets carrying a reason code.\ntype HasReason interface {\n\tReasonCode() ReasonCode\n}\n\n// HasWellFormed is implemented by packets that implement WellFormed.\ntype HasWellFormed interface {\n\tWellFormed() *Malformed\n}\n\ntype fixedHeader struct {\n\tfixed        bits\n\tremainingLen vbint\n}\n\n// ReadFrom reads the fixed byte and the remaining length, use\n// ReadRemaining for the rest.\n//\n// Note: ReasonString for splitting this up is so we can compare\n// performance as pahos Unpack works on the remaining only.\nfunc (f *fixedHeader) ReadFrom(r io.Reader) (int64, error) {\n\tn, err := f.fixed.ReadFrom(r)\n\tif err != nil {\n\t\treturn n, err\n\t}\n\tm, err := f.remainingLen.ReadFrom(r)\n\treturn n + m, err\n}\n\n// ReadRemaining reads the reamining data and converts to a control\n// packet.\nfunc (f *fixedHeader) ReadRemaining(r io.Reader) (ControlPacket, error) {", "\n\t// header stage; the fixed byte followed by the remaining length\n\tif _, err := fh.fixed.ReadFrom(r); err != nil {\n\t\treturn nil, fmt.Errorf(\"ReadPacket: %w\", err)\n\t}\n\tif _, err := fh.remainingLen.ReadFrom(r); err != nil {\n\t\treturn nil, fmt.Errorf(\"ReadPacket: %w\", err)\n\t}\n\n\tif fh.remainingLen > 1<<20 {\n\t\treturn nil, fmt.Errorf(\"ReadPacket: frame too large\")\n\t}\n\t// body stage\n\treturn fh.ReadRemaining(r)\n}\n\n// Dump writes all packet fields to the given writer, including empty\n// value ones.\nfunc Dump(w io.Writer, p Packet) {\n\tif p, ok := p.(interface{ dump(io.Writer) }); ok {\n\t\tp.dump(w)\n\t}\n}\n\n// Packet and ControlPacket can be used interchangebly.\ntype Packet = ControlPacket\n\ntype ControlPacket interface {\n\t// Write the packet in wireformat to a writer\n\tio.WriterTo\n\n\t// Unmarshal wireformat\n\tencoding.BinaryUnmarshaler\n\n\t// Return a short readable string suitable for logging\n\tfmt.Stringer\n}\n\n// HasPacketID is implemented by packets carrying a packet ID.\ntype HasPacketID interface {\n\tPacketID() uint16\n}\n\n// HasReason is implemented by packets carrying a reason code.\ntype HasReason interface {\n\tReasonCode() ReasonCode\n}\n\n// HasWellFormed is implemented by packets that implement WellFormed.\ntype HasWellFormed interface {\n\tWellFormed() *Malformed\n}\n\n// fixedHeader is the fixed byte and the remaining length as read by\n// ReadPacket, use ReadRemaining for the rest.\n//\n// Note: ReasonString for splitting this up is so we can compare\n// performance as pahos Unpack works on the remaining only.\ntype fixedHeader struct {\n\tfixed        bits\n\tremainingLen vbint\n}\n\n// ReadRemaining reads the reamining data and converts to a control\n// packet. The header is only consulted, never updated.\nfunc (f fixedHeader) ReadRemaining(r io.Reader) (ControlPacket, error) {"}}},
		{Name: "early-return-before-body", Rule: "R6.4", Where: "ReadRemaining", Edits: []Edit{{"packet.go", "\tdefault:\n\t\tp = &Undefined{}\n\t}", "\tdefault:\n\t\treturn nil, fmt.Errorf(\"undefined packet type\")\n\t}"}}},
		{Name: "header-two-byte-buffer", Rule: "R6.2", Where: "(*vbint).ReadFrom", Edits: []Edit{{"wiretypes.go", "\tvar value uint\n\tdata := make([]byte, 1)\n\tvar i int64", "\tvar value uint\n\tdata := make([]byte, 2)\n\tvar i int64"}}},
		{Name: "header-length-overwritten", Rule: "R6.2", Where: "remainingLen", Edits: []Edit{{"packet.go", "\tm, err := f.remainingLen.ReadFrom(r)\n", "\tm, err := f.remainingLen.ReadFrom(r)\n\tif f.remainingLen > 1<<20 {\n\t\tf.remainingLen = 1 << 20\n\t}\n"}}},
		{Name: "vbi-reads-ahead", Rule: "R6.3", Where: "(*vbint).ReadFrom", Edits: []Edit{{"wiretypes.go", "\t\ti++\n\t\tencodedByte := data[0]\n\t\tvalue += uint(encodedByte) & uint(127) * multiplier\n\t\tif multiplier > 128*128*128 {\n\t\t\treturn i, unmarshalErr(v, \"\", \"size exceeded\")\n\t\t}\n\t\tif encodedByte&128 == 0 {", "\t\ti++\n\t\tencodedByte := data[0]\n\t\tvalue += uint(encodedByte) & uint(127) * multiplier\n\t\tif multiplier > 128*128*128 {\n\t\t\treturn i, unmarshalErr(v, \"\", \"size exceeded\")\n\t\t}\n\t\tif i == 4 {"}}},
		{Name: "size-through-local", Silent: true, Edits: []Edit{{"packet.go", "\tdata := make([]byte, int(f.remainingLen))", "\tn := int(f.remainingLen)\n\tdata := make([]byte, n)"}}},
	}})
}

// addrClass identifies a memory cell up to the object it lives in: a struct
// field (struct type + index) or a local allocation.
type addrClass struct {
	structT string
	field   int
	alloc   *ssa.Alloc
	name    string
}

func classOfAddr(v ssa.Value) (addrClass, ssa.Value, bool) {
	switch x := v.(type) {
	case *ssa.FieldAddr:
		pt, ok := x.X.Type().Underlying().(*types.Pointer)
		if !ok {
			return addrClass{}, nil, false
		}
		st := pt.Elem().Underlying().(*types.Struct)
		return addrClass{structT: pt.Elem().String(), field: x.Field, name: types.TypeString(pt.Elem(), func(*types.Package) string { return "" }) + "." + st.Field(x.Field).Name()}, x.X, true
	case *ssa.Alloc:
		return addrClass{alloc: x, name: "local " + x.Comment}, x, true
	}
	return addrClass{}, nil, false
}

// storeIntoPrivateTemp: the store writes a field of a local struct whose address never leaves the function (a
// composite literal used as a value — `fixedHeader{p.fixed, n}.fill(b, i)`): another object than any that a field
// class rule is about.
func storeIntoPrivateTemp(st *ssa.Store) bool {
	fa, ok := st.Addr.(*ssa.FieldAddr)
	if !ok {
		return false
	}
	al, ok := fa.X.(*ssa.Alloc)
	if !ok || al.Referrers() == nil {
		return false
	}
	for _, r := range *al.Referrers() {
		switch x := r.(type) {
		case *ssa.DebugRef:
		case *ssa.FieldAddr:
			// the field addresses themselves are only stored through / loaded from
			if x.Referrers() != nil {
				for _, r2 := range *x.Referrers() {
					switch y := r2.(type) {
					case *ssa.DebugRef, *ssa.UnOp:
					case *ssa.Store:
						if y.Addr != ssa.Value(x) {
							return false
						}
					default:
						return false
					}
				}
			}
		case *ssa.UnOp:
			if x.Op != token.MUL {
				return false
			}
		case *ssa.Store:
			if x.Addr != ssa.Value(al) {
				return false
			}
		default:
			return false
		}
	}
	return true
}

func (a addrClass) same(b addrClass) bool {
	if a.alloc != nil || b.alloc != nil {
		return a.alloc == b.alloc
	}
	return a.structT == b.structT && a.field == b.field
}

// stripConvsSafe removes ChangeType and integer conversions that cannot lose bits on either
// supported word size (int/uint/uintptr count as 8 bytes as a source and 4 as a destination,
// and as equal among themselves).
func stripConvsSafe(v ssa.Value) ssa.Value {
	size := func(b *types.Basic, asSrc bool) int {
		switch b.Kind() {
		case types.Int8, types.Uint8, types.Bool:
			return 1
		case types.Int16, types.Uint16:
			return 2
		case types.Int32, types.Uint32:
			return 4
		case types.Int64, types.Uint64:
			return 8
		case types.Int, types.Uint, types.Uintptr:
			if asSrc {
				return 8
			}
			return 4
		}
		return -1
	}
	word := func(b *types.Basic) bool {
		return b.Kind() == types.Int || b.Kind() == types.Uint || b.Kind() == types.Uintptr
	}
	for {
		switch x := v.(type) {
		case *ssa.ChangeType:
			v = x.X
		case *ssa.Convert:
			a, ok1 := x.X.Type().Underlying().(*types.Basic)
			b, ok2 := x.Type().Underlying().(*types.Basic)
			if !ok1 || !ok2 || a.Info()&types.IsInteger == 0 || b.Info()&types.IsInteger == 0 {
				return v
			}
			if !(word(a) && word(b)) && (size(b, false) < size(a, true) || size(a, true) < 0 || size(b, false) < 0) {
				return v
			}
			v = x.X
		default:
			return v
		}
	}
}

// stripConvs removes Convert/ChangeType wrappers (no arithmetic).
func stripConvs(v ssa.Value) ssa.Value {
	for {
		switch x := v.(type) {
		case *ssa.Convert:
			v = x.X
		case *ssa.ChangeType:
			v = x.X
		default:
			return v
		}
	}
}

// constLenOfBuf: static length of a byte buffer value, if it is a constant.
func constLenOfBuf(v ssa.Value) (int64, bool) {
	switch x := v.(type) {
	case *ssa.Slice:
		al, ok := x.X.(*ssa.Alloc)
		if !ok {
			return 0, false
		}
		arr, ok := al.Type().Underlying().(*types.Pointer).Elem().Underlying().(*types.Array)
		if !ok {
			return 0, false
		}
		if x.Low != nil {
			if k, ok := constInt(x.Low); !ok || k != 0 {
				return 0, false
			}
		}
		if x.High == nil {
			return arr.Len(), true
		}
		if k, ok := constInt(x.High); ok {
			return k, true
		}
	case *ssa.MakeSlice:
		if k, ok := constInt(x.Len); ok {
			return k, true
		}
	}
	return 0, false
}

func checkC06(p *Prog, c *Check) {
	c.Rule("R6.1", "in the call tree of ReadPacket the reader is only the first argument of a full-read primitive or handed to an mq function under the same rule; it is not wrapped, stored, captured, asserted or returned")
	c.Rule("R6.2", "header reads use 1-byte buffers; the body buffer's length is, without arithmetic, the value the streaming length reader stored, and nothing else writes that cell")
	c.Rule("R6.3", "the length reader reads exactly one byte per iteration and every successful loop exit is decided by the byte read in that iteration")
	c.Rule("R6.4", "in the function holding the body read every exit lies behind the completed body read, except exits taken on `length == 0`, which perform no read; reads happen in a fixed dominance order, each at most once outside the length loop")
	c.Rule("R6.6", "ReadPacket, evaluated abstractly on specification-derived frames of every packet type (valid ones and ones whose content ends early inside the announced length), takes exactly 1 + size of the remaining-length field + remaining length bytes from the stream, whether it returns the packet or rejects it")
	c.Rule("R6.5", "decoding reads no package-level state that any function writes (see C13 R13.2): the result depends on the frame's bytes only")
	c.Explanation = "Reader uses on the ReadPacket call tree are enumerated (R6.1), each read's buffer size is resolved (R6.2: constant 1 for header bytes; for the body a conversion chain of the cell written only by the streaming length reader, the same object being passed to header and body stage by their common caller), the length loop is checked to consume one byte per iteration with a data-dependent successful exit (R6.3), and the body stage's exits are checked by dominance against the body read (R6.4). Hence exactly 1 + k + remaining-length bytes are requested, on success and on content rejection alike."
	c.Trusted = []string{"go/types + go/ssa (x/tools v0.29.0) faithful IR", "io.ReadFull reads at most len(buf) bytes and exactly len(buf) when err == nil"}
	c.Assumptions = []string{"the reader obeys the io.Reader contract", "numeric correctness of the length value vs. the bytes consumed is C15's subject"}
	rp, msg := p.readPacketAnchor()
	if rp == nil {
		c.Bad("anchor", "ReadPacket", "-", msg)
		return
	}
	onPath := p.Reach([]*ssa.Function{rp})
	type site struct {
		u    ReaderUse
		loop *Loop
	}
	var header, loopReads, body []site
	for _, fn := range sortedFuncs(onPath) {
		uses := p.ReaderUses(fn)
		if len(uses) == 0 {
			continue
		}
		c.Fn(qname(fn))
		var ordered []ReaderUse
		for _, u := range uses {
			c.Sites++
			pos := posOf(p, u.Ins)
			switch u.Kind {
			case FullRead:
				c.OK("R6.1", u.Construct(), pos, "full-read primitive")
				ordered = append(ordered, u)
				n, isConst := constLenOfBuf(u.Buf)
				lp := loopContaining(fn, u.Ins.Block())
				switch {
				case isConst && n == 1 && lp == nil:
					header = append(header, site{u, nil})
					c.OK("R6.2", u.Construct(), pos, "1-byte buffer, read once")
				case isConst && n == 1:
					loopReads = append(loopReads, site{u, lp})
					c.OK("R6.2", u.Construct(), pos, "1-byte buffer inside the length loop")
				case isConst:
					c.Bad("R6.2", u.Construct(), pos, fmt.Sprintf("header read uses a %d-byte buffer: bytes beyond the header byte are consumed", n))
				default:
					body = append(body, site{u, lp})
				}
			case BareRead:
				c.Bad("R6.1", u.Construct(), pos, "bare Read: the number of bytes consumed is whatever the reader returns, not the frame size")
				ordered = append(ordered, u)
			case PassMQ:
				ok := true
				for _, cal := range u.Callee {
					if !onPath[cal] {
						ok = false
					}
				}
				if ok {
					c.OK("R6.1", u.Construct(), pos, "handed to "+qname(u.Callee[0]))
				} else {
					c.Unk("R6.1", u.Construct(), pos, "handed to a function outside the analysed call tree")
				}
				ordered = append(ordered, u)
			case OtherUse:
				c.Bad("R6.1", u.Construct(), pos, "reader leaves the exact-read discipline: "+u.What)
			}
		}
		// fixed order, each at most once (outside the length loop)
		for i, a := range ordered {
			for j, b := range ordered {
				if i >= j {
					continue
				}
				ab := a.Ins.Block().Dominates(b.Ins.Block()) && (a.Ins.Block() != b.Ins.Block() || instrIndex(a.Ins) < instrIndex(b.Ins))
				ba := b.Ins.Block().Dominates(a.Ins.Block()) && (a.Ins.Block() != b.Ins.Block() || instrIndex(b.Ins) < instrIndex(a.Ins))
				cons := fmt.Sprintf("%s#order(%d,%d)", qname(fn), i+1, j+1)
				if ab || ba {
					c.OK("R6.4", cons, posOf(p, a.Ins), "reader uses are ordered by dominance")
				} else {
					c.Unk("R6.4", cons, posOf(p, a.Ins), "two reader uses are not ordered by dominance: the read sequence depends on a branch")
				}
			}
		}
		for _, a := range ordered {
			if lp := loopContaining(fn, a.Ins.Block()); lp != nil {
				if n, isConst := constLenOfBuf(a.Buf); a.Kind == FullRead && isConst && n == 1 {
					continue
				}
				c.Unk("R6.4", a.Construct()+"#once", posOf(p, a.Ins), "reader use inside a loop that is not the 1-byte length loop")
			}
		}
	}
	c.Measured["header_byte_reads"] = len(header)
	c.Measured["length_loop_reads"] = len(loopReads)
	c.Measured["body_reads"] = len(body)
	c.Floor("body read sites", len(body), 1, "a frame with remaining length > 0 has a body")
	c.Floor("1-byte header read sites", len(header)+len(loopReads), 1, "the fixed header is read byte-wise")

	// R6.3 — the length loop
	for _, s := range loopReads {
		checkLengthLoop(p, c, s.u, s.loop)
	}
	// R6.2 body size and R6.4 exits
	for _, s := range body {
		checkBodySite(p, c, s.u, onPath, rp)
	}
	checkFrameConsumption(p, c)
	c.OK("R6.5", "package state", "-", "decided by C13 R13.2 / C14 R14.2 (no function writes package-level or field-held shared storage); re-checked there on every run")
}

func checkLengthLoop(p *Prog, c *Check, u ReaderUse, lp *Loop) {
	fn := u.Fn
	cons := qname(fn) + "#lengthloop"
	pos := posOf(p, u.Ins)
	// exactly one read in the loop, dominating every back edge source
	nreads := 0
	for _, x := range p.ReaderUses(fn) {
		if (x.Kind == FullRead || x.Kind == BareRead || x.Kind == PassMQ) && lp.Has(x.Ins.Block()) {
			nreads++
		}
	}
	if nreads != 1 {
		c.Bad("R6.3", cons, pos, fmt.Sprintf("%d reader uses inside the length loop (want exactly 1 per iteration)", nreads))
		return
	}
	for b := range lp.Blocks {
		for _, s := range b.Succs {
			if s == lp.Header && !u.Ins.Block().Dominates(b) && b != u.Ins.Block() {
				// back edge whose source is not dominated by the read
				c.Bad("R6.3", cons, pos, "an iteration of the length loop can complete without reading a byte")
				return
			}
		}
	}
	if len(lp.InnerLoops()) > 0 {
		for _, il := range lp.InnerLoops() {
			if il.Has(u.Ins.Block()) {
				c.Unk("R6.3", cons, pos, "the read is inside a nested loop")
				return
			}
		}
	}
	// every successful exit depends on the byte just read
	isByteLoad := func(v ssa.Value) bool {
		ld, ok := v.(*ssa.UnOp)
		if !ok || ld.Op.String() != "*" {
			return false
		}
		if !derivedFromBuf(ld.X, u.Buf) {
			return false
		}
		// executed after the read within the iteration
		return u.Ins.Block().Dominates(ld.Block()) && lp.Has(ld.Block()) &&
			(ld.Block() != u.Ins.Block() || instrIndex(ld) > instrIndex(u.Ins))
	}
	errIdx := errorResultIndex(fn.Signature)
	okAll := true
	lpr := NewProver(p, fn)
	for _, e := range lp.ExitEdges() {
		// does this exit reach a successful return?  (a return whose error is not provably non-nil may be one)
		succ := false
		for _, r := range returnsReachable(e.to) {
			if errIdx < 0 || isNilConst(r.Results[errIdx]) || !lpr.NonNil(r.Results[errIdx], r.Block(), 0) {
				succ = true
			}
		}
		if !succ {
			continue
		}
		iff, ok := terminator(e.from).(*ssa.If)
		if !ok {
			okAll = false
			c.Unk("R6.3", cons, posOf(p, terminator(e.from)), "successful loop exit is not a conditional branch")
			continue
		}
		if !dependsOn(iff.Cond, isByteLoad, map[ssa.Value]bool{}) {
			okAll = false
			c.Bad("R6.3", cons, posOf(p, iff), "a successful exit of the length loop does not depend on the byte read in this iteration: the header may be over- or under-read")
		}
	}
	if okAll {
		c.OK("R6.3", cons, pos, "one byte per iteration; every successful exit tests the byte read in that iteration")
	}
}

// checkFrameConsumption (R6.6): ReadPacket, evaluated on abstract frames, takes exactly the frame from the stream —
// when it returns the packet and when it rejects the content.
func checkFrameConsumption(p *Prog, c *Check) {
	base := map[string]sv{}
	specPairMem(base)
	codeOf := map[string]int64{}
	for k, n := range specPacketTypes {
		codeOf[n] = k
	}
	n := 0
	for _, tn := range packetTypeNames() {
		if p.Method(tn, "UnmarshalBinary") == nil {
			continue
		}
		cons := "ReadPacket on " + tn + " frames"
		bad, unk := "", ""
		frames := p.specFrames(tn)
		if len(frames) > 3 {
			frames = frames[:3]
		}
		nt := 0
		for fi := range frames {
			f := &frames[fi]
			header := sv{k: 'i', i: codeOf[tn] | specReservedBits[tn]}
			if tn == "Publish" {
				var q int64
				if k := strings.Index(f.name, "QoS "); k >= 0 {
					fmt.Sscanf(f.name[k+4:], "%d", &q)
				}
				header.i |= q << 1
			}
			total := f.total()
			variants := []struct {
				name string
				toks []wireToken
				ok   bool
			}{{"valid", f.toks, true}}
			if len(f.toks) >= 2 {
				// content-malformed: the same frame size with an item missing at the end (the decoder runs into the end)
				cut := f.toks[:len(f.toks)-1]
				variants = append(variants, struct {
					name string
					toks []wireToken
					ok   bool
				}{"content cut short inside the frame", cut, false})
			}
			for _, v := range variants {
				r := p.decoderReplay(tn, header, v.toks, total, base)
				n++
				nt++
				where := fmt.Sprintf("frame \"%s\" (%s, %d bytes): ", f.name, v.name, r.Frame)
				switch {
				case r.Why != "":
					unk = where + "cannot evaluate ReadPacket: " + r.Why
				case r.Read != r.Frame:
					bad = where + fmt.Sprintf("ReadPacket takes %d byte(s) from the stream: what follows the frame is consumed, or part of the frame is left for the next call", r.Read)
				case r.OverRead > 0:
					bad = where + fmt.Sprintf("ReadPacket asks the stream for %d more byte(s) after it has read the frame: bytes of the next frame are touched", r.OverRead)
				}
			}
		}
		// a frame of this type whose body is not what the type's layout expects (three arbitrary bytes, also for
		// the types that have no body at all): rejected or not, the frame is taken from the stream as a whole
		{
			header := sv{k: 'i', i: codeOf[tn] | specReservedBits[tn]}
			garbage := []wireToken{{"raw", 3, sv{k: 's', i: 3, addr: "spec:payload"}, "three arbitrary bytes"}}
			r := p.decoderReplay(tn, header, garbage, 3, base)
			n++
			nt++
			where := fmt.Sprintf("frame with a body of three arbitrary bytes (%d bytes): ", r.Frame)
			switch {
			case r.Why != "":
				if unk == "" {
					unk = where + "cannot evaluate ReadPacket: " + r.Why
				}
			case r.Read != r.Frame:
				if bad == "" {
					bad = where + fmt.Sprintf("ReadPacket takes %d byte(s) from the stream: the rest of the frame is left for the next call, which reads it as a header", r.Read)
				}
			case r.OverRead > 0:
				if bad == "" {
					bad = where + fmt.Sprintf("ReadPacket asks the stream for %d more byte(s) after it has read the frame", r.OverRead)
				}
			}
		}
		switch {
		case unk != "":
			c.Unk("R6.6", cons, "-", unk)
		case bad != "":
			c.Bad("R6.6", cons, "-", bad)
		default:
			c.OK("R6.6", cons, "-", fmt.Sprintf("exactly the frame is taken from the stream on %d abstract frames (accepted and rejected)", nt))
		}
	}
	c.Measured["frames_evaluated_for_consumption"] = n
}

func checkBodySite(p *Prog, c *Check, u ReaderUse, onPath map[*ssa.Function]bool, rp *ssa.Function) {
	fn := u.Fn
	cons := u.Construct()
	pos := posOf(p, u.Ins)
	ms, ok := u.Buf.(*ssa.MakeSlice)
	if !ok {
		c.Unk("R6.2", cons, pos, "body buffer is not a fresh make([]byte, n) in this function")
		return
	}
	if ms.Cap != ms.Len {
		if k1, ok1 := constInt(ms.Cap); !ok1 || k1 < 0 {
			_ = k1
		}
	}
	lenV := p.stripNonNarrowing(ms.Len)
	ld, ok := lenV.(*ssa.UnOp)
	if !ok || ld.Op.String() != "*" {
		c.Bad("R6.2", cons, pos, "body size is not a plain conversion of the stored length value (arithmetic or masking on the way): "+describeVal(ms.Len))
		return
	}
	cls, base, ok := classOfAddr(ld.X)
	if !ok {
		c.Unk("R6.2", cons, pos, "cannot identify the cell the body size is loaded from")
		return
	}
	// writers of the cell on the path
	type writer struct {
		fn   *ssa.Function
		ins  ssa.Instruction
		call *ssa.Call
		recv ssa.Value // base object of the address passed
	}
	var stores []writer
	var calls []writer
	for _, f := range sortedFuncs(onPath) {
		for _, b := range f.Blocks {
			for _, ins := range b.Instrs {
				switch x := ins.(type) {
				case *ssa.Store:
					// (a store into a private temporary is another object — unless it is the very object the body size
					// is read from: `f.remainingLen = maxBody` on the body stage's own copy of the header)
					if k, sb, ok := classOfAddr(x.Addr); ok && k.same(cls) && (!storeIntoPrivateTemp(x) || sb == base) {
						stores = append(stores, writer{fn: f, ins: ins})
					}
				case *ssa.Call:
					for _, a := range x.Common().Args {
						if k, b2, ok := classOfAddr(a); ok && k.same(cls) {
							if cls.alloc != nil && a == ssa.Value(cls.alloc) || cls.alloc == nil {
								calls = append(calls, writer{fn: f, ins: ins, call: x, recv: b2})
							}
						}
					}
					if x.Common().IsInvoke() {
						if k, b2, ok := classOfAddr(x.Common().Value); ok && k.same(cls) {
							calls = append(calls, writer{fn: f, ins: ins, call: x, recv: b2})
						}
					}
				}
			}
		}
	}
	cellCons := "cell " + cls.name
	for _, s := range stores {
		c.Bad("R6.2", cellCons+"#store@"+qname(s.fn), posOf(p, s.ins), "the stored frame length is overwritten outside the streaming length reader")
	}
	if len(calls) != 1 {
		c.Unk("R6.2", cellCons, pos, fmt.Sprintf("%d call sites receive the address of the length cell (want exactly the streaming length reader)", len(calls)))
		return
	}
	w := calls[0]
	callees, ext := p.CG().Callees(w.call)
	if ext || len(callees) != 1 {
		c.Unk("R6.2", cellCons, posOf(p, w.ins), "the writer of the length cell is not a single mq function")
		return
	}
	k := callees[0]
	// k must be the streaming length reader: has a length-loop read and stores through its first parameter
	hasLoopRead := false
	for _, x := range p.ReaderUses(k) {
		if x.Kind == FullRead && loopContaining(k, x.Ins.Block()) != nil {
			hasLoopRead = true
		}
	}
	storesThroughParam := false
	for _, b := range k.Blocks {
		for _, ins := range b.Instrs {
			if st, ok := ins.(*ssa.Store); ok && len(k.Params) > 0 && st.Addr == ssa.Value(k.Params[0]) {
				storesThroughParam = true
			}
		}
	}
	if !hasLoopRead || !storesThroughParam {
		c.Bad("R6.2", cellCons, posOf(p, w.ins), qname(k)+" receives the length cell but is not the streaming length reader")
		return
	}
	c.OK("R6.2", cellCons, posOf(p, w.ins), "only writer of the length cell is the streaming length reader "+qname(k))
	// same object for header stage and body stage
	sameObj := false
	why := ""
	type liftedStage struct {
		fn   *ssa.Function
		call *ssa.Call
		base ssa.Value
	}
	var lifted []liftedStage
	switch {
	case cls.alloc != nil:
		sameObj = true
		why = "local cell in one function"
	case w.fn == fn:
		sameObj = base == w.recv
		why = "same base value in one function"
	default:
		// the header object handed to the body stage by value (a value receiver): the body stage works on a copy of
		// the caller's header object, taken after the header reads
		if al, isAl := base.(*ssa.Alloc); isAl {
			var vp *ssa.Parameter
			if al.Referrers() != nil {
				for _, r := range *al.Referrers() {
					if st, ok := r.(*ssa.Store); ok && st.Addr == ssa.Value(al) {
						if q, ok := st.Val.(*ssa.Parameter); ok {
							vp = q
						}
					}
				}
			}
			if vp != nil {
				bi := paramIndex(fn, vp)
				for _, cf := range sortedFuncs(onPath) {
					for _, ci := range p.Calls(cf) {
						call, ok := ci.Site.(*ssa.Call)
						if !ok || bi < 0 || bi >= len(call.Common().Args) {
							continue
						}
						for _, cal := range ci.Callees {
							if cal != fn {
								continue
							}
							cp, ok := call.Common().Args[bi].(*ssa.UnOp)
							if !ok || cp.Op != token.MUL {
								continue
							}
							if cp.X == w.recv && w.fn == cf && w.ins.Block().Dominates(cp.Block()) && (w.ins.Block() != cp.Block() || instrIndex(w.ins) < instrIndex(cp)) {
								sameObj = true
								why = "caller " + qname(cf) + " hands the body stage a copy of the header object taken after the length reader has filled it"
								checkBetweenStages(p, c, cf, w.call, call)
							}
						}
					}
				}
			}
		}
		bp, ok1 := base.(*ssa.Parameter)
		hp, ok2 := w.recv.(*ssa.Parameter)
		if ok1 && ok2 {
			bi, hi := paramIndex(fn, bp), paramIndex(w.fn, hp)
			// the body read may sit in a helper of the body stage: follow the header object up through callers
			// that merely pass their own parameter on (each must have a single call site of the callee)
			bodyFn := fn
			for depth := 0; depth < 3; depth++ {
				var site *ssa.Call
				var in *ssa.Function
				n := 0
				for _, cf := range sortedFuncs(onPath) {
					for _, ci := range p.Calls(cf) {
						call, ok := ci.Site.(*ssa.Call)
						if !ok {
							continue
						}
						for _, cal := range ci.Callees {
							if cal == bodyFn {
								n++
								site, in = call, cf
							}
						}
					}
				}
				if n != 1 || bi >= len(site.Common().Args) {
					break
				}
				ap, isParam := site.Common().Args[bi].(*ssa.Parameter)
				if !isParam {
					break
				}
				lifted = append(lifted, liftedStage{fn: in, call: site, base: ap})
				bodyFn, bi = in, paramIndex(in, ap)
			}
			fn := bodyFn
			// common callers
			for _, cf := range sortedFuncs(onPath) {
				var hArg, bArg ssa.Value
				var hCall, bCall *ssa.Call
				for _, ci := range p.Calls(cf) {
					call, ok := ci.Site.(*ssa.Call)
					if !ok {
						continue
					}
					for _, cal := range ci.Callees {
						if cal == w.fn && hi < len(call.Common().Args) {
							hArg, hCall = call.Common().Args[hi], call
						}
						if cal == fn && bi < len(call.Common().Args) {
							bArg, bCall = call.Common().Args[bi], call
						}
					}
				}
				if hCall != nil && bCall != nil {
					if hArg == bArg && hCall.Block().Dominates(bCall.Block()) {
						// nothing else may touch the object in between
						clean := true
						if al, ok := hArg.(*ssa.Alloc); ok {
							for _, r := range *al.Referrers() {
								switch r.(type) {
								case *ssa.DebugRef:
								case *ssa.Call:
									if r != ssa.Instruction(hCall) && r != ssa.Instruction(bCall) {
										clean = false
									}
								default:
									clean = false
								}
							}
						} else {
							clean = false
						}
						if clean {
							sameObj = true
							why = "caller " + qname(cf) + " passes the same fresh header object to both stages, header stage first"
							// R6.4 in the header stage itself: it fails only when one of its reads fails (or inside the length
							// reader, when the header is longer than a header may be).  A refusal after its last read has
							// succeeded — decided by the type or the length just read — makes the caller leave with the
							// frame's body still in the stream
							checkHeaderStageExits(p, c, hCall.Call.StaticCallee())
							// R6.4 in this caller: once the header stage has succeeded, every way out leads through the
							// body stage — an exit in between (decided by anything but the header stage's own failure)
							// leaves the frame's body in the stream
							checkBetweenStages(p, c, cf, hCall, bCall)
						} else {
							why = "the header object is touched between the two stages in " + qname(cf)
						}
					} else {
						why = "header and body stage do not receive the same object in " + qname(cf)
					}
				}
			}
		}
	}
	if sameObj {
		c.OK("R6.2", cons, pos, "body buffer length = conversion of "+cls.name+" ("+why+")")
	} else {
		c.Unk("R6.2", cons, pos, "cannot show that the body size is the length read by the header stage: "+why)
	}
	// R6.4 — exits of the body stage (and of every caller the header object was followed through)
	okAll := true
	type stage struct {
		fn   *ssa.Function
		read ssa.Instruction
		base ssa.Value
	}
	stages := []stage{{fn, u.Ins, base}}
	for _, ls := range lifted {
		stages = append(stages, stage{ls.fn, ls.call, ls.base})
	}
	for _, stg := range stages {
		fn, base := stg.fn, stg.base
		readIns := stg.read
		// the edges taken when the length cell is zero (`== 0`, `!= 0`, and for an unsigned cell `> 0`, `< 1`, …)
		var zero []cfgEdge
		for _, ib := range fn.Blocks {
			iff, ok := terminator(ib).(*ssa.If)
			if !ok {
				continue
			}
			bo, ok := iff.Cond.(*ssa.BinOp)
			if !ok {
				continue
			}
			op := bo.Op
			var x ssa.Value
			var k int64
			if kk, ok := constInt(bo.Y); ok {
				x, k = bo.X, kk
			} else if kk, ok := constInt(bo.X); ok {
				x, k = bo.Y, kk
				switch op { // mirror
				case token.LSS:
					op = token.GTR
				case token.GTR:
					op = token.LSS
				case token.LEQ:
					op = token.GEQ
				case token.GEQ:
					op = token.LEQ
				}
			} else {
				continue
			}
			l2, ok := p.stripNonNarrowing(x).(*ssa.UnOp)
			if !ok || l2.Op.String() != "*" {
				continue
			}
			if k2, b2, ok := classOfAddr(l2.X); !ok || !k2.same(cls) || b2 != base {
				continue
			}
			unsigned := false
			if bt, ok := x.Type().Underlying().(*types.Basic); ok && bt.Info()&types.IsUnsigned != 0 {
				unsigned = true
			}
			zeroSucc := -1
			switch {
			case op == token.EQL && k == 0:
				zeroSucc = 0
			case op == token.NEQ && k == 0:
				zeroSucc = 1
			case unsigned && (op == token.GTR && k == 0 || op == token.GEQ && k == 1):
				zeroSucc = 1
			case unsigned && (op == token.LEQ && k == 0 || op == token.LSS && k == 1):
				zeroSucc = 0
			}
			if zeroSucc >= 0 {
				zero = append(zero, cfgEdge{ib, ib.Succs[zeroSucc]})
			}
		}
		// blocks that can be entered without having passed the read and without having crossed a zero edge
		unread := map[*ssa.BasicBlock]bool{}
		var walk func(b *ssa.BasicBlock)
		walk = func(b *ssa.BasicBlock) {
			if unread[b] {
				return
			}
			unread[b] = true
			if b == readIns.Block() {
				return // what follows lies behind the read
			}
		next:
			for _, sc := range b.Succs {
				for _, z := range zero {
					if z.from == b && z.to == sc {
						continue next
					}
				}
				walk(sc)
			}
		}
		if len(fn.Blocks) > 0 {
			walk(fn.Blocks[0])
		}
		for _, b := range fn.Blocks {
			ret, ok := terminator(b).(*ssa.Return)
			if !ok || b == readIns.Block() {
				continue
			}
			if dominatedByAny(zero, b) && mayFollow(readIns, ret) {
				okAll = false
				c.Bad("R6.4", cons, posOf(p, ret), "exit on the zero-length edge is reachable after the body read")
				continue
			}
			if unread[b] {
				okAll = false
				c.Bad("R6.4", cons, posOf(p, ret), "exit that is not behind the body read and not on the `length == 0` edge: the frame's body is left in the stream")
			}
		}
	}
	if okAll {
		c.OK("R6.4", cons, pos, "every exit lies behind the body read or on the `length == 0` edge (no read)")
	}
}

// checkBetweenStages (R6.4): in the function that runs the header stage (its last call hCall) and then the body
// stage (bCall), every return that does not lie behind the body stage lies on the failure edge of a header read.
func checkBetweenStages(p *Prog, c *Check, cf *ssa.Function, hCall, bCall *ssa.Call) {
	// every call in cf that reads header bytes before the body stage may fail
	hdr := map[ssa.Value]bool{ssa.Value(hCall): true}
	for _, u := range p.ReaderUses(cf) {
		if u.Call != nil && u.Call != bCall && u.Call.Block().Dominates(bCall.Block()) {
			hdr[ssa.Value(u.Call)] = true
		}
	}
	for _, rb := range cf.Blocks {
		ret, isRet := terminator(rb).(*ssa.Return)
		if !isRet || bCall.Block().Dominates(rb) {
			continue
		}
		onHdrErr := false
		for _, ib := range cf.Blocks {
			iff, ok := terminator(ib).(*ssa.If)
			if !ok {
				continue
			}
			bo, ok := iff.Cond.(*ssa.BinOp)
			if !ok || (bo.Op != token.NEQ && bo.Op != token.EQL) {
				continue
			}
			var x ssa.Value
			if isNilConst(bo.Y) {
				x = bo.X
			} else if isNilConst(bo.X) {
				x = bo.Y
			}
			ex, ok := x.(*ssa.Extract)
			if !ok || !hdr[ex.Tuple] {
				if cl, isCall := x.(*ssa.Call); !isCall || !hdr[ssa.Value(cl)] {
					continue
				}
			}
			side := 0
			if bo.Op == token.EQL {
				side = 1
			}
			if edgeDominates(ib, ib.Succs[side], rb) {
				onHdrErr = true
			}
		}
		if !onHdrErr {
			c.Bad("R6.4", qname(cf)+"#between-stages", posOf(p, ret), "an exit after the header stage that neither follows its failure nor leads through the body stage: the frame's body is left in the stream and the next call reads it as a header")
		}
	}
}

// checkHeaderStageExits: in the function that reads the fixed header, every return reachable with the last read
// having succeeded returns a nil error (the constant, or the last read's own error value).
func checkHeaderStageExits(p *Prog, c *Check, h *ssa.Function) {
	if h == nil || len(h.Blocks) == 0 {
		return
	}
	k := errorResultIndex(h.Signature)
	if k < 0 {
		return
	}
	// the last reader use in dominance order
	var last *ReaderUse
	uses := p.ReaderUses(h)
	for i := range uses {
		u := &uses[i]
		if u.Kind != FullRead && u.Kind != PassMQ || u.Call == nil {
			continue
		}
		if last == nil || last.Ins.Block().Dominates(u.Ins.Block()) && last.Ins != u.Ins {
			last = u
		}
	}
	if last == nil {
		return
	}
	var e ssa.Value
	if last.Kind == FullRead {
		e = callResultError(last.Call, 1)
	} else if sc := last.Call.Call.StaticCallee(); sc != nil {
		if ek := errorResultIndex(sc.Signature); ek >= 0 {
			e = callResultError(last.Call, ek)
		}
	}
	cons := qname(h) + "#header-exits"
	if e == nil {
		c.Unk("R6.4", cons, posOf(p, last.Ins), "cannot identify the error of the header stage's last read")
		return
	}
	nonNil, _ := errEdges(e)
	pr := NewProver(p, h)
	okAll := true
	var isNilOrE func(v ssa.Value, d int) bool
	isNilOrE = func(v ssa.Value, d int) bool {
		if d > 6 {
			return false
		}
		if isNilConst(v) || v == e {
			return true
		}
		if ph, ok := v.(*ssa.Phi); ok {
			for i, ed := range ph.Edges {
				pred := ph.Block().Preds[i]
				if pred != last.Ins.Block() && !blocksReachableFrom(last.Ins.Block())[pred] {
					continue // arrives without having passed the last read
				}
				if !isNilOrE(ed, d+1) {
					return false
				}
			}
			return len(ph.Edges) > 0
		}
		return false
	}
	for _, b := range h.Blocks {
		ret, ok := terminator(b).(*ssa.Return)
		if !ok || !mayFollow(last.Ins, ret) {
			continue
		}
		if behindSince(last.Ins, nonNil, b) {
			continue // the read failed
		}
		rv := ret.Results[k]
		if isNilOrE(rv, 0) {
			continue
		}
		_ = pr
		okAll = false
		c.Bad("R6.4", cons, posOf(p, ret), "the header stage can fail after its last read has succeeded (returns "+describeVal(rv)+"): the caller then leaves with the frame's body still in the stream")
	}
	if okAll {
		c.OK("R6.4", cons, posOf(p, last.Ins), "after its last read has succeeded the header stage returns a nil error on every path")
	}
}

func paramIndex(fn *ssa.Function, p *ssa.Parameter) int {
	for i, q := range fn.Params {
		if q == p {
			return i
		}
	}
	return -1
}
