package main

// The sequential reader ("cursor") of the decode path, found structurally, and
// the lemmas K3 / G about it that C04, C05 and C09 rely on.
//
// Cursor type T: a struct with a []byte field D, an int field I and an error
// field E, having a method G(*T, x Iface) that calls x.UnmarshalBinary(D[I:])
// and then advances I.  Nothing is matched by name.

import (
	"fmt"
	"go/token"
	"go/types"

	"golang.org/x/tools/go/ssa"
)

type Cursor struct {
	T       *types.Named
	D, I, E int
	G       *ssa.Function
	Unm     *ssa.Call // the invoke of UnmarshalBinary inside G
	Width   *ssa.Call // the invoke of width() inside G
	Why     string
}

func (p *Prog) Cursor() *Cursor {
	if v, ok := p.cache["cursor"]; ok {
		return v.(*Cursor)
	}
	cur := &Cursor{D: -1, I: -1, E: -1, Why: "no method of the shape G(*T, x) { x.UnmarshalBinary(T.D[T.I:]) } found"}
	defer func() { p.cache["cursor"] = cur }()
	for _, fn := range p.AllFuncs() {
		if fn.Signature.Recv() == nil || len(fn.Params) != 2 || fn.Synthetic != "" {
			continue
		}
		pt, ok := fn.Params[0].Type().Underlying().(*types.Pointer)
		if !ok {
			continue
		}
		nt, ok := pt.Elem().(*types.Named)
		if !ok {
			continue
		}
		st, ok := nt.Underlying().(*types.Struct)
		if !ok || !types.IsInterface(fn.Params[1].Type()) {
			continue
		}
		for _, b := range fn.Blocks {
			for _, ins := range b.Instrs {
				call, ok := ins.(*ssa.Call)
				if !ok || !call.Call.IsInvoke() || call.Call.Value != ssa.Value(fn.Params[1]) || call.Call.Method.Name() != "UnmarshalBinary" {
					continue
				}
				sl, ok := call.Call.Args[0].(*ssa.Slice)
				if !ok || sl.Low == nil || sl.High != nil {
					continue
				}
				dl, ok1 := sl.X.(*ssa.UnOp)
				il, ok2 := sl.Low.(*ssa.UnOp)
				if !ok1 || !ok2 {
					continue
				}
				df, ok1 := dl.X.(*ssa.FieldAddr)
				ifa, ok2 := il.X.(*ssa.FieldAddr)
				if !ok1 || !ok2 || df.X != ssa.Value(fn.Params[0]) || ifa.X != ssa.Value(fn.Params[0]) {
					continue
				}
				cur.T, cur.D, cur.I, cur.G, cur.Unm = nt, df.Field, ifa.Field, fn, call
				// E: the error-typed field that receives the result
				for _, r := range *call.Referrers() {
					if s, ok := r.(*ssa.Store); ok && s.Val == ssa.Value(call) {
						if ef, ok := s.Addr.(*ssa.FieldAddr); ok && ef.X == ssa.Value(fn.Params[0]) && isErrorType(st.Field(ef.Field).Type()) {
							cur.E = ef.Field
						}
					}
				}
			}
		}
		if cur.G != nil {
			break
		}
	}
	if cur.G == nil {
		return cur
	}
	if cur.E < 0 {
		cur.Why = "the result of UnmarshalBinary is not stored in an error field of the reader"
		cur.G = nil
		return cur
	}
	for _, b := range cur.G.Blocks {
		for _, ins := range b.Instrs {
			if call, ok := ins.(*ssa.Call); ok && call.Call.IsInvoke() && call.Call.Value == ssa.Value(cur.G.Params[1]) && call.Call.Method.Name() == "width" {
				cur.Width = call
			}
		}
	}
	cur.Why = ""
	return cur
}

func (cur *Cursor) isField(a ssa.Value, field int) (ssa.Value, bool) {
	fa, ok := a.(*ssa.FieldAddr)
	if !ok || fa.Field != field {
		return nil, false
	}
	pt, ok := fa.X.Type().Underlying().(*types.Pointer)
	if !ok || !types.Identical(pt.Elem(), cur.T) {
		return nil, false
	}
	return fa.X, true
}

// nonNilGlobalValue: g is assigned exactly once, in init, with a value that is
// never nil (fmt.Errorf / errors.New result), and never elsewhere.
func (p *Prog) nonNilGlobalValue(g *ssa.Global) bool {
	n := 0
	okv := false
	for _, fn := range p.AllFuncs() {
		for _, b := range fn.Blocks {
			for _, ins := range b.Instrs {
				s, ok := ins.(*ssa.Store)
				if !ok || s.Addr != ssa.Value(g) {
					continue
				}
				n++
				if fn.Name() != "init" || fn.Parent() != nil {
					return false
				}
				if call, ok := s.Val.(*ssa.Call); ok {
					if sc := call.Call.StaticCallee(); sc != nil && (fullName(sc) == "fmt.Errorf" || fullName(sc) == "errors.New") {
						okv = true
					}
				}
				if mi, ok := s.Val.(*ssa.MakeInterface); ok {
					if _, ok := mi.X.(*ssa.Alloc); ok {
						okv = true
					}
				}
			}
		}
	}
	return n == 1 && okv
}

// CheckLemmas proves the reader's invariants and the behaviour of G, recording
// one obligation per lemma under `rule`.
func (cur *Cursor) CheckLemmas(p *Prog, c *Check, rule string) bool {
	if cur.G == nil {
		c.Unk(rule, "sequential reader", "-", "the decode path's sequential reader was not found: "+cur.Why)
		return false
	}
	g := cur.G
	tn := cur.T.Obj().Name()
	c.Fn(qname(g))
	okAll := true
	fail := func(cons, pos, why string, st Status) {
		okAll = false
		c.add(rule, cons, pos, st, why)
	}
	// K3.a — D is written only at construction (store into a fresh allocation of T)
	// K3.b — I is written only in G
	// K3.c — stores to E outside G store non-nil values (sticky error)
	nD, nI, nE := 0, 0, 0
	for _, fn := range p.AllFuncs() {
		var pr *Prover
		for _, b := range fn.Blocks {
			for _, ins := range b.Instrs {
				s, ok := ins.(*ssa.Store)
				if !ok {
					continue
				}
				if base, ok := cur.isField(s.Addr, cur.D); ok {
					nD++
					if _, isAlloc := base.(*ssa.Alloc); !isAlloc {
						fail(tn+".data written after construction", posOf(p, ins), "the reader's data field is stored to outside its construction in "+qname(fn)+": offsets proven against the old slice are void", Violated)
					}
				}
				if _, ok := cur.isField(s.Addr, cur.I); ok {
					nI++
					if fn != g {
						if base, _ := cur.isField(s.Addr, cur.I); base != nil {
							if _, isAlloc := base.(*ssa.Alloc); isAlloc {
								if k, isC := constInt(s.Val); isC && k == 0 {
									continue
								}
							}
						}
						fail(tn+".offset written outside get", posOf(p, ins), "the reader's offset is stored to in "+qname(fn)+", outside the guarded primitive "+qname(g), Violated)
					}
				}
				if _, ok := cur.isField(s.Addr, cur.E); ok && fn != g {
					nE++
					if pr == nil {
						pr = NewProver(p, fn)
					}
					if !pr.NonNil(s.Val, b, 0) {
						fail(tn+".err overwritten in "+qname(fn), posOf(p, ins), "the sticky error may be overwritten with a possibly-nil value", Violated)
					}
				}
			}
		}
	}
	if okAll {
		c.OK(rule, tn+" field discipline", p.Pos(g.Pos()), fmt.Sprintf("data is written only at construction (%d sites), the offset only inside %s (%d sites), the error elsewhere only with non-nil values (%d sites)", nD, qname(g), nI, nE))
	}

	// G — shape of the guarded primitive
	pr := NewProver(p, g)
	pr.cur = cur
	pr.assumeContracts()
	recv := g.Params[0]
	entry := g.Blocks[0]
	var noop *ssa.BasicBlock
	if iff, ok := terminator(entry).(*ssa.If); ok {
		if bo, ok := iff.Cond.(*ssa.BinOp); ok && (bo.Op == token.NEQ || bo.Op == token.EQL) && isNilConst(bo.Y) {
			if ld, ok := bo.X.(*ssa.UnOp); ok && ld.Op == token.MUL {
				if base, ok := cur.isField(ld.X, cur.E); ok && base == ssa.Value(recv) {
					if bo.Op == token.NEQ {
						noop = entry.Succs[0]
					} else {
						noop = entry.Succs[1]
					}
				}
			}
		}
	}
	cons := qname(g)
	if noop == nil {
		fail(cons+"#sticky", p.Pos(g.Pos()), "the primitive does not start with `if err != nil { return }`: reads continue after a failure", Violated)
		return false
	}
	pure := true
	for _, ins := range entry.Instrs {
		switch ins.(type) {
		case *ssa.Store, *ssa.Call, *ssa.MapUpdate:
			pure = false
		}
	}
	for _, ins := range noop.Instrs {
		switch ins.(type) {
		case *ssa.Return, *ssa.DebugRef:
		default:
			pure = false
		}
	}
	if !pure {
		fail(cons+"#sticky", p.Pos(g.Pos()), "the error path of the primitive is not a plain return", Violated)
	} else {
		c.OK(rule, cons+"#sticky", posOf(p, terminator(entry)), "no-op once the error is set")
	}
	// every other exit: error set non-nil, or offset advanced within bounds
	for _, b := range g.Blocks {
		ret, ok := terminator(b).(*ssa.Return)
		if !ok || b == noop {
			continue
		}
		kind, why := cur.classifyExit(p, pr, b)
		rcons := fmt.Sprintf("%s#exit@b%d", cons, exitOrdinal(g, b))
		switch kind {
		case "error":
			c.OK(rule, rcons, posOf(p, ret), "exit with the error set to a non-nil value: "+why)
		case "advance":
			c.OK(rule, rcons, posOf(p, ret), "exit after advancing the offset by width() with offset+width <= len(data) proven: "+why)
		default:
			fail(rcons, posOf(p, ret), "exit that neither sets a non-nil error nor advances the offset within bounds: "+why, Undecided)
		}
	}
	return okAll
}

func exitOrdinal(fn *ssa.Function, b *ssa.BasicBlock) int {
	n := 0
	for _, x := range fn.Blocks {
		if _, ok := terminator(x).(*ssa.Return); ok {
			n++
			if x == b {
				return n
			}
		}
	}
	return 0
}

// classifyExit decides what state G leaves the reader in when returning from b.
func (cur *Cursor) classifyExit(p *Prog, pr *Prover, b *ssa.BasicBlock) (string, string) {
	g := cur.G
	recv := ssa.Value(g.Params[0])
	// stores to E / I that dominate b, latest first
	var lastE, lastI *ssa.Store
	for d := b; d != nil; d = d.Idom() {
		for i := len(d.Instrs) - 1; i >= 0; i-- {
			s, ok := d.Instrs[i].(*ssa.Store)
			if !ok {
				continue
			}
			if base, ok := cur.isField(s.Addr, cur.E); ok && base == recv && lastE == nil {
				lastE = s
			}
			if base, ok := cur.isField(s.Addr, cur.I); ok && base == recv && lastI == nil {
				lastI = s
			}
		}
	}
	// stores not dominating b but reaching it would make the state unknown
	for _, x := range g.Blocks {
		for _, ins := range x.Instrs {
			s, ok := ins.(*ssa.Store)
			if !ok {
				continue
			}
			_, isE := cur.isField(s.Addr, cur.E)
			_, isI := cur.isField(s.Addr, cur.I)
			if (isE || isI) && !x.Dominates(b) && (blocksReachableFrom(x)[b]) {
				return "", "a store to the reader's state reaches this exit on some paths only"
			}
		}
	}
	if lastI != nil {
		// advance: value = load(I) + w
		if cur.Width == nil {
			return "", "no width() call"
		}
		val := pr.lin(lastI.Val)
		wl := pr.lin(cur.Width)
		// the old offset
		var old Lin
		found := false
		for _, ins := range g.Blocks[0].Instrs {
			_ = ins
		}
		for a := range val.coef {
			if a != pr.key(cur.Width) {
				old = linAtom(a)
				found = true
			}
		}
		if !found || !val.equal(old.add(wl)) {
			return "", "the offset is not advanced by exactly width(): " + val.String()
		}
		// E must be nil on this path: the last store to E, if any, must be behind a == nil test
		if lastE != nil {
			nilKnown := false
			k := pr.key(lastE.Val)
			for _, dc := range domConds(b) {
				if pr.nilCondIsNil(dc.cond, dc.truth, k) {
					nilKnown = true
				}
			}
			if !nilKnown {
				return "", "offset advanced although the error may have been set"
			}
		}
		// bounds: len(D) - (I + w) >= 0 at the store
		dlen := pr.lenOf(cur.dLoad(pr))
		if !pr.Prove(lastI.Block(), dlen.sub(val)) {
			return "", "cannot prove offset+width <= len(data) at the advancing store (facts: " + describeFacts(pr, lastI.Block()) + ")"
		}
		if !pr.Prove(lastI.Block(), val) {
			return "", "cannot prove the new offset non-negative"
		}
		return "advance", "new offset " + val.String() + " <= " + dlen.String()
	}
	if lastE != nil {
		if pr.NonNil(lastE.Val, b, 0) {
			return "error", "stored value is known non-nil"
		}
		if ld, ok := lastE.Val.(*ssa.UnOp); ok && ld.Op == token.MUL {
			if gl, ok := ld.X.(*ssa.Global); ok && p.nonNilGlobalValue(gl) {
				return "error", "package error value " + gl.Name() + " (assigned once in init from fmt.Errorf)"
			}
		}
		return "", "the error stored before this exit may be nil"
	}
	return "", "no state change before this exit"
}

// dLoad returns a value representing recv.D inside G (any load of it).
func (cur *Cursor) dLoad(pr *Prover) ssa.Value {
	for _, b := range cur.G.Blocks {
		for _, ins := range b.Instrs {
			if ld, ok := ins.(*ssa.UnOp); ok && ld.Op == token.MUL {
				if base, ok := cur.isField(ld.X, cur.D); ok && base == ssa.Value(cur.G.Params[0]) {
					return ld
				}
			}
		}
	}
	return nil
}

func describeFacts(pr *Prover, b *ssa.BasicBlock) string {
	s := ""
	for i, f := range pr.factsAt(b) {
		if i > 0 {
			s += "; "
		}
		s += f.String() + " >= 0"
	}
	return s
}

// nilCondIsNil: does cond==truth imply that the value with key k IS nil?
func (pr *Prover) nilCondIsNil(cond ssa.Value, truth bool, k string) bool {
	switch x := cond.(type) {
	case *ssa.UnOp:
		if x.Op == token.NOT {
			return pr.nilCondIsNil(x.X, !truth, k)
		}
	case *ssa.BinOp:
		var other ssa.Value
		if isNilConst(x.Y) {
			other = x.X
		} else if isNilConst(x.X) {
			other = x.Y
		} else {
			return false
		}
		if pr.key(other) != k {
			return false
		}
		return x.Op == token.EQL && truth || x.Op == token.NEQ && !truth
	}
	return false
}
