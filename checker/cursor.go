package main

// The sequential reader ("cursor") of the decode path, found structurally, and
// the lemmas K3 / G about it that C04, C05 and C09 rely on.
//
// Cursor type T: a struct with a []byte field D, an int field I and an error
// field E, having a method G(*T, x Iface) that calls x.UnmarshalBinary(D[I:])
// and then advances I.  Nothing is matched by name.

import (
	"fmt"
	"go/token"
	"go/types"
	"math"

	"golang.org/x/tools/go/ssa"
)

type Cursor struct {
	T       *types.Named
	D, I, E int
	G       *ssa.Function
	Unm     *ssa.Call // the invoke of UnmarshalBinary inside G
	Width   *ssa.Call // the invoke of width() inside G
	Rest    *ssa.Call // G takes the input from a helper of the reader that returns nil or data[offset:]: that call
	Why     string
	ctors   map[*ssa.Function]int
}

func (p *Prog) Cursor() *Cursor {
	if v, ok := p.cache["cursor"]; ok {
		return v.(*Cursor)
	}
	cur := &Cursor{D: -1, I: -1, E: -1, Why: "no method of the shape G(*T, x) { x.UnmarshalBinary(T.D[T.I:]) } found"}
	defer func() { p.cache["cursor"] = cur }()
	for _, fn := range p.AllFuncs() {
		if fn.Signature.Recv() == nil || len(fn.Params) != 2 || fn.Synthetic != "" {
			continue
		}
		pt, ok := fn.Params[0].Type().Underlying().(*types.Pointer)
		if !ok {
			continue
		}
		nt, ok := pt.Elem().(*types.Named)
		if !ok {
			continue
		}
		st, ok := nt.Underlying().(*types.Struct)
		if !ok || !types.IsInterface(fn.Params[1].Type()) {
			continue
		}
		for _, b := range fn.Blocks {
			for _, ins := range b.Instrs {
				call, ok := ins.(*ssa.Call)
				if !ok || !call.Call.IsInvoke() || call.Call.Value != ssa.Value(fn.Params[1]) || call.Call.Method.Name() != "UnmarshalBinary" {
					continue
				}
				var base ssa.Value = fn.Params[0]
				arg := call.Call.Args[0]
				var restCall *ssa.Call
				if rc, isCall := arg.(*ssa.Call); isCall {
					// the input comes from a helper of the reader that returns nil or data[offset:] of its receiver
					if h := rc.Call.StaticCallee(); h != nil && len(h.Blocks) > 0 && len(rc.Call.Args) == 1 && rc.Call.Args[0] == ssa.Value(fn.Params[0]) {
						var hs *ssa.Slice
						okH := true
						for _, hb := range h.Blocks {
							ret, isRet := terminator(hb).(*ssa.Return)
							if !isRet {
								continue
							}
							if len(ret.Results) != 1 {
								okH = false
								continue
							}
							if isNilConst(ret.Results[0]) {
								continue
							}
							if x, isSl := ret.Results[0].(*ssa.Slice); isSl && (hs == nil || hs == x) {
								hs = x
							} else {
								okH = false
							}
						}
						if okH && hs != nil {
							arg, base, restCall = hs, h.Params[0], rc
						}
					}
				}
				sl, ok := arg.(*ssa.Slice)
				if !ok || sl.Low == nil || sl.High != nil {
					continue
				}
				dl, ok1 := sl.X.(*ssa.UnOp)
				il, ok2 := sl.Low.(*ssa.UnOp)
				if !ok1 || !ok2 {
					continue
				}
				df, ok1 := dl.X.(*ssa.FieldAddr)
				ifa, ok2 := il.X.(*ssa.FieldAddr)
				if !ok1 || !ok2 || df.X != base || ifa.X != base {
					continue
				}
				cur.Rest = restCall
				cur.T, cur.D, cur.I, cur.G, cur.Unm = nt, df.Field, ifa.Field, fn, call
				// E: the error-typed field that receives the result
				for _, r := range *call.Referrers() {
					if s, ok := r.(*ssa.Store); ok && s.Val == ssa.Value(call) {
						if ef, ok := s.Addr.(*ssa.FieldAddr); ok && ef.X == ssa.Value(fn.Params[0]) && isErrorType(st.Field(ef.Field).Type()) {
							cur.E = ef.Field
						}
					}
					// … or handed, with the reader, to a helper that stores it there (`b.fail(err)`)
					if hc, ok := r.(*ssa.Call); ok && cur.E < 0 {
						sc := hc.Call.StaticCallee()
						if sc == nil || len(sc.Blocks) == 0 || len(hc.Call.Args) < 2 || hc.Call.Args[0] != ssa.Value(fn.Params[0]) {
							continue
						}
						for _, hb := range sc.Blocks {
							for _, hi := range hb.Instrs {
								if s, ok := hi.(*ssa.Store); ok {
									if ef, ok := s.Addr.(*ssa.FieldAddr); ok && ef.X == ssa.Value(sc.Params[0]) && isErrorType(st.Field(ef.Field).Type()) {
										if _, isP := s.Val.(*ssa.Parameter); isP {
											cur.E = ef.Field
										}
									}
								}
							}
						}
					}
				}
			}
		}
		if cur.G != nil {
			break
		}
	}
	if cur.G == nil {
		return cur
	}
	if cur.E < 0 {
		cur.Why = "the result of UnmarshalBinary is not stored in an error field of the reader"
		cur.G = nil
		return cur
	}
	for _, b := range cur.G.Blocks {
		for _, ins := range b.Instrs {
			if call, ok := ins.(*ssa.Call); ok && call.Call.IsInvoke() && call.Call.Value == ssa.Value(cur.G.Params[1]) && call.Call.Method.Name() == "width" {
				cur.Width = call
			}
		}
	}
	cur.Why = ""
	return cur
}

func (cur *Cursor) isField(a ssa.Value, field int) (ssa.Value, bool) {
	fa, ok := a.(*ssa.FieldAddr)
	if !ok || fa.Field != field {
		return nil, false
	}
	pt, ok := fa.X.Type().Underlying().(*types.Pointer)
	if !ok || !types.Identical(pt.Elem(), cur.T) {
		return nil, false
	}
	return fa.X, true
}

// nonNilGlobalValue: g is assigned exactly once, in init, with a value that is
// never nil (fmt.Errorf / errors.New result), and never elsewhere.
func (p *Prog) nonNilGlobalValue(g *ssa.Global) bool {
	n := 0
	okv := false
	for _, fn := range p.AllFuncs() {
		for _, b := range fn.Blocks {
			for _, ins := range b.Instrs {
				s, ok := ins.(*ssa.Store)
				if !ok || s.Addr != ssa.Value(g) {
					continue
				}
				n++
				if fn.Name() != "init" || fn.Parent() != nil {
					return false
				}
				if call, ok := s.Val.(*ssa.Call); ok {
					if sc := call.Call.StaticCallee(); sc != nil && (fullName(sc) == "fmt.Errorf" || fullName(sc) == "errors.New") {
						okv = true
					}
				}
				if mi, ok := s.Val.(*ssa.MakeInterface); ok {
					if _, ok := mi.X.(*ssa.Alloc); ok {
						okv = true
					}
				}
			}
		}
	}
	return n == 1 && okv
}

// CheckLemmas proves the reader's invariants and the behaviour of G, recording
// one obligation per lemma under `rule`.
func (cur *Cursor) CheckLemmas(p *Prog, c *Check, rule string) bool {
	if cur.G == nil {
		c.Unk(rule, "sequential reader", "-", "the decode path's sequential reader was not found: "+cur.Why)
		return false
	}
	g := cur.G
	tn := cur.T.Obj().Name()
	c.Fn(qname(g))
	okAll := true
	fail := func(cons, pos, why string, st Status) {
		okAll = false
		c.add(rule, cons, pos, st, why)
	}
	// K3.a — D is written only at construction (store into a fresh allocation of T)
	// K3.b — I is written only in G
	// K3.c — stores to E outside G store non-nil values (sticky error)
	nD, nI, nE := 0, 0, 0
	nBulk := 0
	for _, fn := range p.AllFuncs() {
		var pr *Prover
		for _, b := range fn.Blocks {
			for _, ins := range b.Instrs {
				s, ok := ins.(*ssa.Store)
				if !ok {
					continue
				}
				// the reader overwritten as a whole (`*b = buffer{data: rest}`): data, offset and the sticky error
				// change at once, the error back to nil
				if pt, ok := s.Addr.Type().Underlying().(*types.Pointer); ok && types.Identical(pt.Elem(), cur.T) {
					fail(tn+" overwritten as a whole in "+qname(fn), posOf(p, ins), "the reader is assigned as a whole struct value: the sticky error is reset to nil (what an earlier field rejected is forgotten) and the offset restarts on other data", Violated)
				}
				if base, ok := cur.isField(s.Addr, cur.D); ok {
					nD++
					if _, isAlloc := base.(*ssa.Alloc); !isAlloc {
						fail(tn+".data written after construction", posOf(p, ins), "the reader's data field is stored to outside its construction in "+qname(fn)+": offsets proven against the old slice are void", Violated)
					}
				}
				if _, ok := cur.isField(s.Addr, cur.I); ok {
					nI++
					if fn != g {
						if base, _ := cur.isField(s.Addr, cur.I); base != nil {
							if _, isAlloc := base.(*ssa.Alloc); isAlloc {
								if k, isC := constInt(s.Val); isC && k == 0 {
									continue
								}
							}
						}
						// moving the offset over the rest of the data in one step (`b.i += copy(dst, b.data[b.i:])`): the
						// new offset is proven within [old offset, len(data)]
						if cur.bulkAdvanceOK(p, fn, s) {
							nBulk++
							continue
						}
						fail(tn+".offset written outside get", posOf(p, ins), "the reader's offset is stored to in "+qname(fn)+", outside the guarded primitive "+qname(g), Violated)
					}
				}
				if ebase, ok := cur.isField(s.Addr, cur.E); ok && fn != g {
					nE++
					if pr == nil {
						pr = NewProver(p, fn)
					}
					if pr.NonNil(s.Val, b, 0) {
						continue
					}
					// stored only where no error is recorded yet (`if b.err == nil { b.err = err }`): nothing is overwritten
					// (the error must still be known nil where the store is made: a test at the top of the function does
					// not cover a store behind reads that may have set it — followed by the sticky-error flow)
					guarded := false
					if stt, ok := p.stickyStateAt(cur, fn, ebase, s, 0); ok && stt.reached && stt.known == 1 {
						guarded = true
					}
					if guarded {
						continue
					}
					// a helper that stores its parameter: every caller outside the guarded primitive (which accounts
					// for its own calls path by path) must hand it a non-nil error
					if k := cur.errSetterParam(fn); k >= 0 {
						okSites := true
						for _, cf := range p.AllFuncs() {
							if cf == g {
								continue
							}
							var cpr *Prover
							for _, cb := range cf.Blocks {
								for _, ci := range cb.Instrs {
									call, isCall := ci.(*ssa.Call)
									if !isCall || call.Call.StaticCallee() != fn || k >= len(call.Call.Args) {
										continue
									}
									if cpr == nil {
										cpr = NewProver(p, cf)
									}
									if !cpr.NonNil(call.Call.Args[k], cb, 0) {
										okSites = false
										fail(tn+".err overwritten through "+qname(fn)+" in "+qname(cf), posOf(p, ci), "the sticky error may be overwritten with a possibly-nil value", Violated)
									}
								}
							}
						}
						if okSites {
							continue
						}
						continue
					}
					fail(tn+".err overwritten in "+qname(fn), posOf(p, ins), "the sticky error may be overwritten with a possibly-nil value", Violated)
				}
			}
		}
	}
	if okAll {
		c.OK(rule, tn+" field discipline", p.Pos(g.Pos()), fmt.Sprintf("data is written only at construction (%d sites), the offset only inside %s (%d sites, %d of them bulk advances over the rest of the data proven within bounds), the error elsewhere only with non-nil values (%d sites)", nD, qname(g), nI, nBulk, nE))
	}

	// G — the guarded primitive, path by path.  G is loop free; every entry→return path is walked with the state
	// of the reader's error and offset as the path leaves them:
	//   sticky   on a path where the error was set on entry nothing is stored or called;
	//   error    the path leaves with a non-nil error stored (directly, or through a helper of the reader that
	//            stores its argument in the error field) and the offset untouched; or
	//   advance  the offset is stored once, as old offset + width() of the value just decoded, proven within
	//            [0, len(data)] under the conditions of the path, the decoder's result having been found nil and
	//            the error field being nil when the path leaves.
	pr := NewProver(p, g)
	pr.cur = cur
	pr.assumeContracts()
	recv := ssa.Value(g.Params[0])
	cons := qname(g)
	if len(AllLoops(g)) > 0 {
		fail(cons+"#paths", p.Pos(g.Pos()), "the guarded primitive contains a loop", Undecided)
		return false
	}
	type pathState struct {
		entryE     int // 0 unknown, 1 nil, 2 non-nil
		eStored    ssa.Value
		eStoreAt   *ssa.BasicBlock
		eHelper    bool
		iStores    []*ssa.Store
		loadsE     map[ssa.Value]ssa.Value // load of E -> the value it yields (nil entry = the entry value)
		loadsEntry map[ssa.Value]bool
		isNil      map[ssa.Value]bool // value known nil (true) / non-nil (false) on this path
		facts      []Lin
		alts       [][]Lin // alternative sets of facts (what a helper of the reader returned); empty = one empty alternative
		acted      string  // first store/call made while the entry error was not known to be nil
		unmSeen    bool
		unknown    string
	}
	clone := func(st *pathState) *pathState {
		c := *st
		c.iStores = append([]*ssa.Store(nil), st.iStores...)
		c.facts = append([]Lin(nil), st.facts...)
		c.alts = append([][]Lin(nil), st.alts...)
		c.loadsE, c.loadsEntry, c.isNil = map[ssa.Value]ssa.Value{}, map[ssa.Value]bool{}, map[ssa.Value]bool{}
		for k, v := range st.loadsE {
			c.loadsE[k] = v
		}
		for k, v := range st.loadsEntry {
			c.loadsEntry[k] = v
		}
		for k, v := range st.isNil {
			c.isNil[k] = v
		}
		return &c
	}
	// nil test: (subject, nil-on-this-side)
	var nilTest2 func(cond ssa.Value, truth bool) (ssa.Value, bool, bool)
	nilTest2 = func(cond ssa.Value, truth bool) (ssa.Value, bool, bool) {
		switch x := cond.(type) {
		case *ssa.UnOp:
			if x.Op == token.NOT {
				return nilTest2(x.X, !truth)
			}
		case *ssa.BinOp:
			var other ssa.Value
			if isNilConst(x.Y) {
				other = x.X
			} else if isNilConst(x.X) {
				other = x.Y
			} else {
				return nil, false, false
			}
			if x.Op == token.EQL {
				return other, truth, true
			}
			if x.Op == token.NEQ {
				return other, !truth, true
			}
		}
		return nil, false, false
	}
	// the length of the reader's data, also where G itself never loads the field
	dlenOf := func() Lin {
		if ld := cur.dLoad(pr); ld != nil {
			return pr.lenOf(ld)
		}
		k := fmt.Sprintf("len(*(&(%s).%d))", pr.key(recv), cur.D)
		pr.atomRange(k, 0, math.MaxInt64)
		return linAtom(k)
	}
	inconsistent := func(b *ssa.BasicBlock, facts []Lin) bool { return pr.Prove(b, linConst(-1), facts...) }
	// proveAll: the goal holds under every alternative that is consistent with the path
	proveAll := func(b *ssa.BasicBlock, goal Lin, st *pathState) bool {
		alts := st.alts
		if len(alts) == 0 {
			alts = [][]Lin{nil}
		}
		for _, a := range alts {
			fs := append(append([]Lin(nil), st.facts...), a...)
			if inconsistent(b, fs) {
				continue
			}
			if !pr.Prove(b, goal, fs...) {
				return false
			}
		}
		return true
	}
	npaths, nsticky, nerr, nadv := 0, 0, 0, 0
	stickyBad := false
	problems := map[string]bool{}
	report := func(b *ssa.BasicBlock, why string, stt Status) {
		rcons := fmt.Sprintf("%s#exit@b%d", cons, exitOrdinal(g, b))
		if problems[rcons+why] {
			return
		}
		problems[rcons+why] = true
		fail(rcons, posOf(p, terminator(b)), why, stt)
	}
	finish := func(b *ssa.BasicBlock, st *pathState) {
		npaths++
		if st.unknown != "" {
			report(b, "exit that neither sets a non-nil error nor advances the offset within bounds: "+st.unknown, Undecided)
			return
		}
		if st.acted != "" {
			stickyBad = true
			fail(cons+"#sticky", p.Pos(g.Pos()), "the primitive acts ("+st.acted+") on a path on which the error set by an earlier read has not been found nil: reads continue after a failure", Violated)
			return
		}
		if st.entryE == 2 {
			nsticky++
			return
		}
		if st.entryE == 0 {
			// nothing was done and the error was never looked at: a read that silently does nothing (`if b.optional
			// && b.atEnd() { return }` in front of everything) — the caller goes on as if a value had been read
			report(b, "exit that neither sets a non-nil error nor advances the offset within bounds: the primitive returns without reading, although no error is known to be set", Undecided)
			return
		}
		// the error field as the path leaves it
		eNonNil, eNil := false, st.eStored == nil
		if st.eStored != nil {
			if known, has := st.isNil[st.eStored]; has {
				eNil, eNonNil = known, !known
			} else if pr.NonNil(st.eStored, st.eStoreAt, 0) {
				eNonNil = true
			} else if ld, ok := st.eStored.(*ssa.UnOp); ok && ld.Op == token.MUL {
				if gl, ok := ld.X.(*ssa.Global); ok && p.nonNilGlobalValue(gl) {
					eNonNil = true
				}
			}
		}
		if len(st.iStores) == 0 {
			if eNonNil {
				nerr++
				return
			}
			why := "no state change before this exit"
			if st.eStored != nil {
				why = "the error stored before this exit may be nil"
			}
			report(b, "exit that neither sets a non-nil error nor advances the offset within bounds: "+why, Undecided)
			return
		}
		why := ""
		switch {
		case len(st.iStores) > 1:
			why = "the offset is stored more than once on a path"
		case cur.Width == nil:
			why = "no width() call"
		case !st.unmSeen:
			why = "the offset is advanced on a path that does not decode a value"
		case !eNil:
			why = "offset advanced although the error may have been set"
		default:
			if known, has := st.isNil[ssa.Value(cur.Unm)]; !has || !known {
				why = "offset advanced although the decoder's result has not been found nil"
			}
		}
		if why == "" {
			is := st.iStores[0]
			val := pr.lin(is.Val)
			wl := pr.lin(cur.Width)
			var old Lin
			found := false
			for a := range val.coef {
				if a != pr.key(cur.Width) {
					old = linAtom(a)
					found = true
				}
			}
			dlen := dlenOf()
			switch {
			case !found || !val.equal(old.add(wl)):
				why = "the offset is not advanced by exactly width(): " + val.String()
			case !proveAll(is.Block(), dlen.sub(val), st):
				why = "cannot prove offset+width <= len(data) at the advancing store (facts: " + describeFacts(pr, is.Block()) + ")"
			case !proveAll(is.Block(), val, st):
				why = "cannot prove the new offset non-negative"
			}
		}
		if why != "" {
			report(b, "exit that neither sets a non-nil error nor advances the offset within bounds: "+why, Undecided)
			return
		}
		nadv++
	}
	var walk func(b *ssa.BasicBlock, st *pathState, depth int)
	walk = func(b *ssa.BasicBlock, st *pathState, depth int) {
		if npaths > 512 || depth > 64 {
			return
		}
		act := func(what string) {
			if st.entryE != 1 && st.acted == "" {
				st.acted = what
			}
		}
		for _, ins := range b.Instrs {
			switch x := ins.(type) {
			case *ssa.UnOp:
				if x.Op == token.MUL {
					if base, ok := cur.isField(x.X, cur.E); ok && base == recv {
						if st.eStored == nil {
							st.loadsEntry[x] = true
						} else {
							st.loadsE[x] = st.eStored
						}
					}
				}
			case *ssa.Store:
				if base, ok := cur.isField(x.Addr, cur.E); ok && base == recv {
					act("stores the error at " + posOf(p, x))
					st.eStored, st.eStoreAt, st.eHelper = x.Val, b, false
				} else if base, ok := cur.isField(x.Addr, cur.I); ok && base == recv {
					act("moves the offset at " + posOf(p, x))
					st.iStores = append(st.iStores, x)
				} else if rootOfAddr(x.Addr) == recv {
					st.unknown = "the primitive writes another part of the reader at " + posOf(p, x)
				}
			case *ssa.Call:
				if _, isB := x.Call.Value.(*ssa.Builtin); isB {
					continue
				}
				switch {
				case x == cur.Unm:
					act("decodes at " + posOf(p, x))
					st.unmSeen = true
				case x == cur.Width:
				case x == cur.Rest:
					// what the helper hands back: nothing (the offset has reached the end), or data[offset:]
					lr := pr.lenOf(x)
					dl := dlenOf()
					var off Lin
					haveOff := false
					for _, gb := range g.Blocks {
						for _, gi := range gb.Instrs {
							if ld, ok := gi.(*ssa.UnOp); ok && ld.Op == token.MUL {
								if lb, ok := cur.isField(ld.X, cur.I); ok && lb == recv {
									off, haveOff = pr.lin(ld), true
								}
							}
						}
					}
					if !haveOff {
						st.unknown = "the offset is never loaded in the primitive: what " + x.String() + " returns cannot be related to it"
						continue
					}
					st.alts = [][]Lin{
						{lr.scale(-1)}, // len(rest) == 0 (a nil or empty slice)
						{lr.sub(dl.sub(off)), dl.sub(off).sub(lr)}, // len(rest) == len(data) - offset
					}
				default:
					usesRecv := false
					for _, a := range x.Call.Args {
						if a == recv {
							usesRecv = true
						}
					}
					if !usesRecv {
						if x.Call.IsInvoke() {
							act("calls " + x.Call.Method.Name() + " at " + posOf(p, x))
						}
						continue
					}
					sc := x.Call.StaticCallee()
					if k := cur.errSetterParam(sc); k >= 0 && k < len(x.Call.Args) {
						act("records an error at " + posOf(p, x))
						st.eStored, st.eStoreAt, st.eHelper = x.Call.Args[k], b, true
						continue
					}
					if sc != nil && p.allEffects().Summary(sc) != nil && len(p.allEffects().Summary(sc).Writes) == 0 {
						continue // a pure helper of the reader (remaining(), atEnd())
					}
					st.unknown = "the reader is handed to " + x.String() + " at " + posOf(p, x) + ", whose effect on it is not known"
				}
			}
		}
		switch t := terminator(b).(type) {
		case *ssa.Return:
			finish(b, st)
		case *ssa.Jump:
			walk(b.Succs[0], st, depth+1)
		case *ssa.If:
			for side := 0; side < 2; side++ {
				truth := side == 0
				ns := clone(st)
				if subj, isNil, ok := nilTest2(t.Cond, truth); ok {
					switch {
					case ns.loadsEntry[subj]:
						want := 1
						if !isNil {
							want = 2
						}
						if ns.entryE != 0 && ns.entryE != want {
							continue // infeasible
						}
						ns.entryE = want
					default:
						if v, has := ns.loadsE[subj]; has {
							subj = v
						}
						if known, has := ns.isNil[subj]; has && known != isNil {
							continue // infeasible
						}
						ns.isNil[subj] = isNil
					}
				} else {
					cf := pr.condFacts(t.Cond, truth)
					ns.facts = append(ns.facts, cf...)
					// infeasible when every alternative contradicts the path
					alts := ns.alts
					if len(alts) == 0 {
						alts = [][]Lin{nil}
					}
					feasible := false
					var keep [][]Lin
					for _, a := range alts {
						if !inconsistent(b, append(append([]Lin(nil), ns.facts...), a...)) {
							feasible = true
							keep = append(keep, a)
						}
					}
					if !feasible {
						continue
					}
					if len(ns.alts) > 0 {
						ns.alts = keep
					}
				}
				walk(b.Succs[side], ns, depth+1)
			}
		default:
			st.unknown = "unexpected control flow"
			finish(b, st)
		}
	}
	walk(g.Blocks[0], &pathState{loadsE: map[ssa.Value]ssa.Value{}, loadsEntry: map[ssa.Value]bool{}, isNil: map[ssa.Value]bool{}}, 0)
	if npaths > 512 {
		fail(cons+"#paths", p.Pos(g.Pos()), "too many paths through the guarded primitive", Undecided)
	}
	if nsticky == 0 {
		fail(cons+"#sticky", p.Pos(g.Pos()), "the primitive has no path that returns at once when the error is already set: reads continue after a failure", Violated)
	} else if !stickyBad {
		c.OK(rule, cons+"#sticky", p.Pos(g.Pos()), "no-op once the error is set")
	}
	if okAll {
		c.OK(rule, cons+"#exits", p.Pos(g.Pos()), fmt.Sprintf("%d paths: %d leave with a non-nil error stored and the offset untouched, %d after advancing the offset by width() with offset+width <= len(data) proven under the path's conditions and the decoder's result found nil", npaths, nerr, nadv))
	}
	if nadv == 0 {
		fail(cons+"#exits", p.Pos(g.Pos()), "no path advances the offset", Undecided)
	}
	return okAll
}

// bulkAdvanceOK: the store st (in fn, outside the guarded primitive) moves the offset of a reader to a value
// proven to lie between the old offset and the length of the reader's data.
func (cur *Cursor) bulkAdvanceOK(p *Prog, fn *ssa.Function, st *ssa.Store) bool {
	base, ok := cur.isField(st.Addr, cur.I)
	if !ok {
		return false
	}
	pr := NewProver(p, fn)
	pr.cur = cur
	pr.assumeContracts()
	// the data length of this reader object
	var dlen Lin
	have := false
	if al, isAl := base.(*ssa.Alloc); isAl && al.Referrers() != nil {
		for _, r := range *al.Referrers() {
			fa, ok := r.(*ssa.FieldAddr)
			if !ok || fa.Field != cur.D || fa.Referrers() == nil {
				continue
			}
			for _, r2 := range *fa.Referrers() {
				if ds, ok := r2.(*ssa.Store); ok && ds.Addr == ssa.Value(fa) {
					dlen, have = pr.lenOf(ds.Val), true
				}
			}
		}
	}
	if !have {
		k := fmt.Sprintf("len(*(&(%s).%d))", pr.key(base), cur.D)
		pr.atomRange(k, 0, math.MaxInt64)
		dlen = linAtom(k)
	}
	val := pr.lin(st.Val)
	// the old offset: the load of the same field this value was computed from
	var old *Lin
	for _, b := range fn.Blocks {
		for _, ins := range b.Instrs {
			if ld, ok := ins.(*ssa.UnOp); ok && ld.Op == token.MUL {
				if lb, ok := cur.isField(ld.X, cur.I); ok && lb == base && b.Dominates(st.Block()) {
					l := pr.lin(ld)
					old = &l
				}
			}
		}
	}
	if old == nil {
		return false
	}
	b := st.Block()
	return pr.Prove(b, val.sub(*old)) && pr.Prove(b, dlen.sub(val)) && pr.Prove(b, val)
}

// nilTestOf: cond==truth tests a value against nil: (the value, is-nil on this side).
func nilTestOf(cond ssa.Value, truth bool) (ssa.Value, bool, bool) {
	switch x := cond.(type) {
	case *ssa.UnOp:
		if x.Op == token.NOT {
			return nilTestOf(x.X, !truth)
		}
	case *ssa.BinOp:
		var other ssa.Value
		if isNilConst(x.Y) {
			other = x.X
		} else if isNilConst(x.X) {
			other = x.Y
		} else {
			return nil, false, false
		}
		if x.Op == token.EQL {
			return other, truth, true
		}
		if x.Op == token.NEQ {
			return other, !truth, true
		}
	}
	return nil, false, false
}

// errSetterParam: fn is a helper of the reader whose only effect is to store one of its parameters in the
// reader's error field (possibly only when no error is recorded yet): returns that parameter's index, else -1.
func (cur *Cursor) errSetterParam(fn *ssa.Function) int {
	if fn == nil || len(fn.Blocks) == 0 || len(fn.Params) < 2 {
		return -1
	}
	k := -1
	for _, b := range fn.Blocks {
		for _, ins := range b.Instrs {
			switch x := ins.(type) {
			case *ssa.Store:
				base, ok := cur.isField(x.Addr, cur.E)
				if !ok || base != ssa.Value(fn.Params[0]) {
					return -1
				}
				pi := -1
				for i, prm := range fn.Params {
					if x.Val == ssa.Value(prm) {
						pi = i
					}
				}
				if pi < 1 || (k >= 0 && k != pi) {
					return -1
				}
				k = pi
			case *ssa.Call:
				if _, isB := x.Call.Value.(*ssa.Builtin); !isB {
					return -1
				}
			case *ssa.MapUpdate, *ssa.Send, *ssa.Go, *ssa.Defer:
				return -1
			}
		}
	}
	return k
}

func exitOrdinal(fn *ssa.Function, b *ssa.BasicBlock) int {
	n := 0
	for _, x := range fn.Blocks {
		if _, ok := terminator(x).(*ssa.Return); ok {
			n++
			if x == b {
				return n
			}
		}
	}
	return 0
}

// classifyExit decides what state G leaves the reader in when returning from b.
func (cur *Cursor) classifyExit(p *Prog, pr *Prover, b *ssa.BasicBlock) (string, string) {
	g := cur.G
	recv := ssa.Value(g.Params[0])
	// stores to E / I that dominate b, latest first
	var lastE, lastI *ssa.Store
	for d := b; d != nil; d = d.Idom() {
		for i := len(d.Instrs) - 1; i >= 0; i-- {
			s, ok := d.Instrs[i].(*ssa.Store)
			if !ok {
				continue
			}
			if base, ok := cur.isField(s.Addr, cur.E); ok && base == recv && lastE == nil {
				lastE = s
			}
			if base, ok := cur.isField(s.Addr, cur.I); ok && base == recv && lastI == nil {
				lastI = s
			}
		}
	}
	// stores not dominating b but reaching it would make the state unknown
	for _, x := range g.Blocks {
		for _, ins := range x.Instrs {
			s, ok := ins.(*ssa.Store)
			if !ok {
				continue
			}
			_, isE := cur.isField(s.Addr, cur.E)
			_, isI := cur.isField(s.Addr, cur.I)
			if (isE || isI) && !x.Dominates(b) && (blocksReachableFrom(x)[b]) {
				return "", "a store to the reader's state reaches this exit on some paths only"
			}
		}
	}
	if lastI != nil {
		// advance: value = load(I) + w
		if cur.Width == nil {
			return "", "no width() call"
		}
		val := pr.lin(lastI.Val)
		wl := pr.lin(cur.Width)
		// the old offset
		var old Lin
		found := false
		for _, ins := range g.Blocks[0].Instrs {
			_ = ins
		}
		for a := range val.coef {
			if a != pr.key(cur.Width) {
				old = linAtom(a)
				found = true
			}
		}
		if !found || !val.equal(old.add(wl)) {
			return "", "the offset is not advanced by exactly width(): " + val.String()
		}
		// E must be nil on this path: the last store to E, if any, must be behind a == nil test
		if lastE != nil {
			nilKnown := false
			k := pr.key(lastE.Val)
			for _, dc := range domConds(b) {
				if pr.nilCondIsNil(dc.cond, dc.truth, k) {
					nilKnown = true
				}
			}
			if !nilKnown {
				return "", "offset advanced although the error may have been set"
			}
		}
		// bounds: len(D) - (I + w) >= 0 at the store
		dlen := pr.lenOf(cur.dLoad(pr))
		if !pr.Prove(lastI.Block(), dlen.sub(val)) {
			return "", "cannot prove offset+width <= len(data) at the advancing store (facts: " + describeFacts(pr, lastI.Block()) + ")"
		}
		if !pr.Prove(lastI.Block(), val) {
			return "", "cannot prove the new offset non-negative"
		}
		return "advance", "new offset " + val.String() + " <= " + dlen.String()
	}
	if lastE != nil {
		if pr.NonNil(lastE.Val, b, 0) {
			return "error", "stored value is known non-nil"
		}
		if ld, ok := lastE.Val.(*ssa.UnOp); ok && ld.Op == token.MUL {
			if gl, ok := ld.X.(*ssa.Global); ok && p.nonNilGlobalValue(gl) {
				return "error", "package error value " + gl.Name() + " (assigned once in init from fmt.Errorf)"
			}
		}
		return "", "the error stored before this exit may be nil"
	}
	return "", "no state change before this exit"
}

// dLoad returns a value representing recv.D inside G (any load of it).
func (cur *Cursor) dLoad(pr *Prover) ssa.Value {
	for _, b := range cur.G.Blocks {
		for _, ins := range b.Instrs {
			if ld, ok := ins.(*ssa.UnOp); ok && ld.Op == token.MUL {
				if base, ok := cur.isField(ld.X, cur.D); ok && base == ssa.Value(cur.G.Params[0]) {
					return ld
				}
			}
		}
	}
	return nil
}

func describeFacts(pr *Prover, b *ssa.BasicBlock) string {
	s := ""
	for i, f := range pr.factsAt(b) {
		if i > 0 {
			s += "; "
		}
		s += f.String() + " >= 0"
	}
	return s
}

// nilCondIsNil: does cond==truth imply that the value with key k IS nil?
func (pr *Prover) nilCondIsNil(cond ssa.Value, truth bool, k string) bool {
	switch x := cond.(type) {
	case *ssa.UnOp:
		if x.Op == token.NOT {
			return pr.nilCondIsNil(x.X, !truth, k)
		}
	case *ssa.BinOp:
		var other ssa.Value
		if isNilConst(x.Y) {
			other = x.X
		} else if isNilConst(x.X) {
			other = x.Y
		} else {
			return false
		}
		if pr.key(other) != k {
			return false
		}
		return x.Op == token.EQL && truth || x.Op == token.NEQ && !truth
	}
	return false
}

// readerCtor: fn is a constructor of the sequential reader — it allocates one reader, stores one of its parameters
// as the data (offset and error left at, or set to, zero), does nothing else, and returns that reader on every
// path.  Returns the index of the data parameter, or -1.  `newBuffer(data)` stands for `&buffer{data: data}`
// wherever a reader created in a function is looked for.
func (cur *Cursor) readerCtor(fn *ssa.Function) int {
	if cur == nil || cur.G == nil || fn == nil || len(fn.Blocks) == 0 || fn.Signature.Results().Len() != 1 {
		return -1
	}
	pt, ok := fn.Signature.Results().At(0).Type().Underlying().(*types.Pointer)
	if !ok || !types.Identical(pt.Elem(), cur.T) {
		return -1
	}
	if cur.ctors == nil {
		cur.ctors = map[*ssa.Function]int{}
	}
	if k, ok := cur.ctors[fn]; ok {
		return k
	}
	cur.ctors[fn] = -1
	var al *ssa.Alloc
	dataPrm := -1
	for _, b := range fn.Blocks {
		for _, ins := range b.Instrs {
			switch x := ins.(type) {
			case *ssa.Alloc:
				if al != nil || !types.Identical(x.Type(), fn.Signature.Results().At(0).Type()) {
					return -1
				}
				al = x
			case *ssa.FieldAddr:
				if x.X != ssa.Value(al) {
					return -1
				}
			case *ssa.Store:
				fa, ok := x.Addr.(*ssa.FieldAddr)
				if !ok || al == nil || fa.X != ssa.Value(al) {
					return -1
				}
				switch fa.Field {
				case cur.D:
					prm, ok := x.Val.(*ssa.Parameter)
					if !ok || dataPrm >= 0 {
						return -1
					}
					dataPrm = paramIndex(fn, prm)
				case cur.I:
					if k, ok := constInt(x.Val); !ok || k != 0 {
						return -1
					}
				case cur.E:
					if !isNilConst(x.Val) {
						return -1
					}
				default:
					switch x.Val.(type) {
					case *ssa.Parameter, *ssa.Const:
					default:
						return -1
					}
				}
			case *ssa.Return:
				if len(x.Results) != 1 || x.Results[0] != ssa.Value(al) {
					return -1
				}
			case *ssa.DebugRef, *ssa.Jump:
			default:
				return -1
			}
		}
	}
	if al == nil || dataPrm < 0 {
		return -1
	}
	cur.ctors[fn] = dataPrm
	return dataPrm
}

// newReader: v is a reader created here — an allocation of the reader type or a call of a reader constructor.
// data is what it reads from (nil for an allocation: see the stores into its data field).
func (cur *Cursor) newReader(v ssa.Value) (data ssa.Value, ok bool) {
	switch x := v.(type) {
	case *ssa.Alloc:
		if pt, isP := x.Type().Underlying().(*types.Pointer); isP && cur.T != nil && types.Identical(pt.Elem(), cur.T) {
			return nil, true
		}
	case *ssa.Call:
		if sc := x.Call.StaticCallee(); sc != nil {
			if k := cur.readerCtor(sc); k >= 0 && k < len(x.Call.Args) {
				return x.Call.Args[k], true
			}
		}
	}
	return nil, false
}

// setterLeavesErrorSet: fn is an error-setter helper of the reader (errSetterParam) after which the reader's error
// is non-nil whenever the argument is: every path to a return stores the parameter, or runs behind a test that
// found the error field (of the same reader, not written in the helper otherwise) non-nil.  Returns the parameter
// index, else -1.
func (cur *Cursor) setterLeavesErrorSet(fn *ssa.Function) int {
	k := cur.errSetterParam(fn)
	if k < 0 {
		return -1
	}
	done := map[*ssa.BasicBlock]bool{}
	type edge struct{ from, to *ssa.BasicBlock }
	doneEdge := map[edge]bool{}
	for _, b := range fn.Blocks {
		for _, ins := range b.Instrs {
			if st, ok := ins.(*ssa.Store); ok {
				if _, isE := cur.isField(st.Addr, cur.E); isE {
					done[b] = true
				}
			}
		}
		if iff, ok := terminator(b).(*ssa.If); ok {
			for side, truth := range []bool{true, false} {
				if v, isNil, ok := nilTestOf(iff.Cond, truth); ok && !isNil {
					if ld, isLd := v.(*ssa.UnOp); isLd && ld.Op == token.MUL {
						if base, isE := cur.isField(ld.X, cur.E); isE && base == ssa.Value(fn.Params[0]) {
							doneEdge[edge{b, b.Succs[side]}] = true
						}
					}
				}
			}
		}
	}
	ok := true
	seen := map[*ssa.BasicBlock]bool{}
	var dfs func(b *ssa.BasicBlock)
	dfs = func(b *ssa.BasicBlock) {
		if seen[b] || done[b] {
			return
		}
		seen[b] = true
		if _, isRet := terminator(b).(*ssa.Return); isRet {
			ok = false
		}
		for _, s := range b.Succs {
			if !doneEdge[edge{b, s}] {
				dfs(s)
			}
		}
	}
	dfs(fn.Blocks[0])
	if !ok {
		return -1
	}
	return k
}
