package main

// E0 — functions of package mq, stable names, call resolution, reachability.

import (
	"fmt"
	"go/constant"
	"go/token"
	"go/types"
	"os"
	"sort"
	"strings"

	"golang.org/x/tools/go/callgraph"
	"golang.org/x/tools/go/callgraph/cha"
	"golang.org/x/tools/go/callgraph/vta"
	"golang.org/x/tools/go/ssa"
	"golang.org/x/tools/go/ssa/ssautil"
)

// inMQ reports whether fn belongs to package mq (including synthetic wrappers
// of mq methods and closures).
func (p *Prog) inMQ(fn *ssa.Function) bool {
	if fn == nil {
		return false
	}
	for f := fn; f != nil; f = f.Parent() {
		if f.Pkg == p.SSA {
			return true
		}
	}
	if fn.Pkg == nil {
		if o := fn.Object(); o != nil && o.Pkg() == p.Pkg {
			return true
		}
		if fn.Signature.Recv() != nil {
			if n := namedOf(fn.Signature.Recv().Type()); n != nil && n.Obj().Pkg() == p.Pkg {
				return true
			}
		}
		// bound method closures: free var 0 is the receiver
		if strings.HasSuffix(fn.Name(), "$bound") && len(fn.FreeVars) == 1 {
			if n := namedOf(fn.FreeVars[0].Type()); n != nil && n.Obj().Pkg() == p.Pkg {
				return true
			}
		}
	}
	return false
}

func namedOf(t types.Type) *types.Named {
	t = types.Unalias(t)
	if pt, ok := t.(*types.Pointer); ok {
		t = types.Unalias(pt.Elem())
	}
	n, _ := t.(*types.Named)
	return n
}

// fname is the stable display name of a function: "(*Connect).fill",
// "ReadPacket", "(*Connect).payload$1".
func fname(fn *ssa.Function) string {
	if fn == nil {
		return "<nil>"
	}
	return qname(fn)
}

// AllFuncs returns every function with a body that belongs to package mq:
// package-level functions, methods, closures, and the synthetic wrappers and
// bound-method closures that are reachable in the program.
func (p *Prog) AllFuncs() []*ssa.Function {
	if v, ok := p.cache["allfuncs"]; ok {
		return v.([]*ssa.Function)
	}
	var out []*ssa.Function
	for fn := range ssautil.AllFunctions(p.Prog) {
		if fn.Blocks == nil || !p.inMQ(fn) {
			continue
		}
		out = append(out, fn)
	}
	sort.Slice(out, func(i, j int) bool {
		a, b := qname(out[i]), qname(out[j])
		if a != b {
			return a < b
		}
		return out[i].Pos() < out[j].Pos()
	})
	p.cache["allfuncs"] = out
	return out
}

// qname is fname without relying on fn.Pkg (nil for synthetic wrappers).
func qname(fn *ssa.Function) string {
	s := fn.String()
	s = strings.ReplaceAll(s, mqPath+".", "")
	return s
}

// Func finds a package-level function by name.
func (p *Prog) Func(name string) *ssa.Function { return p.SSA.Func(name) }

// Method finds the method `name` on named type `typ` (value or pointer
// receiver, whichever is declared).
func (p *Prog) Method(typ, name string) *ssa.Function {
	obj := p.Pkg.Scope().Lookup(typ)
	if obj == nil {
		return nil
	}
	tn, ok := obj.(*types.TypeName)
	if !ok {
		return nil
	}
	T := tn.Type()
	for _, t := range []types.Type{T, types.NewPointer(T)} {
		sel := p.Prog.MethodSets.MethodSet(t).Lookup(p.Pkg, name)
		if sel == nil {
			continue
		}
		fn := p.Prog.MethodValue(sel)
		if fn == nil {
			continue
		}
		// prefer the declared method, not a wrapper
		if fn.Synthetic != "" {
			if d := p.Prog.FuncValue(sel.Obj().(*types.Func)); d != nil {
				return d
			}
		}
		return fn
	}
	return nil
}

// NamedTypes lists the named (non-alias) types declared in package mq.
func (p *Prog) NamedTypes() []*types.Named {
	var out []*types.Named
	sc := p.Pkg.Scope()
	for _, n := range sc.Names() {
		if tn, ok := sc.Lookup(n).(*types.TypeName); ok && !tn.IsAlias() {
			if nt, ok := tn.Type().(*types.Named); ok {
				out = append(out, nt)
			}
		}
	}
	return out
}

// Implementers returns the mq types (T or *T) whose method set satisfies iface.
func (p *Prog) Implementers(iface *types.Interface) []types.Type {
	var out []types.Type
	for _, nt := range p.NamedTypes() {
		if types.IsInterface(nt) {
			continue
		}
		if types.Implements(nt, iface) {
			out = append(out, nt)
		} else if pt := types.NewPointer(nt); types.Implements(pt, iface) {
			out = append(out, pt)
		}
	}
	return out
}

func (p *Prog) LookupIface(name string) *types.Interface {
	obj := p.Pkg.Scope().Lookup(name)
	if obj == nil {
		return nil
	}
	it, _ := obj.Type().Underlying().(*types.Interface)
	return it
}

// ---------- call graph ----------

type CG struct {
	p   *Prog
	vta *callgraph.Graph
	cha *callgraph.Graph
}

func (p *Prog) CG() *CG {
	if v, ok := p.cache["cg"]; ok {
		return v.(*CG)
	}
	all := ssautil.AllFunctions(p.Prog)
	chag := cha.CallGraph(p.Prog)
	g := &CG{p: p, cha: chag, vta: vta.CallGraph(all, chag)}
	p.cache["cg"] = g
	return g
}

func edgesAt(g *callgraph.Graph, site ssa.CallInstruction) []*ssa.Function {
	n := g.Nodes[site.Parent()]
	if n == nil {
		return nil
	}
	var out []*ssa.Function
	seen := map[*ssa.Function]bool{}
	for _, e := range n.Out {
		if e.Site == site && !seen[e.Callee.Func] {
			seen[e.Callee.Func] = true
			out = append(out, e.Callee.Func)
		}
	}
	sort.Slice(out, func(i, j int) bool { return out[i].String() < out[j].String() })
	return out
}

// fromRootParam: does the backward slice of v (through phis, interface
// conversions and type assertions) reach a parameter of a function that has no
// caller inside the package (an API entry point)?  VTA knows nothing about the
// values such a parameter may hold.
func (g *CG) fromRootParam(v ssa.Value, seen map[ssa.Value]bool) bool {
	if seen[v] {
		return false
	}
	seen[v] = true
	switch x := v.(type) {
	case *ssa.Parameter:
		fn := x.Parent()
		if n := g.vta.Nodes[fn]; n == nil || len(n.In) == 0 {
			return true
		}
		// exported functions/methods can also be called from outside
		if fn.Parent() == nil && fn.Object() != nil && fn.Object().Exported() {
			return true
		}
		return false
	case *ssa.Phi:
		for _, e := range x.Edges {
			if g.fromRootParam(e, seen) {
				return true
			}
		}
	case *ssa.ChangeInterface:
		return g.fromRootParam(x.X, seen)
	case *ssa.TypeAssert:
		return g.fromRootParam(x.X, seen)
	case *ssa.Extract:
		return g.fromRootParam(x.Tuple, seen)
	}
	return false
}

// Callees resolves a call site.  external is true when the call (also) leaves
// package mq: a function without body, or a dynamic call on a value of a
// non-mq interface (io.Reader, io.Writer, error, …).
func (g *CG) Callees(site ssa.CallInstruction) (fns []*ssa.Function, external bool) {
	c := site.Common()
	if sc := c.StaticCallee(); sc != nil {
		if sc.Blocks == nil {
			return []*ssa.Function{sc}, true
		}
		return []*ssa.Function{sc}, false
	}
	if _, ok := c.Value.(*ssa.Builtin); ok {
		return nil, false
	}
	if !c.IsInvoke() && g.p.cache["cgmode"] != "cha" {
		if lit, ok := mapLiteralClosures(c.Value); ok {
			return lit, false
		}
	}
	if g.p.cache["cgmode"] == "cha" {
		fns = edgesAt(g.cha, site)
		var keep []*ssa.Function
		for _, f := range fns {
			if f.Blocks == nil {
				external = true
				continue
			}
			keep = append(keep, f)
		}
		if c.IsInvoke() {
			if nt := namedOf(c.Value.Type()); nt == nil || nt.Obj().Pkg() != g.p.Pkg {
				if _, isAnon := types.Unalias(c.Value.Type()).(*types.Interface); !isAnon {
					external = true
				}
			}
		}
		return keep, external
	}
	fns = edgesAt(g.vta, site)
	if c.IsInvoke() {
		// interface declared outside mq: the dynamic callee is the caller's
		if nt := namedOf(c.Value.Type()); nt == nil || nt.Obj().Pkg() != g.p.Pkg {
			if _, isAnon := types.Unalias(c.Value.Type()).(*types.Interface); !isAnon {
				external = true
			}
		}
		if len(fns) == 0 || g.fromRootParam(c.Value, map[ssa.Value]bool{}) {
			seen := map[*ssa.Function]bool{}
			for _, f := range fns {
				seen[f] = true
			}
			for _, f := range edgesAt(g.cha, site) {
				if !seen[f] && g.p.inMQ(f) {
					fns = append(fns, f)
				}
			}
		}
	} else if len(fns) == 0 {
		// dynamic call of a func value VTA could not see through: every
		// mq function of that signature whose address is taken
		fns = edgesAt(g.cha, site)
	}
	var keep []*ssa.Function
	for _, f := range fns {
		if f.Blocks == nil {
			external = true
			continue
		}
		keep = append(keep, f)
	}
	sort.Slice(keep, func(i, j int) bool { return keep[i].String() < keep[j].String() })
	return keep, external
}

// ---------- fmt reflective edges ----------

var fmtFormatFuncs = map[string]int{ // name -> index of the format argument
	"fmt.Sprintf": 0, "fmt.Errorf": 0, "fmt.Printf": 0, "fmt.Fprintf": 1,
}
var fmtPlainFuncs = map[string]int{ // name -> index of first operand
	"fmt.Sprint": 0, "fmt.Sprintln": 0, "fmt.Print": 0, "fmt.Println": 0,
	"fmt.Fprint": 1, "fmt.Fprintln": 1,
}

// FmtCall describes a call of a fmt printing function.
type FmtCall struct {
	Site   ssa.CallInstruction
	Name   string
	Format string      // constant format, "" if none / not constant
	HasFmt bool        // the function takes a format
	ConstF bool        // and it is a constant
	Args   []ssa.Value // variadic operands, as passed (interface values)
	Verbs  []byte      // verb applied to each arg ('v' for plain functions, 0 if unknown)
}

func fullName(fn *ssa.Function) string {
	if fn == nil {
		return ""
	}
	if fn.Pkg != nil && fn.Signature.Recv() == nil {
		return fn.Pkg.Pkg.Path() + "." + fn.Name()
	}
	return fn.String()
}

// variadicElems recovers the elements stored into the implicit []any of a
// variadic call: slice t0[:] of `new [n]any (varargs)` with stores to
// &t0[k].
func variadicElems(v ssa.Value) ([]ssa.Value, bool) {
	if c, ok := v.(*ssa.Const); ok && c.Value == nil {
		return nil, true // nil slice: no operands
	}
	sl, ok := v.(*ssa.Slice)
	if !ok {
		return nil, false
	}
	al, ok := sl.X.(*ssa.Alloc)
	if !ok {
		return nil, false
	}
	arr, ok := al.Type().Underlying().(*types.Pointer).Elem().Underlying().(*types.Array)
	if !ok {
		return nil, false
	}
	out := make([]ssa.Value, arr.Len())
	for _, ref := range *al.Referrers() {
		ia, ok := ref.(*ssa.IndexAddr)
		if !ok {
			continue
		}
		k, ok := ia.Index.(*ssa.Const)
		if !ok {
			return nil, false
		}
		idx, _ := constant.Int64Val(k.Value)
		for _, r2 := range *ia.Referrers() {
			if st, ok := r2.(*ssa.Store); ok && st.Addr == ia {
				out[idx] = st.Val
			}
		}
	}
	for _, e := range out {
		if e == nil {
			return nil, false
		}
	}
	return out, true
}

func parseVerbs(format string) []byte {
	var verbs []byte
	for i := 0; i < len(format); i++ {
		if format[i] != '%' {
			continue
		}
		i++
		sharp := false
		for i < len(format) && strings.IndexByte("+-# 0123456789.[]*", format[i]) >= 0 {
			if format[i] == '#' {
				sharp = true
			}
			i++
		}
		if i >= len(format) {
			break
		}
		if format[i] == '%' {
			continue
		}
		if format[i] == 'v' && sharp {
			verbs = append(verbs, 'V') // %#v: Go-syntax representation — GoString() if there is one, never String()/Error()
			continue
		}
		verbs = append(verbs, format[i])
	}
	return verbs
}

// AsFmtCall recognises fmt printing calls.
func AsFmtCall(site ssa.CallInstruction) *FmtCall {
	sc := site.Common().StaticCallee()
	if sc == nil {
		return nil
	}
	name := fullName(sc)
	args := site.Common().Args
	if fi, ok := fmtFormatFuncs[name]; ok {
		fc := &FmtCall{Site: site, Name: name, HasFmt: true}
		if k, ok := args[fi].(*ssa.Const); ok && k.Value != nil && k.Value.Kind() == constant.String {
			fc.Format = constant.StringVal(k.Value)
			fc.ConstF = true
		}
		elems, ok := variadicElems(args[fi+1])
		if !ok {
			fc.Args = nil
			fc.ConstF = false
			return fc
		}
		fc.Args = elems
		if fc.ConstF {
			vs := parseVerbs(fc.Format)
			fc.Verbs = make([]byte, len(elems))
			for i := range elems {
				if i < len(vs) {
					fc.Verbs[i] = vs[i]
				} else {
					fc.Verbs[i] = 'v' // %!(EXTRA …) prints with %v
				}
			}
			if strings.Contains(fc.Format, "[") || strings.Contains(fc.Format, "*") {
				for i := range fc.Verbs {
					fc.Verbs[i] = 0
				}
			}
		} else {
			fc.Verbs = make([]byte, len(elems))
		}
		return fc
	}
	if fi, ok := fmtPlainFuncs[name]; ok {
		fc := &FmtCall{Site: site, Name: name}
		elems, ok := variadicElems(args[fi])
		if !ok {
			return fc
		}
		fc.Args = elems
		fc.Verbs = make([]byte, len(elems))
		for i := range fc.Verbs {
			fc.Verbs[i] = 'v'
		}
		return fc
	}
	return nil
}

// dynTypes returns the concrete types an interface-typed operand may hold, by
// a local backward slice; ok=false if a source is not a MakeInterface.
func dynTypes(v ssa.Value, seen map[ssa.Value]bool, out map[types.Type]bool) bool {
	if seen[v] {
		return true
	}
	seen[v] = true
	switch x := v.(type) {
	case *ssa.MakeInterface:
		out[x.X.Type()] = true
		return true
	case *ssa.Phi:
		for _, e := range x.Edges {
			if !dynTypes(e, seen, out) {
				return false
			}
		}
		return true
	case *ssa.ChangeInterface:
		return dynTypes(x.X, seen, out)
	case *ssa.Const:
		return x.Value == nil // nil interface: nothing to call
	}
	return false
}

// dynTypesP: like dynTypes, and a call whose callees are all mq functions with bodies (resolved by the call graph,
// also through function values kept in tables) contributes the dynamic types of what those functions return.
func (p *Prog) dynTypesP(v ssa.Value, seen map[ssa.Value]bool, out map[types.Type]bool, depth int) bool {
	if seen[v] {
		return true
	}
	if dynTypes(v, map[ssa.Value]bool{}, map[types.Type]bool{}) {
		return dynTypes(v, seen, out)
	}
	seen[v] = true
	switch x := v.(type) {
	case *ssa.Phi:
		for _, e := range x.Edges {
			if !p.dynTypesP(e, seen, out, depth) {
				return false
			}
		}
		return true
	case *ssa.ChangeInterface:
		return p.dynTypesP(x.X, seen, out, depth)
	case *ssa.Parameter:
		// an interface parameter of an unexported function that is only ever called directly (`d.val(name, v)`): the
		// dynamic types its call sites pass
		fn := x.Parent()
		sites, ok := p.staticCallSites(fn)
		k := paramIndex(fn, x)
		if !ok || len(sites) == 0 || k < 0 || depth > 3 {
			return false
		}
		for _, site := range sites {
			if k >= len(site.Call.Args) || !p.dynTypesP(site.Call.Args[k], seen, out, depth+1) {
				return false
			}
		}
		return true
	case *ssa.Extract:
		if call, ok := x.Tuple.(*ssa.Call); ok {
			return p.callResultTypes(call, x.Index, seen, out, depth)
		}
	case *ssa.Call:
		return p.callResultTypes(x, 0, seen, out, depth)
	}
	return false
}

func (p *Prog) callResultTypes(call *ssa.Call, idx int, seen map[ssa.Value]bool, out map[types.Type]bool, depth int) bool {
	if depth > 3 {
		return false
	}
	callees, external := p.CG().Callees(call)
	if external || len(callees) == 0 {
		return false
	}
	for _, cal := range callees {
		if cal.Blocks == nil || !p.inMQ(cal) {
			return false
		}
		n := 0
		for _, b := range cal.Blocks {
			ret, ok := terminator(b).(*ssa.Return)
			if !ok || idx >= len(ret.Results) {
				continue
			}
			n++
			if !p.dynTypesP(ret.Results[idx], seen, out, depth+1) {
				return false
			}
		}
		if n == 0 {
			return false
		}
	}
	return true
}

// printMethods lists the methods fmt may call on a value of type t printed
// with verb: Format/GoString/Error/String on the value itself and on what it
// contains (fmt descends into slices, arrays, maps, pointers-to-struct and
// exported struct fields).
func (p *Prog) printMethods(t types.Type, verb byte, depth int, seen map[types.Type]bool, out map[*ssa.Function]bool) {
	if verb == 'T' || verb == 'p' || seen[t] || depth > 6 {
		return
	}
	seen[t] = true
	ms := p.Prog.MethodSets.MethodSet(t)
	found := false
	try := func(name string) {
		if sel := ms.Lookup(p.Pkg, name); sel != nil {
			if f := p.Prog.MethodValue(sel); f != nil {
				out[f] = true
				found = true
			}
		} else if sel := ms.Lookup(nil, name); sel != nil {
			if f := p.Prog.MethodValue(sel); f != nil {
				out[f] = true
				found = true
			}
		}
	}
	try("Format")
	if !found {
		switch verb {
		case 'v', 's', 'x', 'X', 'q', 0:
			try("Error")
			if !found {
				try("String")
			}
		}
		if verb == 0 || verb == 'V' {
			try("GoString") // %#v ('V'), or a verb that could not be determined
		}
	}
	if found {
		return
	}
	switch u := t.Underlying().(type) {
	case *types.Slice:
		p.printMethods(u.Elem(), verb, depth+1, seen, out)
	case *types.Array:
		p.printMethods(u.Elem(), verb, depth+1, seen, out)
	case *types.Map:
		p.printMethods(u.Key(), verb, depth+1, seen, out)
		p.printMethods(u.Elem(), verb, depth+1, seen, out)
	case *types.Pointer:
		if depth == 0 {
			if _, ok := u.Elem().Underlying().(*types.Struct); ok {
				p.printMethods(u.Elem(), verb, depth+1, seen, out)
			}
		}
	case *types.Struct:
		for i := 0; i < u.NumFields(); i++ {
			if u.Field(i).Exported() {
				p.printMethods(u.Field(i).Type(), verb, depth+1, seen, out)
			}
		}
	}
}

// FmtCallees returns the mq methods a fmt call may invoke reflectively.
// exact=false when an operand's dynamic type is not locally known; the result
// then includes the methods of every mq type that satisfies the operand's
// static interface type.
func (p *Prog) FmtCallees(fc *FmtCall) (fns []*ssa.Function, exact bool) {
	out := map[*ssa.Function]bool{}
	exact = true
	if fc.Args == nil && (fc.HasFmt || fc.Name != "") {
		// could not recover operands
		if n := len(fc.Site.Common().Args); n > 0 {
			exact = false
		}
	}
	for i, a := range fc.Args {
		verb := fc.Verbs[i]
		tset := map[types.Type]bool{}
		if !types.IsInterface(a.Type()) {
			tset[a.Type()] = true
		} else if !p.dynTypesP(a, map[ssa.Value]bool{}, tset, 0) {
			exact = false
			tset = map[types.Type]bool{}
			it := a.Type().Underlying().(*types.Interface)
			for _, t := range p.Implementers(it) {
				tset[t] = true
			}
		}
		for t := range tset {
			p.printMethods(t, verb, 0, map[types.Type]bool{}, out)
		}
	}
	for f := range out {
		if f.Blocks != nil && p.inMQ(f) {
			fns = append(fns, f)
		}
	}
	sort.Slice(fns, func(i, j int) bool { return fns[i].String() < fns[j].String() })
	return fns, exact
}

// ---------- reachability ----------

// Edge is a resolved call from one mq function to another.
type CallInfo struct {
	Site     ssa.CallInstruction
	Callees  []*ssa.Function // with bodies, in mq
	External bool
	Ext      *ssa.Function // static external callee, if any
	Fmt      *FmtCall
}

// Calls lists the resolved calls of fn (including defers and go statements).
func (p *Prog) Calls(fn *ssa.Function) []CallInfo {
	key := "calls:" + fn.String() + fmt.Sprint(fn.Pos())
	if v, ok := p.cache[key]; ok {
		return v.([]CallInfo)
	}
	g := p.CG()
	var out []CallInfo
	for _, b := range fn.Blocks {
		for _, ins := range b.Instrs {
			site, ok := ins.(ssa.CallInstruction)
			if !ok {
				continue
			}
			if _, isB := site.Common().Value.(*ssa.Builtin); isB {
				continue
			}
			ci := CallInfo{Site: site}
			ci.Callees, ci.External = g.Callees(site)
			if sc := site.Common().StaticCallee(); sc != nil && sc.Blocks == nil {
				ci.Ext = sc
				ci.Callees = nil
				if fc := AsFmtCall(site); fc != nil {
					ci.Fmt = fc
					ci.Callees, _ = p.FmtCallees(fc)
				}
			}
			out = append(out, ci)
		}
	}
	p.cache[key] = out
	return out
}

// Reach returns the mq functions reachable from roots (roots included), also
// through closures created (MakeClosure) in reachable functions only when they
// are called — creation alone is not a call.
func (p *Prog) Reach(roots []*ssa.Function) map[*ssa.Function]bool {
	seen := map[*ssa.Function]bool{}
	var work []*ssa.Function
	push := func(f *ssa.Function) {
		if f != nil && f.Blocks != nil && !seen[f] && p.inMQ(f) {
			seen[f] = true
			work = append(work, f)
		}
	}
	for _, r := range roots {
		push(r)
	}
	for len(work) > 0 {
		f := work[len(work)-1]
		work = work[:len(work)-1]
		for _, ci := range p.Calls(f) {
			for _, c := range ci.Callees {
				push(c)
			}
		}
	}
	return seen
}

func sortedFuncs(m map[*ssa.Function]bool) []*ssa.Function {
	var out []*ssa.Function
	for f := range m {
		out = append(out, f)
	}
	sort.Slice(out, func(i, j int) bool {
		a, b := qname(out[i]), qname(out[j])
		if a != b {
			return a < b
		}
		return out[i].Pos() < out[j].Pos()
	})
	return out
}

// ---------- root sets ----------

type Roots struct {
	Decode    []*ssa.Function
	Encode    []*ssa.Function
	Render    []*ssa.Function
	Predicate []*ssa.Function
	Accessor  []*ssa.Function
	Mutator   []*ssa.Function
	Ctor      []*ssa.Function
	Unclassed []string
}

func (r *Roots) ReadOnly() []*ssa.Function {
	var out []*ssa.Function
	out = append(out, r.Encode...)
	out = append(out, r.Render...)
	out = append(out, r.Predicate...)
	out = append(out, r.Accessor...)
	return out
}

// declaredMethods lists the methods declared on named type nt (both receiver
// kinds), as SSA functions.
func (p *Prog) declaredMethods(nt *types.Named) []*ssa.Function {
	var out []*ssa.Function
	for i := 0; i < nt.NumMethods(); i++ {
		if f := p.Prog.FuncValue(nt.Method(i)); f != nil {
			out = append(out, f)
		}
	}
	return out
}

// Roots classifies the API surface of package mq.  Every exported method of
// every type and every exported function falls into exactly one class;
// unexported render/encode helpers (dump, String of unexported types) are added
// to Render so that their call trees are covered as well.
func (p *Prog) Roots() *Roots {
	if v, ok := p.cache["roots"]; ok {
		return v.(*Roots)
	}
	r := &Roots{}
	classify := func(fn *ssa.Function, exported bool) {
		name := fn.Name()
		sig := fn.Signature
		nres := sig.Results().Len()
		switch {
		case name == "UnmarshalBinary" || name == "ReadFrom" || name == "ReadPacket" || name == "ReadRemaining":
			r.Decode = append(r.Decode, fn)
		case name == "WriteTo":
			r.Encode = append(r.Encode, fn)
		case name == "String" || name == "Error" || name == "dump" || name == "Dump" || name == "GoString" || name == "Format":
			r.Render = append(r.Render, fn)
		case name == "WellFormed":
			r.Predicate = append(r.Predicate, fn)
		case !exported:
			// unexported helper: not a root
		case sig.Recv() == nil && nres > 0:
			r.Ctor = append(r.Ctor, fn)
		case nres > 0:
			r.Accessor = append(r.Accessor, fn)
		case nres == 0 && sig.Recv() != nil:
			r.Mutator = append(r.Mutator, fn)
		default:
			r.Unclassed = append(r.Unclassed, qname(fn))
		}
	}
	sc := p.Pkg.Scope()
	for _, n := range sc.Names() {
		switch o := sc.Lookup(n).(type) {
		case *types.Func:
			if f := p.Prog.FuncValue(o); f != nil && f.Blocks != nil {
				classify(f, o.Exported())
			}
		}
	}
	for _, nt := range p.NamedTypes() {
		for _, f := range p.declaredMethods(nt) {
			if f.Blocks == nil {
				continue
			}
			classify(f, f.Object().Exported())
		}
	}
	p.cache["roots"] = r
	return r
}

// ---------- small SSA utilities ----------

func constInt(v ssa.Value) (int64, bool) {
	c, ok := v.(*ssa.Const)
	if !ok || c.Value == nil {
		return 0, false
	}
	if c.Value.Kind() != constant.Int {
		return 0, false
	}
	i, exact := constant.Int64Val(c.Value)
	if !exact {
		u, ok := constant.Uint64Val(c.Value)
		return int64(u), ok
	}
	return i, true
}

func isNilConst(v ssa.Value) bool {
	c, ok := v.(*ssa.Const)
	return ok && c.Value == nil
}

func posOf(p *Prog, ins ssa.Instruction) string {
	pos := ins.Pos()
	if pos == token.NoPos {
		if v, ok := ins.(ssa.Value); ok {
			if refs := v.Referrers(); refs != nil {
				for _, r := range *refs {
					if r.Pos().IsValid() {
						pos = r.Pos()
						break
					}
				}
			}
		}
	}
	if pos == token.NoPos && ins.Parent() != nil {
		pos = ins.Parent().Pos()
	}
	return p.Pos(pos)
}

// stripConv removes value-preserving wrappers (ChangeType and conversions
// between types with identical underlying representation).
func stripChangeType(v ssa.Value) ssa.Value {
	for {
		switch x := v.(type) {
		case *ssa.ChangeType:
			v = x.X
		default:
			return v
		}
	}
}

// mapLiteralClosures: v is a value taken (by range or lookup) from a map that
// is, provably, a map literal of closures — built right here or returned by a
// statically called mq function whose every return is such a literal.  The
// possible callees are then exactly those closures (no conflation with other
// maps of the same type).
func mapLiteralClosures(v ssa.Value) ([]*ssa.Function, bool) {
	var m ssa.Value
	switch x := v.(type) {
	case *ssa.Extract:
		switch t := x.Tuple.(type) {
		case *ssa.Next:
			if x.Index != 2 {
				return nil, false
			}
			r, ok := t.Iter.(*ssa.Range)
			if !ok {
				return nil, false
			}
			m = r.X
		case *ssa.Lookup:
			if x.Index != 0 {
				return nil, false
			}
			m = t.X
		default:
			return nil, false
		}
	case *ssa.Lookup:
		m = x.X
	default:
		return nil, false
	}
	if _, ok := m.Type().Underlying().(*types.Map); !ok {
		return nil, false
	}
	var lits []*ssa.MakeMap
	switch y := m.(type) {
	case *ssa.MakeMap:
		lits = append(lits, y)
	case *ssa.Call:
		sc := y.Call.StaticCallee()
		if sc == nil || sc.Blocks == nil {
			return nil, false
		}
		for _, b := range sc.Blocks {
			ret, ok := b.Instrs[len(b.Instrs)-1].(*ssa.Return)
			if !ok {
				continue
			}
			if len(ret.Results) != 1 {
				return nil, false
			}
			mm, ok := ret.Results[0].(*ssa.MakeMap)
			if !ok {
				return nil, false
			}
			lits = append(lits, mm)
		}
	default:
		return nil, false
	}
	var out []*ssa.Function
	for _, mm := range lits {
		for _, r := range *mm.Referrers() {
			switch u := r.(type) {
			case *ssa.MapUpdate:
				if u.Map != ssa.Value(mm) {
					return nil, false
				}
				mc, ok := u.Value.(*ssa.MakeClosure)
				if !ok {
					return nil, false
				}
				out = append(out, mc.Fn.(*ssa.Function))
			case *ssa.Return, *ssa.DebugRef, *ssa.Range, *ssa.Lookup:
			default:
				return nil, false
			}
		}
	}
	sort.Slice(out, func(i, j int) bool { return out[i].String() < out[j].String() })
	return out, true
}

// staticCallSites: the call sites of fn when every use of fn in package mq is a static call of it (fn is not
// exported, never a function or method value, not reached through an interface).  ok is false otherwise.
func (p *Prog) staticCallSites(fn *ssa.Function) ([]*ssa.Call, bool) {
	type res struct {
		sites []*ssa.Call
		ok    bool
	}
	key := "staticsites"
	m, _ := p.cache[key].(map[*ssa.Function]*res)
	if m == nil {
		m = map[*ssa.Function]*res{}
		p.cache[key] = m
		get := func(f *ssa.Function) *res {
			if m[f] == nil {
				m[f] = &res{ok: true}
			}
			return m[f]
		}
		wrapped := map[*ssa.Function][]*ssa.Function{}
		propagate := func() {
			// a wrapper that is referenced as a value, reached through an interface or called from real code passes
			// its status on to what it wraps (two rounds: wrappers of wrappers)
			for round := 0; round < 3; round++ {
				for w, cs := range wrapped {
					if r := m[w]; r != nil && (!r.ok || len(r.sites) > 0) {
						for _, c2 := range cs {
							get(c2).ok = false
						}
					}
				}
			}
		}
		for g := range ssautil.AllFunctions(p.Prog) {
			if g.Blocks == nil || !(p.inMQ(g) || g.Synthetic != "") {
				continue
			}
			for _, b := range g.Blocks {
				for _, ins := range b.Instrs {
					var callee *ssa.Function
					if ci, isCall := ins.(ssa.CallInstruction); isCall {
						callee = ci.Common().StaticCallee()
						if call, isPlain := ins.(*ssa.Call); isPlain && callee != nil {
							if g.Synthetic != "" {
								// a wrapper (pointer-receiver form of a value method, bound method, interface thunk): it matters
								// only if the wrapper itself is used, which is decided below
								wrapped[g] = append(wrapped[g], callee)
							} else {
								get(callee).sites = append(get(callee).sites, call)
							}
						} else if callee != nil {
							get(callee).ok = false // go / defer
						}
						if callee == nil && ci.Common().IsInvoke() {
							cs, _ := p.CG().Callees(ci)
							for _, c2 := range cs {
								get(c2).ok = false
							}
						}
					}
					for _, op := range ins.Operands(nil) {
						if op == nil || *op == nil {
							continue
						}
						if f, isF := (*op).(*ssa.Function); isF && f != callee {
							get(f).ok = false
						}
						if mc, isMC := (*op).(*ssa.MakeClosure); isMC {
							_ = mc
						}
					}
					if mc, isMC := ins.(*ssa.MakeClosure); isMC {
						if f, isF := mc.Fn.(*ssa.Function); isF {
							get(f).ok = false
						}
					}
				}
			}
		}
		propagate()
	}
	r := m[fn]
	if os.Getenv("MQV_AGG") != "" {
		fmt.Fprintf(os.Stderr, "staticsites %s: r=%v synthetic=%q\n", fn, r, fn.Synthetic)
	}
	if r == nil || !r.ok || fn.Synthetic != "" || fn.Parent() != nil || fn.Object() == nil || fn.Object().Exported() {
		return nil, false
	}
	return r.sites, true
}
