package main

// C13 — read-only operations on a shared packet are race free.
// Shared helpers for the purity rules also used by C11 and C14.

import (
	"fmt"
	"go/types"
	"sort"
	"strings"

	"golang.org/x/tools/go/ssa"
)

func init() {
	register(&PropertyCheck{ID: "C13", Level: "proof", Run: checkC13, Canaries: []Canary{
		{Name: "width-memoised-in-field", Rule: "R13.1", Where: "(*Publish).String", Edits: []Edit{
			{"publish.go", "\tsubscriptionIDs []uint32\n}", "\tsubscriptionIDs []uint32\n\tcachedWidth     int\n}"},
			{"publish.go", "func (p *Publish) width() int {\n\treturn p.fill(_LEN, 0)\n}", "func (p *Publish) width() int {\n\tif p.cachedWidth == 0 {\n\t\tp.cachedWidth = p.fill(_LEN, 0)\n\t}\n\treturn p.cachedWidth\n}"}}},
		{Name: "lazy-package-map", Rule: "R13.2", Where: "typeNames", Edits: []Edit{
			{"wiretypes.go", "\tsb.WriteString(typeNames[byte(f)&0b1111_0000])", "\tif _, ok := typeNames[byte(f)&0b1111_0000]; !ok {\n\t\ttypeNames[byte(f)&0b1111_0000] = \"UNKNOWN\"\n\t}\n\tsb.WriteString(typeNames[byte(f)&0b1111_0000])"}}},
		{Name: "shared-scratch-buffer", Rule: "R13.1", Where: "(*PingReq).WriteTo", Edits: []Edit{
			{"pingreq.go", "\tb := make([]byte, p.width())\n", "\tb := scratch[:p.width()]\n"},
			{"pingreq.go", "type PingReq struct {", "var scratch = make([]byte, 16)\n\ntype PingReq struct {"}}},
		{Name: "protocol-name-written-in-place", Rule: "R13.2", Where: "Connect.protocolName", Edits: []Edit{
			{"connect.go", "func (p *Connect) SetProtocolName(v string) { p.protocolName = wstring(v) }", "func (p *Connect) SetProtocolName(v string) {\n\tp.protocolName = p.protocolName[:0]\n\tp.protocolName = append(p.protocolName, v...)\n}"}}},
		{Name: "protocol-name-overwritten-through-a-by-value-helper", Rule: "R13.2", Where: "Connect.protocolName", Edits: []Edit{
			{"connect.go", "func (p *Connect) SetProtocolName(v string) { p.protocolName = wstring(v) }", "func (p *Connect) SetProtocolName(v string) { p.protocolName = reuse(p.protocolName, v) }\n\nfunc reuse(dst []byte, v string) []byte {\n\tif len(dst) < len(v) {\n\t\treturn []byte(v)\n\t}\n\tdst = dst[:len(v)]\n\tcopy(dst, v)\n\treturn dst\n}"}}},
		{Name: "string-caches-rendering", Rule: "R13.1", Where: "(*Connect).String", Edits: []Edit{
			{"connect.go", "\twillPayload bindata // as the one in Publish.payload is raw", "\twillPayload bindata // as the one in Publish.payload is raw\n\trendered    string"},
			{"connect.go", "func (p *Connect) String() string {\n\treturn fmt.Sprintf(", "func (p *Connect) String() string {\n\tp.rendered = p.ClientID()\n\treturn fmt.Sprintf("}}},
		{Name: "readpacket-counts-globally", Rule: "R13.3", Where: "ReadPacket", Edits: []Edit{
			{"packet.go", "func ReadPacket(r io.Reader) (ControlPacket, error) {\n", "var packetsRead int\n\nfunc ReadPacket(r io.Reader) (ControlPacket, error) {\n\tpacketsRead++\n"}}},
		{Name: "cache-in-local", Silent: true, Edits: []Edit{
			{"publish.go", "func (p *Publish) width() int {\n\treturn p.fill(_LEN, 0)\n}", "func (p *Publish) width() int {\n\tw := p.fill(_LEN, 0)\n\tcache := []int{0}\n\tcache[0] = w\n\treturn cache[0]\n}"}}},
	}})
}

// chainText renders the call path from a root down to the writing instruction.
func chainText(p *Prog, root *ssa.Function, chain []ssa.Instruction, ins ssa.Instruction) string {
	var parts []string
	parts = append(parts, qname(root))
	for _, c := range chain {
		parts = append(parts, "→ "+p.Pos(c.Pos()))
	}
	if ins != nil {
		parts = append(parts, fmt.Sprintf("→ %s in %s: %s", posOf(p, ins), qname(ins.Parent()), strings.TrimSpace(ins.String())))
	}
	return strings.Join(parts, " ")
}

// scopes used by the effect-based rules
func (p *Prog) readOnlyEffects() (*Effects, map[*ssa.Function]bool) {
	if v, ok := p.cache["eff:ro"]; ok {
		return v.(*Effects), p.cache["eff:ro:scope"].(map[*ssa.Function]bool)
	}
	scope := p.Reach(p.Roots().ReadOnly())
	e := NewEffects(p, scope)
	p.cache["eff:ro"] = e
	p.cache["eff:ro:scope"] = scope
	return e, scope
}

func (p *Prog) decodeEffects() (*Effects, map[*ssa.Function]bool) {
	if v, ok := p.cache["eff:dec"]; ok {
		return v.(*Effects), p.cache["eff:dec:scope"].(map[*ssa.Function]bool)
	}
	scope := p.Reach(p.Roots().Decode)
	e := NewEffects(p, scope)
	p.cache["eff:dec"] = e
	p.cache["eff:dec:scope"] = scope
	return e, scope
}

func (p *Prog) allEffects() *Effects {
	if v, ok := p.cache["eff:all"]; ok {
		return v.(*Effects)
	}
	e := NewEffects(p, nil)
	p.cache["eff:all"] = e
	return e
}

// ruleReadOnly: the effect set of every read-only root is a subset of
// {writes to the io.Writer argument}.
func ruleReadOnly(p *Prog, c *Check, rule string) {
	roots := p.Roots()
	if len(roots.Unclassed) > 0 {
		c.Bad(rule, "classification", "-", "exported functions that fall in no API class: "+strings.Join(roots.Unclassed, ", "))
	}
	e, scope := p.readOnlyEffects()
	for f := range scope {
		c.Fn(qname(f))
	}
	ro := roots.ReadOnly()
	sort.Slice(ro, func(i, j int) bool { return qname(ro[i]) < qname(ro[j]) })
	for _, root := range ro {
		s := e.Summary(root)
		bad := map[string]bool{}
		// the io.Writer parameters of the root: the only non-fresh thing a read-only operation may write to
		writerParam := map[int]bool{}
		for i, prm := range root.Params {
			if isWriterType(prm.Type()) {
				writerParam[i] = true
			}
		}
		for _, w := range s.Writes {
			if w.Target.Kind == PFresh {
				continue
			}
			if w.Kind == EWriter && (w.Target.Kind == PParam || w.Target.Kind == PParamR) && w.Target.F == 0 && writerParam[w.Target.Idx] {
				continue
			}
			key := fmt.Sprintf("%p", w.Ins)
			if bad[key] {
				continue
			}
			bad[key] = true
			where := "-"
			if w.Ins != nil {
				where = posOf(p, w.Ins)
			}
			detail := fmt.Sprintf("%s on %s", w.Kind, w.Target)
			if w.Field != "" {
				detail += " (field " + w.Field + ")"
			}
			if w.Note != "" {
				detail += " [" + w.Note + "]"
			}
			st := Violated
			if w.Kind == EUnknown || w.Target.Kind == PUnknown {
				st = Undecided
			}
			c.add(rule, qname(root), where, st, "read-only operation writes shared memory: "+detail+"; path: "+chainText(p, root, w.Chain, w.Ins))
		}
		if len(bad) == 0 {
			c.OK(rule, qname(root), p.Pos(root.Pos()), "no write to receiver-, argument- or package-reachable memory (writer argument excepted)")
		}
	}
	c.Measured["read_only_roots"] = len(ro)
	c.Measured["functions_in_read_only_scope"] = len(scope)
}

// sharedFields: struct fields that receive values whose provenance is the
// storage of a package-level variable (e.g. the protocol-name slice every
// NewConnect() shares).
type sharedField struct {
	name string
	g    *ssa.Global
	ins  ssa.Instruction
}

func sharedFields(p *Prog, e *Effects) []sharedField {
	var out []sharedField
	seen := map[string]bool{}
	for _, fn := range p.AllFuncs() {
		if fn.Name() == "init" && fn.Parent() == nil {
			continue
		}
		// own stores only: inspect instructions directly with the function's provenance
		st := e.stateOf(fn)
		for _, b := range fn.Blocks {
			for _, ins := range b.Instrs {
				s, ok := ins.(*ssa.Store)
				if !ok || !pointerLike(s.Val.Type()) {
					continue
				}
				f := fieldOfAddr(s.Addr)
				if f == "" {
					continue
				}
				for v := range st.get(s.Val) {
					if v.Kind == PGlobalV && !seen[f] {
						seen[f] = true
						out = append(out, sharedField{f, v.V.(*ssa.Global), ins})
					}
				}
			}
		}
	}
	sort.Slice(out, func(i, j int) bool { return out[i].name < out[j].name })
	return out
}

// stateOf re-runs the per-function analysis and returns its value map.
func (e *Effects) stateOf(fn *ssa.Function) *fnState {
	e.Summary(fn)
	return e.states[fn]
}

func inPlace(k EffKind) bool {
	return k == EElem || k == ECopy || k == EAppend || k == EMap || k == EExtern
}

// baseFieldLoads: the struct fields from which the written slice/map value was
// loaded (through slicing, conversions and phis).
func baseFieldLoads(v ssa.Value, seen map[ssa.Value]bool, out map[string]bool) {
	if v == nil || seen[v] {
		return
	}
	seen[v] = true
	switch x := v.(type) {
	case *ssa.Slice:
		baseFieldLoads(x.X, seen, out)
	case *ssa.IndexAddr:
		baseFieldLoads(x.X, seen, out)
	case *ssa.ChangeType:
		baseFieldLoads(x.X, seen, out)
	case *ssa.Convert:
		baseFieldLoads(x.X, seen, out)
	case *ssa.Phi:
		for _, e := range x.Edges {
			baseFieldLoads(e, seen, out)
		}
	case *ssa.UnOp:
		if x.Op.String() == "*" {
			if f := fieldOfAddr(x.X); f != "" {
				out[f] = true
			}
		}
	}
}

// writtenFieldOrigins: the struct fields whose slice/map value is the one written through v.  Like
// baseFieldLoads, but a load through a pointer parameter (a helper or a pointer-receiver method of a named
// slice type that is handed &x.f) is followed to the field addresses passed at the function's call sites; when
// the pointer arrives through an interface or a closure and cannot be followed, every field in byType whose type
// is the pointee's type counts.  A load that directly follows a store of another value to the same address in
// the same block (`*v = make(...); copy(*v, …)`) is followed to that value instead.
func writtenFieldOrigins(e *Effects, fn *ssa.Function, v ssa.Value, byType map[string]types.Type, seen map[ssa.Value]bool, out map[string]bool, depth int) {
	if v == nil || seen[v] || depth > 4 {
		return
	}
	seen[v] = true
	switch x := v.(type) {
	case *ssa.Slice:
		writtenFieldOrigins(e, fn, x.X, byType, seen, out, depth)
	case *ssa.IndexAddr:
		writtenFieldOrigins(e, fn, x.X, byType, seen, out, depth)
	case *ssa.ChangeType:
		writtenFieldOrigins(e, fn, x.X, byType, seen, out, depth)
	case *ssa.Convert:
		writtenFieldOrigins(e, fn, x.X, byType, seen, out, depth)
	case *ssa.Phi:
		for _, ed := range x.Edges {
			writtenFieldOrigins(e, fn, ed, byType, seen, out, depth)
		}
	case *ssa.Parameter:
		// a slice handed in by value (cloneInto(dst, src)): written in place here, it is what the callers pass
		if _, isSl := x.Type().Underlying().(*types.Slice); !isSl {
			return
		}
		idx := -1
		for i, prm := range fn.Params {
			if prm == x {
				idx = i
			}
		}
		for _, site := range e.callSitesOf[fn] {
			cc := site.Common()
			if idx < 0 || cc.IsInvoke() || cc.StaticCallee() != fn || idx >= len(cc.Args) {
				continue
			}
			writtenFieldOrigins(e, site.Parent(), cc.Args[idx], byType, map[ssa.Value]bool{}, out, depth+1)
		}
	case *ssa.UnOp:
		if x.Op.String() != "*" {
			return
		}
		// a store to the same address just before, in the same block, with no call in between
		if b := x.Block(); b != nil {
			idx := -1
			for i, ins := range b.Instrs {
				if ins == ssa.Instruction(x) {
					idx = i
				}
			}
			for i := idx - 1; i >= 0; i-- {
				if st, ok := b.Instrs[i].(*ssa.Store); ok && st.Addr == x.X {
					writtenFieldOrigins(e, fn, st.Val, byType, seen, out, depth)
					return
				}
				if cl, ok := b.Instrs[i].(*ssa.Call); ok {
					if _, isB := cl.Call.Value.(*ssa.Builtin); !isB {
						break
					}
				}
				if _, ok := b.Instrs[i].(*ssa.Store); ok {
					break
				}
			}
		}
		pointerOrigins(e, fn, x.X, byType, map[ssa.Value]bool{}, out, depth)
	}
}

// pointerOrigins: which struct fields may the pointer a (to a slice/map cell) address?
func pointerOrigins(e *Effects, fn *ssa.Function, a ssa.Value, byType map[string]types.Type, seen map[ssa.Value]bool, out map[string]bool, depth int) {
	if a == nil || seen[a] || depth > 4 {
		return
	}
	seen[a] = true
	if f := fieldOfAddr(a); f != "" {
		out[f] = true
		return
	}
	byTypeFallback := func() {
		pt, ok := a.Type().Underlying().(*types.Pointer)
		if !ok {
			return
		}
		for f, t := range byType {
			if types.Identical(t, pt.Elem()) {
				out[f] = true
			}
		}
	}
	switch x := a.(type) {
	case *ssa.Parameter:
		idx := -1
		for i, prm := range fn.Params {
			if prm == x {
				idx = i
			}
		}
		sites := e.callSitesOf[fn]
		if idx < 0 || len(sites) == 0 {
			byTypeFallback()
			return
		}
		for _, site := range sites {
			cc := site.Common()
			var arg ssa.Value
			switch {
			case cc.IsInvoke():
				if idx == 0 {
					byTypeFallback() // receiver arrives inside an interface value
					continue
				}
				if idx-1 < len(cc.Args) {
					arg = cc.Args[idx-1]
				}
			case cc.StaticCallee() == fn:
				if idx < len(cc.Args) {
					arg = cc.Args[idx]
				}
			default:
				byTypeFallback() // called through a function value / bound method
				continue
			}
			if arg == nil {
				byTypeFallback()
				continue
			}
			pointerOrigins(e, site.Parent(), arg, byType, map[ssa.Value]bool{}, out, depth+1)
		}
	case *ssa.Phi:
		for _, ed := range x.Edges {
			pointerOrigins(e, fn, ed, byType, seen, out, depth)
		}
	case *ssa.Alloc, *ssa.Global:
		// a local or a package variable cell: not a struct field
	case *ssa.FieldAddr, *ssa.IndexAddr:
		// a field of a non-struct-pointer base / an element: not one of the shared fields
	default:
		byTypeFallback()
	}
}

// rulePackageState: package variables are written only in init, their storage
// is never written in place, and fields that share package storage are never
// written in place either.
func rulePackageState(p *Prog, c *Check, rule string) {
	e := p.allEffects()
	type gstate struct {
		stores  []string
		inplace []string
	}
	gs := map[*ssa.Global]*gstate{}
	var globals []*ssa.Global
	for _, m := range p.SSA.Members {
		if g, ok := m.(*ssa.Global); ok {
			if strings.HasPrefix(g.Name(), "init$") {
				continue
			}
			gs[g] = &gstate{}
			globals = append(globals, g)
		}
	}
	sort.Slice(globals, func(i, j int) bool { return globals[i].Name() < globals[j].Name() })
	shared := sharedFields(p, e)
	sharedBad := map[string][]string{}
	sharedSet := map[string]bool{}
	sharedTypes := map[string]types.Type{} // shared field -> its type (for pointers whose origin cannot be followed)
	for _, sf := range shared {
		sharedSet[sf.name] = true
		if st, ok := sf.ins.(*ssa.Store); ok {
			if pt, ok := st.Addr.Type().Underlying().(*types.Pointer); ok {
				sharedTypes[sf.name] = pt.Elem()
			}
		}
	}
	for _, fn := range p.AllFuncs() {
		isInit := fn.Name() == "init" && fn.Parent() == nil
		c.Fn(qname(fn))
		s := e.Summary(fn)
		for _, w := range s.Writes {
			if len(w.Chain) > 0 {
				continue // reported at the function that contains the instruction
			}
			g, _ := w.Target.V.(*ssa.Global)
			switch {
			case w.Target.Kind == PGlobal && !isInit && g != nil && gs[g] != nil:
				gs[g].stores = append(gs[g].stores, fmt.Sprintf("%s in %s", posOf(p, w.Ins), qname(fn)))
			case w.Target.Kind == PGlobalV && g != nil && gs[g] != nil && inPlace(w.Kind) && !isInit:
				gs[g].inplace = append(gs[g].inplace, fmt.Sprintf("%s at %s in %s", w.Kind, posOf(p, w.Ins), qname(fn)))
			}
		}
		// in-place writes through a load of a shared field
		if isInit {
			continue
		}
		for _, b := range fn.Blocks {
			for _, ins := range b.Instrs {
				var dst ssa.Value
				kind := ""
				switch x := ins.(type) {
				case *ssa.Store:
					if ia, ok := x.Addr.(*ssa.IndexAddr); ok {
						dst, kind = ia.X, "element store"
					}
				case *ssa.MapUpdate:
					dst, kind = x.Map, "map update"
				case *ssa.Call:
					if bi, ok := x.Call.Value.(*ssa.Builtin); ok {
						switch bi.Name() {
						case "copy":
							dst, kind = x.Call.Args[0], "copy destination"
						case "append":
							if len(x.Call.Args) > 1 {
								dst, kind = x.Call.Args[0], "append base"
							}
						}
					} else if sc := x.Call.StaticCallee(); sc != nil {
						if idx, ok := externWritesArg[fullName(sc)]; ok {
							dst, kind = x.Call.Args[idx], "written by "+fullName(sc)
						}
					}
				}
				if dst == nil {
					continue
				}
				fl := map[string]bool{}
				writtenFieldOrigins(e, fn, dst, sharedTypes, map[ssa.Value]bool{}, fl, 0)
				for f := range fl {
					if sharedSet[f] {
						sharedBad[f] = append(sharedBad[f], fmt.Sprintf("%s at %s in %s", kind, posOf(p, ins), qname(fn)))
					}
				}
			}
		}
	}
	for _, g := range globals {
		st := gs[g]
		cons := "var " + g.Name()
		switch {
		case len(st.stores) > 0:
			c.Bad(rule, cons, p.Pos(g.Pos()), "package variable is assigned outside init: "+strings.Join(st.stores, "; "))
		case len(st.inplace) > 0:
			c.Bad(rule, cons, p.Pos(g.Pos()), "storage held by the package variable is written in place: "+strings.Join(st.inplace, "; "))
		default:
			how := "assigned only in init; its storage is never written in place"
			if e.nilGlobals[g] {
				how = "never assigned at all: holds its zero value, nothing can be written through it"
			}
			c.OK(rule, cons, p.Pos(g.Pos()), how)
		}
	}
	for _, sf := range shared {
		cons := "field " + sf.name + " (shares storage of var " + sf.g.Name() + ")"
		if len(sharedBad[sf.name]) > 0 {
			c.Bad(rule, cons, posOf(p, sf.ins), "a field that may hold package-level storage is written in place: "+strings.Join(sharedBad[sf.name], "; "))
		} else {
			c.OK(rule, cons, posOf(p, sf.ins), "only read or replaced wholesale, never written in place")
		}
	}
	c.Measured["package_variables"] = len(globals)
	c.Measured["fields_sharing_package_storage"] = len(shared)
}

func checkC13(p *Prog, c *Check) {
	c.Rule("R13.1", "no read-only operation (WriteTo, String, Error, Dump/dump, WellFormed, every accessor) writes memory reachable from its receiver, its arguments or a package variable; only the io.Writer argument is written")
	c.Rule("R13.2", "package variables are assigned only in init; storage they hold is never written in place; struct fields that may share such storage are never written in place")
	c.Rule("R13.3", "ReadPacket writes only memory it allocated itself and touches nothing shared except its own reader")
	c.Explanation = "Write effects are computed bottom-up over the package call graph with a provenance analysis (fresh allocation / parameter / parameter-reachable / captured / package variable / unknown; field-sensitive for fresh objects; closures and bound methods followed through their bindings; fmt's reflective String/Error calls included). A data race needs a write to a shared location: with no such write in any read-only operation, no interleaving of them can race, and each concurrent WriteTo computes the sequential result."
	c.Trusted = []string{"go/types + go/ssa (x/tools v0.29.0) faithful IR", "stdlib effect table (DESIGN Appendix B): fmt only reads its operands and writes the writer; strings.Builder methods write the builder only; binary.BigEndian.Put* write the slice argument only", "the Go memory model: a data race requires at least one write"}
	c.Assumptions = []string{"no mutator runs concurrently with the read-only operations (property's premise)", "caller-supplied io.Writer/io.Reader are not shared between goroutines unless safe for that"}
	ruleReadOnly(p, c, "R13.1")
	rulePackageState(p, c, "R13.2")
	// R13.3
	ruleReadPacketFresh(p, c, "R13.3")
	c.Floor("read-only roots", c.Measured["read_only_roots"], 15*3, "15 packet types, each with at least WriteTo, String and one accessor")
	_ = types.Typ
}

// ruleReadPacketFresh: ReadPacket writes only memory allocated during the call (its own reader aside) and the
// packet it returns is allocated during the call — two calls can never hand out or modify the same packet.
func ruleReadPacketFresh(p *Prog, c *Check, rule string) {
	rp, msg := p.readPacketAnchor()
	if rp == nil {
		c.Bad("anchor", "ReadPacket", "-", msg)
		return
	}
	e, scope := p.decodeEffects()
	for f := range scope {
		c.Fn(qname(f))
	}
	s := e.Summary(rp)
	nbad := 0
	for _, w := range s.Writes {
		if w.Kind == EReader && w.Target.Kind == PParam && w.Target.Idx == 0 {
			continue
		}
		if w.Target.Kind == PFresh {
			continue
		}
		nbad++
		st := Violated
		if w.Kind == EUnknown || w.Target.Kind == PUnknown {
			st = Undecided
		}
		c.add(rule, "ReadPacket", posOf(p, w.Ins), st, fmt.Sprintf("ReadPacket %s on %s; path: %s", w.Kind, w.Target, chainText(p, rp, w.Chain, w.Ins)))
	}
	// the returned packet
	if len(s.Results) > 0 {
		for pv := range s.Results[0] {
			if pv.Kind != PFresh {
				nbad++
				st := Violated
				if pv.Kind == PUnknown {
					st = Undecided
				}
				c.add(rule, "ReadPacket#result", p.Pos(rp.Pos()), st, fmt.Sprintf("the packet returned by ReadPacket may be %s, not an object allocated by this call: two calls can return (and overwrite) the same packet", pv))
			}
		}
	}
	if nbad == 0 {
		c.OK(rule, "ReadPacket", p.Pos(rp.Pos()), "all writes go to memory allocated during the call and the returned packet is allocated during the call; the only outside effect is Read on its own reader")
	}
}
