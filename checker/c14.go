package main

// C14 — decoded packets own their memory and packets do not interfere.

import (
	"fmt"
	"go/token"
	"go/types"
	"sort"
	"strings"

	"golang.org/x/tools/go/ssa"
)

func init() {
	register(&PropertyCheck{ID: "C14", Level: "proof", Run: checkC14, Canaries: []Canary{
		{Name: "will-allocated-only-when-missing-by-a-helper", Rule: "R14.9", Where: "(*Connect).UnmarshalBinary", Edits: []Edit{{"connect.go", "\t\tp.will = NewPublish()\n\t\tp.will.SetQoS(p.willQoS())", "\t\tp.ensureWill()\n\t\tp.will.SetQoS(p.willQoS())"}, {"connect.go", "func (p *Connect) willPropertyMap() map[Ident]func() wireType {", "func (p *Connect) ensureWill() {\n\tif p.will == nil {\n\t\tp.will = NewPublish()\n\t}\n}\n\nfunc (p *Connect) willPropertyMap() map[Ident]func() wireType {"}}},
		{Name: "decoder-fills-the-will-the-packet-already-has", Rule: "R14.9", Where: "(*Connect).UnmarshalBinary#Connect.will", Edits: []Edit{
			{"connect.go", "\t\tp.will = NewPublish()\n\t\tp.will.SetQoS(p.willQoS())", "\t\tp.will = p.willOrNew()\n\t\tp.will.SetQoS(p.willQoS())"},
			{"connect.go", "func (p *Connect) willPropertyMap() map[Ident]func() wireType {", "func (p *Connect) willOrNew() *Publish {\n\tif p.will != nil {\n\t\treturn p.will\n\t}\n\treturn NewPublish()\n}\n\nfunc (p *Connect) willPropertyMap() map[Ident]func() wireType {"}}},
		{Name: "decoder-allocates-the-will-only-if-missing", Rule: "R14.9", Where: "(*Connect).UnmarshalBinary#Connect.will", Edits: []Edit{
			{"connect.go", "\t\tp.will = NewPublish()\n\t\tp.will.SetQoS(p.willQoS())", "\t\tif p.will == nil {\n\t\t\tp.will = NewPublish()\n\t\t}\n\t\tp.will.SetQoS(p.willQoS())"}}},
		{Name: "undefined-keeps-slice", Rule: "R14.1", Where: "(*Undefined).UnmarshalBinary", Edits: []Edit{{"undefined.go", "\tp.data = make([]byte, len(data))\n\tcopy(p.data, data)\n", "\tp.data = data\n"}}},
		{Name: "bindata-keeps-subslice", Rule: "R14.1", Where: "(*bindata).UnmarshalBinary", Edits: []Edit{{"wiretypes.go", "\t*v = make([]byte, length)\n\tcopy(*v, data[2:length+2])\n", "\t*v = data[2 : length+2]\n"}}},
		{Name: "rawdata-keeps-slice", Rule: "R14.1", Where: "(*rawdata).UnmarshalBinary", Edits: []Edit{{"wiretypes.go", "\t*v = make([]byte, len(data))\n\tcopy(*v, data)\n\treturn nil", "\t*v = data\n\treturn nil"}}},
		{Name: "payload-aliases-via-packet", Rule: "R14.1", Where: "(*Publish).UnmarshalBinary", Edits: []Edit{{"publish.go", "\tif len(data) > buf.i {\n\t\tget(&p.payload)\n\t}", "\tif len(data) > buf.i {\n\t\tp.payload = rawdata(data[buf.i:])\n\t}"}}},
		{Name: "decoder-writes-input", Rule: "R14.1", Where: "(*wuint16).UnmarshalBinary", Edits: []Edit{{"wiretypes.go", "\t*v = wuint16(binary.BigEndian.Uint16(data))\n\treturn nil", "\t*v = wuint16(binary.BigEndian.Uint16(data))\n\tdata[0] = 0\n\treturn nil"}}},
		{Name: "ping-packets-as-package-singletons", Rule: "R14.6", Where: "ReadPacket", Edits: []Edit{
			{"packet.go", "\tcase PINGREQ:\n\t\tp = &PingReq{fixed: f.fixed}", "\tcase PINGREQ:\n\t\tsharedPingReq.fixed = f.fixed\n\t\tp = sharedPingReq"},
			{"packet.go", "type fixedHeader struct {", "var sharedPingReq = &PingReq{}\n\ntype fixedHeader struct {"}}},
		{Name: "setwill-keeps-a-shallow-copy", Rule: "R14.7", Where: "(*Connect).SetWill#packet-copy", Edits: []Edit{{"connect.go", "\tp.will = will\n", "\tw := *will\n\tp.will = &w\n"}}},
		{Name: "addfilters-keeps-the-callers-slice", Rule: "R14.8", Where: "(*Subscribe).AddFilters#append-onto-caller-slice", Edits: []Edit{{"subscribe.go", "\tp.filters = append(p.filters, v...)", "\tif len(p.filters) == 0 {\n\t\tp.filters = v\n\t\treturn\n\t}\n\tp.filters = append(p.filters, v...)"}}},
		{Name: "shared-frame-buffer", Rule: "R14.4", Where: "ReadRemaining", Edits: []Edit{
			{"packet.go", "\tdata := make([]byte, int(f.remainingLen))\n", "\tif cap(frameBuf) < int(f.remainingLen) {\n\t\tframeBuf = make([]byte, int(f.remainingLen))\n\t}\n\tdata := frameBuf[:int(f.remainingLen)]\n"},
			{"packet.go", "type fixedHeader struct {", "var frameBuf []byte\n\ntype fixedHeader struct {"}}},
		{Name: "accessor-leaks-package-storage", Rule: "R14.3", Where: "ProtocolNameBytes", Edits: []Edit{{"connect.go", "func (p *Connect) ProtocolName() string     { return string(p.protocolName) }", "func (p *Connect) ProtocolName() string     { return string(p.protocolName) }\nfunc (p *Connect) ProtocolNameBytes() []byte { return p.protocolName }"}}},
		{Name: "typenames-exposed", Rule: "R14.3", Where: "TypeNames", Edits: []Edit{{"const.go", "var typeNames = map[byte]string{", "func TypeNames() map[byte]string { return typeNames }\n\nvar typeNames = map[byte]string{"}}},
		{Name: "decoder-reuses-old-capacity", Rule: "R14.5", Where: "(*rawdata).UnmarshalBinary", Edits: []Edit{{"wiretypes.go", "\t*v = make([]byte, len(data))\n\tcopy(*v, data)\n\treturn nil", "\t*v = append((*v)[:0], data...)\n\treturn nil"}}},
		{Name: "copy-with-append", Silent: true, Edits: []Edit{{"undefined.go", "\tp.data = make([]byte, len(data))\n\tcopy(p.data, data)\n", "\tp.data = append([]byte(nil), data...)\n"}}},
	}})
}

func isByteSlice(t types.Type) bool {
	sl, ok := t.Underlying().(*types.Slice)
	if !ok {
		return false
	}
	b, ok := sl.Elem().Underlying().(*types.Basic)
	return ok && b.Kind() == types.Uint8
}

func checkC14(p *Prog, c *Check) {
	c.Rule("R14.1", "no decode entry point (UnmarshalBinary of every packet and wire type) stores a value derived from its input slice into receiver-, argument- or package-reachable memory, returns it, or writes through it")
	c.Rule("R14.2", "package variables are assigned only in init, their storage and the fields that may share it are never written in place (same rule as C13 R13.2)")
	c.Rule("R14.3", "no exported function or method returns a slice, map or pointer whose provenance is a package variable's storage, nor an uncopied load of a field that may share such storage")
	c.Rule("R14.5", "no decoder overwrites storage its receiver already held when the call began (which the caller may share with other packets through setters and accessors): every element store, copy destination and re-sliced append base on the decode path is a fresh allocation of that call")
	c.Rule("R14.7", "control packets are handled through pointers only: no whole packet value is loaded or stored (a struct copy would share the backing arrays of its list fields between two packets)")
	c.Rule("R14.9", "a packet that holds another object by pointer (CONNECT's will message, SUBSCRIBE's identifier cell) gets a new one on decode: what the decode path stores into such a field is allocated during the decode, and no function uses the old pointer on a path around that allocation")
	c.Rule("R14.8", "no function appends in place to (or writes through) a list field that some exported setter or adder fills with the caller's own slice: storage handed in by the caller is never grown in place, so two packets built from one slice cannot overwrite each other")
	c.Rule("R14.6", "ReadPacket writes only memory allocated during the call and returns a packet allocated during the call: packets from different calls share nothing (same rule as C13 R13.3)")
	c.Rule("R14.4", "on ReadPacket's call tree the buffer handed to UnmarshalBinary is allocated freshly in that call")
	c.Explanation = "Retention edges (value of provenance X stored into memory of provenance Y) are computed by the provenance analysis of C13, field-sensitively for fresh objects such as the sequential reader; string(b), copy and make produce fresh memory. For every UnmarshalBinary the summary must contain no edge from the data parameter (or anything reachable from it) into non-fresh memory, no result carrying it and no write through it. Shared state between packets can only arise through package-level storage, which R14.2/R14.3 exclude, or through the frame buffer, which R14.4 shows to be per call."
	c.Trusted = []string{"go/types + go/ssa (x/tools v0.29.0) faithful IR", "stdlib effect table (DESIGN Appendix B)", "copy/append/string-conversion semantics of Go"}
	c.Assumptions = []string{"values passed to setters by the caller are the caller's to share (SetPayload(v) keeps v by API design; the property speaks of decoded packets)"}
	e, scope := p.decodeEffects()
	for f := range scope {
		c.Fn(qname(f))
	}
	roots := p.Roots()
	var decs []*ssa.Function
	for _, fn := range roots.Decode {
		if fn.Name() == "UnmarshalBinary" {
			decs = append(decs, fn)
		}
	}
	sort.Slice(decs, func(i, j int) bool { return qname(decs[i]) < qname(decs[j]) })
	for _, fn := range decs {
		di := -1
		for i, pr := range fn.Params {
			if isByteSlice(pr.Type()) {
				di = i
			}
		}
		if di < 0 {
			c.Unk("R14.1", qname(fn), p.Pos(fn.Pos()), "UnmarshalBinary without a []byte parameter")
			continue
		}
		s := e.Summary(fn)
		fromData := func(v Prov) bool { return (v.Kind == PParam || v.Kind == PParamR) && v.Idx == di }
		nbad := 0
		seen := map[string]bool{}
		for _, r := range s.Retains {
			if !fromData(r.Val) || fromData(r.Into) {
				continue
			}
			k := fmt.Sprintf("%p", r.Ins)
			if seen[k] {
				continue
			}
			seen[k] = true
			nbad++
			c.Bad("R14.1", qname(fn), posOf(p, r.Ins), fmt.Sprintf("input slice is retained: value derived from `%s` is stored into %s; path: %s", fn.Params[di].Name(), r.Into, chainText(p, fn, r.Chain, r.Ins)))
		}
		for i, rs := range s.Results {
			for v := range rs {
				if fromData(v) {
					nbad++
					c.Bad("R14.1", qname(fn), p.Pos(fn.Pos()), fmt.Sprintf("result %d carries (part of) the input slice", i))
				}
			}
		}
		for _, w := range s.Writes {
			if fromData(w.Target) {
				k := fmt.Sprintf("w%p", w.Ins)
				if seen[k] {
					continue
				}
				seen[k] = true
				nbad++
				c.Bad("R14.1", qname(fn), posOf(p, w.Ins), fmt.Sprintf("decoder writes through its input slice (%s); path: %s", w.Kind, chainText(p, fn, w.Chain, w.Ins)))
			}
			if w.Kind == EUnknown || w.Target.Kind == PUnknown {
				k := fmt.Sprintf("u%p", w.Ins)
				if seen[k] {
					continue
				}
				seen[k] = true
				nbad++
				c.Unk("R14.1", qname(fn), posOf(p, w.Ins), "effect not modelled on the decode path: "+w.Note+"; path: "+chainText(p, fn, w.Chain, w.Ins))
			}
		}
		if nbad == 0 {
			c.OK("R14.1", qname(fn), p.Pos(fn.Pos()), "input is only read, copied from, or held in fresh objects that do not escape")
		}
	}
	c.Measured["unmarshal_entry_points"] = len(decs)
	c.Floor("UnmarshalBinary entry points", len(decs), 15, "15 MQTT packet types implement encoding.BinaryUnmarshaler")

	rulePackageState(p, c, "R14.2")

	// R14.3
	all := p.allEffects()
	shared := map[string]bool{}
	for _, sf := range sharedFields(p, all) {
		shared[sf.name] = true
	}
	var exported []*ssa.Function
	exported = append(exported, roots.Accessor...)
	exported = append(exported, roots.Ctor...)
	exported = append(exported, roots.Predicate...)
	sort.Slice(exported, func(i, j int) bool { return qname(exported[i]) < qname(exported[j]) })
	nexp := 0
	for _, fn := range exported {
		if fn.Object() == nil || !fn.Object().Exported() {
			continue
		}
		nexp++
		s := all.Summary(fn)
		bad := ""
		res := fn.Signature.Results()
		for i, rs := range s.Results {
			if i >= res.Len() || isErrorType(res.At(i).Type()) {
				continue
			}
			switch res.At(i).Type().Underlying().(type) {
			case *types.Slice, *types.Map, *types.Pointer:
			default:
				continue
			}
			for v := range rs {
				if v.Kind == PGlobal || v.Kind == PGlobalV {
					bad = fmt.Sprintf("result %d is %s", i, v)
				}
			}
		}
		for _, b := range fn.Blocks {
			ret, ok := terminator(b).(*ssa.Return)
			if !ok {
				continue
			}
			for i, r := range ret.Results {
				switch r.Type().Underlying().(type) {
				case *types.Slice, *types.Map:
				default:
					continue
				}
				fl := map[string]bool{}
				baseFieldLoads(r, map[ssa.Value]bool{}, fl)
				for f := range fl {
					if shared[f] {
						bad = fmt.Sprintf("result %d is an uncopied load of field %s, which may share package-level storage", i, f)
					}
				}
			}
		}
		if bad != "" {
			c.Bad("R14.3", qname(fn), p.Pos(fn.Pos()), "exported API hands out mutable package storage: "+bad)
		} else {
			c.OK("R14.3", qname(fn), p.Pos(fn.Pos()), "results carry no package-variable provenance")
		}
	}
	c.Measured["exported_value_returning_functions"] = nexp

	// R14.5
	p.cache["specctx"] = e
	p.cache["spectag"] = "dec"
	nwr := 0
	provers := map[*ssa.Function]*Prover{}
	proverOf := func(fn *ssa.Function) *Prover {
		if pr, ok := provers[fn]; ok {
			return pr
		}
		pr := NewProver(p, fn)
		provers[fn] = pr
		return pr
	}
	resolveIn := func(fn *ssa.Function, v ssa.Value) ssa.Value {
		pr := proverOf(fn)
		for i := 0; i < 12; i++ {
			switch x := v.(type) {
			case *ssa.Slice:
				v = x.X
			case *ssa.IndexAddr:
				v = x.X
			case *ssa.ChangeType:
				v = x.X
			case *ssa.UnOp:
				if f, ok := pr.fwd[x]; ok {
					v = f
					continue
				}
				return v
			default:
				return v
			}
		}
		return v
	}
	isFresh := func(v ssa.Value) bool {
		switch x := v.(type) {
		case *ssa.MakeSlice, *ssa.Alloc, *ssa.Convert:
			return true
		case *ssa.Call:
			if bi, ok := x.Call.Value.(*ssa.Builtin); ok && bi.Name() == "append" {
				return true
			}
		case *ssa.Const:
			return true
		case *ssa.UnOp:
			// a package variable that is never assigned holds nil: there is no storage behind it
			if g, ok := x.X.(*ssa.Global); ok && x.Op == token.MUL && e.nilGlobals[g] {
				return true
			}
		}
		return false
	}
	// origin of the memory written: "" = allocated during the decode, otherwise what it is.  A parameter of a helper
	// is followed to the arguments at the helper's call sites inside the decode scope.
	var originOf func(fn *ssa.Function, v ssa.Value, depth int) string
	originOf = func(fn *ssa.Function, v ssa.Value, depth int) string {
		base := resolveIn(fn, v)
		if isFresh(base) {
			return ""
		}
		if ph, ok := base.(*ssa.Phi); ok && depth < 4 {
			for _, ed := range ph.Edges {
				if w := originOf(fn, ed, depth+1); w != "" {
					return w
				}
			}
			return ""
		}
		prm, isPrm := base.(*ssa.Parameter)
		isDecoder := fn.Name() == "UnmarshalBinary" && fn.Signature.Recv() != nil
		if isPrm && isDecoder && isByteSlice(prm.Type()) {
			return "the decoder's input slice"
		}
		if isPrm && !isDecoder && depth < 4 {
			idx := -1
			for i, q := range fn.Params {
				if q == prm {
					idx = i
				}
			}
			sites := e.callSitesOf[fn]
			if idx >= 0 && len(sites) > 0 {
				for _, site := range sites {
					cc := site.Common()
					if cc.IsInvoke() || cc.StaticCallee() != fn || idx >= len(cc.Args) || !scope[site.Parent()] {
						if scope[site.Parent()] {
							return "a buffer handed in through a call that is not followed (" + posOf(p, site) + ")"
						}
						continue
					}
					if w := originOf(site.Parent(), cc.Args[idx], depth+1); w != "" {
						return w + " (passed at " + posOf(p, site) + ")"
					}
				}
				return ""
			}
		}
		return "storage the receiver held before the call (" + describeVal(base) + ")"
	}
	for _, fn := range sortedFuncs(scope) {
		if fn.Blocks == nil {
			continue
		}
		nw := 0
		for _, b := range fn.Blocks {
			for _, ins := range b.Instrs {
				var dst ssa.Value
				kind := ""
				switch x := ins.(type) {
				case *ssa.Store:
					if ia, ok := x.Addr.(*ssa.IndexAddr); ok {
						if _, isSl := ia.X.Type().Underlying().(*types.Slice); isSl {
							dst, kind = ia.X, "element store"
						}
					}
				case *ssa.Call:
					if bi, ok := x.Call.Value.(*ssa.Builtin); ok {
						switch bi.Name() {
						case "copy":
							dst, kind = x.Call.Args[0], "copy destination"
						case "append":
							if sl, ok := x.Call.Args[0].(*ssa.Slice); ok && len(x.Call.Args) > 1 {
								dst, kind = sl, "append onto a re-sliced base"
							}
						}
					}
				}
				if dst == nil {
					continue
				}
				nw++
				nwr++
				cons := fmt.Sprintf("%s#inplace%d", qname(fn), nw)
				switch w := originOf(fn, dst, 0); {
				case w == "":
					c.OK("R14.5", cons, posOf(p, ins), kind+" into memory allocated by this call")
				case w == "the decoder's input slice":
					c.Bad("R14.5", cons, posOf(p, ins), kind+" into the decoder's input slice")
				default:
					c.Bad("R14.5", cons, posOf(p, ins), kind+" into "+w+": another packet sharing that slice is modified")
				}
			}
		}
	}
	delete(p.cache, "specctx")
	delete(p.cache, "spectag")
	c.Measured["in_place_writes_in_decoders"] = nwr

	// R14.6
	ruleReadPacketFresh(p, c, "R14.6")
	// R14.7
	rulePacketsByPointerOnly(p, c, "R14.7")
	ruleNoAppendOntoCallerStorage(p, c, "R14.8")
	rulePointerFieldsFreshOnDecode(p, c, e, scope, "R14.9")

	// R14.4
	rp, msg := p.readPacketAnchor()
	if rp == nil {
		c.Bad("anchor", "ReadPacket", "-", msg)
		return
	}
	n := 0
	for _, fn := range sortedFuncs(p.Reach([]*ssa.Function{rp})) {
		for _, b := range fn.Blocks {
			for _, ins := range b.Instrs {
				call, ok := ins.(*ssa.Call)
				if !ok || !call.Call.IsInvoke() || call.Call.Method.Name() != "UnmarshalBinary" {
					continue
				}
				if nt := namedOf(call.Call.Value.Type()); nt == nil || nt.Obj().Name() != "ControlPacket" {
					continue
				}
				n++
				st := e.stateOf(fn)
				pv := st.get(call.Call.Args[0])
				cons := qname(fn) + "#frame-buffer"
				ok2 := len(pv) > 0
				var desc []string
				for v := range pv {
					desc = append(desc, v.String())
					if v.Kind != PFresh || !freshMakeOf(e, v.V, fn, 0) {
						ok2 = false
					}
				}
				sort.Strings(desc)
				if ok2 {
					c.OK("R14.4", cons, posOf(p, ins), "frame buffer is a make() of this call: "+strings.Join(desc, ","))
				} else {
					c.Bad("R14.4", cons, posOf(p, ins), "the buffer handed to UnmarshalBinary is not freshly allocated per call: "+strings.Join(desc, ","))
				}
			}
		}
	}
	c.Floor("packet decode call sites on ReadPacket's tree", n, 1, "ReadPacket must hand the frame to the packet's UnmarshalBinary")
}

// freshMakeOf: v is a make([]T, n) executed in fn or in an mq function that fn (transitively) calls: the
// provenance analysis reports an allocation made during the call tree of this invocation, i.e. a buffer per call.
func freshMakeOf(e *Effects, v ssa.Value, fn *ssa.Function, depth int) bool {
	ms, ok := v.(*ssa.MakeSlice)
	if !ok {
		return false
	}
	if ms.Parent() == fn {
		return true
	}
	return e.p.Reach([]*ssa.Function{fn})[ms.Parent()]
}

// rulePacketsByPointerOnly: no instruction of package mq loads or stores a whole value of a control packet type
// (packets are handled through pointers only).  A struct copy of a packet shares the backing arrays of its list
// fields (user properties, subscription identifiers, filters) between two packets; the in-place appends of the
// adders then let one packet overwrite the other's elements.
func rulePacketsByPointerOnly(p *Prog, c *Check, rule string) {
	isPacket := map[string]bool{"Undefined": true}
	for _, n := range specPacketTypes {
		isPacket[n] = true
	}
	packetStruct := func(t types.Type) string {
		nt := namedOf(t)
		if nt == nil || nt.Obj().Pkg() != p.Pkg || !isPacket[nt.Obj().Name()] {
			return ""
		}
		if _, ok := nt.Underlying().(*types.Struct); !ok {
			return ""
		}
		if _, isPtr := t.Underlying().(*types.Pointer); isPtr {
			return ""
		}
		return nt.Obj().Name()
	}
	n, bad := 0, 0
	for _, fn := range p.AllFuncs() {
		if fn.Synthetic != "" && fn.Signature.Recv() != nil && packetStruct(fn.Signature.Recv().Type()) != "" {
			// compiler-made wrapper promoting a value-receiver method of an embedded field to the packet *value*: it
			// can only run on a packet that source code has already copied — and that copy is what is reported
			continue
		}
		for _, b := range fn.Blocks {
			for _, ins := range b.Instrs {
				n++
				var tn string
				switch x := ins.(type) {
				case *ssa.UnOp:
					if x.Op == token.MUL {
						tn = packetStruct(x.Type())
					}
				case *ssa.Store:
					tn = packetStruct(x.Val.Type())
					if _, isAlloc := x.Addr.(*ssa.Alloc); isAlloc && tn != "" {
						if _, isLit := x.Val.(*ssa.Const); isLit {
							tn = "" // zeroing a fresh local
						}
					}
				}
				if tn != "" {
					bad++
					c.Bad(rule, fmt.Sprintf("%s#packet-copy%d", qname(fn), bad), posOf(p, ins), "a whole "+tn+" is copied by value: the copy shares the backing arrays of its list fields with the original, and the adders append in place")
				}
			}
		}
	}
	if bad == 0 {
		c.OK(rule, "packet values", "-", "no load or store of a whole control packet value in package mq: packets are handled through pointers only")
	}
}

// ruleNoAppendOntoCallerStorage: a list field that an exported setter/adder may fill with the caller's own slice
// (the slice value itself, not copies of its elements) must never be the base of an in-place append or the target
// of an element write anywhere in the package.
func ruleNoAppendOntoCallerStorage(p *Prog, c *Check, rule string) {
	e := p.allEffects()
	type fld struct {
		T string
		F int
	}
	held := map[fld]string{} // field -> where the caller's slice is stored into it
	for _, m := range p.Roots().Mutator {
		sum := e.Summary(m)
		if sum == nil || m.Signature.Recv() == nil {
			continue
		}
		rt := typeStr(m.Signature.Recv().Type())
		for _, r := range sum.Retains {
			if r.Val.Kind != PParam || r.Val.Idx < 1 || r.Val.F != 0 {
				continue
			}
			if r.Into.Kind != PParam || r.Into.Idx != 0 || r.Into.F == 0 {
				continue
			}
			st, ok := r.Ins.(*ssa.Store)
			if !ok {
				continue
			}
			if _, isSlice := st.Val.Type().Underlying().(*types.Slice); !isSlice {
				continue
			}
			held[fld{rt, r.Into.F - 1}] = qname(m) + " at " + posOf(p, r.Ins)
		}
	}
	n, bad := 0, 0
	isMutator := map[*ssa.Function]bool{}
	for _, m := range p.Roots().Mutator {
		isMutator[m] = true
	}
	for _, fn := range p.AllFuncs() {
		if fn.Signature.Recv() == nil {
			continue
		}
		sum := e.Summary(fn)
		if sum == nil {
			continue
		}
		rt := typeStr(fn.Signature.Recv().Type())
		for _, w := range sum.Writes {
			if (w.Target.Kind != PParam && w.Target.Kind != PParamR) || w.Target.Idx != 0 || w.Target.F == 0 {
				continue
			}
			switch w.Kind {
			case EAppend:
				n++
				if where, isHeld := held[fld{rt, w.Target.F - 1}]; isHeld {
					bad++
					c.Bad(rule, fmt.Sprintf("%s#append-onto-caller-slice%d", qname(fn), bad), posOf(p, w.Ins), "appends in place to a field that may hold the caller's own slice (stored by "+where+"): elements the caller appended to its slice meanwhile are overwritten")
				}
			case EElem, ECopy, EExtern:
				// the elements of a slice the caller handed in are the caller's (and every other packet's that was
				// given the same slice): wiping or patching them in place changes values behind their backs —
				// `for i := range p.password { p.password[i] = 0 }` before storing the new one.  Decided for the
				// exported mutators (decoders are R14.5's business: what they write was allocated by the decode)
				if w.Target.Kind != PParamR || !isMutator[fn] {
					continue // the field's own cell, not what it points to
				}
				n++
				if where, isHeld := held[fld{rt, w.Target.F - 1}]; isHeld {
					bad++
					c.Bad(rule, fmt.Sprintf("%s#write-into-caller-slice%d", qname(fn), bad), posOf(p, w.Ins), "writes into the elements of a field that may hold the caller's own slice (stored by "+where+"): the caller's data, and every packet that was given the same slice, change with it")
				}
			}
		}
	}
	c.Measured["fields_holding_caller_slices"] = len(held)
	if bad == 0 {
		c.OK(rule, "list fields", "-", fmt.Sprintf("%d field(s) may hold a caller's slice; none of the %d in-place appends on receiver fields targets one of them", len(held), n))
	}
}

// rulePointerFieldsFreshOnDecode (R14.9): a packet that holds another object by pointer (CONNECT's will message, the
// subscription identifier cell) gets a new one on decode.  In every function of the decode scope, what is stored
// into such a pointer field is allocated during the decode (an allocation, or an mq call all of whose results are
// fresh), and in a function that stores the field every load of it is behind such a store — "keep the object the
// packet already points to" would decode into memory another packet (or the caller, via SetWill) still uses.
func rulePointerFieldsFreshOnDecode(p *Prog, c *Check, e *Effects, scope map[*ssa.Function]bool, rule string) {
	isPacket := map[string]bool{"Undefined": true}
	for _, n := range specPacketTypes {
		isPacket[n] = true
	}
	ptrField := func(fa *ssa.FieldAddr) (string, bool) {
		pt, ok := fa.X.Type().Underlying().(*types.Pointer)
		if !ok {
			return "", false
		}
		nt := namedOf(pt.Elem())
		if nt == nil || !isPacket[nt.Obj().Name()] {
			return "", false
		}
		st, ok := nt.Underlying().(*types.Struct)
		if !ok {
			return "", false
		}
		if _, isPtr := st.Field(fa.Field).Type().Underlying().(*types.Pointer); !isPtr {
			return "", false
		}
		return nt.Obj().Name() + "." + st.Field(fa.Field).Name(), true
	}
	var fresh func(fn *ssa.Function, v ssa.Value, depth int) bool
	fresh = func(fn *ssa.Function, v ssa.Value, depth int) bool {
		if depth > 6 {
			return false
		}
		switch x := v.(type) {
		case *ssa.Alloc:
			return true
		case *ssa.Const:
			return x.Value == nil // clearing the field
		case *ssa.Phi:
			for _, ed := range x.Edges {
				if !fresh(fn, ed, depth+1) {
					return false
				}
			}
			return len(x.Edges) > 0
		case *ssa.Call:
			sc := x.Call.StaticCallee()
			if sc == nil || sc.Blocks == nil {
				return false
			}
			sum := e.Summary(sc)
			if sum == nil || len(sum.Results) == 0 || len(sum.Results[0]) == 0 {
				return false
			}
			for pv := range sum.Results[0] {
				if pv.Kind != PFresh {
					return false
				}
			}
			return true
		}
		return false
	}
	n := 0
	for _, fn := range sortedFuncs(scope) {
		if fn.Blocks == nil {
			continue
		}
		type fstore struct {
			st    *ssa.Store
			fresh bool
		}
		stores := map[string][]fstore{}
		var loads []*ssa.UnOp
		loadField := map[*ssa.UnOp]string{}
		for _, b := range fn.Blocks {
			for _, ins := range b.Instrs {
				switch x := ins.(type) {
				case *ssa.Store:
					if fa, ok := x.Addr.(*ssa.FieldAddr); ok {
						if name, ok := ptrField(fa); ok {
							stores[name] = append(stores[name], fstore{x, fresh(fn, x.Val, 0)})
						}
					}
				case *ssa.UnOp:
					if x.Op == token.MUL {
						if fa, ok := x.X.(*ssa.FieldAddr); ok {
							if name, ok := ptrField(fa); ok {
								loads = append(loads, x)
								loadField[x] = name
							}
						}
					}
				}
			}
		}
		for name, sts := range stores {
			n++
			cons := qname(fn) + "#" + name
			bad := ""
			for _, s := range sts {
				if !s.fresh {
					bad = "stores " + describeVal(s.st.Val) + " into " + name + " at " + posOf(p, s.st) + ": not an object allocated by this decode"
				}
			}
			if bad == "" {
				for _, ld := range loads {
					if loadField[ld] != name {
						continue
					}
					// only loads whose value is written through / handed on matter; a nil test reads nothing
					used := false
					if refs := ld.Referrers(); refs != nil {
						for _, r := range *refs {
							switch y := r.(type) {
							case *ssa.DebugRef:
							case *ssa.BinOp:
								if !(y.Op == token.EQL || y.Op == token.NEQ) {
									used = true
								}
							default:
								used = true
							}
						}
					}
					if !used {
						continue
					}
					// is there a live path from the entry to this load that does not pass a store of the field?  (edges
					// that are dead under the decode path's constant parameters — `if unmarshal {…}` — do not count)
					dead := e.deadBlocks(fn)
					deadEdge := e.DeadEdges[fn]
					storeBefore := map[*ssa.BasicBlock]bool{}
					for _, s := range sts {
						if s.st.Block() != ld.Block() || instrIndex(s.st) < instrIndex(ld) {
							storeBefore[s.st.Block()] = true
						}
					}
					dom := true
					if !dead[ld.Block()] {
						seen := map[*ssa.BasicBlock]bool{}
						var walk func(b *ssa.BasicBlock) bool
						walk = func(b *ssa.BasicBlock) bool { // reaches the load without a store
							if seen[b] || dead[b] || storeBefore[b] {
								return false
							}
							seen[b] = true
							if b == ld.Block() {
								return true
							}
							for _, sc := range b.Succs {
								if deadEdge != nil && deadEdge[[2]*ssa.BasicBlock{b, sc}] {
									continue
								}
								if walk(sc) {
									return true
								}
							}
							return false
						}
						if walk(fn.Blocks[0]) {
							dom = false
						}
					}
					if !dom {
						bad = "uses the " + name + " the packet held before (" + posOf(p, ld) + ") on a path that does not pass the allocation: the object may be shared with another packet or owned by the caller"
					}
				}
			}
			if bad != "" {
				c.Bad(rule, cons, p.Pos(fn.Pos()), bad)
			} else {
				c.OK(rule, cons, p.Pos(fn.Pos()), "stored only with objects allocated by the decode; every use in this function is behind the store")
			}
		}
	}
	// … and a function of the decode scope that uses such a field without storing it at all (the allocation was moved
	// into a helper that only fills a nil field — `p.ensureWill()` — or is expected from the caller): a packet decoder
	// may not, a helper may when every call of it in the decode scope lies behind a fresh store in the caller
	usedLoads := func(fn *ssa.Function) map[string]*ssa.UnOp {
		out := map[string]*ssa.UnOp{}
		for _, b := range fn.Blocks {
			for _, ins := range b.Instrs {
				ld, ok := ins.(*ssa.UnOp)
				if !ok || ld.Op != token.MUL {
					continue
				}
				fa, ok := ld.X.(*ssa.FieldAddr)
				if !ok {
					continue
				}
				name, ok := ptrField(fa)
				if !ok {
					continue
				}
				if refs := ld.Referrers(); refs != nil {
					for _, r := range *refs {
						switch y := r.(type) {
						case *ssa.DebugRef:
						case *ssa.BinOp:
							if !(y.Op == token.EQL || y.Op == token.NEQ) {
								out[name] = ld
							}
						default:
							out[name] = ld
						}
					}
				}
			}
		}
		return out
	}
	hasStore := func(fn *ssa.Function, name string) bool {
		for _, b := range fn.Blocks {
			for _, ins := range b.Instrs {
				if st, ok := ins.(*ssa.Store); ok {
					if fa, ok := st.Addr.(*ssa.FieldAddr); ok {
						if nm, ok := ptrField(fa); ok && nm == name {
							return true
						}
					}
				}
			}
		}
		return false
	}
	freshStoreDominates := func(g *ssa.Function, name string, at ssa.Instruction) bool {
		for _, b := range g.Blocks {
			for _, ins := range b.Instrs {
				st, ok := ins.(*ssa.Store)
				if !ok {
					continue
				}
				fa, ok := st.Addr.(*ssa.FieldAddr)
				if !ok {
					continue
				}
				if nm, ok := ptrField(fa); !ok || nm != name || !fresh(g, st.Val, 0) {
					continue
				}
				if b.Dominates(at.Block()) && (b != at.Block() || instrIndex(st) < instrIndex(at)) {
					return true
				}
			}
		}
		return false
	}
	_ = freshStoreDominates
	for _, fn := range sortedFuncs(scope) {
		if fn.Blocks == nil || e.deadBlocks(fn)[fn.Blocks[0]] {
			continue
		}
		for name, ld := range usedLoads(fn) {
			if hasStore(fn, name) || e.deadBlocks(fn)[ld.Block()] {
				continue
			}
			if fn.Name() != "UnmarshalBinary" || fn.Signature.Recv() == nil {
				continue // helpers and closures: the store is the business of whoever calls them
			}
			n++
			cons := qname(fn) + "#" + name + "#use-without-store"
			{
				c.Bad(rule, cons, posOf(p, ld), "the packet decoder uses the "+name+" the packet holds ("+posOf(p, ld)+") and never stores a freshly allocated one itself: the object may be shared with another packet or owned by the caller")
				continue
			}
		}
	}
	c.Measured["pointer_fields_stored_on_decode"] = n
}
