package main

// E4 — wire layout by abstract co-simulation.
//
// Packet states are built by evaluating the public constructor and setters on
// abstract values.  The encoder (fill) is evaluated on such a state with the
// wire primitives observed: the result is a sequence of field-level events
// (which wire type, from which field, which property id, how wide).  The
// decoder (UnmarshalBinary) is evaluated on an abstract token stream: the
// packet's own code — guards, the sequential reader, the property loop — runs
// on the SSA form, while the wire primitives are replaced by their contracts
// (consume one token of the right kind and width, or fail).  Nothing is
// executed concretely: strings are lengths with identity tags, no byte of a
// frame exists.

import (
	"fmt"
	"go/token"
	"go/types"
	"math"
	"os"
	"sort"
	"strings"

	"golang.org/x/tools/go/ssa"
)

// ---------- wire kinds ----------

// wireKindOf classifies a library wire type by the shape of its codec:
// "byte" (width 1), "bool" (width 1, two-way decoder), "u16", "u32", "lp"
// (two-byte length prefix + bytes), "raw" (the bytes), "vbi", "pair", "ident".
func (p *Prog) wireKindOf(t types.Type) string {
	nt, ok := types.Unalias(t).(*types.Named)
	if !ok {
		return ""
	}
	key := "wirekind:" + nt.Obj().Name()
	if v, ok := p.cache[key]; ok {
		return v.(string)
	}
	kind := ""
	w := p.Method(nt.Obj().Name(), "width")
	if w != nil {
		rs := p.retSummary(w)
		switch {
		case rs.exact != nil && rs.exact.isConst():
			switch rs.exact.c {
			case 1:
				kind = "byte"
				if bt, ok := nt.Underlying().(*types.Basic); ok && bt.Kind() == types.Bool {
					kind = "bool"
				}
			case 2:
				kind = "u16"
			case 4:
				kind = "u32"
			}
		case rs.exact != nil && len(rs.exact.coef) == 1 && rs.exact.c == 2:
			kind = "lp"
		case rs.exact != nil && len(rs.exact.coef) == 1 && rs.exact.c == 0:
			kind = "raw"
		case rs.exact != nil && len(rs.exact.coef) == 2 && rs.exact.c == 4:
			kind = "pair"
		default:
			// width() = dry run of an encoder with a divisive loop
			if enc := p.findVBIEncoder(); enc != nil && enc.fn.Signature.Recv() != nil && types.Identical(enc.fn.Signature.Recv().Type(), nt) {
				kind = "vbi"
			} else if bt, ok := nt.Underlying().(*types.Basic); ok && bt.Info()&types.IsUnsigned != 0 {
				// an unsigned integer whose encoder loops: a data-dependent number of bytes (the loop itself is C15's subject)
				if f := p.Method(nt.Obj().Name(), "fill"); f != nil && len(AllLoops(f)) > 0 {
					kind = "vbi"
				}
			}
		}
	}
	p.cache[key] = kind
	return kind
}

// specKindMatches: may a library wire kind carry a specification kind?
func specKindMatches(lib, spec string) bool {
	switch spec {
	case "byte":
		return lib == "byte" || lib == "bool"
	case "str", "bin":
		return lib == "lp"
	case "u16", "u32", "vbi", "pair", "raw":
		return lib == spec
	}
	return false
}

// ---------- events and tokens ----------

type layoutEvent struct {
	Op    string // fill, fillProp, fillOpt
	Wire  string // library wire type name
	Kind  string // wire kind
	Src   string // provenance path of the value ("" for computed values)
	ID    int64  // property id for fillProp
	Width int64
	Val   sv
	Pos   string
}

func (e layoutEvent) String() string {
	s := fmt.Sprintf("%s %s(%s)", e.Op, e.Wire, e.Kind)
	if e.Op == "fillProp" {
		s += fmt.Sprintf(" id=%#02x", e.ID)
	}
	if e.Src != "" {
		s += " ← " + e.Src
	} else if e.Val.k == 'i' {
		s += fmt.Sprintf(" =%d", e.Val.i)
	}
	return s + fmt.Sprintf(" [%d]", e.Width)
}

type wireToken struct {
	Kind  string // byte bool u16 u32 vbi lp raw pair ident
	Width int64
	Val   sv
	What  string
}

// tokensOf expands encoder events into the tokens a decoder consumes.
func tokensOf(evs []layoutEvent) []wireToken {
	var out []wireToken
	for _, e := range evs {
		if e.Width == 0 {
			continue
		}
		switch e.Op {
		case "fillProp":
			out = append(out, wireToken{"ident", 1, sv{k: 'i', i: e.ID}, fmt.Sprintf("property id %#02x", e.ID)})
			out = append(out, wireToken{e.Kind, e.Width - 1, e.Val, "value of property " + fmt.Sprintf("%#02x", e.ID) + " from " + e.Src})
		default:
			out = append(out, wireToken{e.Kind, e.Width, e.Val, e.Wire + " from " + e.Src})
		}
	}
	return out
}

// ---------- abstract packet states ----------

type setterCall struct {
	Name string
	Fn   *ssa.Function
	Args []sv
	Prep func(mem map[string]sv) // extra memory the arguments refer to
}

type packetState struct {
	Type    string
	Recv    string // path of the packet object
	Mem     map[string]sv
	Calls   []string
	Maps    map[string][]mapEntry
	Written map[string][]string // setter -> receiver field paths it wrote
	Will    *packetState        // the will message passed in the last SetWill call, if any
}

// globalInput resolves loads of package variables from their init-time stores.
func (p *Prog) globalInput() symInput {
	vals := map[string]sv{}
	if init := p.SSA.Func("init"); init != nil {
		for _, b := range init.Blocks {
			for _, ins := range b.Instrs {
				st, ok := ins.(*ssa.Store)
				if !ok {
					continue
				}
				g, ok := st.Addr.(*ssa.Global)
				if !ok {
					continue
				}
				switch v := st.Val.(type) {
				case *ssa.Convert:
					if cst, ok := v.X.(*ssa.Const); ok && cst.Value != nil {
						s := cst.Value.ExactString()
						n := int64(len(s) - 2)
						if n < 0 {
							n = 0
						}
						vals["G:"+g.Name()] = sv{k: 's', i: n, addr: "lit:" + s}
					}
				case *ssa.Call:
					vals["G:"+g.Name()] = sv{k: 'I', tup: []sv{{k: 'p', addr: "R:" + g.Name()}}}
				default:
					// initialised with something that is not modelled (a map or array literal …): the value is
					// unknown, not zero — an evaluation that depends on it fails instead of taking a wrong turn
					if !strings.HasPrefix(g.Name(), "init$") {
						vals["G:"+g.Name()] = sv{k: 'u'}
					}
				}
			}
		}
	}
	// package-level arrays and structs that nothing outside init can change (a dispatch table of constructors): their
	// cells are what the initialiser stored, obtained by evaluating the stores of init that address them
	if init := p.SSA.Func("init"); init != nil {
		for _, b := range init.Blocks {
			for _, ins := range b.Instrs {
				st, ok := ins.(*ssa.Store)
				if !ok {
					continue
				}
				var g *ssa.Global
				path := ""
				switch a := st.Addr.(type) {
				case *ssa.IndexAddr:
					if gl, ok := a.X.(*ssa.Global); ok {
						if k, isC := constInt(a.Index); isC {
							g, path = gl, fmt.Sprintf("G:%s[%d]", gl.Name(), k)
						}
					}
				case *ssa.FieldAddr:
					if gl, ok := a.X.(*ssa.Global); ok {
						g, path = gl, fmt.Sprintf("G:%s.f%d", gl.Name(), a.Field)
					}
				}
				if g == nil || !p.initOnlyGlobal(g) {
					continue
				}
				switch v := st.Val.(type) {
				case *ssa.Function:
					vals[path] = sv{k: 'c', fn: v}
				case *ssa.MakeClosure:
					if len(v.Bindings) == 0 {
						if f, ok := v.Fn.(*ssa.Function); ok {
							vals[path] = sv{k: 'c', fn: f}
						}
					}
				case *ssa.Const:
					if k, isC := constInt(v); isC {
						vals[path] = sv{k: 'i', i: k}
					}
				}
				if _, set := vals[path]; set {
					if cur, has := vals["G:"+g.Name()]; !has || cur.k == 'u' {
						vals["G:"+g.Name()] = sv{k: 'S', addr: "G:" + g.Name()}
					}
				}
			}
		}
	}
	return func(path string, t types.Type) (sv, bool) {
		if v, ok := vals[path]; ok {
			return v, true
		}
		if strings.HasPrefix(path, "G:") {
			return zeroOf(t, path), true
		}
		return zeroOf(t, path), true
	}
}

// settersOf lists the exported mutators of *T (Set*, Add*), including promoted ones.
func (p *Prog) settersOf(nt *types.Named) []*ssa.Function {
	var out []*ssa.Function
	ms := p.Prog.MethodSets.MethodSet(types.NewPointer(nt))
	for i := 0; i < ms.Len(); i++ {
		sel := ms.At(i)
		m := sel.Obj().(*types.Func)
		if !m.Exported() || !(strings.HasPrefix(m.Name(), "Set") || strings.HasPrefix(m.Name(), "Add")) {
			continue
		}
		if m.Type().(*types.Signature).Results().Len() != 0 {
			continue
		}
		if fn := p.Prog.MethodValue(sel); fn != nil {
			out = append(out, fn)
		}
	}
	sort.Slice(out, func(i, j int) bool { return out[i].Name() < out[j].Name() })
	return out
}

// abstractArg builds a non-zero abstract argument for a setter parameter.
func (p *Prog) abstractArg(ctx *symCtx, setter string, t types.Type, variant int) (sv, bool) {
	tag := fmt.Sprintf("val:%s#%d", setter, variant)
	bias, _ := p.cache["lenbias"].(int64)
	if bias > 0 {
		tag = fmt.Sprintf("val:%s#%d@%d", setter, variant, bias)
	}
	intOnly, _ := p.cache["biasintonly"].(bool)
	lenBias := bias
	if intOnly {
		lenBias = 0 // the boundary value is one for integers only (strings stay inside 65 535 bytes)
	}
	switch u := t.Underlying().(type) {
	case *types.Basic:
		switch {
		case u.Info()&types.IsBoolean != 0:
			return sv{k: 'b', b: variant%2 == 0}, true
		case u.Info()&types.IsString != 0:
			if lenBias > 0 {
				return sv{k: 's', i: lenBias, addr: tag}, true
			}
			return sv{k: 's', i: 1 + int64(variant), addr: tag}, true
		case u.Info()&types.IsInteger != 0:
			v := int64(1 + variant)
			if strings.Contains(setter, "ReasonCode") {
				// an error code, a non-zero success-class code, Success itself, another error code
				v = []int64{0x80, 0x10, 0x00, 0x81}[variant%4]
			}
			if bias > 0 && !strings.Contains(setter, "ReasonCode") {
				v = bias
				if sz := p.U.Sizes.Sizeof(u) * 8; sz < 63 {
					hi := int64(1)<<uint(sz) - 1
					if u.Info()&types.IsUnsigned == 0 {
						hi = int64(1)<<uint(sz-1) - 1
					}
					if v > hi {
						v = hi
					}
				}
			}
			if setter == "SetProtocolVersion" {
				v = 5
			}
			return sv{k: 'i', i: v}, true
		}
	case *types.Slice:
		if isByteSlice(t) {
			if lenBias > 0 {
				return sv{k: 's', i: lenBias, addr: tag}, true
			}
			return sv{k: 's', i: 1 + int64(variant), addr: tag}, true
		}
		// variadic / list of aggregates or strings: two elements
		n := int64(2)
		var strLens []int64
		if st, _ := p.cache["stretch"].(int64); st > 0 && setter == "AddUserProp" {
			strLens = userPropLens(st)
			n = int64(len(strLens))
		}
		for k := int64(0); k < n; k++ {
			ep := fmt.Sprintf("%s[%d]", tag, k)
			switch eu := u.Elem().Underlying().(type) {
			case *types.Basic:
				if eu.Info()&types.IsString != 0 {
					ctx.mem[ep] = sv{k: 's', i: 1, addr: ep}
					if strLens != nil {
						ctx.mem[ep] = sv{k: 's', i: strLens[k], addr: ep}
						continue
					}
					if p.cache["c10wide"] != nil && k == 0 && setter == "AddUserProp" {
						ctx.mem[ep] = sv{k: 's', i: 0, addr: ep} // an empty key: invalid, constructible
						continue
					}
					if k%2 == 1 && variant%2 == 1 {
						// key/value lists: every second element (a value) is the empty string in the variant states
						ctx.mem[ep] = sv{k: 's', i: 0, addr: ep}
					}
				} else {
					ctx.mem[ep] = sv{k: 'i', i: k + 1}
				}
			case *types.Struct:
				for f := 0; f < eu.NumFields(); f++ {
					fp := fmt.Sprintf("%s.f%d", ep, f)
					ft := eu.Field(f).Type()
					if isByteSlice(ft) || isStringT(ft.Underlying()) {
						ctx.mem[fp] = sv{k: 's', i: 1, addr: fp}
					} else if bt, ok := ft.Underlying().(*types.Basic); ok && bt.Info()&types.IsInteger != 0 {
						ctx.mem[fp] = sv{k: 'i', i: k + 1}
						if variant%2 == 0 && k == 1 && p.U.Sizes.Sizeof(bt) == 1 {
							// option bytes: the plain value 0 (QoS 0, nothing else) in the second element — a byte
							// that must be written although it is zero
							ctx.mem[fp] = sv{k: 'i', i: 0}
						}
						if variant%2 == 1 && p.U.Sizes.Sizeof(bt) == 1 {
							// option bytes: the largest valid combinations (retain handling 2, RAP, NL, QoS 2 / QoS 1)
							ctx.mem[fp] = sv{k: 'i', i: 0x2E - k}
						}
					} else {
						ctx.mem[fp] = zeroOf(ft, fp)
					}
				}
				ctx.mem[ep] = sv{k: 'S', addr: ep}
			default:
				return sv{}, false
			}
		}
		return sv{k: 's', i: n, addr: tag}, true
	}
	return sv{}, false
}

// buildState evaluates New<T>() and the chosen setters.  will (optional) is a
// prepared Publish state to pass to a *Publish parameter.
func (p *Prog) buildState(tn string, choose func(setter string) int, will *packetState) (*packetState, string) {
	obj := p.Pkg.Scope().Lookup(tn)
	if obj == nil {
		return nil, "type not found"
	}
	nt := obj.Type().(*types.Named)
	var ctor *ssa.Function
	for _, fn := range p.Roots().Ctor {
		if fn.Signature.Params().Len() == 0 && fn.Signature.Results().Len() == 1 {
			if r := namedOf(fn.Signature.Results().At(0).Type()); r == nt {
				ctor = fn
			}
		}
	}
	if ctor == nil {
		return nil, "no constructor"
	}
	ctx := p.newSym(p.globalInput())
	if will != nil {
		for k, v := range will.Mem {
			ctx.mem[k] = v
		}
	}
	rs, ok := ctx.evalPure(ctor, nil, nil, 0)
	if !ok || len(rs) != 1 || rs[0].k != 'p' {
		return nil, "cannot evaluate the constructor: " + ctx.why
	}
	st := &packetState{Type: tn, Recv: rs[0].addr}
	var altWill *packetState
	fns := p.settersOf(nt)
	// a mutator to be called last, after everything else (R12.7: `SetCredentials(user, password)` or `RemoveWill()` on
	// a packet that already has state); it need not be named Set… / Add…
	lastMut, _ := p.cache["lastmutator"].(string)
	if lastMut != "" {
		var rest []*ssa.Function
		var lf *ssa.Function
		for _, f := range fns {
			if f.Name() == lastMut {
				lf = f
			} else {
				rest = append(rest, f)
			}
		}
		if lf == nil {
			lf = p.Method(tn, lastMut)
		}
		if lf == nil {
			lastMut = "" // another type (the will message built on the way)
		} else {
			fns = append(rest, lf)
		}
	}
	for _, s := range fns {
		variant := choose(s.Name())
		if lastMut != "" && s.Name() == lastMut {
			variant = 0
		}
		if variant < 0 {
			continue
		}
		// modes: variant+stateOverwrite = the setter is first called with another value and then with
		// the value of `variant`; variant+stateClear = called with the value and then with the zero value
		mode := 0
		isAdder := strings.HasPrefix(s.Name(), "Add")
		switch {
		case variant >= stateOverwriteRev:
			variant -= stateOverwriteRev
			mode = stateOverwriteRev
		case variant >= stateClear:
			variant -= stateClear
			mode = stateClear
		case variant >= stateOverwrite:
			variant -= stateOverwrite
			mode = stateOverwrite
		}
		if isAdder {
			mode = 0
		}
		mkArgs := func(variant int, zero bool) ([]sv, bool) {
			var args []sv
			args = append(args, rs[0])
			for i := 0; i < s.Signature.Params().Len(); i++ {
				pt := s.Signature.Params().At(i).Type()
				if ptr, isP := pt.Underlying().(*types.Pointer); isP && namedOf(ptr) != nil && namedOf(ptr).Obj().Name() == "Publish" {
					if will == nil || zero {
						return nil, false
					}
					if variant == stateAltVariant {
						if altWill == nil {
							altWill, _ = p.buildState("Publish", func(n string) int {
								switch n {
								case "SetTopicAlias", "AddSubscriptionID", "SetPacketID", "SetDuplicate":
									return -1
								}
								return 1
							}, nil)
							if altWill == nil {
								return nil, false
							}
							for k, v := range altWill.Mem {
								if _, had := ctx.mem[k]; !had {
									ctx.mem[k] = v
								}
							}
						}
						args = append(args, sv{k: 'p', addr: altWill.Recv})
						continue
					}
					args = append(args, sv{k: 'p', addr: will.Recv})
					continue
				}
				var a sv
				var ok bool
				za, _ := p.cache["zeroarg"].(int)
				tag := s.Name()
				if i > 0 {
					tag = fmt.Sprintf("%s·arg%d", s.Name(), i+1) // every parameter its own identity
				}
				if zero || (za == i+1 && s.Signature.Params().Len() > 1) {
					a, ok = zeroArg(pt, fmt.Sprintf("zero:%s", tag))
				} else {
					a, ok = p.abstractArg(ctx, tag, pt, variant)
				}
				if !ok {
					return nil, false
				}
				if s.Name() == "SetQoS" && !zero {
					a = sv{k: 'i', i: int64(1 + variant%2)}
					if q, ok := p.cache["forceqos"].(int64); ok {
						a.i = q // a malformed but constructible packet (C10's domain)
					}
				}
				args = append(args, a)
			}
			return args, true
		}
		args, okArgs := mkArgs(variant, false)
		if !okArgs {
			continue
		}
		noteWill := func(as []sv) {
			for _, a := range as[1:] {
				if a.k == 'p' && will != nil && a.addr == will.Recv {
					st.Will = will
				}
				if a.k == 'p' && altWill != nil && a.addr == altWill.Recv {
					st.Will = altWill
				}
			}
		}
		if mode == stateOverwriteRev {
			// the regular value first, the other value last
			if alt, ok := mkArgs(stateAltVariant, false); ok {
				if _, ok := ctx.evalPure(s, args, nil, 0); !ok {
					return nil, "cannot evaluate " + s.Name() + " (first call): " + ctx.why
				}
				noteWill(args)
				args = alt
				st.Calls = append(st.Calls, fmt.Sprintf("%s#%d", s.Name(), variant))
			}
		}
		before := map[string]sv{}
		for k, v := range ctx.mem {
			before[k] = v
		}
		if mode == stateOverwrite {
			if pre, ok := mkArgs(stateAltVariant, false); ok {
				if _, ok := ctx.evalPure(s, pre, nil, 0); !ok {
					return nil, "cannot evaluate " + s.Name() + " (first call): " + ctx.why
				}
				noteWill(pre)
			}
		}
		if _, ok := ctx.evalPure(s, args, nil, 0); !ok {
			return nil, "cannot evaluate " + s.Name() + ": " + ctx.why
		}
		noteWill(args)
		if mode == stateClear {
			if z, ok := mkArgs(0, true); ok {
				if _, ok := ctx.evalPure(s, z, nil, 0); !ok {
					return nil, "cannot evaluate " + s.Name() + " (clearing call): " + ctx.why
				}
				st.Calls = append(st.Calls, fmt.Sprintf("%s#%d", s.Name(), variant))
				st.Calls = append(st.Calls, s.Name()+"(zero)")
				continue
			}
		}
		if mode == stateOverwrite {
			st.Calls = append(st.Calls, s.Name()+"(other)")
		}
		// variadic adders are called a second time with other elements: what the first call added must survive
		if strings.HasPrefix(s.Name(), "Add") && s.Signature.Params().Len() == 1 && s.Signature.Variadic() {
			if a2, ok := p.abstractArg(ctx, s.Name()+"·2", s.Signature.Params().At(0).Type(), variant+2); ok {
				if _, ok := ctx.evalPure(s, []sv{args[0], a2}, nil, 0); !ok {
					return nil, "cannot evaluate " + s.Name() + " (second call): " + ctx.why
				}
			}
		}
		// … and in the variant states a string adder gets the empty string as a third element (a zero-length item
		// between others: a decoder that reuses its destination would repeat the previous one)
		if strings.HasPrefix(s.Name(), "Add") && s.Signature.Params().Len() == 1 && !s.Signature.Variadic() && variant%2 == 1 {
			pt0 := s.Signature.Params().At(0).Type()
			if bt, ok := pt0.Underlying().(*types.Basic); ok && bt.Info()&types.IsString != 0 {
				if _, ok := ctx.evalPure(s, []sv{args[0], {k: 's', i: 0, addr: "val:" + s.Name() + ":empty"}}, nil, 0); !ok {
					return nil, "cannot evaluate " + s.Name() + " (empty element): " + ctx.why
				}
			}
		}
		// single-element adders are applied twice, so that lists have two elements
		if strings.HasPrefix(s.Name(), "Add") && s.Signature.Params().Len() == 1 && !s.Signature.Variadic() {
			if a2, ok := p.abstractArg(ctx, s.Name(), s.Signature.Params().At(0).Type(), variant+1); ok {
				if _, ok := ctx.evalPure(s, []sv{args[0], a2}, nil, 0); !ok {
					return nil, "cannot evaluate " + s.Name() + ": " + ctx.why
				}
			}
		}
		st.Calls = append(st.Calls, fmt.Sprintf("%s#%d", s.Name(), variant))
		if st.Written == nil {
			st.Written = map[string][]string{}
		}
		seenF := map[string]bool{}
		for k, v := range ctx.mem {
			if !strings.HasPrefix(k, st.Recv+".f") {
				continue
			}
			if b, had := before[k]; had && b.k == v.k && b.i == v.i && b.b == v.b && b.addr == v.addr && b.off == v.off {
				continue
			}
			// top-level field
			f := k[len(st.Recv):]
			if j := strings.IndexAny(f[2:], ".["); j >= 0 {
				f = f[:2+j]
			}
			if !seenF[f] {
				seenF[f] = true
				st.Written[s.Name()] = append(st.Written[s.Name()], st.Recv+f)
			}
		}
	}
	st.Mem = ctx.mem
	st.Maps = ctx.maps
	return st, ""
}

const (
	stateOverwrite    = 1000
	stateClear        = 2000
	stateOverwriteRev = 3000
	stateAltVariant   = 7
)

// zeroArg: the zero value of a setter parameter (false, 0, empty string, empty non-nil byte slice).
func zeroArg(t types.Type, tag string) (sv, bool) {
	switch u := t.Underlying().(type) {
	case *types.Basic:
		switch {
		case u.Info()&types.IsBoolean != 0:
			return sv{k: 'b', b: false}, true
		case u.Info()&types.IsString != 0:
			return sv{k: 's', i: 0, addr: tag}, true
		case u.Info()&types.IsInteger != 0:
			return sv{k: 'i', i: 0}, true
		}
	case *types.Slice:
		if isByteSlice(t) {
			return sv{k: 's', i: 0, addr: tag}, true
		}
	}
	return sv{}, false
}

// ---------- encoder trace ----------

func isWirePrimitive(fn *ssa.Function) bool {
	if !isFillFamily(fn) || fn.Signature.Recv() == nil {
		return false
	}
	rt := fn.Signature.Recv().Type()
	if _, isPtr := rt.Underlying().(*types.Pointer); isPtr {
		return false
	}
	switch rt.Underlying().(type) {
	case *types.Struct:
		return false
	}
	return true
}

// bulkWriter: what a verified bulk list writer copies: a parameter (index) or a field of its receiver.
type bulkWriter struct {
	param, field int // one of them >= 0
	elem         types.Type
}

// bulkListWriter: fn is a function of the fill family that is not a wire type's encoder and does exactly one thing
// to the buffer: `copy(buf[off:], list)` of a byte-sized list that is one of its parameters or a field of its
// receiver, under a guard that makes the copy complete (len(buf) >= off+len(list) proven where the copy is made),
// and returns len(list) on every path.  Such a function writes len(list) one-byte items, in order.
func (p *Prog) bulkListWriter(fn *ssa.Function) (*bulkWriter, bool) {
	key := "bulkw:" + qname(fn)
	if v, ok := p.cache[key]; ok {
		w, _ := v.(*bulkWriter)
		return w, w != nil
	}
	p.cache[key] = (*bulkWriter)(nil)
	if fn == nil || fn.Blocks == nil || !isFillFamily(fn) || !p.inMQ(fn) || len(AllLoops(fn)) > 0 {
		return nil, false
	}
	if fn.Signature.Recv() != nil {
		rt := fn.Signature.Recv().Type()
		if pt, ok := rt.Underlying().(*types.Pointer); ok {
			rt = pt.Elem()
		}
		if p.wireKindOf(rt) != "" {
			return nil, false
		}
	}
	buf, off, ems, _ := emissionsOf(p, fn)
	if buf == nil || len(ems) != 0 {
		return nil, false
	}
	var cp *ssa.Call
	for _, b := range fn.Blocks {
		for _, ins := range b.Instrs {
			switch x := ins.(type) {
			case *ssa.Store:
				if ia, ok := x.Addr.(*ssa.IndexAddr); ok && ia.X == ssa.Value(buf) {
					return nil, false
				}
			case *ssa.Call:
				if bi, ok := x.Call.Value.(*ssa.Builtin); ok {
					if bi.Name() == "copy" {
						if cp != nil {
							return nil, false
						}
						cp = x
					}
					continue
				}
				for _, a := range x.Call.Args {
					if a == ssa.Value(buf) {
						return nil, false // the buffer handed on
					}
					if sl, ok := a.(*ssa.Slice); ok && sl.X == ssa.Value(buf) {
						return nil, false
					}
				}
			}
		}
	}
	if cp == nil {
		return nil, false
	}
	dst, ok := cp.Call.Args[0].(*ssa.Slice)
	if !ok || dst.X != ssa.Value(buf) || dst.Low != ssa.Value(off) || dst.High != nil {
		return nil, false
	}
	src := cp.Call.Args[1]
	for {
		if ct, ok := src.(*ssa.ChangeType); ok {
			src = ct.X
			continue
		}
		break
	}
	w := &bulkWriter{param: -1, field: -1}
	st, ok := src.Type().Underlying().(*types.Slice)
	if !ok {
		return nil, false
	}
	if bt, ok := st.Elem().Underlying().(*types.Basic); !ok || p.U.Sizes.Sizeof(bt) != 1 {
		return nil, false
	}
	w.elem = st.Elem()
	switch x := src.(type) {
	case *ssa.Parameter:
		w.param = paramIndex(fn, x)
	case *ssa.UnOp:
		fa, ok := x.X.(*ssa.FieldAddr)
		if x.Op != token.MUL || !ok || len(fn.Params) == 0 || fa.X != ssa.Value(fn.Params[0]) {
			return nil, false
		}
		w.field = fa.Field
	default:
		return nil, false
	}
	pr := NewProver(p, fn)
	pr.assumeContracts()
	sl := pr.lenOf(cp.Call.Args[1])
	if !pr.Prove(cp.Block(), pr.lenOf(buf).sub(pr.lin(off)).sub(sl)) {
		return nil, false
	}
	for _, b := range fn.Blocks {
		if ret, ok := terminator(b).(*ssa.Return); ok {
			if len(ret.Results) != 1 || !pr.lin(ret.Results[0]).equal(sl) {
				return nil, false
			}
		}
	}
	p.cache[key] = w
	return w, true
}

func (p *Prog) encoderTrace(st *packetState, fill *ssa.Function) ([]layoutEvent, int64, string) {
	evs, _, rs, _, why := p.traceRun(st, fill, []sv{{k: 'p', addr: st.Recv}, {k: 's', i: 0, addr: "REAL"}, {k: 'i', i: 0}}, false)
	if why != "" {
		return nil, 0, "cannot evaluate the encoder: " + why
	}
	return evs, rs[0].i, ""
}

// traceRun evaluates entry on the packet state with the wire primitives observed.  With anyBuffer the emissions into
// every real (non-nil) buffer are recorded, each with the buffer it went to (bufs), and Write calls on the recording
// writer "WRITER" are collected (writes): that is how a WriteTo is compared with the encoder.
func (p *Prog) traceRun(st *packetState, entry *ssa.Function, entryArgs []sv, anyBuffer bool) ([]layoutEvent, []string, []sv, []sv, string) {
	isReal := func(b sv) bool {
		if anyBuffer {
			return b.k == 's' && b.addr != "" && !b.b
		}
		return b.addr == "REAL"
	}
	var bufs []string
	var writes []sv
	ctx := p.newSym(p.globalInput())
	if anyBuffer {
		if wf, ok := p.cache["writefails"].(int64); ok && wf > 0 {
			ctx.writeFails = true
			ctx.writeTakes = wf - 1
		}
		ctx.writeHook = func(c *symCtx, data sv) bool {
			writes = append(writes, data)
			// what the buffer holds when it is handed over (the determined bytes among its first 4096)
			snap := map[int64]sv{}
			for k := int64(0); k < data.i && k < 4096; k++ {
				if cell, ok := c.mem[fmt.Sprintf("%s[%d]", data.addr, data.off+k)]; ok {
					snap[k] = cell
				}
			}
			p.cache["writesnap"] = snap
			return true
		}
	}
	for k, v := range st.Mem {
		ctx.mem[k] = v
	}
	for k, v := range st.Maps {
		ctx.maps[k] = v
	}
	var evs []layoutEvent
	inPrim := 0
	ctx.hook = func(c *symCtx, callee *ssa.Function, args []sv) ([]sv, bool, bool) {
		// a verified bulk writer of a byte list: one one-byte item per element, in order
		if bw, ok := p.bulkListWriter(callee); ok && inPrim == 0 {
			bb, _, _, _ := emissionsOf(p, callee)
			if bb == nil || paramIndex(callee, bb) >= len(args) || !isReal(args[paramIndex(callee, bb)]) {
				return nil, false, true // a dry run: evaluated like any other function, nothing is emitted
			}
			bulkBuf := args[paramIndex(callee, bb)].addr
			inPrim++
			saved := c.hook
			rs, okE := c.evalPure(callee, args, nil, 1)
			c.hook = saved
			inPrim--
			if !okE || len(rs) != 1 || rs[0].k != 'i' {
				return nil, true, false
			}
			var src sv
			if bw.param >= 0 && bw.param < len(args) {
				src = args[bw.param]
			} else if bw.field >= 0 && len(args) > 0 && args[0].k == 'p' {
				v, okR := c.read(fmt.Sprintf("%s.f%d", c.aggPath(args[0].addr), bw.field), types.NewSlice(bw.elem))
				if !okR {
					return nil, true, false
				}
				src = v
			}
			if src.k != 's' || src.i != rs[0].i {
				return nil, true, c.fail("bulk writer %s: the list written is not what it reports", qname(callee))
			}
			for k := int64(0); k < src.i; k++ {
				ep := fmt.Sprintf("%s[%d]", src.addr, src.off+k)
				val, okV := c.mem[ep]
				if !okV {
					val = sv{k: 'u'}
				}
				evs = append(evs, layoutEvent{Op: "fill", Wire: typeStr(bw.elem), Kind: "byte", Src: ep, Val: val, Width: 1, Pos: p.Pos(callee.Pos())})
				bufs = append(bufs, bulkBuf)
			}
			return rs, true, true
		}
		if !isWirePrimitive(callee) || inPrim > 0 || len(args) < 3 || !isReal(args[1]) {
			return nil, false, true
		}
		// a wire primitive is a method of a type with a recognised wire kind; a list type that merely loops over
		// its elements' emissions (also with a value receiver) is evaluated like any other composition
		if rt, _ := types.Unalias(callee.Signature.Recv().Type()).(*types.Named); rt == nil || p.wireKindOf(rt) == "" {
			if _, isSlice := callee.Signature.Recv().Type().Underlying().(*types.Slice); isSlice {
				if eb, _, eems, _ := emissionsOf(p, callee); eb != nil && !writesBufferDirectly(callee, eb) && (len(eems) > 0 || len(AllLoops(callee)) > 0) {
					return nil, false, true
				}
			}
		}
		inPrim++
		saved := c.hook
		rs, ok := c.evalPure(callee, args, nil, 1)
		c.hook = saved
		inPrim--
		if !ok {
			return nil, true, false
		}
		nt, _ := types.Unalias(callee.Signature.Recv().Type()).(*types.Named)
		ev := layoutEvent{Op: callee.Name(), Src: args[0].src, Val: args[0], Width: rs[0].i, Pos: p.Pos(callee.Pos())}
		if nt != nil {
			ev.Wire = nt.Obj().Name()
			ev.Kind = p.wireKindOf(nt)
		}
		if callee.Name() == "fillProp" && len(args) >= 4 {
			ev.ID = args[3].i
		}
		if ev.Src == "" && args[0].k == 'S' {
			ev.Src = args[0].addr
		}
		evs = append(evs, ev)
		bufs = append(bufs, args[1].addr)
		return rs, true, true
	}
	rs, ok := ctx.evalPure(entry, entryArgs, nil, 0)
	if !ok {
		return nil, nil, nil, nil, ctx.why
	}
	if anyBuffer {
		p.cache["tracemem"] = ctx.mem
	}
	return evs, bufs, rs, writes, ""
}

// ---------- decoder replay ----------

type replayResult struct {
	Err           sv
	Consumed      int
	Mem           map[string]sv
	Maps          map[string][]mapEntry
	Recv          string
	Why           string // evaluation failure
	Mismatch      string // kind mismatch between token and destination
	BoolAsByte    string // a boolean token of the specification was consumed by this plain byte decoder
	AnyConsumedBy string // a decoder read the bytes that follow an identifier which should have been rejected
	OverRead      int64  // bytes ReadPacket asked for after it had read the whole frame
	Read          int64  // bytes ReadPacket took from the stream
	Frame         int64  // size of the frame offered: 1 + size of the remaining-length field + remaining length
}

func (p *Prog) isWireDecoder(fn *ssa.Function) bool {
	if fn.Name() != "UnmarshalBinary" || fn.Signature.Recv() == nil {
		return false
	}
	for _, d := range p.cachedWireDecoders() {
		if d == fn {
			return true
		}
	}
	// synthetic wrappers
	return false
}

func (p *Prog) cachedWireDecoders() []*ssa.Function {
	if v, ok := p.cache["wiredecs"]; ok {
		return v.([]*ssa.Function)
	}
	d, _ := p.wireDecoders()
	p.cache["wiredecs"] = d
	return d
}

// specVBI: the variable byte integer encoding of n (MQTT v5.0 §1.5.5).
func specVBI(n int64) []int64 {
	var out []int64
	for {
		d := n % 128
		n /= 128
		if n > 0 {
			d |= 128
		}
		out = append(out, d)
		if n == 0 {
			return out
		}
	}
}

// keepsDestOnSuccess: the wire decoder has a path from entry to a successful
// return (nil error) on which nothing is stored through its receiver — e.g. a
// string decoder that returns early on length 0.  On such a path the
// destination keeps whatever it held before the call.
func (p *Prog) keepsDestOnSuccess(dec *ssa.Function) bool {
	key := "keepsdest:" + qname(dec)
	if v, ok := p.cache[key]; ok {
		return v.(bool)
	}
	res := false
	if len(dec.Params) > 0 && dec.Blocks != nil {
		recv := dec.Params[0]
		stores := func(b *ssa.BasicBlock) bool {
			for _, ins := range b.Instrs {
				switch x := ins.(type) {
				case *ssa.Store:
					if rootOfAddr(x.Addr) == ssa.Value(recv) {
						return true
					}
				case *ssa.Call:
					for _, a := range x.Call.Args {
						if a == ssa.Value(recv) {
							return true // handed on: assume written
						}
					}
					if x.Call.IsInvoke() && x.Call.Value == ssa.Value(recv) {
						return true
					}
				}
			}
			return false
		}
		seen := map[*ssa.BasicBlock]bool{}
		var walk func(b *ssa.BasicBlock)
		walk = func(b *ssa.BasicBlock) {
			if seen[b] || res {
				return
			}
			seen[b] = true
			if stores(b) {
				return
			}
			if ret, ok := terminator(b).(*ssa.Return); ok {
				if len(ret.Results) == 1 {
					if cst, ok := ret.Results[0].(*ssa.Const); ok && cst.Value == nil {
						res = true
					}
				}
				return
			}
			for _, s := range b.Succs {
				walk(s)
			}
		}
		walk(dec.Blocks[0])
	}
	p.cache[key] = res
	return res
}

// rootOfAddr follows field/index address computations back to their base pointer.
func rootOfAddr(v ssa.Value) ssa.Value {
	for {
		switch x := v.(type) {
		case *ssa.FieldAddr:
			v = x.X
		case *ssa.IndexAddr:
			v = x.X
		default:
			return v
		}
	}
}

// decoderReplay evaluates ReadPacket itself on an abstract stream: the first
// byte, the variable byte integer encoding of the body length (both as
// concrete bytes, so the library's own header reader, dispatch and
// zero-length handling are what is evaluated) and a body that is the token
// stream.  The packet-level decoder reached through the dispatch runs with the
// wire primitives replaced by their contracts.
func (p *Prog) decoderReplay(tn string, header sv, toks []wireToken, total int64, base map[string]sv) *replayResult {
	res := &replayResult{}
	um := p.Method(tn, "UnmarshalBinary")
	if um == nil {
		res.Why = "no UnmarshalBinary"
		return res
	}
	rp, msg := p.readPacketAnchor()
	if rp == nil {
		res.Why = msg
		return res
	}
	ctx := p.newSym(p.globalInput())
	ctx.limit = 400000
	for k, v := range base {
		ctx.mem[k] = v // the values the tokens carry live in the original state's memory (read only)
	}
	prefix := append([]int64{header.i & 0xff}, specVBI(total)...)
	spos := 0          // position in the stream
	bodyAddr := "\x00" // backing of the buffer the body was read into
	bodyRead := false
	pos := 0
	var offs int64 // offset inside the body at which the next token starts
	var bodyErr *sv
	inBody := false
	ctx.hook = func(c *symCtx, callee *ssa.Function, args []sv) ([]sv, bool, bool) {
		switch fullName(callee) {
		case "io.ReadFull", "io.ReadAtLeast":
			if len(args) < 2 || args[0].k != 'I' || len(args[0].tup) != 1 || args[0].tup[0].addr != "R:stream" || args[1].k != 's' {
				return nil, true, c.fail("%s on something else than the stream", fullName(callee))
			}
			n := args[1].i
			eof := sv{k: 'I', tup: []sv{{k: 'p', addr: "R:eof"}}}
			switch {
			case n == 0:
				if spos == len(prefix) && !bodyRead {
					bodyAddr, bodyRead = args[1].addr, true
				}
				return []sv{{k: 'i', i: 0}, {k: 'z'}}, true, true
			case spos+int(n) <= len(prefix):
				for k := int64(0); k < n; k++ {
					c.mem[fmt.Sprintf("%s[%d]", args[1].addr, args[1].off+k)] = sv{k: 'i', i: prefix[spos]}
					spos++
				}
				return []sv{{k: 'i', i: n}, {k: 'z'}}, true, true
			case spos == len(prefix) && !bodyRead && n == total:
				bodyAddr, bodyRead = args[1].addr, true
				return []sv{{k: 'i', i: n}, {k: 'z'}}, true, true
			case spos == len(prefix) && !bodyRead && n > total:
				bodyRead = true
				return []sv{{k: 'i', i: total}, eof}, true, true
			case bodyRead:
				res.OverRead += n // a read after the frame: in a stream this takes bytes of the next frame
				return []sv{{k: 'i', i: 0}, eof}, true, true
			}
			return nil, true, c.fail("a read of %d byte(s) at stream position %d straddles the fixed header and the body (body length %d)", n, spos, total)
		}
		if callee == um && !inBody {
			inBody = true
			rs, ok := c.evalPure(callee, args, nil, 1)
			inBody = false
			if ok && len(rs) == 1 {
				e := rs[0]
				bodyErr = &e
			}
			return rs, true, ok
		}
		if !p.isWireDecoder(callee) || len(args) != 2 || args[1].k != 's' || args[1].addr != bodyAddr {
			return nil, false, true
		}
		if args[0].k != 'p' {
			return nil, true, c.fail("wire decoder called with unexpected arguments")
		}
		missing := sv{k: 'I', tup: []sv{{k: 'p', addr: "R:missing"}}}
		if pos >= len(toks) {
			// a decoder that takes whatever is left as it is (raw data) takes nothing, or — where the body carries
			// no tokens at all (the reserved type 0) — the body as a whole
			if pt, ok := callee.Signature.Recv().Type().Underlying().(*types.Pointer); ok && p.wireKindOf(pt.Elem()) == "raw" && args[0].k == 'p' {
				c.mem[args[0].addr] = sv{k: 's', i: args[1].i, addr: "spec:rest"}
				return []sv{{k: 'z'}}, true, true
			}
			return []sv{missing}, true, true
		}
		tk := toks[pos]
		if args[1].off != offs && res.Mismatch == "" {
			res.Mismatch = fmt.Sprintf("token %d (%s, %s) starts at offset %d of the body but is read at offset %d: an earlier item advanced the reader by another width than was written", pos, tk.Kind, tk.What, offs, args[1].off)
			return []sv{missing}, true, true
		}
		pt := callee.Signature.Recv().Type().Underlying().(*types.Pointer)
		dk := p.wireKindOf(pt.Elem())
		if namedOf(pt.Elem()) != nil && namedOf(pt.Elem()).Obj().Name() == "Ident" {
			dk = "ident"
		}
		want := tk.Kind
		compat := dk == want || want == "byte" && (dk == "bool" || dk == "byte") || want == "bool" && (dk == "byte" || dk == "bool")
		if want == "any" {
			// bytes that whatever decoder is tried accepts (used after an identifier that must be rejected before any
			// value is read)
			// the decoded value is one whose width() is the token's width, so that the reader advances over exactly
			// these bytes; a decoder whose kind cannot have that width runs out of data
			w := tk.Width
			var dv sv
			okW := true
			switch dk {
			case "byte", "ident":
				dv, okW = sv{k: 'i'}, w == 1
			case "bool":
				dv, okW = sv{k: 'b'}, w == 1
			case "u16":
				dv, okW = sv{k: 'i'}, w == 2
			case "u32":
				dv, okW = sv{k: 'i'}, w == 4
			case "vbi":
				dv, okW = sv{k: 'i', i: []int64{0, 0, 128, 16384, 2097152}[w%5]}, w >= 1 && w <= 4
			case "lp":
				dv, okW = sv{k: 's', i: w - 2, addr: "spec:any"}, w >= 2
			case "raw":
				dv = sv{k: 's', i: w, addr: "spec:any"}
			case "pair":
				// two length-prefixed strings in w bytes: an empty key and a value of w-4 bytes
				okW = w >= 4
				if okW {
					ap := fmt.Sprintf("SPECANYPAIR%d", w)
					c.mem[ap+"[0]"] = sv{k: 's', i: 0, addr: "spec:anyk"}
					c.mem[ap+"[1]"] = sv{k: 's', i: w - 4, addr: "spec:anyv"}
					dv = sv{k: 'S', addr: ap}
				}
			default:
				okW = false
			}
			if !okW {
				return []sv{missing}, true, true
			}
			c.mem[args[0].addr] = dv
			pos++
			offs += tk.Width
			res.AnyConsumedBy = typeStr(pt.Elem())
			return []sv{{k: 'z'}}, true, true
		}
		if !compat {
			if res.Mismatch == "" {
				res.Mismatch = fmt.Sprintf("token %d (%s, %s) is read as %s (%s)", pos, tk.Kind, tk.What, typeStr(pt.Elem()), dk)
			}
			return []sv{missing}, true, true
		}
		if args[1].i < tk.Width {
			return []sv{missing}, true, true
		}
		if dk == "bool" && tk.Val.k == 'i' {
			if tk.Val.i > 1 {
				return []sv{missing}, true, true
			}
			tk.Val = sv{k: 'b', b: tk.Val.i == 1}
		}
		if dk == "byte" && pos > 0 && toks[pos-1].Kind == "ident" && toks[pos-1].Val.k == 'i' && specBoolProps[toks[pos-1].Val.i] {
			res.BoolAsByte = typeStr(pt.Elem())
		}
		v := tk.Val
		if v.k == 's' {
			v.b = false
		}
		// a decoder that can succeed without storing (a string decoder returning early on length 0) leaves the
		// destination as it was: whatever the dispatch or a constructor put there survives
		keep := v.k == 's' && v.i == 0 && p.keepsDestOnSuccess(callee)
		if os.Getenv("MQV_REPLAY") != "" {
			fmt.Fprintf(os.Stderr, "replay %s tok %d %s %s len=%d dest=%s old=%v keep=%v\n", tn, pos, tk.Kind, tk.What, v.i, args[0].addr, c.mem[args[0].addr], keep)
		}
		if !keep {
			c.mem[args[0].addr] = v
		}
		pos++
		offs += tk.Width
		return []sv{{k: 'z'}}, true, true
	}
	// a bulk copy out of the body (`copy(p.reasonCodes, data[b.i:])`): each byte copied is the next one-byte item
	// of the frame
	ctx.copyHook = func(c *symCtx, dst, src sv, n int64) (bool, bool) {
		if src.k != 's' || src.addr != bodyAddr || dst.k != 's' || dst.addr == "" {
			return false, true
		}
		if src.off != offs && res.Mismatch == "" {
			res.Mismatch = fmt.Sprintf("a bulk copy starts at offset %d of the body; the items decoded so far end at %d", src.off, offs)
			return true, true
		}
		for k := int64(0); k < n; k++ {
			if pos >= len(toks) {
				break
			}
			tk := toks[pos]
			if tk.Width != 1 || !(tk.Kind == "byte" || tk.Kind == "bool") {
				if res.Mismatch == "" {
					res.Mismatch = fmt.Sprintf("token %d (%s, %s) is copied as a plain byte", pos, tk.Kind, tk.What)
				}
				return true, true
			}
			c.mem[fmt.Sprintf("%s[%d]", dst.addr, dst.off+k)] = tk.Val
			pos++
			offs++
		}
		return true, true
	}
	rs, ok := ctx.evalPure(rp, []sv{{k: 'I', tup: []sv{{k: 'p', addr: "R:stream"}}}}, nil, 0)
	res.Consumed = pos
	res.Frame = int64(len(prefix)) + total
	res.Read = int64(spos)
	if bodyRead {
		res.Read += total
	}
	res.Mem, res.Maps = ctx.mem, ctx.maps
	if !ok {
		if bodyErr != nil && bodyErr.k != 'z' {
			res.Err = *bodyErr // the failure is in rendering the error message
			return res
		}
		res.Why = ctx.why
		return res
	}
	if len(rs) != 2 {
		res.Why = "ReadPacket does not return (packet, error)"
		return res
	}
	res.Err = rs[1]
	if rs[1].k != 'z' {
		return res
	}
	pk := rs[0]
	if pk.k != 'I' || pk.dt == nil || len(pk.tup) != 1 || pk.tup[0].k != 'p' || pk.tup[0].addr == "" {
		res.Why = "ReadPacket returns no packet although it reports no error"
		return res
	}
	if nt := namedOf(pk.dt); nt == nil || nt.Obj().Name() != tn {
		res.Mismatch = fmt.Sprintf("first byte %#02x yields a %s, not a %s", header.i&0xff, typeStr(pk.dt), tn)
		return res
	}
	if total > 0 && bodyErr == nil {
		res.Mismatch = fmt.Sprintf("a frame with a body of %d byte(s) is returned without being decoded", total)
		return res
	}
	res.Recv = pk.tup[0].addr
	return res
}

// ---------- deep comparison through the public accessors ----------

type accessorValue struct {
	name string
	desc string
}

// readDeep renders an abstract value (following slices, aggregates and
// pointers through ctx) into a canonical string for comparison.
func (p *Prog) readDeep(ctx *symCtx, v sv, t types.Type, depth int) string {
	if depth > 6 {
		return "…"
	}
	switch v.k {
	case 'i':
		return fmt.Sprint(v.i)
	case 'b':
		return fmt.Sprint(v.b)
	case 'z':
		return "nil"
	case 'I':
		return "iface"
	case 's':
		if isByteSlice(t) || isStringT(t.Underlying()) {
			if v.i == 0 {
				return "\"\""
			}
			// a list of small integers whose elements are known is compared element by element
			if isByteSlice(t) && v.addr != "" {
				var parts []string
				all := true
				for k := int64(0); k < v.i; k++ {
					ev, ok := ctx.mem[fmt.Sprintf("%s[%d]", v.addr, v.off+k)]
					for i := 0; ok && ev.k == 'S' && i < 4; i++ {
						ev, ok = ctx.mem[ev.addr]
					}
					if !ok || ev.k != 'i' {
						all = false
						break
					}
					parts = append(parts, fmt.Sprint(ev.i))
				}
				if all {
					return "[" + strings.Join(parts, " ") + "]"
				}
			}
			return fmt.Sprintf("%d:%s+%d", v.i, v.addr, v.off)
		}
		sl, ok := t.Underlying().(*types.Slice)
		if !ok {
			return fmt.Sprintf("len%d", v.i)
		}
		var parts []string
		for k := int64(0); k < v.i; k++ {
			ev, ok := ctx.read(fmt.Sprintf("%s[%d]", v.addr, v.off+k), sl.Elem())
			if !ok {
				parts = append(parts, "?")
				continue
			}
			if ev.k == 'S' && ev.addr == "" {
				ev.addr = fmt.Sprintf("%s[%d]", v.addr, v.off+k)
			}
			parts = append(parts, p.readDeep(ctx, ev, sl.Elem(), depth+1))
		}
		return "[" + strings.Join(parts, " ") + "]"
	case 'S':
		base := ctx.aggPath(v.addr)
		switch u := t.Underlying().(type) {
		case *types.Struct:
			var parts []string
			for f := 0; f < u.NumFields(); f++ {
				fv, ok := ctx.read(fmt.Sprintf("%s.f%d", base, f), u.Field(f).Type())
				if !ok {
					parts = append(parts, "?")
					continue
				}
				parts = append(parts, p.readDeep(ctx, fv, u.Field(f).Type(), depth+1))
			}
			return "{" + strings.Join(parts, " ") + "}"
		case *types.Array:
			var parts []string
			for k := int64(0); k < u.Len(); k++ {
				ev, ok := ctx.read(fmt.Sprintf("%s[%d]", base, k), u.Elem())
				if !ok {
					parts = append(parts, "?")
					continue
				}
				parts = append(parts, p.readDeep(ctx, ev, u.Elem(), depth+1))
			}
			return "[" + strings.Join(parts, " ") + "]"
		}
	case 'p':
		if v.addr == "" {
			return "nil"
		}
		return "&"
	}
	return "?"
}

// observe evaluates every zero-argument exported accessor of T on the state
// and renders the results; exported fields are rendered too.
func (p *Prog) observe(tn string, recv string, mem map[string]sv, maps map[string][]mapEntry, depth int) (map[string]string, string) {
	out := map[string]string{}
	obj := p.Pkg.Scope().Lookup(tn)
	nt := obj.Type().(*types.Named)
	ms := p.Prog.MethodSets.MethodSet(types.NewPointer(nt))
	for i := 0; i < ms.Len(); i++ {
		sel := ms.At(i)
		m := sel.Obj().(*types.Func)
		sig := m.Type().(*types.Signature)
		if !m.Exported() || sig.Params().Len() != 0 || sig.Results().Len() != 1 || m.Name() == "String" || m.Name() == "WellFormed" {
			continue
		}
		fn := p.Prog.MethodValue(sel)
		if fn == nil {
			continue
		}
		ctx := p.newSym(p.globalInput())
		for k, v := range mem {
			ctx.mem[k] = v
		}
		for k, v := range maps {
			ctx.maps[k] = v
		}
		rs, ok := ctx.evalPure(fn, []sv{{k: 'p', addr: recv}}, nil, 0)
		if !ok {
			return nil, "cannot evaluate accessor " + m.Name() + ": " + ctx.why
		}
		rt := sig.Results().At(0).Type()
		if pt, isP := rt.Underlying().(*types.Pointer); isP && rs[0].k == 'p' && rs[0].addr != "" && namedOf(pt) != nil && depth < 2 {
			// nested packet (the will message): observe it through its own accessors
			sub, why := p.observe(namedOf(pt).Obj().Name(), rs[0].addr, mem, maps, depth+1)
			if why != "" {
				return nil, why
			}
			var ks []string
			for k := range sub {
				ks = append(ks, k)
			}
			sort.Strings(ks)
			for _, k := range ks {
				out[m.Name()+"()."+k] = sub[k]
			}
			continue
		}
		out[m.Name()+"()"] = p.readDeep(ctx, rs[0], rt, 0)
	}
	// exported fields (UserProperties)
	if stt, ok := nt.Underlying().(*types.Struct); ok {
		ctx := p.newSym(p.globalInput())
		for k, v := range mem {
			ctx.mem[k] = v
		}
		for f := 0; f < stt.NumFields(); f++ {
			if !stt.Field(f).Exported() {
				continue
			}
			fv, ok := ctx.read(fmt.Sprintf("%s.f%d", ctx.aggPath(recv), f), stt.Field(f).Type())
			if !ok {
				continue
			}
			out["."+stt.Field(f).Name()] = p.readDeep(ctx, fv, stt.Field(f).Type(), 0)
		}
	}
	return out, ""
}

// ---------- state enumeration ----------

type stateSpec struct {
	name        string
	choose      func(string) int
	will        int    // 0 none, 1 will with content
	bias        int64  // > 0: every string/binary length and every integer argument is this boundary value (clamped to the parameter's type)
	qos         int64  // > 0: SetQoS is called with this value (3: malformed but constructible)
	intOnly     bool   // the bias applies to integer arguments only
	emptyList   bool   // the payload list (filters, reason codes) stays empty
	last        string // a mutator called after all chosen setters
	willStretch int64  // > 0: the same for the user properties of the will message
	stretch     int64  // > 0: the user properties added by AddUserProp occupy this many bytes more than the usual two one-byte strings
	zeroArg     int    // > 0: setters with several parameters get the zero value for parameter number zeroArg (1-based)
	wide        bool   // C10's wider domain: values that are constructible but outside MQTT's ranges (subscription identifier 0, a packet identifier without QoS, an empty user-property key)
}

// boundaryValues: the boundary lengths named by the properties' quantifiers (C01: 0, 1, 127, 128, 16 383, 16 384,
// 65 534, 65 535) plus every integer constant that a comparison in package mq tests a length or value against
// (and its successor), so that a guard such as `len(x) > K` is evaluated on both sides.
func (p *Prog) boundaryValues() []int64 {
	if v, ok := p.cache["boundaries"]; ok {
		return v.([]int64)
	}
	set := map[int64]bool{127: true, 128: true, 16383: true, 16384: true, 65534: true, 65535: true}
	for _, fn := range p.AllFuncs() {
		for _, b := range fn.Blocks {
			for _, ins := range b.Instrs {
				bo, ok := ins.(*ssa.BinOp)
				if !ok {
					continue
				}
				switch bo.Op {
				case token.LSS, token.LEQ, token.GTR, token.GEQ, token.EQL, token.NEQ:
				default:
					continue
				}
				for i, o := range []ssa.Value{bo.X, bo.Y} {
					k, isC := constInt(o)
					if !isC || k <= 0 || k >= 65535 {
						continue
					}
					other := stripConvs([]ssa.Value{bo.Y, bo.X}[i])
					relevant := false
					if call, ok := other.(*ssa.Call); ok {
						if bi, ok := call.Call.Value.(*ssa.Builtin); ok && bi.Name() == "len" {
							relevant = true // a length is tested against k
						}
					}
					if _, masked := other.(*ssa.BinOp); !masked && isFillFamily(fn) {
						relevant = true // an encoder tests a value against k
					}
					if relevant {
						set[k] = true
						set[k+1] = true
					}
				}
			}
		}
	}
	var out []int64
	for k := range set {
		if k > 2 { // 1 and 2 are the regular representative lengths
			out = append(out, k)
		}
	}
	sort.Slice(out, func(i, j int) bool { return out[i] < out[j] })
	p.cache["boundaries"] = out
	return out
}

// bigCompareConstants: integer constants of 65 535 and above that a comparison in package mq tests a value against
// (and their neighbours): a presence guard such as `v <= 268435460` is then evaluated on both sides.
func (p *Prog) bigCompareConstants() []int64 {
	if v, ok := p.cache["bigcmp"]; ok {
		return v.([]int64)
	}
	set := map[int64]bool{}
	for _, fn := range p.AllFuncs() {
		for _, b := range fn.Blocks {
			for _, ins := range b.Instrs {
				bo, ok := ins.(*ssa.BinOp)
				if !ok {
					continue
				}
				switch bo.Op {
				case token.LSS, token.LEQ, token.GTR, token.GEQ, token.EQL, token.NEQ:
				default:
					continue
				}
				for _, o := range []ssa.Value{bo.X, bo.Y} {
					if k, isC := constInt(o); isC && k >= 65535 && k < 1<<33 {
						set[k-1], set[k], set[k+1] = true, true, true
					}
				}
			}
		}
	}
	for _, k := range []int64{0xFFFFFF, 0x1000000, 268435455, 268435456, 1<<31 - 1, 1 << 31, 1<<32 - 1} {
		delete(set, k)
	}
	var out []int64
	for k := range set {
		out = append(out, k)
	}
	sort.Slice(out, func(i, j int) bool { return out[i] < out[j] })
	if len(out) > 12 {
		out = out[:12]
	}
	p.cache["bigcmp"] = out
	return out
}

// buildStateSpec: buildState under the spec's boundary bias.
func (p *Prog) buildStateSpec(tn string, spec stateSpec, choose func(string) int, will *packetState) (*packetState, string) {
	if choose == nil {
		choose = spec.choose
	}
	if spec.bias > 0 {
		p.cache["lenbias"] = spec.bias
		defer delete(p.cache, "lenbias")
	}
	if spec.intOnly {
		p.cache["biasintonly"] = true
		defer delete(p.cache, "biasintonly")
	}
	if spec.emptyList {
		p.cache["emptylist"] = true
		defer delete(p.cache, "emptylist")
	}
	if spec.qos > 0 {
		p.cache["forceqos"] = spec.qos
		defer delete(p.cache, "forceqos")
	}
	if spec.stretch > 0 {
		p.cache["stretch"] = spec.stretch
		defer delete(p.cache, "stretch")
	}
	if spec.wide {
		p.cache["c10wide"] = true
		defer delete(p.cache, "c10wide")
	}
	if spec.zeroArg > 0 {
		p.cache["zeroarg"] = spec.zeroArg
		defer delete(p.cache, "zeroarg")
	}
	if spec.last != "" {
		p.cache["lastmutator"] = spec.last
		defer delete(p.cache, "lastmutator")
	}
	return p.buildState(tn, choose, will)
}

// userPropLens: key/value lengths for AddUserProp that occupy `extra` bytes more on the wire than one pair of
// one-byte strings: the first value grows (up to 65 535 bytes), then further pairs are added (identifier, two
// length prefixes and a one-byte key cost 6 bytes each).
func userPropLens(extra int64) []int64 {
	lens := []int64{1, 1}
	g := extra
	if g > 65534 {
		g = 65534
	}
	lens[1] += g
	extra -= g
	for extra > 0 {
		if extra < 6 {
			need := 6 - extra
			if lens[1] < need {
				break
			}
			lens[1] -= need
			extra = 6
		}
		vl := extra - 6
		if vl > 65535 {
			vl = 65535
		}
		lens = append(lens, 1, vl)
		extra -= 6 + vl
	}
	return lens
}

// MQTT domain knowledge used to stay inside the C01 domain (keyed by exported
// API names): payload lists have at least one element; a PUBLISH carries a
// packet identifier only with QoS > 0; the will delay interval is a property
// of the will message.
var payloadList = map[string]string{"Subscribe": "AddFilters", "Unsubscribe": "AddFilter", "SubAck": "AddReasonCode", "UnsubAck": "AddReasonCode"}
var dependsOnSetter = map[string]string{"Publish.SetPacketID": "SetQoS", "Connect.SetWillDelayInterval": "SetWill"}

// zeroOutsideDomain: setters whose zero argument is outside the C01 domain and is therefore not used when
// a state is cleared again (subscription identifiers are 1..268 435 455).
var zeroOutsideDomain = map[string]bool{"Subscribe.SetSubscriptionID": true}

// stateSpecs: none, all, each setter alone, all-but-one, plus the product of
// the setters that influence presence guards.
func (p *Prog) stateSpecs(tn string) []stateSpec {
	nt := p.Pkg.Scope().Lookup(tn).Type().(*types.Named)
	var names []string
	nparams := map[string]int{}
	for _, s := range p.settersOf(nt) {
		names = append(names, s.Name())
		if !s.Signature.Variadic() {
			nparams[s.Name()] = s.Signature.Params().Len()
		}
	}
	var out []stateSpec
	hasWill := false
	for _, n := range names {
		if n == "SetWill" {
			hasWill = true
		}
	}
	wills := []int{0}
	if hasWill {
		wills = []int{0, 1, 3}
	}
	for _, w := range wills {
		w := w
		wtag := ""
		if w == 1 {
			wtag = "+will"
		}
		if w == 3 {
			wtag = "+minimal will (topic only: empty payload, no properties, QoS 0)"
		}
		pick := func(f func(n string) int) func(string) int {
			return func(n string) int {
				if n == "SetWill" {
					if w == 3 {
						if v := f(n); v >= stateOverwrite && v < stateClear {
							return v // the minimal will replaces a full one
						}
						return 0
					}
					if w == 1 {
						if v := f(n); v >= stateOverwrite && v < stateClear || v >= stateOverwriteRev {
							return v // the will message is replaced by another one
						}
						return 0
					}
					return -1
				}
				// MQTT domain: payload lists are never empty (C10 also covers the malformed-but-constructible
				// packet without any filter / reason code)
				if payloadList[tn] == n {
					if el, _ := p.cache["emptylist"].(bool); el {
						return -1
					}
					if v := f(n); v >= 0 {
						return v
					}
					return 0
				}
				// fields that exist on the wire only together with another one
				if dep, ok := dependsOnSetter[tn+"."+n]; ok && p.cache["c10wide"] == nil {
					if dep == "SetWill" && (w == 0 || w == 3) {
						return -1
					}
					if dep != "SetWill" && f(dep) < 0 {
						return -1
					}
				}
				return f(n)
			}
		}
		out = append(out, stateSpec{name: "none" + wtag, choose: pick(func(string) int { return -1 }), will: w})
		out = append(out, stateSpec{name: "all" + wtag, choose: pick(func(string) int { return 0 }), will: w})
		out = append(out, stateSpec{name: "all(variant)" + wtag, choose: pick(func(string) int { return 1 }), will: w})
		if w == 3 {
			// … and once as the replacement of a will that had everything (what the first one left behind must go)
			out = append(out, stateSpec{name: "all, each setter called twice (other value first)" + wtag, choose: pick(func(string) int { return stateOverwrite }), will: w})
			continue // the minimal will is combined with these basic states only
		}
		for _, bv := range p.boundaryValues() {
			out = append(out, stateSpec{name: fmt.Sprintf("all, lengths and integers at the boundary value %d", bv) + wtag, choose: pick(func(string) int { return 0 }), will: w, bias: bv})
		}
		for _, bv := range append([]int64{0xFFFFFF, 0x1000000, 268435455, 268435456, 1<<31 - 1, 1 << 31, 1<<32 - 1}, p.bigCompareConstants()...) {
			// integer boundaries above the string limit (subscription identifiers reach 268 435 455; 32-bit fields)
			out = append(out, stateSpec{name: fmt.Sprintf("all, integers at the boundary value %d", bv) + wtag, choose: pick(func(string) int { return 0 }), will: w, bias: bv, intOnly: true})
		}
		out = append(out, stateSpec{name: "all, each setter called twice (other value first)" + wtag, choose: pick(func(string) int { return stateOverwrite }), will: w})
		out = append(out, stateSpec{name: "all, each setter called twice (other value last)" + wtag, choose: pick(func(string) int { return stateOverwriteRev }), will: w})
		out = append(out, stateSpec{name: "all set, then cleared with zero values" + wtag, choose: pick(func(n string) int {
			if n == "SetProtocolName" || n == "SetProtocolVersion" {
				return -1
			}
			if zeroOutsideDomain[tn+"."+n] && p.cache["c10wide"] == nil {
				return 0
			}
			return stateClear
		}), will: w})
		for _, one := range names {
			one := one
			if one == "SetWill" {
				continue
			}
			out = append(out, stateSpec{name: "only " + one + wtag, choose: pick(func(n string) int {
				if n == one {
					return 0
				}
				return -1
			}), will: w})
			// a mutator with several parameters: once more with each parameter in turn left at its zero value (the
			// flags that follow from one argument must not be computed from another)
			if np := nparams[one]; np > 1 && w == 0 {
				for k := 1; k <= np; k++ {
					out = append(out, stateSpec{name: fmt.Sprintf("only %s, argument %d zero", one, k) + wtag, choose: pick(func(n string) int {
						if n == one {
							return 0
						}
						return -1
					}), will: w, zeroArg: k})
				}
			}
			if w == 0 {
				// the same setter alone with its second representative value (a non-zero success-class reason code,
				// an empty value in a key/value list, the largest valid option byte …)
				out = append(out, stateSpec{name: "only " + one + " (variant value)" + wtag, choose: pick(func(n string) int {
					if n == one {
						return 1
					}
					return -1
				}), will: w})
			}
			out = append(out, stateSpec{name: "all but " + one + wtag, choose: pick(func(n string) int {
				if n == one {
					return -1
				}
				return 0
			}), will: w})
		}
		if thoroughMode {
			// every pair of setters
			for i := 0; i < len(names); i++ {
				for j := i + 1; j < len(names); j++ {
					a, b := names[i], names[j]
					if a == "SetWill" || b == "SetWill" {
						continue
					}
					out = append(out, stateSpec{name: "pair " + a + "+" + b + wtag, choose: pick(func(n string) int {
						if n == a || n == b {
							return 0
						}
						return -1
					}), will: w})
					out = append(out, stateSpec{name: "all but " + a + "+" + b + wtag, choose: pick(func(n string) int {
						if n == a || n == b {
							return -1
						}
						return 1
					}), will: w})
				}
			}
		}
		// pairs of guard-relevant setters
		var guardish []string
		for _, n := range names {
			for _, g := range []string{"QoS", "PacketID", "ReasonCode", "ReasonString", "UserProp", "Username", "Password", "Payload", "TopicAlias", "TopicName", "SubscriptionID"} {
				if strings.Contains(n, g) {
					guardish = append(guardish, n)
					break
				}
			}
		}
		if len(guardish) > 6 {
			guardish = guardish[:6]
		}
		for mask := 0; mask < 1<<uint(len(guardish)); mask++ {
			mask := mask
			sel := map[string]bool{}
			var tag []string
			for i, n := range guardish {
				if mask&(1<<uint(i)) != 0 {
					sel[n] = true
					tag = append(tag, n)
				}
			}
			out = append(out, stateSpec{name: "just{" + strings.Join(tag, ",") + "}" + wtag, choose: pick(func(n string) int {
				if sel[n] {
					return 0
				}
				return -1
			}), will: w})
		}
	}
	return out
}

// willState: a Publish prepared as will message (content, QoS 1, retain).
// willFor: the will message state a state spec asks for (1: every will field set; 3: topic only).
func (p *Prog) willFor(spec stateSpec) (*packetState, string) {
	key := fmt.Sprintf("willstate:%d:%d:%v", spec.will, spec.bias, spec.intOnly)
	if spec.bias > 0 {
		// the will message of a boundary state is built at the same boundary (lengths ≥ 128 inside the will)
		p.cache["lenbias"] = spec.bias
		defer delete(p.cache, "lenbias")
		if spec.intOnly {
			p.cache["biasintonly"] = true
			defer delete(p.cache, "biasintonly")
		}
	}
	type cached struct {
		st  *packetState
		why string
	}
	if v, ok := p.cache[key]; ok {
		return v.(cached).st, v.(cached).why
	}
	var st *packetState
	var why string
	switch spec.will {
	case 1:
		st, why = p.willState()
	case 3:
		st, why = p.buildState("Publish", func(n string) int {
			if n == "SetTopicName" {
				return 0
			}
			return -1
		}, nil)
	}
	p.cache[key] = cached{st, why}
	return st, why
}

func (p *Prog) willState() (*packetState, string) {
	return p.buildState("Publish", func(n string) int {
		switch n {
		case "SetTopicAlias", "AddSubscriptionID", "SetPacketID", "SetDuplicate":
			return -1
		}
		return 0
	}, nil)
}

var _ = math.Inf
var _ = token.ADD
