package main

// E6 — evaluation of extracted decision / transition functions over abstract
// values.
//
// A pure function of package mq (WellFormed predicates, flag accessors,
// setters, and — with the wire primitives replaced by their contracts — the
// packet encoders and decoders) is evaluated on the SSA form for one
// assignment of abstract values to its inputs: the receiver fields it loads
// and its parameters.  Callers enumerate the finite abstract domain of the
// atoms the rule at hand depends on and compare outcomes with the rule.  No
// library code is run; the SSA form is the formula being evaluated, strings
// and byte slices are represented by length and identity only.

import (
	"fmt"
	"go/constant"
	"go/token"
	"go/types"
	"strings"
	"sync/atomic"

	"golang.org/x/tools/go/ssa"
)

type sv struct {
	k    byte   // 'i' int, 'b' bool, 'p' pointer, 's' slice/string, 'I' non-nil interface, 'z' nil interface, 'S' aggregate by reference, 'c' closure, 'm' map, 't' tuple, 'u' unknown
	i    int64  // integer value; length for 's'
	b    bool   // boolean value; 's': is nil
	addr string // 'p': pointee path ("" = nil); 'S': path of the aggregate; 's': backing path / identity tag; 'm': map id
	off  int64  // 's': index of element 0 inside the backing
	fn   *ssa.Function
	free []sv
	dt   types.Type // 'I': dynamic type
	tup  []sv       // 't': components; 'I': the wrapped value
	src  string     // where the value was loaded from (provenance, for layout events)
}

func (v sv) String() string {
	switch v.k {
	case 'i':
		return fmt.Sprint(v.i)
	case 'b':
		return fmt.Sprint(v.b)
	case 'p':
		if v.addr == "" {
			return "nil"
		}
		return "&" + v.addr
	case 's':
		return fmt.Sprintf("len=%d", v.i)
	case 'I':
		return "iface"
	case 'z':
		return "nil"
	case 'S':
		return "{" + v.addr + "}"
	}
	return "?"
}

type symInput func(path string, t types.Type) (sv, bool)

type mapEntry struct{ k, v sv }

type symCtx struct {
	p            *Prog
	input        symInput
	mem          map[string]sv
	maps         map[string][]mapEntry
	steps        int
	limit        int
	why          string
	seen         map[string]types.Type // input paths read (discovery)
	allocN       int
	copyHook     func(c *symCtx, dst, src sv, n int64) (handled, ok bool) // the builtin copy, before its default model
	writeHook    func(c *symCtx, data sv) bool                            // Write on the recording writer
	writeFails   bool                                                     // … which then fails
	writeTakes   int64                                                    // … after accepting this many bytes
	opaqueNonNil map[string]bool                                          // callees treated as "returns some non-nil pointer"
	// hook intercepts a call before it is evaluated (static, closure or
	// dynamically dispatched).  handled=false lets evaluation proceed.
	hook func(c *symCtx, callee *ssa.Function, args []sv) (res []sv, handled bool, ok bool)
}

func (c *symCtx) fail(format string, a ...interface{}) bool {
	if c.why == "" {
		c.why = fmt.Sprintf(format, a...)
	}
	return false
}

func truncInt(v int64, t types.Type, sizes types.Sizes) int64 {
	bt, ok := t.Underlying().(*types.Basic)
	if !ok || bt.Info()&types.IsInteger == 0 {
		return v
	}
	n := uint(sizes.Sizeof(bt) * 8)
	if n >= 64 {
		return v
	}
	m := (int64(1) << n) - 1
	v &= m
	if bt.Info()&types.IsUnsigned == 0 && v>>(n-1) != 0 {
		v -= int64(1) << n
	}
	return v
}

func (c *symCtx) read(path string, t types.Type) (sv, bool) {
	if v, ok := c.mem[path]; ok {
		if v.k == 'S' && v.addr != "" && v.addr != path {
			switch t.Underlying().(type) {
			case *types.Struct, *types.Array:
			default:
				return c.read(v.addr, t) // an aliased scalar element
			}
		}
		return v, true
	}
	if abstractContentElem(path, t) {
		// a byte of a value that is represented by length and identity only: its content is not known, and
		// an evaluation that depends on it must fail rather than read a zero
		return sv{k: 'u', src: path}, true
	}
	if c.seen != nil {
		c.seen[path] = t
	}
	v, ok := c.input(path, t)
	if !ok {
		c.fail("no value for input %s (%s)", path, typeStr(t))
		return sv{}, false
	}
	if v.src == "" {
		v.src = path
	}
	return v, true
}

// abstractContentElem: path is element k of an abstract string / byte slice (an argument tag, a literal, a
// specification token or a rendered text) and t is a byte or rune — content the abstract domain does not carry.
func abstractContentElem(path string, t types.Type) bool {
	bt, ok := t.Underlying().(*types.Basic)
	if !ok || bt.Info()&types.IsInteger == 0 || !strings.HasSuffix(path, "]") {
		return false
	}
	for _, pre := range []string{"val:", "arg:", "spec:", "lit:", "fmt", "cat"} {
		if strings.HasPrefix(path, pre) {
			return true // (elements of abstract integer lists are set explicitly and never get here)
		}
	}
	return false
}

// zero value of a type
func zeroOf(t types.Type, path string) sv {
	switch u := t.Underlying().(type) {
	case *types.Basic:
		switch {
		case u.Info()&types.IsBoolean != 0:
			return sv{k: 'b'}
		case u.Info()&types.IsInteger != 0:
			return sv{k: 'i'}
		case u.Info()&types.IsString != 0:
			return sv{k: 's'}
		}
	case *types.Slice:
		return sv{k: 's', b: true}
	case *types.Pointer, *types.Signature, *types.Chan:
		return sv{k: 'p'}
	case *types.Map:
		return sv{k: 'm'}
	case *types.Interface:
		return sv{k: 'z'}
	case *types.Struct, *types.Array:
		return sv{k: 'S', addr: path}
	}
	return sv{k: 'u'}
}

// zeroFill sets every cell of the aggregate at path to its zero value.
func (c *symCtx) zeroFill(path string, t types.Type, depth int) {
	if depth > 6 {
		return
	}
	switch u := t.Underlying().(type) {
	case *types.Struct:
		c.mem[path] = sv{k: 'S', addr: path}
		for i := 0; i < u.NumFields(); i++ {
			c.zeroFill(fmt.Sprintf("%s.f%d", path, i), u.Field(i).Type(), depth+1)
		}
	case *types.Array:
		c.mem[path] = sv{k: 'S', addr: path}
		if u.Len() <= 64 {
			for i := int64(0); i < u.Len(); i++ {
				c.zeroFill(fmt.Sprintf("%s[%d]", path, i), u.Elem(), depth+1)
			}
		}
	default:
		c.mem[path] = zeroOf(t, path)
	}
}

// allocation names are unique across contexts, so that memories of different
// evaluations can be combined without collisions
var symAllocCounter int64

func (c *symCtx) fresh(prefix string) string {
	return fmt.Sprintf("%s:%d", prefix, atomic.AddInt64(&symAllocCounter, 1))
}

// evalPure evaluates fn on args.  ok=false when the function leaves the
// supported fragment.
func (c *symCtx) evalPure(fn *ssa.Function, args []sv, free []sv, depth int) ([]sv, bool) {
	if fn.Blocks == nil {
		return nil, c.fail("%s has no body", qname(fn))
	}
	if depth > 24 {
		return nil, c.fail("call depth")
	}
	if c.limit == 0 {
		c.limit = 200000
	}
	regs := map[ssa.Value]sv{}
	for i, prm := range fn.Params {
		if i < len(args) {
			regs[prm] = args[i]
		}
	}
	for i, fv := range fn.FreeVars {
		if i < len(free) {
			regs[fv] = free[i]
		}
	}
	frame := c.fresh("A:" + fn.Name())
	iterPos := map[*ssa.Range]int{}
	get := func(v ssa.Value) (sv, bool) {
		if r, ok := regs[v]; ok {
			return r, true
		}
		switch x := v.(type) {
		case *ssa.Const:
			if x.Value == nil {
				return zeroOf(x.Type(), ""), true
			}
			switch x.Value.Kind() {
			case constant.Bool:
				return sv{k: 'b', b: constant.BoolVal(x.Value)}, true
			case constant.Int:
				i, exact := constant.Int64Val(x.Value)
				if !exact {
					if u, ok := constant.Uint64Val(x.Value); ok {
						i = int64(u)
					}
				}
				return sv{k: 'i', i: truncInt(i, x.Type(), c.p.U.Sizes)}, true
			case constant.String:
				s := constant.StringVal(x.Value)
				return sv{k: 's', i: int64(len(s)), addr: "lit:" + s}, true
			}
		case *ssa.Function:
			return sv{k: 'c', fn: x}, true
		case *ssa.Global:
			return sv{k: 'p', addr: "G:" + x.Name()}, true
		}
		return sv{}, c.fail("value %s (%T) is not available in %s", v.Name(), v, qname(fn))
	}
	b := fn.Blocks[0]
	var prev *ssa.BasicBlock
	for {
		cur := b
		// phis are evaluated in parallel
		var phiVals []sv
		var phis []*ssa.Phi
		for _, ins := range cur.Instrs {
			ph, ok := ins.(*ssa.Phi)
			if !ok {
				break
			}
			for i, pb := range cur.Preds {
				if pb == prev {
					v, ok := get(ph.Edges[i])
					if !ok {
						return nil, false
					}
					phis = append(phis, ph)
					phiVals = append(phiVals, v)
				}
			}
		}
		for i, ph := range phis {
			regs[ph] = phiVals[i]
		}
		for _, ins := range cur.Instrs {
			c.steps++
			if c.steps > c.limit {
				return nil, c.fail("step limit (non-terminating loop?) in %s", qname(fn))
			}
			switch x := ins.(type) {
			case *ssa.DebugRef, *ssa.Phi:
			case *ssa.Alloc:
				path := frame + ":" + x.Name()
				pt := x.Type().Underlying().(*types.Pointer)
				if x.Heap {
					path = c.fresh("H:" + x.Name())
				} else {
					// aggregates are held by reference: a composite literal built in a loop body must be a new
					// object on every execution, or the elements appended in earlier iterations all become the last one
					switch pt.Elem().Underlying().(type) {
					case *types.Struct, *types.Array:
						if loopContaining(fn, x.Block()) != nil {
							path = c.fresh(path)
						}
					}
				}
				c.mem[path] = zeroOf(pt.Elem(), path)
				regs[x] = sv{k: 'p', addr: path}
			case *ssa.FieldAddr:
				base, ok := get(x.X)
				if !ok {
					return nil, false
				}
				if base.k != 'p' || base.addr == "" {
					return nil, c.fail("field of nil/unknown pointer at %s", c.p.Pos(ins.Pos()))
				}
				regs[x] = sv{k: 'p', addr: c.aggPath(base.addr) + fmt.Sprintf(".f%d", x.Field)}
			case *ssa.IndexAddr:
				base, ok := get(x.X)
				idx, ok2 := get(x.Index)
				if !ok || !ok2 || idx.k != 'i' {
					return nil, c.fail("index address")
				}
				switch base.k {
				case 'p':
					if base.addr == "" {
						return nil, c.fail("index of nil array pointer")
					}
					regs[x] = sv{k: 'p', addr: c.aggPath(base.addr) + fmt.Sprintf("[%d]", idx.i)}
				case 's':
					if base.addr == "" {
						return nil, c.fail("element of an abstract slice without backing")
					}
					if idx.i < 0 || idx.i >= base.i {
						return nil, c.fail("index %d out of range [0,%d) at %s", idx.i, base.i, c.p.Pos(ins.Pos()))
					}
					regs[x] = sv{k: 'p', addr: fmt.Sprintf("%s[%d]", base.addr, base.off+idx.i)}
				default:
					return nil, c.fail("index address base")
				}
			case *ssa.Field:
				base, ok := get(x.X)
				if !ok || base.k != 'S' {
					return nil, c.fail("field of non-aggregate value")
				}
				v, ok := c.read(c.aggPath(base.addr)+fmt.Sprintf(".f%d", x.Field), x.Type())
				if !ok {
					return nil, false
				}
				regs[x] = v
			case *ssa.Index:
				base, ok := get(x.X)
				idx, ok2 := get(x.Index)
				if !ok || !ok2 || idx.k != 'i' {
					return nil, c.fail("index of non-aggregate value")
				}
				if base.k == 'S' {
					v, ok := c.read(c.aggPath(base.addr)+fmt.Sprintf("[%d]", idx.i), x.Type())
					if !ok {
						return nil, false
					}
					regs[x] = v
				} else {
					return nil, c.fail("index of %v", base)
				}
			case *ssa.Lookup:
				base, ok := get(x.X)
				key, ok2 := get(x.Index)
				if !ok || !ok2 {
					return nil, false
				}
				if base.k != 'm' {
					return nil, c.fail("string indexing is outside the fragment")
				}
				found := false
				val := zeroOf(x.X.Type().Underlying().(*types.Map).Elem(), "")
				for _, e := range c.maps[base.addr] {
					if e.k.k == key.k && e.k.i == key.i && e.k.b == key.b && (e.k.k != 's' || e.k.addr == key.addr) {
						val, found = e.v, true
					}
				}
				if x.CommaOk {
					regs[x] = sv{k: 't', tup: []sv{val, {k: 'b', b: found}}}
				} else {
					regs[x] = val
				}
			case *ssa.UnOp:
				a, ok := get(x.X)
				if !ok {
					return nil, false
				}
				switch x.Op {
				case token.MUL:
					if a.k != 'p' || a.addr == "" {
						return nil, c.fail("load through nil/unknown pointer at %s", c.p.Pos(ins.Pos()))
					}
					v, ok := c.read(a.addr, x.Type())
					if !ok {
						return nil, false
					}
					if v.k == 'S' && v.addr == "" {
						v.addr = a.addr
					}
					// a value parked in a local temporary (a composite literal handed on by value) keeps the
					// provenance it had when it was stored there
					if v.src == "" || !strings.HasPrefix(a.addr, "A:") {
						v.src = a.addr
					}
					regs[x] = v
				case token.NOT:
					regs[x] = sv{k: 'b', b: !a.b}
				case token.SUB:
					regs[x] = sv{k: 'i', i: truncInt(-a.i, x.Type(), c.p.U.Sizes)}
				case token.XOR:
					regs[x] = sv{k: 'i', i: truncInt(^a.i, x.Type(), c.p.U.Sizes)}
				default:
					return nil, c.fail("unary %s", x.Op)
				}
			case *ssa.BinOp:
				a, ok1 := get(x.X)
				bb, ok2 := get(x.Y)
				if !ok1 || !ok2 {
					return nil, false
				}
				r, ok := c.binop(x, a, bb)
				if !ok {
					return nil, false
				}
				regs[x] = r
			case *ssa.ChangeType:
				v, ok := get(x.X)
				if !ok {
					return nil, false
				}
				regs[x] = v
			case *ssa.Convert:
				v, ok := get(x.X)
				if !ok {
					return nil, false
				}
				if v.k == 'i' {
					v.i = truncInt(v.i, x.Type(), c.p.U.Sizes)
				}
				if v.k == 's' {
					// string <-> []byte: a copy of the same content.  []rune(s), string(runes): the length of the result
					// is a function of the content, which the abstract domain does not carry
					if !lengthPreservingConv(x.X.Type(), x.Type()) && v.i > 0 {
						return nil, c.fail("conversion %s → %s at %s changes the length depending on the content", typeStr(x.X.Type()), typeStr(x.Type()), c.p.Pos(ins.Pos()))
					}
					v.b = false
				}
				regs[x] = v
			case *ssa.MakeInterface:
				v, ok := get(x.X)
				if !ok {
					return nil, false
				}
				regs[x] = sv{k: 'I', dt: x.X.Type(), tup: []sv{v}, src: v.src}
			case *ssa.ChangeInterface:
				v, ok := get(x.X)
				if !ok {
					return nil, false
				}
				regs[x] = v
			case *ssa.TypeAssert:
				v, ok := get(x.X)
				if !ok {
					return nil, false
				}
				match := false
				if v.k == 'I' && v.dt != nil {
					if it, isI := x.AssertedType.Underlying().(*types.Interface); isI {
						match = types.Implements(v.dt, it)
					} else {
						match = types.Identical(v.dt, x.AssertedType)
					}
				}
				var val sv
				if match {
					if types.IsInterface(x.AssertedType) {
						val = v
					} else {
						val = v.tup[0]
					}
				} else {
					val = zeroOf(x.AssertedType, "")
				}
				if x.CommaOk {
					regs[x] = sv{k: 't', tup: []sv{val, {k: 'b', b: match}}}
				} else if match {
					regs[x] = val
				} else {
					return nil, c.fail("type assertion fails at %s", c.p.Pos(ins.Pos()))
				}
			case *ssa.Extract:
				t, ok := get(x.Tuple)
				if !ok || t.k != 't' || x.Index >= len(t.tup) {
					return nil, c.fail("extract from non-tuple")
				}
				regs[x] = t.tup[x.Index]
			case *ssa.MakeClosure:
				var fr []sv
				for _, bnd := range x.Bindings {
					v, ok := get(bnd)
					if !ok {
						return nil, false
					}
					fr = append(fr, v)
				}
				regs[x] = sv{k: 'c', fn: x.Fn.(*ssa.Function), free: fr}
			case *ssa.MakeMap:
				id := c.fresh("M")
				c.maps[id] = nil
				regs[x] = sv{k: 'm', addr: id}
			case *ssa.MapUpdate:
				m, ok1 := get(x.Map)
				k, ok2 := get(x.Key)
				v, ok3 := get(x.Value)
				if !ok1 || !ok2 || !ok3 || m.k != 'm' || m.addr == "" {
					return nil, c.fail("map update")
				}
				c.maps[m.addr] = append(c.maps[m.addr], mapEntry{k, v})
			case *ssa.Range:
				m, ok := get(x.X)
				if !ok || m.k != 'm' {
					return nil, c.fail("range over a non-map value")
				}
				if len(c.maps[m.addr]) > 1 {
					return nil, c.fail("range over a map with %d entries: the order is not determined", len(c.maps[m.addr]))
				}
				regs[x] = sv{k: 'm', addr: m.addr, i: 0, src: "iter"}
				iterPos[x] = 0
			case *ssa.Next:
				it, ok := get(x.Iter)
				if !ok || it.k != 'm' {
					return nil, c.fail("next on a non-map iterator")
				}
				rng := x.Iter.(*ssa.Range)
				ents := c.maps[it.addr]
				k := iterPos[rng]
				if k < len(ents) {
					iterPos[rng] = k + 1
					regs[x] = sv{k: 't', tup: []sv{{k: 'b', b: true}, ents[k].k, ents[k].v}}
				} else {
					mt := rng.X.Type().Underlying().(*types.Map)
					regs[x] = sv{k: 't', tup: []sv{{k: 'b', b: false}, zeroOf(mt.Key(), ""), zeroOf(mt.Elem(), "")}}
				}
			case *ssa.MakeSlice:
				n, ok := get(x.Len)
				if !ok || n.k != 'i' {
					return nil, c.fail("make with unknown length")
				}
				if n.i < 0 {
					return nil, c.fail("make with negative length %d at %s", n.i, c.p.Pos(ins.Pos()))
				}
				regs[x] = sv{k: 's', i: n.i, addr: c.fresh("H:slice")}
			case *ssa.Slice:
				base, ok := get(x.X)
				if !ok {
					return nil, false
				}
				var blen int64
				switch base.k {
				case 's':
					blen = base.i
				case 'p':
					pt, isP := x.X.Type().Underlying().(*types.Pointer)
					if !isP {
						return nil, c.fail("slice of pointer")
					}
					at, isA := pt.Elem().Underlying().(*types.Array)
					if !isA {
						return nil, c.fail("slice of non-array pointer")
					}
					blen = at.Len()
					base = sv{k: 's', i: blen, addr: c.aggPath(base.addr)}
				default:
					return nil, c.fail("slice of %v", base)
				}
				lo, hi := int64(0), blen
				if x.Low != nil {
					v, ok := get(x.Low)
					if !ok || v.k != 'i' {
						return nil, c.fail("slice bound")
					}
					lo = v.i
				}
				if x.High != nil {
					v, ok := get(x.High)
					if !ok || v.k != 'i' {
						return nil, c.fail("slice bound")
					}
					hi = v.i
				}
				if lo < 0 || hi < lo || hi > blen {
					return nil, c.fail("slice bounds [%d:%d] of length %d at %s", lo, hi, blen, c.p.Pos(ins.Pos()))
				}
				r := base
				r.i, r.off, r.b = hi-lo, base.off+lo, false
				regs[x] = r
			case *ssa.Store:
				a, ok1 := get(x.Addr)
				v, ok2 := get(x.Val)
				if !ok1 || !ok2 || a.k != 'p' || a.addr == "" {
					return nil, c.fail("store through nil/unknown pointer at %s", c.p.Pos(ins.Pos()))
				}
				if v.k == 'S' && v.addr == "" {
					// the zero value of an aggregate assigned as a whole (`*b = buffer{}`): every field cell becomes zero
					c.zeroFill(a.addr, x.Val.Type(), 0)
					continue
				}
				c.mem[a.addr] = v
			case *ssa.Call:
				r, ok := c.call(x, get, depth)
				if !ok {
					return nil, false
				}
				regs[x] = r
			case *ssa.If:
				cv, ok := get(x.Cond)
				if !ok || cv.k != 'b' {
					return nil, c.fail("branch on a non-boolean/unknown value at %s", c.p.Pos(ins.Pos()))
				}
				prev = cur
				if cv.b {
					b = cur.Succs[0]
				} else {
					b = cur.Succs[1]
				}
			case *ssa.Jump:
				prev = cur
				b = cur.Succs[0]
			case *ssa.Return:
				var out []sv
				for _, r := range x.Results {
					v, ok := get(r)
					if !ok {
						return nil, false
					}
					out = append(out, v)
				}
				return out, true
			case *ssa.Panic:
				return nil, c.fail("explicit panic reached at %s", c.p.Pos(ins.Pos()))
			default:
				return nil, c.fail("instruction %T is outside the fragment (%s)", ins, c.p.Pos(ins.Pos()))
			}
		}
		switch terminator(cur).(type) {
		case *ssa.If, *ssa.Jump:
		default:
			return nil, c.fail("block ends in %T", terminator(cur))
		}
	}
}

// aggPath: the path under which the fields of the aggregate at addr live.  If
// the cell holds an aggregate copied from elsewhere, follow it.
func (c *symCtx) aggPath(addr string) string {
	for i := 0; i < 8; i++ {
		v, ok := c.mem[addr]
		if !ok || v.k != 'S' || v.addr == "" || v.addr == addr {
			return addr
		}
		addr = v.addr
	}
	return addr
}

func (c *symCtx) binop(x *ssa.BinOp, a, b sv) (sv, bool) {
	isCmp := false
	switch x.Op {
	case token.EQL, token.NEQ, token.LSS, token.LEQ, token.GTR, token.GEQ:
		isCmp = true
	}
	if isCmp {
		var r bool
		switch {
		case a.k == 'i' && b.k == 'i':
			ua, ub := a.i, b.i
			unsigned := false
			if bt, ok := x.X.Type().Underlying().(*types.Basic); ok && bt.Info()&types.IsUnsigned != 0 {
				unsigned = true
			}
			lt := ua < ub
			if unsigned {
				lt = uint64(ua) < uint64(ub)
			}
			switch x.Op {
			case token.EQL:
				r = ua == ub
			case token.NEQ:
				r = ua != ub
			case token.LSS:
				r = lt
			case token.LEQ:
				r = lt || ua == ub
			case token.GTR:
				r = !lt && ua != ub
			case token.GEQ:
				r = !lt
			}
		case a.k == 'b' && b.k == 'b':
			r = (a.b == b.b) == (x.Op == token.EQL)
		case a.k == 's' && b.k == 's' && isStringT(x.X.Type().Underlying()) && (x.Op == token.EQL || x.Op == token.NEQ):
			// string equality: decidable for literals and for the empty string
			switch {
			case a.i != b.i:
				r = x.Op == token.NEQ
			case a.i == 0:
				r = x.Op == token.EQL
			case a.addr == b.addr && a.off == b.off:
				r = x.Op == token.EQL
			default:
				return sv{}, c.fail("comparison of string contents")
			}
		default:
			isNil := func(v sv) (bool, bool) {
				switch v.k {
				case 'p':
					return v.addr == "", true
				case 'z':
					return true, true
				case 'I':
					return false, true
				case 'c':
					return v.fn == nil, true
				case 'm':
					return v.addr == "", true
				case 's':
					return v.b, true
				}
				return false, false
			}
			an, ok1 := isNil(a)
			bn, ok2 := isNil(b)
			if !ok1 || !ok2 || (!an && !bn) {
				return sv{}, c.fail("comparison of %v and %v", a, b)
			}
			eq := an && bn
			r = eq == (x.Op == token.EQL)
		}
		return sv{k: 'b', b: r}, true
	}
	if a.k == 's' && b.k == 's' && x.Op == token.ADD {
		return sv{k: 's', i: a.i + b.i, addr: c.fresh("cat")}, true
	}
	if a.k != 'i' || b.k != 'i' {
		return sv{}, c.fail("arithmetic on %v and %v", a, b)
	}
	var r int64
	switch x.Op {
	case token.ADD:
		r = a.i + b.i
	case token.SUB:
		r = a.i - b.i
	case token.MUL:
		r = a.i * b.i
	case token.QUO:
		if b.i == 0 {
			return sv{}, c.fail("division by zero")
		}
		if bt, ok := x.X.Type().Underlying().(*types.Basic); ok && bt.Info()&types.IsUnsigned != 0 {
			r = int64(uint64(a.i) / uint64(b.i))
		} else {
			r = a.i / b.i
		}
	case token.REM:
		if b.i == 0 {
			return sv{}, c.fail("division by zero")
		}
		if bt, ok := x.X.Type().Underlying().(*types.Basic); ok && bt.Info()&types.IsUnsigned != 0 {
			r = int64(uint64(a.i) % uint64(b.i))
		} else {
			r = a.i % b.i
		}
	case token.AND:
		r = a.i & b.i
	case token.OR:
		r = a.i | b.i
	case token.XOR:
		r = a.i ^ b.i
	case token.AND_NOT:
		r = a.i &^ b.i
	case token.SHL:
		r = a.i << uint(b.i)
	case token.SHR:
		if bt, ok := x.X.Type().Underlying().(*types.Basic); ok && bt.Info()&types.IsUnsigned != 0 {
			r = int64(uint64(a.i) >> uint(b.i))
		} else {
			r = a.i >> uint(b.i)
		}
	default:
		return sv{}, c.fail("operator %s", x.Op)
	}
	return sv{k: 'i', i: truncInt(r, x.Type(), c.p.U.Sizes)}, true
}

func (c *symCtx) callFn(callee *ssa.Function, args, free []sv, depth int) (sv, bool) {
	if c.hook != nil {
		if rs, handled, ok := c.hook(c, callee, args); handled {
			if !ok {
				return sv{}, false
			}
			return packResults(rs), true
		}
	}
	if callee.Blocks == nil {
		switch fullName(callee) {
		case "fmt.Sprintf", "fmt.Sprint":
			return sv{k: 's', i: 1, addr: c.fresh("fmt")}, true
		case "fmt.Errorf", "errors.New":
			return sv{k: 'I', tup: []sv{{k: 'p', addr: "R:error"}}}, true
		case "(time.Duration).String", "strconv.FormatInt", "strconv.Itoa":
			return sv{k: 's', i: 1, addr: c.fresh("fmt")}, true
		case "(encoding/binary.bigEndian).PutUint16", "(encoding/binary.bigEndian).PutUint32", "(encoding/binary.bigEndian).PutUint64":
			// big-endian bytes of a known value into a slice with a backing (used when an encoder is evaluated on a
			// concrete buffer)
			w := map[string]int64{"(encoding/binary.bigEndian).PutUint16": 2, "(encoding/binary.bigEndian).PutUint32": 4, "(encoding/binary.bigEndian).PutUint64": 8}[fullName(callee)]
			if len(args) < 2 {
				return sv{}, c.fail("%s: arguments", fullName(callee))
			}
			b, v := args[len(args)-2], args[len(args)-1]
			if b.k != 's' || b.addr == "" {
				return sv{}, c.fail("%s on an abstract slice", fullName(callee))
			}
			if b.i < w {
				return sv{}, c.fail("%s on %d byte(s): index out of range", fullName(callee), b.i)
			}
			for k := int64(0); k < w; k++ {
				cell := sv{k: 'u'}
				if v.k == 'i' {
					cell = sv{k: 'i', i: int64(uint64(v.i)>>(uint(w-1-k)*8)) & 0xff}
				}
				c.mem[fmt.Sprintf("%s[%d]", b.addr, b.off+k)] = cell
			}
			return sv{k: 't'}, true
		case "(encoding/binary.bigEndian).Uint16", "(encoding/binary.bigEndian).Uint32", "(encoding/binary.bigEndian).Uint64":
			// big-endian composition of concrete bytes (used when a wire decoder is evaluated on concrete input)
			w := map[string]int64{"(encoding/binary.bigEndian).Uint16": 2, "(encoding/binary.bigEndian).Uint32": 4, "(encoding/binary.bigEndian).Uint64": 8}[fullName(callee)]
			b := args[len(args)-1]
			if b.k != 's' || b.addr == "" {
				return sv{}, c.fail("%s on an abstract slice", fullName(callee))
			}
			if b.i < w {
				return sv{}, c.fail("%s on %d byte(s): index out of range", fullName(callee), b.i)
			}
			var v uint64
			for k := int64(0); k < w; k++ {
				cell, ok := c.mem[fmt.Sprintf("%s[%d]", b.addr, b.off+k)]
				if !ok || cell.k != 'i' {
					return sv{k: 'u'}, true
				}
				v = v<<8 | uint64(cell.i&0xff)
			}
			return sv{k: 'i', i: int64(v)}, true
		}
		return sv{}, c.fail("external call %s", fullName(callee))
	}
	// constructors of error values: only their non-nil-ness matters
	if callee.Signature.Results().Len() == 1 && c.opaqueNonNil[callee.Name()] {
		if _, isPtr := callee.Signature.Results().At(0).Type().Underlying().(*types.Pointer); isPtr {
			if rs := c.p.retSummary(callee); len(rs.nonNil) == 1 && rs.nonNil[0] {
				return sv{k: 'p', addr: "R:" + callee.Name()}, true
			}
		}
	}
	rs, ok := c.evalPure(callee, args, free, depth+1)
	if !ok {
		return sv{}, false
	}
	return packResults(rs), true
}

func packResults(rs []sv) sv {
	switch len(rs) {
	case 0:
		return sv{k: 'u'}
	case 1:
		return rs[0]
	}
	return sv{k: 't', tup: rs}
}

func (c *symCtx) call(x *ssa.Call, get func(ssa.Value) (sv, bool), depth int) (sv, bool) {
	cc := x.Common()
	var args []sv
	for _, a := range cc.Args {
		v, ok := get(a)
		if !ok {
			return sv{}, false
		}
		args = append(args, v)
	}
	if bi, ok := cc.Value.(*ssa.Builtin); ok {
		switch bi.Name() {
		case "len", "cap":
			a := args[0]
			switch a.k {
			case 's':
				return sv{k: 'i', i: a.i}, true
			case 'm':
				return sv{k: 'i', i: int64(len(c.maps[a.addr]))}, true
			case 'S':
				if at, ok := cc.Args[0].Type().Underlying().(*types.Array); ok {
					return sv{k: 'i', i: at.Len()}, true
				}
			}
			return sv{}, c.fail("len of %v", a)
		case "ssa:wrapnilchk":
			if args[0].k == 'p' && args[0].addr == "" {
				return sv{}, c.fail("nil receiver of a value method")
			}
			return args[0], true
		case "append":
			s := args[0]
			if len(args) == 1 {
				return s, true
			}
			e := args[1]
			if s.k != 's' || e.k != 's' {
				return sv{}, c.fail("append")
			}
			id := c.fresh("H:app")
			for k := int64(0); k < s.i; k++ {
				c.aliasElem(fmt.Sprintf("%s[%d]", id, k), fmt.Sprintf("%s[%d]", s.addr, s.off+k), s.addr != "")
			}
			for k := int64(0); k < e.i; k++ {
				c.aliasElem(fmt.Sprintf("%s[%d]", id, s.i+k), fmt.Sprintf("%s[%d]", e.addr, e.off+k), e.addr != "")
			}
			return sv{k: 's', i: s.i + e.i, addr: id}, true
		case "copy":
			n := args[0].i
			if args[1].i < n {
				n = args[1].i
			}
			if c.copyHook != nil {
				if handled, ok := c.copyHook(c, args[0], args[1], n); handled {
					if !ok {
						return sv{}, false
					}
					return sv{k: 'i', i: n}, true
				}
			}
			// elements that are known move with the copy (both slices with a backing)
			if args[0].k == 's' && args[1].k == 's' && args[0].addr != "" && args[1].addr != "" && n <= 4096 {
				for k := int64(0); k < n; k++ {
					if cell, ok := c.mem[fmt.Sprintf("%s[%d]", args[1].addr, args[1].off+k)]; ok {
						c.mem[fmt.Sprintf("%s[%d]", args[0].addr, args[0].off+k)] = cell
					}
				}
			}
			return sv{k: 'i', i: n}, true
		}
		return sv{}, c.fail("builtin %s", bi.Name())
	}
	if cc.IsInvoke() {
		recv, ok := get(cc.Value)
		if !ok {
			return sv{}, false
		}
		// the recording writer of the WriteTo evaluation (c10.go writeToByEvaluation)
		if c.writeHook != nil && recv.k == 'I' && recv.dt == nil && recv.addr == "WRITER" && cc.Method.Name() == "Write" && len(cc.Args) == 1 {
			data, ok := get(cc.Args[0])
			if !ok {
				return sv{}, false
			}
			if !c.writeHook(c, data) {
				return sv{}, false
			}
			if c.writeFails {
				// a writer that takes one byte and reports an error: WriteTo must hand both back
				return sv{k: 't', tup: []sv{{k: 'i', i: c.writeTakes}, {k: 'I', addr: "WERR"}}}, true
			}
			return sv{k: 't', tup: []sv{{k: 'i', i: data.i}, {k: 'z'}}}, true
		}
		if recv.k != 'I' || recv.dt == nil {
			return sv{}, c.fail("method %s called on %v at %s", cc.Method.Name(), recv, c.p.Pos(x.Pos()))
		}
		sel := c.p.Prog.MethodSets.MethodSet(recv.dt).Lookup(cc.Method.Pkg(), cc.Method.Name())
		if sel == nil {
			return sv{}, c.fail("no method %s on %s", cc.Method.Name(), typeStr(recv.dt))
		}
		callee := c.p.Prog.MethodValue(sel)
		if callee == nil {
			return sv{}, c.fail("abstract method")
		}
		return c.callFn(callee, append([]sv{recv.tup[0]}, args...), nil, depth)
	}
	if sc := cc.StaticCallee(); sc != nil {
		var free []sv
		if mc, ok := cc.Value.(*ssa.MakeClosure); ok {
			v, ok := get(mc)
			if !ok {
				return sv{}, false
			}
			free = v.free
		}
		return c.callFn(sc, args, free, depth)
	}
	v, ok := get(cc.Value)
	if !ok {
		return sv{}, false
	}
	if v.k != 'c' || v.fn == nil {
		return sv{}, c.fail("call of a nil/unknown function value at %s", c.p.Pos(x.Pos()))
	}
	return c.callFn(v.fn, args, v.free, depth)
}

// aliasElem makes element path dst denote what src denotes (values are copied
// if present, aggregates are aliased).
func (c *symCtx) aliasElem(dst, src string, has bool) {
	if !has {
		return
	}
	if v, ok := c.mem[src]; ok {
		c.mem[dst] = v
		return
	}
	c.mem[dst] = sv{k: 'S', addr: src}
}

// newSym creates an evaluation context.
func (p *Prog) newSym(input symInput) *symCtx {
	return &symCtx{p: p, input: input, mem: map[string]sv{}, maps: map[string][]mapEntry{}, seen: map[string]types.Type{}, opaqueNonNil: map[string]bool{}}
}

// lengthPreservingConv: a conversion between string and []byte (in either direction, or between named forms of
// them) keeps the length.
func lengthPreservingConv(from, to types.Type) bool {
	ok := func(t types.Type) bool {
		switch u := t.Underlying().(type) {
		case *types.Basic:
			return u.Info()&types.IsString != 0
		case *types.Slice:
			b, isB := u.Elem().Underlying().(*types.Basic)
			return isB && b.Kind() == types.Uint8
		}
		return false
	}
	return ok(from) && ok(to)
}
