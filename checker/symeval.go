package main

// E6 — evaluation of extracted decision functions.
//
// A pure, loop-free function of package mq (WellFormed predicates, flag
// accessors, QoS decoders, toggles) is a decision tree over its inputs: the
// fields it loads and its scalar parameters.  evalPure walks that tree for one
// assignment of values to the inputs; the callers enumerate all assignments of
// the (small, finite) abstract domain of the atoms and compare the outcome
// with the rule from the specification.  No code of the library is run: the
// SSA form is the formula being evaluated.

import (
	"fmt"
	"go/constant"
	"go/token"
	"go/types"

	"golang.org/x/tools/go/ssa"
)

type sv struct {
	k    byte   // 'i' int, 'b' bool, 'p' pointer, 's' slice/string, 'n' non-nil opaque, 'z' nil, 'S' struct/array value by reference, 'c' closure, 'u' unknown
	i    int64  // integer value; length for 's'
	b    bool   // boolean value
	addr string // 'p': pointee path ("" = nil); 'S': path of the aggregate
	fn   *ssa.Function
}

func (v sv) String() string {
	switch v.k {
	case 'i':
		return fmt.Sprint(v.i)
	case 'b':
		return fmt.Sprint(v.b)
	case 'p':
		if v.addr == "" {
			return "nil"
		}
		return "&" + v.addr
	case 's':
		return fmt.Sprintf("len=%d", v.i)
	case 'n':
		return "non-nil"
	case 'z':
		return "nil"
	case 'S':
		return "{" + v.addr + "}"
	}
	return "?"
}

type symInput func(path string, t types.Type) (sv, bool)

type symCtx struct {
	p            *Prog
	input        symInput
	mem          map[string]sv
	steps        int
	why          string
	seen         map[string]types.Type // input paths read (discovery)
	allocN       int
	opaqueNonNil map[string]bool // callees treated as "returns some non-nil pointer"
}

func (c *symCtx) fail(format string, a ...interface{}) bool {
	if c.why == "" {
		c.why = fmt.Sprintf(format, a...)
	}
	return false
}

func truncInt(v int64, t types.Type, sizes types.Sizes) int64 {
	bt, ok := t.Underlying().(*types.Basic)
	if !ok || bt.Info()&types.IsInteger == 0 {
		return v
	}
	n := uint(sizes.Sizeof(bt) * 8)
	if n >= 64 {
		return v
	}
	m := (int64(1) << n) - 1
	v &= m
	if bt.Info()&types.IsUnsigned == 0 && v>>(n-1) != 0 {
		v -= int64(1) << n
	}
	return v
}

func (c *symCtx) read(path string, t types.Type) (sv, bool) {
	if v, ok := c.mem[path]; ok {
		return v, true
	}
	if c.seen != nil {
		c.seen[path] = t
	}
	v, ok := c.input(path, t)
	if !ok {
		c.fail("no value for input %s (%s)", path, typeStr(t))
		return sv{}, false
	}
	return v, true
}

// zero value of a type
func zeroOf(t types.Type, path string) sv {
	switch u := t.Underlying().(type) {
	case *types.Basic:
		switch {
		case u.Info()&types.IsBoolean != 0:
			return sv{k: 'b'}
		case u.Info()&types.IsInteger != 0:
			return sv{k: 'i'}
		case u.Info()&types.IsString != 0:
			return sv{k: 's'}
		}
	case *types.Slice:
		return sv{k: 's', b: true}
	case *types.Pointer, *types.Map, *types.Signature, *types.Chan:
		return sv{k: 'p'}
	case *types.Interface:
		return sv{k: 'z'}
	case *types.Struct, *types.Array:
		return sv{k: 'S', addr: path}
	}
	return sv{k: 'u'}
}

// evalPure evaluates fn on args.  ok=false when the function leaves the
// supported fragment (loops, impure calls, unknown values in conditions).
func (c *symCtx) evalPure(fn *ssa.Function, args []sv, free []sv, depth int) ([]sv, bool) {
	if fn.Blocks == nil {
		return nil, c.fail("%s has no body", qname(fn))
	}
	if depth > 8 {
		return nil, c.fail("call depth")
	}
	regs := map[ssa.Value]sv{}
	for i, prm := range fn.Params {
		if i < len(args) {
			regs[prm] = args[i]
		}
	}
	for i, fv := range fn.FreeVars {
		if i < len(free) {
			regs[fv] = free[i]
		}
	}
	frame := fmt.Sprintf("%s#%d", fn.Name(), c.allocN)
	c.allocN++
	get := func(v ssa.Value) (sv, bool) {
		if r, ok := regs[v]; ok {
			return r, true
		}
		switch x := v.(type) {
		case *ssa.Const:
			if x.Value == nil {
				return zeroOf(x.Type(), ""), true
			}
			switch x.Value.Kind() {
			case constant.Bool:
				return sv{k: 'b', b: constant.BoolVal(x.Value)}, true
			case constant.Int:
				i, _ := constant.Int64Val(x.Value)
				if u, ok := constant.Uint64Val(x.Value); ok && i == 0 && u != 0 {
					i = int64(u)
				}
				return sv{k: 'i', i: truncInt(i, x.Type(), c.p.U.Sizes)}, true
			case constant.String:
				return sv{k: 's', i: int64(len(constant.StringVal(x.Value)))}, true
			}
		case *ssa.Function:
			return sv{k: 'c', fn: x}, true
		case *ssa.Global:
			return sv{k: 'p', addr: "G:" + x.Name()}, true
		}
		return sv{}, c.fail("value %s (%T) is not available", v.Name(), v)
	}
	b := fn.Blocks[0]
	var prev *ssa.BasicBlock
	for {
		cur := b
		for _, ins := range cur.Instrs {
			c.steps++
			if c.steps > 20000 {
				return nil, c.fail("step limit (loop?)")
			}
			switch x := ins.(type) {
			case *ssa.DebugRef:
			case *ssa.Phi:
				for i, pb := range cur.Preds {
					if pb == prev {
						v, ok := get(x.Edges[i])
						if !ok {
							return nil, false
						}
						regs[x] = v
					}
				}
			case *ssa.Alloc:
				path := fmt.Sprintf("A:%s:%s", frame, x.Name())
				pt := x.Type().Underlying().(*types.Pointer)
				c.mem[path] = zeroOf(pt.Elem(), path)
				regs[x] = sv{k: 'p', addr: path}
			case *ssa.FieldAddr:
				base, ok := get(x.X)
				if !ok {
					return nil, false
				}
				if base.k != 'p' || base.addr == "" {
					return nil, c.fail("field of nil/unknown pointer at %s", c.p.Pos(ins.Pos()))
				}
				regs[x] = sv{k: 'p', addr: c.aggPath(base.addr) + fmt.Sprintf(".f%d", x.Field)}
			case *ssa.IndexAddr:
				base, ok := get(x.X)
				idx, ok2 := get(x.Index)
				if !ok || !ok2 || idx.k != 'i' {
					return nil, c.fail("index address")
				}
				switch base.k {
				case 'p':
					if base.addr == "" {
						return nil, c.fail("index of nil array pointer")
					}
					regs[x] = sv{k: 'p', addr: c.aggPath(base.addr) + fmt.Sprintf("[%d]", idx.i)}
				case 's':
					if base.addr == "" {
						return nil, c.fail("element of an abstract slice without backing")
					}
					if idx.i < 0 || idx.i >= base.i {
						return nil, c.fail("index %d out of range [0,%d)", idx.i, base.i)
					}
					regs[x] = sv{k: 'p', addr: base.addr + fmt.Sprintf("[%d]", idx.i)}
				default:
					return nil, c.fail("index address base")
				}
			case *ssa.Field:
				base, ok := get(x.X)
				if !ok || base.k != 'S' {
					return nil, c.fail("field of non-aggregate value")
				}
				v, ok := c.read(base.addr+fmt.Sprintf(".f%d", x.Field), x.Type())
				if !ok {
					return nil, false
				}
				regs[x] = v
			case *ssa.Index:
				base, ok := get(x.X)
				idx, ok2 := get(x.Index)
				if !ok || !ok2 || base.k != 'S' || idx.k != 'i' {
					return nil, c.fail("index of non-aggregate value")
				}
				v, ok := c.read(base.addr+fmt.Sprintf("[%d]", idx.i), x.Type())
				if !ok {
					return nil, false
				}
				regs[x] = v
			case *ssa.UnOp:
				a, ok := get(x.X)
				if !ok {
					return nil, false
				}
				switch x.Op {
				case token.MUL:
					if a.k != 'p' || a.addr == "" {
						return nil, c.fail("load through nil/unknown pointer at %s", c.p.Pos(ins.Pos()))
					}
					v, ok := c.read(a.addr, x.Type())
					if !ok {
						return nil, false
					}
					if v.k == 'S' && v.addr == "" {
						v.addr = a.addr
					}
					regs[x] = v
				case token.NOT:
					regs[x] = sv{k: 'b', b: !a.b}
				case token.SUB:
					regs[x] = sv{k: 'i', i: truncInt(-a.i, x.Type(), c.p.U.Sizes)}
				case token.XOR:
					regs[x] = sv{k: 'i', i: truncInt(^a.i, x.Type(), c.p.U.Sizes)}
				default:
					return nil, c.fail("unary %s", x.Op)
				}
			case *ssa.BinOp:
				a, ok1 := get(x.X)
				bb, ok2 := get(x.Y)
				if !ok1 || !ok2 {
					return nil, false
				}
				r, ok := c.binop(x, a, bb)
				if !ok {
					return nil, false
				}
				regs[x] = r
			case *ssa.ChangeType:
				v, ok := get(x.X)
				if !ok {
					return nil, false
				}
				regs[x] = v
			case *ssa.Convert:
				v, ok := get(x.X)
				if !ok {
					return nil, false
				}
				if v.k == 'i' {
					v.i = truncInt(v.i, x.Type(), c.p.U.Sizes)
				}
				if v.k == 's' {
					v.b = false // string <-> []byte: fresh, same length
				}
				regs[x] = v
			case *ssa.MakeInterface:
				v, ok := get(x.X)
				if !ok {
					return nil, false
				}
				if v.k == 'p' && v.addr == "" {
					regs[x] = sv{k: 'n'} // non-nil interface holding a nil pointer
				} else {
					regs[x] = sv{k: 'n', addr: v.addr}
				}
			case *ssa.ChangeInterface:
				v, ok := get(x.X)
				if !ok {
					return nil, false
				}
				regs[x] = v
			case *ssa.MakeClosure:
				var fr []sv
				for _, bnd := range x.Bindings {
					v, ok := get(bnd)
					if !ok {
						return nil, false
					}
					fr = append(fr, v)
				}
				regs[x] = sv{k: 'c', fn: x.Fn.(*ssa.Function), addr: c.stash(fr)}
			case *ssa.Store:
				a, ok1 := get(x.Addr)
				v, ok2 := get(x.Val)
				if !ok1 || !ok2 || a.k != 'p' || a.addr == "" {
					return nil, c.fail("store through nil/unknown pointer")
				}
				if v.k == 'S' {
					// aggregate copy: alias the source path (sources are never mutated in the fragment)
					c.mem[a.addr] = v
				} else {
					c.mem[a.addr] = v
				}
			case *ssa.Call:
				r, ok := c.call(x, get, depth)
				if !ok {
					return nil, false
				}
				regs[x] = r
			case *ssa.Extract:
				return nil, c.fail("tuple values are outside the fragment")
			case *ssa.If:
				cv, ok := get(x.Cond)
				if !ok || cv.k != 'b' {
					return nil, c.fail("branch on a non-boolean/unknown value at %s", c.p.Pos(ins.Pos()))
				}
				prev = cur
				if cv.b {
					b = cur.Succs[0]
				} else {
					b = cur.Succs[1]
				}
			case *ssa.Jump:
				prev = cur
				b = cur.Succs[0]
			case *ssa.Return:
				var out []sv
				for _, r := range x.Results {
					v, ok := get(r)
					if !ok {
						return nil, false
					}
					out = append(out, v)
				}
				return out, true
			default:
				return nil, c.fail("instruction %T is outside the pure fragment (%s)", ins, c.p.Pos(ins.Pos()))
			}
		}
		switch terminator(cur).(type) {
		case *ssa.If, *ssa.Jump:
		default:
			return nil, c.fail("block ends in %T", terminator(cur))
		}
	}
}

var stashes = map[string][]sv{}

func (c *symCtx) stash(fr []sv) string {
	k := fmt.Sprintf("C%d", len(stashes))
	stashes[k] = fr
	return k
}

// aggPath: the path under which the fields of the aggregate at addr live.  If
// the cell holds an aggregate copied from elsewhere, follow it.
func (c *symCtx) aggPath(addr string) string {
	if v, ok := c.mem[addr]; ok && v.k == 'S' && v.addr != "" && v.addr != addr {
		return v.addr
	}
	return addr
}

func (c *symCtx) binop(x *ssa.BinOp, a, b sv) (sv, bool) {
	isCmp := false
	switch x.Op {
	case token.EQL, token.NEQ, token.LSS, token.LEQ, token.GTR, token.GEQ:
		isCmp = true
	}
	if isCmp {
		var r bool
		switch {
		case a.k == 'i' && b.k == 'i':
			ua, ub := a.i, b.i
			unsigned := false
			if bt, ok := x.X.Type().Underlying().(*types.Basic); ok && bt.Info()&types.IsUnsigned != 0 {
				unsigned = true
			}
			lt := ua < ub
			if unsigned {
				lt = uint64(ua) < uint64(ub)
			}
			switch x.Op {
			case token.EQL:
				r = ua == ub
			case token.NEQ:
				r = ua != ub
			case token.LSS:
				r = lt
			case token.LEQ:
				r = lt || ua == ub
			case token.GTR:
				r = !lt && ua != ub
			case token.GEQ:
				r = !lt
			}
		case a.k == 'b' && b.k == 'b':
			r = (a.b == b.b) == (x.Op == token.EQL)
		default:
			// nil comparisons
			isNil := func(v sv) (bool, bool) {
				switch v.k {
				case 'p':
					return v.addr == "", true
				case 'z':
					return true, true
				case 'n', 'c':
					return false, true
				case 's':
					return v.b, true
				}
				return false, false
			}
			an, ok1 := isNil(a)
			bn, ok2 := isNil(b)
			if !ok1 || !ok2 || (!an && !bn) {
				return sv{}, c.fail("comparison of %v and %v", a, b)
			}
			eq := an && bn
			r = eq == (x.Op == token.EQL)
		}
		return sv{k: 'b', b: r}, true
	}
	if a.k == 's' && b.k == 's' && x.Op == token.ADD {
		return sv{k: 's', i: a.i + b.i}, true
	}
	if a.k != 'i' || b.k != 'i' {
		return sv{}, c.fail("arithmetic on %v and %v", a, b)
	}
	var r int64
	switch x.Op {
	case token.ADD:
		r = a.i + b.i
	case token.SUB:
		r = a.i - b.i
	case token.MUL:
		r = a.i * b.i
	case token.QUO:
		if b.i == 0 {
			return sv{}, c.fail("division by zero")
		}
		r = a.i / b.i
	case token.REM:
		if b.i == 0 {
			return sv{}, c.fail("division by zero")
		}
		r = a.i % b.i
	case token.AND:
		r = a.i & b.i
	case token.OR:
		r = a.i | b.i
	case token.XOR:
		r = a.i ^ b.i
	case token.AND_NOT:
		r = a.i &^ b.i
	case token.SHL:
		r = a.i << uint(b.i)
	case token.SHR:
		if bt, ok := x.X.Type().Underlying().(*types.Basic); ok && bt.Info()&types.IsUnsigned != 0 {
			r = int64(uint64(a.i) >> uint(b.i))
		} else {
			r = a.i >> uint(b.i)
		}
	default:
		return sv{}, c.fail("operator %s", x.Op)
	}
	return sv{k: 'i', i: truncInt(r, x.Type(), c.p.U.Sizes)}, true
}

func (c *symCtx) call(x *ssa.Call, get func(ssa.Value) (sv, bool), depth int) (sv, bool) {
	cc := x.Common()
	if bi, ok := cc.Value.(*ssa.Builtin); ok {
		switch bi.Name() {
		case "len":
			a, ok := get(cc.Args[0])
			if !ok {
				return sv{}, false
			}
			if a.k == 's' {
				return sv{k: 'i', i: a.i}, true
			}
			if a.k == 'S' {
				if at, ok := cc.Args[0].Type().Underlying().(*types.Array); ok {
					return sv{k: 'i', i: at.Len()}, true
				}
			}
			return sv{}, c.fail("len of %v", a)
		case "ssa:wrapnilchk":
			return get(cc.Args[0])
		}
		return sv{}, c.fail("builtin %s", bi.Name())
	}
	var callee *ssa.Function
	var free []sv
	if sc := cc.StaticCallee(); sc != nil {
		callee = sc
		if mc, ok := cc.Value.(*ssa.MakeClosure); ok {
			v, ok := get(mc)
			if !ok {
				return sv{}, false
			}
			free = stashes[v.addr]
		}
	} else if !cc.IsInvoke() {
		v, ok := get(cc.Value)
		if !ok || v.k != 'c' {
			return sv{}, c.fail("dynamic call")
		}
		callee, free = v.fn, stashes[v.addr]
	} else {
		return sv{}, c.fail("interface call %s", cc.Method.Name())
	}
	if callee.Blocks == nil {
		// the few external pure functions that show up in predicates
		switch fullName(callee) {
		case "fmt.Sprintf", "fmt.Errorf":
			return sv{k: 'n'}, true
		}
		return sv{}, c.fail("external call %s", fullName(callee))
	}
	var args []sv
	for _, a := range cc.Args {
		v, ok := get(a)
		if !ok {
			return sv{}, false
		}
		args = append(args, v)
	}
	// constructors of error values: only their non-nil-ness matters
	if callee.Signature.Results().Len() == 1 {
		if _, isPtr := callee.Signature.Results().At(0).Type().Underlying().(*types.Pointer); isPtr {
			if rs := c.p.retSummary(callee); len(rs.nonNil) == 1 && rs.nonNil[0] && c.opaqueNonNil[callee.Name()] {
				return sv{k: 'p', addr: "R:" + callee.Name()}, true
			}
		}
	}
	rs, ok := c.evalPure(callee, args, free, depth+1)
	if !ok {
		return sv{}, false
	}
	if len(rs) == 0 {
		return sv{k: 'u'}, true
	}
	if len(rs) > 1 {
		return sv{}, c.fail("multi-result call")
	}
	return rs[0], true
}

// newSym creates an evaluation context.
func (p *Prog) newSym(input symInput) *symCtx {
	return &symCtx{p: p, input: input, mem: map[string]sv{}, seen: map[string]types.Type{}, opaqueNonNil: map[string]bool{}}
}
