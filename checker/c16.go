package main

// C16 — packet type dispatch follows the first byte and header flags are preserved.

import (
	"fmt"
	"go/token"
	"go/types"
	"sort"
	"strconv"
	"strings"

	"golang.org/x/tools/go/ssa"
)

func init() {
	register(&PropertyCheck{ID: "C16", Level: "other", Run: checkC16, Canaries: []Canary{
		{Name: "rf8-header-only-packets-share-a-writer", Silent: true, Edits: []Edit{{"packet.go", "\treturn p, nil\n}\n", "\treturn p, nil\n}\n\n// headerString returns the short readable form shared by packets\n// without variable header, e.g. PINGREQ ---- 2 bytes\nfunc headerString(fixed bits, size int) string {\n\treturn fmt.Sprintf(\"%s %v bytes\", firstByte(fixed).String(), size)\n}\n\n// fillHeaderOnly fills b from position i with a fixed header\n// announcing no remaining data. Returns the position after the\n// header.\nfunc fillHeaderOnly(b []byte, i int, fixed bits) int {\n\ti += fixed.fill(b, i)    // firstByte header\n\ti += vbint(0).fill(b, i) // remaining length none\n\treturn i\n}\n\n// writeHeaderOnly writes a packet consisting of the fixed header only\n// in one write.\nfunc writeHeaderOnly(w io.Writer, fixed bits) (int64, error) {\n\tb := make([]byte, fillHeaderOnly(_LEN, 0, fixed))\n\tfillHeaderOnly(b, 0, fixed)\n\tn, err := w.Write(b)\n\treturn int64(n), err\n}\n"}, {"pingreq.go", "\t\"fmt\"\n\t\"io\"\n)\n\nfunc NewPingReq() *PingReq {\n\treturn &PingReq{fixed: bits(PINGREQ)}\n}\n\ntype PingReq struct {\n\tfixed bits\n}\n\nfunc (p *PingReq) String() string {\n\treturn fmt.Sprintf(\"%s %v bytes\",\n\t\tfirstByte(p.fixed).String(),\n\t\tp.width(),\n\t)\n}\n\nfunc (p *PingReq) WriteTo(w io.Writer) (int64, error) {\n\tb := make([]byte, p.width())\n\tp.fill(b, 0)\n\tn, err := w.Write(b)\n\treturn int64(n), err\n}\n\nfunc (p *PingReq) width() int {\n\treturn p.fill(_LEN, 0)\n}\n\nfunc (p *PingReq) fill(b []byte, i int) int {\n\ti += p.fixed.fill(b, i)  // firstByte header\n\ti += vbint(0).fill(b, i) // remaining length none\n\treturn i", "\t\"io\"\n)\n\nfunc NewPingReq() *PingReq {\n\treturn &PingReq{fixed: bits(PINGREQ)}\n}\n\ntype PingReq struct {\n\tfixed bits\n}\n\nfunc (p *PingReq) String() string {\n\treturn headerString(p.fixed, p.width())\n}\n\nfunc (p *PingReq) WriteTo(w io.Writer) (int64, error) {\n\treturn writeHeaderOnly(w, p.fixed)\n}\n\nfunc (p *PingReq) width() int {\n\treturn p.fill(_LEN, 0)\n}\n\nfunc (p *PingReq) fill(b []byte, i int) int {\n\treturn fillHeaderOnly(b, i, p.fixed)"}, {"pingresp.go", "\t\"fmt\"\n\t\"io\"\n)\n\nfunc NewPingResp() *PingResp {\n\treturn &PingResp{fixed: bits(PINGRESP)}\n}\n\ntype PingResp struct {\n\tfixed bits\n}\n\nfunc (p *PingResp) String() string {\n\treturn fmt.Sprintf(\"%s %v bytes\",\n\t\tfirstByte(p.fixed).String(),\n\t\tp.width(),\n\t)\n}\n\nfunc (p *PingResp) WriteTo(w io.Writer) (int64, error) {\n\tb := make([]byte, p.width())\n\tp.fill(b, 0)\n\tn, err := w.Write(b)\n\treturn int64(n), err\n}\n\nfunc (p *PingResp) width() int {\n\treturn p.fill(_LEN, 0)\n}\n\nfunc (p *PingResp) fill(b []byte, i int) int {\n\ti += p.fixed.fill(b, i)  // firstByte header\n\ti += vbint(0).fill(b, i) // remaining length none\n\treturn i", "\t\"io\"\n)\n\nfunc NewPingResp() *PingResp {\n\treturn &PingResp{fixed: bits(PINGRESP)}\n}\n\ntype PingResp struct {\n\tfixed bits\n}\n\nfunc (p *PingResp) String() string {\n\treturn headerString(p.fixed, p.width())\n}\n\nfunc (p *PingResp) WriteTo(w io.Writer) (int64, error) {\n\treturn writeHeaderOnly(w, p.fixed)\n}\n\nfunc (p *PingResp) width() int {\n\treturn p.fill(_LEN, 0)\n}\n\nfunc (p *PingResp) fill(b []byte, i int) int {\n\treturn fillHeaderOnly(b, i, p.fixed)"}, {"undefined.go", "\treturn fmt.Sprintf(\"%s %v bytes\",\n\t\tfirstByte(p.fixed).String(), 0,\n\t)", "\treturn headerString(p.fixed, 0)"}}},
		{Name: "rf7-writeto-through-marshal-helper", Silent: true, Edits: []Edit{{"auth.go", "\tb := make([]byte, p.width())\n\tp.fill(b, 0)\n\tn, err := w.Write(b)\n\treturn int64(n), err", "\treturn writeTo(w, p)"}, {"connack.go", "\t// allocate full size of entire packet\n\tb := make([]byte, p.fill(_LEN, 0))\n\tp.fill(b, 0)\n\tn, err := w.Write(b)\n\treturn int64(n), err", "\treturn writeTo(w, p)"}, {"connect.go", "\t// allocate full size of entire packet\n\tb := make([]byte, p.fill(_LEN, 0))\n\tp.fill(b, 0)\n\n\tn, err := w.Write(b)\n\treturn int64(n), err", "\treturn writeTo(w, p)"}, {"disconnect.go", "\tb := make([]byte, p.width())\n\tp.fill(b, 0)\n\tn, err := w.Write(b)\n\treturn int64(n), err", "\treturn writeTo(w, p)"}, {"packet.go", "\t}\n}\n", "\t}\n}\n\n// filler is implemented by all control packets that can be written\n// in wire format. fill follows the same contract as wireType.fill, a\n// nil buffer only calculates the width.\ntype filler interface {\n\tfill(b []byte, i int) int\n}\n\n// marshal returns the packet in wire format. The buffer is allocated\n// to the full size of the entire packet.\nfunc marshal(p filler) []byte {\n\tb := make([]byte, p.fill(_LEN, 0))\n\tp.fill(b, 0)\n\treturn b\n}\n\n// writeTo writes the packet in wire format to the given writer using\n// one call to Write. Shared by the WriteTo methods of all packets.\nfunc writeTo(w io.Writer, p filler) (int64, error) {\n\tn, err := w.Write(marshal(p))\n\treturn int64(n), err\n}\n"}, {"pingreq.go", "\tb := make([]byte, p.width())\n\tp.fill(b, 0)\n\tn, err := w.Write(b)\n\treturn int64(n), err", "\treturn writeTo(w, p)"}, {"pingresp.go", "\tb := make([]byte, p.width())\n\tp.fill(b, 0)\n\tn, err := w.Write(b)\n\treturn int64(n), err", "\treturn writeTo(w, p)"}, {"puback.go", "\tb := make([]byte, p.fill(_LEN, 0))\n\tp.fill(b, 0)\n\tn, err := w.Write(b)\n\treturn int64(n), err", "\treturn writeTo(w, p)"}, {"pubcomp.go", "\tb := make([]byte, p.fill(_LEN, 0))\n\tp.fill(b, 0)\n\tn, err := w.Write(b)\n\treturn int64(n), err", "\treturn writeTo(w, p)"}, {"publish.go", "\tb := make([]byte, p.fill(_LEN, 0))\n\tp.fill(b, 0)\n\tn, err := w.Write(b)\n\treturn int64(n), err", "\treturn writeTo(w, p)"}, {"pubrec.go", "\tb := make([]byte, p.fill(_LEN, 0))\n\tp.fill(b, 0)\n\tn, err := w.Write(b)\n\treturn int64(n), err", "\treturn writeTo(w, p)"}, {"pubrel.go", "\tb := make([]byte, p.fill(_LEN, 0))\n\tp.fill(b, 0)\n\tn, err := w.Write(b)\n\treturn int64(n), err", "\treturn writeTo(w, p)"}, {"suback.go", "\tb := make([]byte, p.width())\n\tp.fill(b, 0)\n\tn, err := w.Write(b)\n\treturn int64(n), err", "\treturn writeTo(w, p)"}, {"subscribe.go", "\tb := make([]byte, p.width())\n\tp.fill(b, 0)\n\tn, err := w.Write(b)\n\treturn int64(n), err", "\treturn writeTo(w, p)"}, {"unsuback.go", "\tb := make([]byte, p.width())\n\tp.fill(b, 0)\n\tn, err := w.Write(b)\n\treturn int64(n), err", "\treturn writeTo(w, p)"}, {"unsubscribe.go", "\tb := make([]byte, p.width())\n\tp.fill(b, 0)\n\tn, err := w.Write(b)\n\treturn int64(n), err", "\treturn writeTo(w, p)"}}},
		{Name: "encoder-repairs-reserved-flag-bits", Rule: "R16.1", Where: "type code 0x60", Edits: []Edit{{"pubrel.go", "\ti += p.fixed.fill(b, i)      // firstByte header", "\tfixed := p.fixed\n\tif !fixed.Has(QoS1) {\n\t\t// bits 3,2,1 and 0 of the fixed header are reserved and must\n\t\t// be 0,0,1,0 [MQTT-3.6.1-1]\n\t\tfixed = bits(PUBREL | QoS1)\n\t}\n\ti += fixed.fill(b, i)        // firstByte header"}}},
		{Name: "fixed-header-written-by-a-helper-struct", Silent: true, Edits: []Edit{{"auth.go", "\ti += p.fixed.fill(b, i)      // firstByte header\n\ti += remainingLen.fill(b, i) // remaining length", "\ti += fixedHeader{p.fixed, remainingLen}.fill(b, i)"}, {"disconnect.go", "\ti += p.fixed.fill(b, i)      // firstByte header\n\ti += remainingLen.fill(b, i) // remaining length", "\ti += fixedHeader{p.fixed, remainingLen}.fill(b, i)"}, {"packet.go", "\treturn n + m, err\n}\n", "\treturn n + m, err\n}\n\n// fill writes the first byte and the remaining length at position\n// i. Returns the number of bytes that make up the fixed header.\nfunc (f fixedHeader) fill(b []byte, i int) int {\n\tn := i\n\ti += f.fixed.fill(b, i)        // firstByte header\n\ti += f.remainingLen.fill(b, i) // remaining length\n\treturn i - n\n}\n"}, {"pingreq.go", "\ti += p.fixed.fill(b, i)  // firstByte header\n\ti += vbint(0).fill(b, i) // remaining length none", "\ti += fixedHeader{p.fixed, 0}.fill(b, i) // remaining length none"}, {"pingresp.go", "\ti += p.fixed.fill(b, i)  // firstByte header\n\ti += vbint(0).fill(b, i) // remaining length none", "\ti += fixedHeader{p.fixed, 0}.fill(b, i) // remaining length none"}, {"puback.go", "\ti += p.fixed.fill(b, i)      // firstByte header\n\ti += remainingLen.fill(b, i) // remaining length", "\ti += fixedHeader{p.fixed, remainingLen}.fill(b, i)"}, {"pubcomp.go", "\ti += p.fixed.fill(b, i)      // firstByte header\n\ti += remainingLen.fill(b, i) // remaining length", "\ti += fixedHeader{p.fixed, remainingLen}.fill(b, i)"}, {"pubrec.go", "\ti += p.fixed.fill(b, i)      // firstByte header\n\ti += remainingLen.fill(b, i) // remaining length", "\ti += fixedHeader{p.fixed, remainingLen}.fill(b, i)"}, {"pubrel.go", "\ti += p.fixed.fill(b, i)      // firstByte header\n\ti += remainingLen.fill(b, i) // remaining length", "\ti += fixedHeader{p.fixed, remainingLen}.fill(b, i)"}, {"suback.go", "\ti += p.fixed.fill(b, i)      // firstByte header\n\ti += remainingLen.fill(b, i) // remaining length", "\ti += fixedHeader{p.fixed, remainingLen}.fill(b, i)"}, {"subscribe.go", "\ti += p.fixed.fill(b, i)      // firstByte header\n\ti += remainingLen.fill(b, i) // remaining length", "\ti += fixedHeader{p.fixed, remainingLen}.fill(b, i)"}, {"unsuback.go", "\ti += p.fixed.fill(b, i)      // firstByte header\n\ti += remainingLen.fill(b, i) // remaining length", "\ti += fixedHeader{p.fixed, remainingLen}.fill(b, i)"}, {"unsubscribe.go", "\ti += p.fixed.fill(b, i)      // firstByte header\n\ti += remainingLen.fill(b, i) // remaining length", "\ti += fixedHeader{p.fixed, remainingLen}.fill(b, i)"}}},
		{Name: "header-helper-sets-a-flag-bit-in-the-first-byte", Rule: "R16.1", Where: "type code", Edits: []Edit{{"auth.go", "\ti += p.fixed.fill(b, i)      // firstByte header\n\ti += remainingLen.fill(b, i) // remaining length", "\ti += fixedHeader{p.fixed, remainingLen}.fill(b, i)"}, {"disconnect.go", "\ti += p.fixed.fill(b, i)      // firstByte header\n\ti += remainingLen.fill(b, i) // remaining length", "\ti += fixedHeader{p.fixed, remainingLen}.fill(b, i)"}, {"packet.go", "\treturn n + m, err\n}\n", "\treturn n + m, err\n}\n\n// fill writes the first byte and the remaining length at position\n// i. Returns the number of bytes that make up the fixed header.\nfunc (f fixedHeader) fill(b []byte, i int) int {\n\tn := i\n\ti += (f.fixed | 1).fill(b, i)        // firstByte header\n\ti += f.remainingLen.fill(b, i) // remaining length\n\treturn i - n\n}\n"}, {"pingreq.go", "\ti += p.fixed.fill(b, i)  // firstByte header\n\ti += vbint(0).fill(b, i) // remaining length none", "\ti += fixedHeader{p.fixed, 0}.fill(b, i) // remaining length none"}, {"pingresp.go", "\ti += p.fixed.fill(b, i)  // firstByte header\n\ti += vbint(0).fill(b, i) // remaining length none", "\ti += fixedHeader{p.fixed, 0}.fill(b, i) // remaining length none"}, {"puback.go", "\ti += p.fixed.fill(b, i)      // firstByte header\n\ti += remainingLen.fill(b, i) // remaining length", "\ti += fixedHeader{p.fixed, remainingLen}.fill(b, i)"}, {"pubcomp.go", "\ti += p.fixed.fill(b, i)      // firstByte header\n\ti += remainingLen.fill(b, i) // remaining length", "\ti += fixedHeader{p.fixed, remainingLen}.fill(b, i)"}, {"pubrec.go", "\ti += p.fixed.fill(b, i)      // firstByte header\n\ti += remainingLen.fill(b, i) // remaining length", "\ti += fixedHeader{p.fixed, remainingLen}.fill(b, i)"}, {"pubrel.go", "\ti += p.fixed.fill(b, i)      // firstByte header\n\ti += remainingLen.fill(b, i) // remaining length", "\ti += fixedHeader{p.fixed, remainingLen}.fill(b, i)"}, {"suback.go", "\ti += p.fixed.fill(b, i)      // firstByte header\n\ti += remainingLen.fill(b, i) // remaining length", "\ti += fixedHeader{p.fixed, remainingLen}.fill(b, i)"}, {"subscribe.go", "\ti += p.fixed.fill(b, i)      // firstByte header\n\ti += remainingLen.fill(b, i) // remaining length", "\ti += fixedHeader{p.fixed, remainingLen}.fill(b, i)"}, {"unsuback.go", "\ti += p.fixed.fill(b, i)      // firstByte header\n\ti += remainingLen.fill(b, i) // remaining length", "\ti += fixedHeader{p.fixed, remainingLen}.fill(b, i)"}, {"unsubscribe.go", "\ti += p.fixed.fill(b, i)      // firstByte header\n\ti += remainingLen.fill(b, i) // remaining length", "\ti += fixedHeader{p.fixed, remainingLen}.fill(b, i)"}}},
		{Name: "undefined-copies-through-the-raw-data-decoder", Silent: true, Edits: []Edit{{"undefined.go", "\treturn fmt.Sprintf(\"%s %v bytes\",\n\t\tfirstByte(p.fixed).String(), 0,\n\t)\n}\n\nfunc (p *Undefined) Data() []byte { return p.data }\n\nfunc (p *Undefined) WriteTo(w io.Writer) (int64, error) {\n\treturn 0, fmt.Errorf(\"cannot write %T\", p)\n}\n\nfunc (p *Undefined) UnmarshalBinary(data []byte) error {\n\tp.data = make([]byte, len(data))\n\tcopy(p.data, data)", "\t// the size is never known, a constant 0 is shown\n\treturn firstByte(p.fixed).String() + \" 0 bytes\"\n}\n\nfunc (p *Undefined) Data() []byte { return p.data }\n\nfunc (p *Undefined) WriteTo(w io.Writer) (int64, error) {\n\treturn 0, fmt.Errorf(\"cannot write %T\", p)\n}\n\n// UnmarshalBinary keeps a private copy of the given data, see Data.\nfunc (p *Undefined) UnmarshalBinary(data []byte) error {\n\t// rawdata already knows how to copy everything it's given\n\tvar frame rawdata\n\tif err := frame.UnmarshalBinary(data); err != nil {\n\t\treturn err\n\t}\n\tp.data = frame"}}},
		{Name: "dispatch-through-a-table-of-constructors", Silent: true, Edits: []Edit{{"packet.go", "// ReadRemaining reads the reamining data and converts to a control\n// packet.\nfunc (f *fixedHeader) ReadRemaining(r io.Reader) (ControlPacket, error) {\n\tvar p ControlPacket\n\tswitch byte(f.fixed) & 0b1111_0000 {\n\n\tcase PUBLISH:\n\t\tp = &Publish{fixed: f.fixed}\n\n\tcase PUBREL:\n\t\tp = &PubRel{fixed: f.fixed}\n\n\tcase PUBCOMP:\n\t\tp = &PubComp{fixed: f.fixed}\n\n\tcase PUBREC:\n\t\tp = &PubRec{fixed: f.fixed}\n\n\tcase PUBACK:\n\t\tp = &PubAck{fixed: f.fixed}\n\n\tcase CONNECT:\n\t\tp = &Connect{fixed: f.fixed}\n\n\tcase CONNACK:\n\t\tp = &ConnAck{fixed: f.fixed}\n\n\tcase SUBSCRIBE:\n\t\tp = &Subscribe{fixed: f.fixed}\n\n\tcase UNSUBSCRIBE:\n\t\tp = &Unsubscribe{fixed: f.fixed}\n\n\tcase SUBACK:\n\t\tp = &SubAck{fixed: f.fixed}\n\n\tcase UNSUBACK:\n\t\tp = &UnsubAck{fixed: f.fixed}\n\n\tcase PINGREQ:\n\t\tp = &PingReq{fixed: f.fixed}\n\n\tcase PINGRESP:\n\t\tp = &PingResp{fixed: f.fixed}\n\n\tcase DISCONNECT:\n\t\tp = &Disconnect{fixed: f.fixed}\n\n\tcase AUTH:\n\t\tp = &Auth{fixed: f.fixed}\n\n\tdefault:\n\t\tp = &Undefined{}\n\t}", "// packetMakers holds one constructor for each control packet type,\n// indexed by the type number, ie. the upper four bits of the first\n// byte. The constructors get the entire first byte so the flags are\n// kept, only the forbidden type 0 yields an Undefined without them.\nvar packetMakers = [16]func(fixed bits) ControlPacket{\n\tUNDEFINED >> 4:   func(bits) ControlPacket { return &Undefined{} },\n\tCONNECT >> 4:     func(fixed bits) ControlPacket { return &Connect{fixed: fixed} },\n\tCONNACK >> 4:     func(fixed bits) ControlPacket { return &ConnAck{fixed: fixed} },\n\tPUBLISH >> 4:     func(fixed bits) ControlPacket { return &Publish{fixed: fixed} },\n\tPUBACK >> 4:      func(fixed bits) ControlPacket { return &PubAck{fixed: fixed} },\n\tPUBREC >> 4:      func(fixed bits) ControlPacket { return &PubRec{fixed: fixed} },\n\tPUBREL >> 4:      func(fixed bits) ControlPacket { return &PubRel{fixed: fixed} },\n\tPUBCOMP >> 4:     func(fixed bits) ControlPacket { return &PubComp{fixed: fixed} },\n\tSUBSCRIBE >> 4:   func(fixed bits) ControlPacket { return &Subscribe{fixed: fixed} },\n\tSUBACK >> 4:      func(fixed bits) ControlPacket { return &SubAck{fixed: fixed} },\n\tUNSUBSCRIBE >> 4: func(fixed bits) ControlPacket { return &Unsubscribe{fixed: fixed} },\n\tUNSUBACK >> 4:    func(fixed bits) ControlPacket { return &UnsubAck{fixed: fixed} },\n\tPINGREQ >> 4:     func(fixed bits) ControlPacket { return &PingReq{fixed: fixed} },\n\tPINGRESP >> 4:    func(fixed bits) ControlPacket { return &PingResp{fixed: fixed} },\n\tDISCONNECT >> 4:  func(fixed bits) ControlPacket { return &Disconnect{fixed: fixed} },\n\tAUTH >> 4:        func(fixed bits) ControlPacket { return &Auth{fixed: fixed} },\n}\n\n// ReadRemaining reads the reamining data and converts to a control\n// packet.\nfunc (f *fixedHeader) ReadRemaining(r io.Reader) (ControlPacket, error) {\n\t// a byte shifted by four is always a valid index, 0..15\n\tp := packetMakers[byte(f.fixed)>>4](f.fixed)"}}},
		{Name: "dispatch-table-maps-suback-to-unsuback", Rule: "R16.1", Where: "type code 0x90", Edits: []Edit{{"packet.go", "// ReadRemaining reads the reamining data and converts to a control\n// packet.\nfunc (f *fixedHeader) ReadRemaining(r io.Reader) (ControlPacket, error) {\n\tvar p ControlPacket\n\tswitch byte(f.fixed) & 0b1111_0000 {\n\n\tcase PUBLISH:\n\t\tp = &Publish{fixed: f.fixed}\n\n\tcase PUBREL:\n\t\tp = &PubRel{fixed: f.fixed}\n\n\tcase PUBCOMP:\n\t\tp = &PubComp{fixed: f.fixed}\n\n\tcase PUBREC:\n\t\tp = &PubRec{fixed: f.fixed}\n\n\tcase PUBACK:\n\t\tp = &PubAck{fixed: f.fixed}\n\n\tcase CONNECT:\n\t\tp = &Connect{fixed: f.fixed}\n\n\tcase CONNACK:\n\t\tp = &ConnAck{fixed: f.fixed}\n\n\tcase SUBSCRIBE:\n\t\tp = &Subscribe{fixed: f.fixed}\n\n\tcase UNSUBSCRIBE:\n\t\tp = &Unsubscribe{fixed: f.fixed}\n\n\tcase SUBACK:\n\t\tp = &SubAck{fixed: f.fixed}\n\n\tcase UNSUBACK:\n\t\tp = &UnsubAck{fixed: f.fixed}\n\n\tcase PINGREQ:\n\t\tp = &PingReq{fixed: f.fixed}\n\n\tcase PINGRESP:\n\t\tp = &PingResp{fixed: f.fixed}\n\n\tcase DISCONNECT:\n\t\tp = &Disconnect{fixed: f.fixed}\n\n\tcase AUTH:\n\t\tp = &Auth{fixed: f.fixed}\n\n\tdefault:\n\t\tp = &Undefined{}\n\t}", "// packetMakers holds one constructor for each control packet type,\n// indexed by the type number, ie. the upper four bits of the first\n// byte. The constructors get the entire first byte so the flags are\n// kept, only the forbidden type 0 yields an Undefined without them.\nvar packetMakers = [16]func(fixed bits) ControlPacket{\n\tUNDEFINED >> 4:   func(bits) ControlPacket { return &Undefined{} },\n\tCONNECT >> 4:     func(fixed bits) ControlPacket { return &Connect{fixed: fixed} },\n\tCONNACK >> 4:     func(fixed bits) ControlPacket { return &ConnAck{fixed: fixed} },\n\tPUBLISH >> 4:     func(fixed bits) ControlPacket { return &Publish{fixed: fixed} },\n\tPUBACK >> 4:      func(fixed bits) ControlPacket { return &PubAck{fixed: fixed} },\n\tPUBREC >> 4:      func(fixed bits) ControlPacket { return &PubRec{fixed: fixed} },\n\tPUBREL >> 4:      func(fixed bits) ControlPacket { return &PubRel{fixed: fixed} },\n\tPUBCOMP >> 4:     func(fixed bits) ControlPacket { return &PubComp{fixed: fixed} },\n\tSUBSCRIBE >> 4:   func(fixed bits) ControlPacket { return &Subscribe{fixed: fixed} },\n\tSUBACK >> 4:      func(fixed bits) ControlPacket { return &UnsubAck{fixed: fixed} },\n\tUNSUBSCRIBE >> 4: func(fixed bits) ControlPacket { return &Unsubscribe{fixed: fixed} },\n\tUNSUBACK >> 4:    func(fixed bits) ControlPacket { return &UnsubAck{fixed: fixed} },\n\tPINGREQ >> 4:     func(fixed bits) ControlPacket { return &PingReq{fixed: fixed} },\n\tPINGRESP >> 4:    func(fixed bits) ControlPacket { return &PingResp{fixed: fixed} },\n\tDISCONNECT >> 4:  func(fixed bits) ControlPacket { return &Disconnect{fixed: fixed} },\n\tAUTH >> 4:        func(fixed bits) ControlPacket { return &Auth{fixed: fixed} },\n}\n\n// ReadRemaining reads the reamining data and converts to a control\n// packet.\nfunc (f *fixedHeader) ReadRemaining(r io.Reader) (ControlPacket, error) {\n\t// a byte shifted by four is always a valid index, 0..15\n\tp := packetMakers[byte(f.fixed)>>4](f.fixed)"}}},
		{Name: "pubrec-pubrel-swapped", Rule: "R16.1", Where: "0x50", Edits: []Edit{
			{"packet.go", "\tcase PUBREL:\n\t\tp = &PubRel{fixed: f.fixed}", "\tcase PUBREL:\n\t\tp = &PubRec{fixed: f.fixed}"},
			{"packet.go", "\tcase PUBREC:\n\t\tp = &PubRec{fixed: f.fixed}", "\tcase PUBREC:\n\t\tp = &PubRel{fixed: f.fixed}"}}},
		{Name: "flags-masked-away", Rule: "R16.1", Where: "0x30", Edits: []Edit{{"packet.go", "p = &Publish{fixed: f.fixed}", "p = &Publish{fixed: f.fixed & 0xF0}"}}},
		{Name: "auth-case-missing", Rule: "R16.1", Where: "0xf0", Edits: []Edit{{"packet.go", "\tcase AUTH:\n\t\tp = &Auth{fixed: f.fixed}\n", ""}}},
		{Name: "dispatch-mask-too-wide", Rule: "R16.1", Where: "0x10", Edits: []Edit{{"packet.go", "switch byte(f.fixed) & 0b1111_0000 {", "switch byte(f.fixed) & 0b1111_1000 {"}}},
		{Name: "constructor-wrong-nibble", Rule: "R16.2", Where: "PubComp", Edits: []Edit{{"pubcomp.go", "return &PubComp{fixed: bits(PUBCOMP)}", "return &PubComp{fixed: bits(PUBREC)}"}}},
		{Name: "retain-reads-dup-bit", Rule: "R16.3", Where: "Retain", Edits: []Edit{{"publish.go", "func (p *Publish) Retain() bool     { return p.fixed.Has(RETAIN) }", "func (p *Publish) Retain() bool     { return p.fixed.Has(DUP) }"}}},
		{Name: "qos-order-changed", Rule: "R16.3", Where: "QoS", Edits: []Edit{{"publish.go", "\tcase p.fixed.Has(QoS3):\n\t\treturn 3 // malformed\n\tcase p.fixed.Has(QoS1):\n\t\treturn 1", "\tcase p.fixed.Has(QoS1):\n\t\treturn 1\n\tcase p.fixed.Has(QoS3):\n\t\treturn 3 // malformed"}}},
		{Name: "undefined-keeps-the-first-256-bytes-only", Rule: "R16.4", Where: "Undefined", Edits: []Edit{{"undefined.go", "\tp.data = make([]byte, len(data))\n\tcopy(p.data, data)\n", "\tp.data = make([]byte, len(data))\n\tcopy(p.data, data)\n\tif len(p.data) > 256 {\n\t\tp.data = p.data[:256]\n\t}\n"}}},
		{Name: "undefined-copies-before-it-allocates", Rule: "R16.4", Where: "Undefined", Edits: []Edit{{"undefined.go", "\tp.data = make([]byte, len(data))\n\tcopy(p.data, data)\n", "\tcopy(p.data, data)\n\tp.data = make([]byte, len(data))\n"}}},
		{Name: "undefined-drops-data", Rule: "R16.4", Where: "Undefined", Edits: []Edit{{"undefined.go", "\tp.data = make([]byte, len(data))\n\tcopy(p.data, data)\n", "\tp.data = make([]byte, len(data))\n"}}},
		{Name: "fill-emits-flags-first", Rule: "R16.1", Where: "0x20", Edits: []Edit{{"connack.go", "\ti += p.fixed.fill(b, i)                          // firstByte header", "\ti += p.flags.fill(b, i)                          // firstByte header"}}},
		{Name: "decoder-resets-packet-to-constructor-defaults", Rule: "R16.6", Where: "(*Subscribe).UnmarshalBinary#keeps-first-byte", Edits: []Edit{{"subscribe.go", "func (p *Subscribe) UnmarshalBinary(data []byte) error {\n", "func (p *Subscribe) UnmarshalBinary(data []byte) error {\n\t*p = *NewSubscribe()\n"}}},
		{Name: "decoder-normalises-reserved-bits", Rule: "R16.6", Where: "(*PubRel).UnmarshalBinary#keeps-first-byte", Edits: []Edit{{"pubrel.go", "func (p *PubRel) UnmarshalBinary(data []byte) error {\n", "func (p *PubRel) UnmarshalBinary(data []byte) error {\n\tp.fixed |= 2\n"}}},
		{Name: "writeto-emits-constant-frame", Rule: "R16.5", Where: "(*PingResp).WriteTo", Edits: []Edit{{"pingresp.go", "\tb := make([]byte, p.width())\n\tp.fill(b, 0)\n\tn, err := w.Write(b)", "\tn, err := w.Write([]byte{PINGRESP, 0})"}}},
		{Name: "empty-frame-shortcut-forgets-auth", Rule: "R16.1", Where: "0xf0", Edits: []Edit{{"packet.go", "\tif f.remainingLen == 0 {\n\t\treturn p, nil\n\t}", "\tif f.remainingLen == 0 && byte(f.fixed)&0xf0 != AUTH {\n\t\treturn p, nil\n\t}"}}},
		{Name: "dispatch-through-constructors-with-header-store", Silent: true, Edits: []Edit{{"packet.go", "\t\tp = &PingReq{fixed: f.fixed}", "\t\tq := NewPingReq()\n\t\tq.fixed = f.fixed\n\t\tp = q"}}},
		{Name: "encoder-normalises-reserved-bits-in-an-encode-only-primitive", Rule: "R16.1", Where: "0x60", Edits: []Edit{
			{"pubrel.go", "\ti += p.fixed.fill(b, i)      // firstByte header", "\ti += firstByte(p.fixed).fill(b, i) // firstByte header"},
			{"wiretypes.go", "// fillOpt fills the bits if > 0", "func (f firstByte) fill(data []byte, i int) int {\n\tv := byte(f)&0xf0 | 2\n\tif len(data) >= i+1 {\n\t\tdata[i] = v\n\t}\n\treturn 1\n}\n\nfunc (f firstByte) width() int { return 1 }\n\n// fillOpt fills the bits if > 0"}}},
		{Name: "first-byte-through-an-identity-encode-only-primitive", Silent: true, Edits: []Edit{
			{"pubrel.go", "\ti += p.fixed.fill(b, i)      // firstByte header", "\ti += firstByte(p.fixed).fill(b, i) // firstByte header"},
			{"wiretypes.go", "// fillOpt fills the bits if > 0", "func (f firstByte) fill(data []byte, i int) int {\n\tif len(data) >= i+1 {\n\t\tdata[i] = byte(f)\n\t}\n\treturn 1\n}\n\nfunc (f firstByte) width() int { return 1 }\n\n// fillOpt fills the bits if > 0"}}},
		{Name: "switch-as-if-chain", Silent: true, Edits: []Edit{{"packet.go", "\tcase PINGREQ:\n\t\tp = &PingReq{fixed: f.fixed}\n\n\tcase PINGRESP:\n\t\tp = &PingResp{fixed: f.fixed}\n", "\tcase PINGRESP:\n\t\tp = &PingResp{fixed: f.fixed}\n\n\tcase PINGREQ:\n\t\tp = &PingReq{fixed: f.fixed}\n"}}},
	}})
}

// MQTT v5.0 §2.1.2: control packet types (value of the upper nibble << 4) and
// the exported Go type that represents each.
var specPacketTypes = map[int64]string{
	0x10: "Connect", 0x20: "ConnAck", 0x30: "Publish", 0x40: "PubAck", 0x50: "PubRec", 0x60: "PubRel", 0x70: "PubComp",
	0x80: "Subscribe", 0x90: "SubAck", 0xA0: "Unsubscribe", 0xB0: "UnsubAck", 0xC0: "PingReq", 0xD0: "PingResp",
	0xE0: "Disconnect", 0xF0: "Auth",
}

// reserved low-nibble bits of the first byte (§2.1.3); PUBLISH carries flags.
var specReservedBits = map[string]int64{"PubRel": 2, "Subscribe": 2, "Unsubscribe": 2}

// firstEmissionField: the receiver field whose value the packet's encoder
// emits first (at the entry offset).
func (p *Prog) firstEmissionField(fill *ssa.Function) (int, bool) {
	v, ok := p.firstEmissionValue(fill, 0)
	if !ok {
		return 0, false
	}
	ld, ok := stripConvs(v).(*ssa.UnOp)
	if !ok || ld.Op != token.MUL {
		return 0, false
	}
	fa, ok := ld.X.(*ssa.FieldAddr)
	if !ok || !isRecvOf(p, fill, fa.X) {
		return 0, false
	}
	return fa.Field, true
}

// firstEmissionCallee: the function that makes fn's emission at the entry offset (through plain helpers).
func (p *Prog) firstEmissionCallee(fn *ssa.Function, depth int) *ssa.Function {
	if depth > 3 {
		return nil
	}
	_, off, ems, _ := emissionsOf(p, fn)
	for _, e := range ems {
		if e.offset != ssa.Value(off) {
			continue
		}
		sc := e.call.Call.StaticCallee()
		if sc == nil {
			return nil
		}
		if sc.Signature.Recv() == nil && sc.Parent() == nil && fillBufIndex(sc) >= 0 {
			if buf, _, _, _ := emissionsOf(p, sc); buf != nil && writesBufferDirectly(sc, buf) {
				return sc
			}
			return p.firstEmissionCallee(sc, depth+1)
		}
		// a method that only composes emissions of its own (`fixedHeader{p.fixed, n}.fill(b, i)`): its first one
		if sc.Signature.Recv() != nil && isFillFamily(sc) && sc.Blocks != nil {
			if buf, _, sems, _ := emissionsOf(p, sc); buf != nil && len(sems) > 0 && !writesBufferDirectly(sc, buf) {
				if rt, _ := types.Unalias(sc.Signature.Recv().Type()).(*types.Named); rt == nil || p.wireKindOf(rt) == "" {
					return p.firstEmissionCallee(sc, depth+1)
				}
			}
		}
		return sc
	}
	return nil
}

// firstEmissionFieldByEvaluation: the field of the packet whose value is the first thing the encoder emits, read
// off the provenance of the first event of the encoder's trace on the bare packet (a value copied into a local
// composite literal on the way keeps its provenance).
func (p *Prog) firstEmissionFieldByEvaluation(tn string, fill *ssa.Function) (int, bool) {
	var spec *stateSpec
	for _, sp := range p.stateSpecs(tn) {
		if sp.name == "none" {
			sp := sp
			spec = &sp
		}
	}
	if spec == nil {
		return 0, false
	}
	st, _ := p.buildStateSpec(tn, *spec, nil, nil)
	if st == nil {
		return 0, false
	}
	// … with every value of the four flag bits in the field the constructor puts the type code in (an encoder
	// that "repairs" reserved bits only shows on a first byte that came from the wire): the first event must be that
	// very byte, from that very field
	hf, code, okH := p.headerField(tn)
	if !okH {
		return 0, false
	}
	field := -1
	for low := int64(0); low < 16; low++ {
		st2 := *st
		st2.Mem = map[string]sv{}
		for k, v := range st.Mem {
			st2.Mem[k] = v
		}
		want := code&0xF0 | low
		st2.Mem[fmt.Sprintf("%s.f%d", st.Recv, hf)] = sv{k: 'i', i: want}
		evs, _, why := p.encoderTrace(&st2, fill)
		if why != "" {
			return 0, false
		}
		found := false
		for _, e := range evs {
			if e.Width == 0 {
				continue
			}
			pre := st.Recv + ".f"
			if !strings.HasPrefix(e.Src, pre) || e.Val.k != 'i' || e.Val.i&0xff != want {
				return 0, false
			}
			k, err := strconv.Atoi(e.Src[len(pre):])
			if err != nil || (field >= 0 && field != k) {
				return 0, false
			}
			field, found = k, true
			break
		}
		if !found {
			return 0, false
		}
	}
	return field, field >= 0
}

// firstEmissionValue: the value (in fn's own terms) whose encoding fn emits at its entry offset.  When that
// emission is delegated to a plain helper of the fill family (fillX(v, b, i)), the helper's first emission is
// followed back to the argument passed for the parameter it emits.
func (p *Prog) firstEmissionValue(fn *ssa.Function, depth int) (ssa.Value, bool) {
	if depth > 3 {
		return nil, false
	}
	_, off, ems, _ := emissionsOf(p, fn)
	for _, e := range ems {
		if e.offset != ssa.Value(off) {
			continue
		}
		if sc := e.call.Call.StaticCallee(); sc != nil && sc.Signature.Recv() == nil && sc.Parent() == nil && fillBufIndex(sc) >= 0 {
			hv, ok := p.firstEmissionValue(sc, depth+1)
			if !ok {
				return nil, false
			}
			prm, ok := stripConvs(hv).(*ssa.Parameter)
			if !ok {
				return nil, false
			}
			for k, q := range sc.Params {
				if q == prm && k < len(e.call.Call.Args) {
					return e.call.Call.Args[k], true
				}
			}
			return nil, false
		}
		recvArg := e.call.Call.Args[0]
		if e.call.Call.IsInvoke() {
			recvArg = e.call.Call.Value
		}
		return recvArg, true
	}
	return nil, false
}

func checkC16(p *Prog, c *Check) {
	c.Rule("R16.1", "ReadPacket, evaluated on each of the 256 first bytes followed by every property-less body the specification allows for the selected type (remaining length 0 included where the type allows it), returns without error a packet of the Go type the specification assigns to the upper nibble (type 0: Undefined) whose first-emitted field holds the byte received")
	c.Rule("R16.2", "each constructor stores its type's code in the upper nibble of that field, with the reserved bits of the specification in the lower nibble")
	c.Rule("R16.3", "Publish.Duplicate, QoS and Retain, as functions of that byte, are bit 3, bits 2–1 and bit 0 — on all 256 values")
	c.Rule("R16.6", "the body decoder (UnmarshalBinary) of every dispatched type never writes the field holding the first byte, nor the packet as a whole: what the dispatch stored is what the packet carries")
	c.Rule("R16.5", "each type's WriteTo goes through that encoder (shape rule of C10 R10.1), so the first byte written is the first byte carried")
	c.Rule("R16.4", "Undefined.UnmarshalBinary puts a copy of its argument where Data() reads")
	c.Explanation = "The dispatch is a finite function of the first byte: ReadPacket's SSA form (header reader, dispatch, zero-length handling, body decoder with the wire primitives replaced by their contracts) is evaluated abstractly on all 256 first bytes with specification-derived bodies and the result compared with the type table of MQTT v5.0 §2.1.2 carried by the checker (keyed by exported type names). The flag accessors are decision functions of one byte and are evaluated on all 256 values."
	c.Trusted = []string{"go/types + go/ssa (x/tools v0.29.0) faithful IR", "the type-code table transcribed from MQTT v5.0 §2.1.2/§2.1.3"}
	c.NotDecided = []string{"that decoding of the body succeeds for the bodies in the property's quantifier (C03)"}
	rp, msg := p.readPacketAnchor()
	if rp == nil {
		c.Bad("anchor", "ReadPacket", "-", msg)
		return
	}
	// ---- R16.1: ReadPacket evaluated on all 256 first bytes
	var codes []int64
	for k := range specPacketTypes {
		codes = append(codes, k)
	}
	sort.Slice(codes, func(i, j int) bool { return codes[i] < codes[j] })
	c.Fn(qname(rp))
	base := map[string]sv{}
	specPairMem(base)
	nEval := 0
	for code := int64(0); code < 256; code += 16 {
		tn, inSpec := specPacketTypes[code]
		if !inSpec {
			tn = "Undefined"
		}
		cons := fmt.Sprintf("type code %#02x", code)
		um := p.Method(tn, "UnmarshalBinary")
		if um == nil {
			c.Bad("R16.1", cons, "-", "no type "+tn+" with an UnmarshalBinary method")
			continue
		}
		pos := p.Pos(rp.Pos())
		hf, _, okH := p.headerField(tn)
		if inSpec {
			fill := p.Method(tn, "fill")
			ef, okE := 0, false
			if fill != nil {
				ef, okE = p.firstEmissionField(fill)
				if !okE {
					ef, okE = p.firstEmissionFieldByEvaluation(tn, fill)
				}
			}
			if !okE || !okH {
				c.Unk("R16.1", cons, pos, "cannot determine which field "+tn+"'s encoder emits first / its constructor puts the type code in")
				continue
			}
			if hf != ef {
				c.Bad("R16.1", cons, pos, tn+"'s encoder emits a field first that is not the one its constructor puts the type code in")
				continue
			}
			// … and the primitive making that first emission writes the byte it is given, unchanged
			if w := p.firstEmissionCallee(fill, 0); w == nil {
				c.Unk("R16.1", cons, pos, "cannot identify the function that writes "+tn+"'s first byte")
				continue
			} else if buf, _, _, _ := emissionsOf(p, w); buf == nil {
				c.Unk("R16.1", cons, pos, qname(w)+", which writes "+tn+"'s first byte, has no recognisable buffer parameter")
				continue
			} else if n, bad := p.primitiveWritesReceiver(w, buf); bad != "" || n != 1 {
				if bad == "" {
					bad = fmt.Sprintf("%d writes into the buffer instead of one", n)
				}
				c.Bad("R16.1", cons, pos, "the first byte of a "+tn+" is written by "+qname(w)+", which does not write the byte the packet carries: "+bad)
				continue
			}
		}
		// bodies: every frame without properties the specification allows for the type (this includes the
		// frames of remaining length 0 where the type allows one)
		type body struct {
			name string
			toks []wireToken
			qos  int64
		}
		var bodies []body
		if !inSpec {
			bodies = []body{{"remaining length 0", nil, -1}, {"5 arbitrary bytes", []wireToken{{"raw", 5, sv{k: 's', i: 5, addr: "spec:payload"}, "bytes"}}, -1}}
		} else {
			for _, f := range p.specFrames(tn) {
				if !strings.Contains(f.name, "no properties") && !strings.Contains(f.name, "remaining length") {
					continue
				}
				if strings.Contains(f.name, "reason code") {
					continue // C03's enumeration of reason codes: not needed to decide the dispatch
				}
				q := int64(-1)
				if k := strings.Index(f.name, "QoS "); k >= 0 {
					fmt.Sscanf(f.name[k+4:], "%d", &q)
				}
				bodies = append(bodies, body{f.name, f.toks, q})
			}
		}
		bad, unk := "", ""
		n := 0
		try := func(b int64, bd body) (string, string) {
			var total int64
			for _, t := range bd.toks {
				total += t.Width
			}
			toks := bd.toks
			if !inSpec {
				toks = nil // Undefined keeps the body as it is; nothing is decoded through wire primitives
			}
			r := p.decoderReplay(tn, sv{k: 'i', i: b}, toks, total, base)
			n++
			where := fmt.Sprintf("first byte %#02x, body \"%s\": ", b, bd.name)
			switch {
			case r.Why != "":
				return "", where + "cannot evaluate ReadPacket: " + r.Why
			case r.Mismatch != "":
				return where + r.Mismatch, ""
			case r.Err.k != 'z':
				return where + fmt.Sprintf("ReadPacket reports an error (after %d of %d items)", r.Consumed, len(toks)), ""
			case r.Consumed != len(toks):
				return where + fmt.Sprintf("the decoder stops after %d of %d items", r.Consumed, len(toks)), ""
			case inSpec:
				if v, ok := r.Mem[fmt.Sprintf("%s.f%d", r.Recv, hf)]; !ok || v.k != 'i' || v.i&0xff != b {
					return where + fmt.Sprintf("the returned %s carries first byte %v: the byte received is not the byte the packet writes again", tn, v), ""
				}
			}
			return "", ""
		}
		for low := int64(0); low < 16 && bad == "" && unk == ""; low++ {
			b := code | low
			q := (b >> 1) & 3
			// QoS 3 is malformed but a first byte all the same: the body may or may not carry a packet identifier
			// (either reading is accepted, tried in this order)
			alts := []int64{q}
			if q == 3 {
				alts = []int64{0, 1}
			}
			for ai, aq := range alts {
				b1, u1 := "", ""
				for _, bd := range bodies {
					if bd.qos >= 0 && bd.qos != aq {
						continue
					}
					if b1, u1 = try(b, bd); b1 != "" || u1 != "" {
						break
					}
				}
				if b1 == "" && u1 == "" {
					bad, unk = "", ""
					break
				}
				if ai == 0 {
					bad, unk = b1, u1
				}
			}
		}
		nEval += n
		switch {
		case unk != "":
			c.Unk("R16.1", cons, pos, unk)
		case bad != "":
			c.Bad("R16.1", cons, pos, bad)
		case n < 16:
			c.Unk("R16.1", cons, pos, "no valid body available for some first bytes of this type")
		default:
			c.OK("R16.1", cons, pos, fmt.Sprintf("→ %s on all 16 first bytes × %d bodies (%d evaluations of ReadPacket); the byte received is in the field the encoder emits first", tn, len(bodies), n))
		}
	}
	c.Measured["readpacket_evaluations"] = nEval
	c.Floor("dispatch evaluations", nEval, 256, "256 first bytes")

	// ---- R16.5: WriteTo of every dispatched type uses the encoder examined above
	for _, k := range codes {
		tn := specPacketTypes[k]
		wt := p.Method(tn, "WriteTo")
		fill := p.Method(tn, "fill")
		cons := "(*" + tn + ").WriteTo"
		if wt == nil || fill == nil {
			c.Bad("R16.5", cons, "-", "WriteTo or the encoder is missing")
			continue
		}
		sc := NewCheck("C16", p)
		used, _ := checkWriteTo(p, sc, wt)
		if bad := sc.Failing(); len(bad) > 0 {
			c.Bad("R16.5", cons, p.Pos(wt.Pos()), "WriteTo does not hand the writer exactly what the encoder produces: "+bad[0].Detail)
		} else if used != fill {
			c.Bad("R16.5", cons, p.Pos(wt.Pos()), "WriteTo does not use the type's encoder")
		} else {
			c.OK("R16.5", cons, p.Pos(wt.Pos()), "one Write of the buffer filled by "+qname(fill))
		}
	}

	// ---- R16.6: nothing on the decode path writes the carried first byte again
	for _, k := range codes {
		tn := specPacketTypes[k]
		dec := p.Method(tn, "UnmarshalBinary")
		hf, _, okH := p.headerField(tn)
		cons := "(*" + tn + ").UnmarshalBinary#keeps-first-byte"
		obj := p.Pkg.Scope().Lookup(tn)
		if dec == nil || !okH || obj == nil {
			c.Unk("R16.6", cons, "-", "decoder or header field not found")
			continue
		}
		T := obj.Type()
		bad := ""
		nfn := 0
		for _, fn := range sortedFuncs(p.Reach([]*ssa.Function{dec})) {
			nfn++
			for _, b := range fn.Blocks {
				for _, ins := range b.Instrs {
					st, ok := ins.(*ssa.Store)
					if !ok {
						continue
					}
					if fa, ok := st.Addr.(*ssa.FieldAddr); ok && fa.Field == hf {
						if pt, ok := fa.X.Type().Underlying().(*types.Pointer); ok && types.Identical(pt.Elem(), T) {
							bad = fmt.Sprintf("%s stores to the field holding the first byte at %s: the flags the dispatch stored are lost", qname(fn), posOf(p, ins))
						}
					}
					if types.Identical(st.Val.Type(), T) {
						bad = fmt.Sprintf("%s overwrites a whole %s at %s: the first byte the dispatch stored is lost", qname(fn), tn, posOf(p, ins))
					}
				}
			}
		}
		if bad != "" {
			c.Bad("R16.6", cons, p.Pos(dec.Pos()), bad)
		} else {
			c.OK("R16.6", cons, p.Pos(dec.Pos()), fmt.Sprintf("no store to the header field or to a whole %s in the %d functions reachable from the decoder", tn, nfn))
		}
	}

	// ---- R16.2 constructors
	var names []string
	for _, n := range specPacketTypes {
		names = append(names, n)
	}
	sort.Strings(names)
	codeOf := map[string]int64{}
	for k, n := range specPacketTypes {
		codeOf[n] = k
	}
	for _, n := range names {
		cons := "New" + n
		_, code, ok := p.headerField(n)
		want := codeOf[n] | specReservedBits[n]
		switch {
		case !ok:
			c.Unk("R16.2", cons, "-", "no constructor of "+n+" that stores a type code")
		case code != want:
			c.Bad("R16.2", cons, "-", fmt.Sprintf("constructor stores first byte %#02x, the specification requires %#02x", code, want))
		default:
			c.OK("R16.2", cons, "-", fmt.Sprintf("first byte %#02x", code))
		}
	}

	// ---- R16.3 Publish flag accessors on all 256 values
	hf, _, okH := p.headerField("Publish")
	type acc struct {
		name string
		want func(b int64) sv
	}
	accs := []acc{
		{"Duplicate", func(b int64) sv { return sv{k: 'b', b: b&8 != 0} }},
		{"Retain", func(b int64) sv { return sv{k: 'b', b: b&1 != 0} }},
		{"QoS", func(b int64) sv { return sv{k: 'i', i: (b >> 1) & 3} }},
	}
	for _, a := range accs {
		cons := "(*Publish)." + a.name
		fn := p.Method("Publish", a.name)
		if fn == nil || !okH {
			c.Bad("anchor", cons, "-", "accessor or header field not found")
			continue
		}
		c.Fn(qname(fn))
		bad := ""
		for v := int64(0); v < 256; v++ {
			as := symAssign{fpath(0, hf): sv{k: 'i', i: v}}
			ctx := p.newSym(as.input(defaultInput))
			rs, ok := ctx.evalPure(fn, []sv{{k: 'p', addr: "P0"}}, nil, 0)
			if !ok {
				bad = "cannot evaluate: " + ctx.why
				break
			}
			w := a.want(v)
			if rs[0].k != w.k || rs[0].i != w.i || rs[0].b != w.b {
				bad = fmt.Sprintf("first byte %#02x: %s() = %v, the specification says %v", v, a.name, rs[0], w)
				break
			}
			for k := range ctx.seen {
				if k != fpath(0, hf) {
					bad = a.name + "() depends on " + k + ", not only on the first byte"
				}
			}
		}
		if bad != "" {
			c.Bad("R16.3", cons, p.Pos(fn.Pos()), bad)
		} else {
			c.OK("R16.3", cons, p.Pos(fn.Pos()), "agrees with the specification's bit layout on all 256 first bytes")
		}
	}

	// ---- R16.4
	{
		cons := "Undefined"
		df, ok := p.accessorField("Undefined", "Data")
		um := p.Method("Undefined", "UnmarshalBinary")
		if !ok || um == nil {
			c.Unk("R16.4", cons, "-", "Data()/UnmarshalBinary of Undefined not found")
		} else {
			c.Fn(qname(um))
			upr := NewProver(p, um)
			var data *ssa.Parameter
			for _, prm := range um.Params[1:] {
				if isByteSlice(prm.Type()) {
					data = prm
				}
			}
			stored, copied := false, false
			other := ""
			var storeIns, copyIns ssa.Instruction
			for _, b := range um.Blocks {
				for _, ins := range b.Instrs {
					switch x := ins.(type) {
					case *ssa.Store:
						if fa, ok := x.Addr.(*ssa.FieldAddr); ok && fa.Field == df && fa.X == ssa.Value(um.Params[0]) {
							good := false
							if ms, ok := x.Val.(*ssa.MakeSlice); ok && data != nil && upr.lin(ms.Len).equal(upr.lenOf(data)) {
								stored = true
								good = true
								storeIns = x
							}
							if ap, ok := x.Val.(*ssa.Call); ok {
								if bi, ok := ap.Call.Value.(*ssa.Builtin); ok && bi.Name() == "append" && len(ap.Call.Args) == 2 && ap.Call.Args[1] == ssa.Value(data) && upr.lenOf(ap.Call.Args[0]).isConst() {
									good = true
								}
							}
							// … or what a decoder of the library, handed the argument, has put into a local of this
							// function — when that decoder itself allocates len(data) bytes and copies the argument
							if !good && data != nil {
								if al := loadedLocal(x.Val); al != nil {
									if dec := soleWriterDecoder(p, um, al, data); dec != nil && freshCopyOfArg(p, dec) {
										good, stored, copied = true, true, true
									}
								}
							}
							if !good && other == "" {
								other = "the field Data() returns is also stored with " + describeVal(x.Val) + " at " + posOf(p, x) + ": what Data() returns is then not the frame's body as it arrived (cut, replaced or re-sliced)"
							}
							if ap, ok := x.Val.(*ssa.Call); ok {
								if bi, ok := ap.Call.Value.(*ssa.Builtin); ok && bi.Name() == "append" && len(ap.Call.Args) == 2 && ap.Call.Args[1] == ssa.Value(data) {
									if upr.lenOf(ap.Call.Args[0]).isConst() {
										stored, copied = true, true
									}
								}
							}
						}
					case *ssa.Call:
						if bi, ok := x.Call.Value.(*ssa.Builtin); ok && bi.Name() == "copy" && data != nil && x.Call.Args[1] == ssa.Value(data) {
							dst := x.Call.Args[0]
							if ld, ok := dst.(*ssa.UnOp); ok {
								if fa, ok := ld.X.(*ssa.FieldAddr); ok && fa.Field == df {
									copied = true
									copyIns = x
								}
							}
							if _, ok := dst.(*ssa.MakeSlice); ok {
								copied = true
							}
						}
					}
				}
			}
			if other == "" && storeIns != nil && copyIns != nil {
				// the copy fills the slice that was just stored, not an earlier one
				sb, cb := storeIns.Block(), copyIns.Block()
				if !(sb.Dominates(cb) && (sb != cb || instrIndex(storeIns) < instrIndex(copyIns))) {
					other = "the copy at " + posOf(p, copyIns) + " is made before the fresh slice is stored at " + posOf(p, storeIns) + ": it fills whatever the field held before"
				}
			}
			// nothing else on the decoder's call tree stores to that field
			if other == "" {
				for fn := range p.Reach([]*ssa.Function{um}) {
					if fn == um || fn.Blocks == nil {
						continue
					}
					for _, b := range fn.Blocks {
						for _, ins := range b.Instrs {
							if st, ok := ins.(*ssa.Store); ok {
								if fa, ok := st.Addr.(*ssa.FieldAddr); ok && fa.Field == df {
									if pt, ok := fa.X.Type().Underlying().(*types.Pointer); ok {
										if nt := namedOf(pt.Elem()); nt != nil && nt.Obj().Name() == "Undefined" && other == "" {
											other = "the field Data() returns is also stored in " + qname(fn) + " at " + posOf(p, st)
										}
									}
								}
							}
						}
					}
				}
			}
			if other != "" {
				c.Bad("R16.4", cons, p.Pos(um.Pos()), other)
			} else if stored && copied {
				c.OK("R16.4", cons, p.Pos(um.Pos()), "a fresh slice of len(data) is stored where Data() reads and filled by copy from the argument")
			} else {
				c.Bad("R16.4", cons, p.Pos(um.Pos()), "the frame's bytes do not end up (copied) in the field Data() returns")
			}
		}
	}
}

// loadedLocal: v is (a type change of) a load of a local variable: that variable.
func loadedLocal(v ssa.Value) *ssa.Alloc {
	for i := 0; i < 4; i++ {
		switch x := v.(type) {
		case *ssa.ChangeType:
			v = x.X
		case *ssa.UnOp:
			if x.Op != token.MUL {
				return nil
			}
			al, _ := x.X.(*ssa.Alloc)
			return al
		default:
			return nil
		}
	}
	return nil
}

// soleWriterDecoder: the only thing fn does with the local al, apart from loading it, is to hand its address as
// the receiver to one UnmarshalBinary of the library together with data: that decoder.
func soleWriterDecoder(p *Prog, fn *ssa.Function, al *ssa.Alloc, data *ssa.Parameter) *ssa.Function {
	var dec *ssa.Function
	if al.Referrers() == nil {
		return nil
	}
	for _, r := range *al.Referrers() {
		switch x := r.(type) {
		case *ssa.DebugRef, *ssa.UnOp:
		case *ssa.Call:
			sc := x.Call.StaticCallee()
			if sc == nil || sc.Name() != "UnmarshalBinary" || !p.inMQ(sc) || len(x.Call.Args) != 2 || x.Call.Args[0] != ssa.Value(al) || x.Call.Args[1] != ssa.Value(data) || dec != nil {
				return nil
			}
			dec = sc
		default:
			return nil
		}
	}
	return dec
}

// freshCopyOfArg: the decoder stores, through its receiver, a fresh slice of len(data) and fills it by copy from
// data — and stores nothing else there.
func freshCopyOfArg(p *Prog, d *ssa.Function) bool {
	if len(d.Params) != 2 || len(d.Blocks) == 0 {
		return false
	}
	pr := NewProver(p, d)
	recv, data := d.Params[0], d.Params[1]
	var st *ssa.Store
	copied := false
	for _, b := range d.Blocks {
		for _, ins := range b.Instrs {
			switch x := ins.(type) {
			case *ssa.Store:
				if x.Addr != ssa.Value(recv) || st != nil {
					return false
				}
				ms, ok := stripConvs(x.Val).(*ssa.MakeSlice)
				if !ok || !pr.lin(ms.Len).equal(pr.lenOf(data)) {
					return false
				}
				st = x
			case *ssa.Call:
				if bi, ok := x.Call.Value.(*ssa.Builtin); ok && bi.Name() == "copy" && x.Call.Args[1] == ssa.Value(data) {
					if ld, ok := stripConvs(x.Call.Args[0]).(*ssa.UnOp); ok && ld.X == ssa.Value(recv) && st != nil && st.Block().Dominates(x.Block()) {
						copied = true
					}
					if ms, ok := stripConvs(x.Call.Args[0]).(*ssa.MakeSlice); ok && st != nil && stripConvs(st.Val) == ssa.Value(ms) {
						copied = true
					}
				}
			}
		}
	}
	return st != nil && copied
}
