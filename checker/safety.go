package main

// E2 obligations: every instruction that can panic, in every function
// reachable from a root set, must be discharged.

import (
	"fmt"
	"go/token"
	"go/types"
	"sort"
	"strings"

	"golang.org/x/tools/go/ssa"
)

type safetyCfg struct {
	useInv   bool // dereferences behind a flag test may rest on a representation invariant
	invRule  string
	rule     string
	roots    []*ssa.Function
	eff      *Effects // specialisation context (dead blocks), may be nil
	scopeTag string
}

type safetyStats struct {
	funcs, obligations int
	byKind             map[string]int
}

// paramsAssumedNonNil: inside unexported functions, closures and synthetic
// wrappers every pointer/interface/func parameter is assumed non-nil; the
// matching obligation is generated at every call site.  Exported functions
// get only K0 (receiver).
func assumedNonNilParams(fn *ssa.Function) []bool {
	out := make([]bool, len(fn.Params))
	exported := fn.Parent() == nil && fn.Object() != nil && fn.Object().Exported() && fn.Synthetic == ""
	for i, prm := range fn.Params {
		switch prm.Type().Underlying().(type) {
		case *types.Pointer, *types.Interface, *types.Signature:
		default:
			continue
		}
		if i == 0 && fn.Signature.Recv() != nil {
			out[i] = true
			continue
		}
		if !exported {
			out[i] = true
		}
	}
	return out
}

func isStrongNonNil(pr *Prover, v ssa.Value, b *ssa.BasicBlock) bool {
	// an interface is "strongly" non-nil when it is a non-nil interface whose
	// payload, if a pointer, is non-nil too
	if types.IsInterface(v.Type()) {
		switch x := v.(type) {
		case *ssa.MakeInterface:
			if _, ok := x.X.Type().Underlying().(*types.Pointer); ok {
				return pr.NonNil(x.X, b, 0)
			}
			return true
		case *ssa.Phi:
			for _, e := range x.Edges {
				if !isStrongNonNil(pr, e, b) {
					return false
				}
			}
			return len(x.Edges) > 0
		case *ssa.ChangeInterface:
			return isStrongNonNil(pr, x.X, b)
		case *ssa.UnOp:
			// a field of a local struct copied out of a table built by a composite literal
			if pr.p.aggFieldStrongNonNil(x) {
				return true
			}
			// a captured interface variable that only ever holds usable values
			if fv, ok := x.X.(*ssa.FreeVar); ok && x.Op == token.MUL && pr.p.freeCellNonNil(fv) {
				return true
			}
		case *ssa.Parameter:
			return pr.nnAssume[pr.key(v)]
		case *ssa.Call:
			return pr.callNonNil(x) || pr.NonNil(x, b, 0) && pr.strongWhenNonNil(x)
		case *ssa.Extract:
			if call, ok := x.Tuple.(*ssa.Call); ok {
				return pr.callNonNilIdx(call, x.Index) || pr.NonNil(x, b, 0) && pr.strongWhenNonNil(x)
			}
			if ta, ok := x.Tuple.(*ssa.TypeAssert); ok && x.Index == 0 {
				// v, ok := y.(T) on the ok edge: as strong as y
				for _, dc := range domConds(b) {
					if ex, isEx := dc.cond.(*ssa.Extract); isEx && ex.Tuple == x.Tuple && ex.Index == 1 && dc.truth {
						if pr.payloadNN[pr.key(ta.X)] {
							return true // ok ⇒ interface non-nil ⇒ payload non-nil (K0)
						}
						return isStrongNonNil(pr, ta.X, b)
					}
				}
			}
		}
		return false
	}
	return pr.NonNil(v, b, 0)
}

func (p *Prog) paramNeeds() map[*ssa.Function]map[int]bool {
	if v, ok := p.cache["needs"]; ok {
		return v.(map[*ssa.Function]map[int]bool)
	}
	return nil
}

// closedCallSites: every call site of fn is inside package mq (closure,
// synthetic wrapper, unexported function or method).
func closedCallSites(fn *ssa.Function) bool {
	if fn.Parent() != nil || fn.Synthetic != "" {
		return true
	}
	return fn.Object() != nil && !fn.Object().Exported()
}

// paramSubject: if the nil-ness of v is the nil-ness of a parameter of fn,
// return its index.
func paramSubject(fn *ssa.Function, v ssa.Value) int {
	for i := 0; i < 8; i++ {
		switch x := v.(type) {
		case *ssa.Parameter:
			return paramIndex(fn, x)
		case *ssa.ChangeInterface:
			v = x.X
		case *ssa.MakeInterface:
			// a pointer parameter handed on as an interface: the interface is usable iff the pointer is non-nil
			if _, ok := x.X.Type().Underlying().(*types.Pointer); !ok {
				return -1
			}
			v = x.X
		case *ssa.ChangeType:
			v = x.X
		case *ssa.TypeAssert:
			v = x.X
		case *ssa.Extract:
			ta, ok := x.Tuple.(*ssa.TypeAssert)
			if !ok || x.Index != 0 {
				return -1
			}
			v = ta.X
		case *ssa.Call:
			if bi, ok := x.Call.Value.(*ssa.Builtin); ok && bi.Name() == "ssa:wrapnilchk" {
				v = x.Call.Args[0]
			} else {
				return -1
			}
		default:
			return -1
		}
	}
	return -1
}

func (p *Prog) newSafetyProver(fn *ssa.Function, cfg safetyCfg, fneeds *fieldNeeds) *Prover {
	pr := NewProver(p, fn)
	pr.assumeContracts()
	for i := range p.paramNeeds()[fn] {
		if i < len(fn.Params) {
			pr.nnAssume[pr.key(fn.Params[i])] = true
		}
	}
	for _, fv := range fn.FreeVars {
		// captured cells and bound receivers are addresses of live variables
		pr.nnAssume[pr.key(fv)] = true
	}
	if fneeds != nil {
		pr.fieldNN = fneeds.assumed[fn]
		pr.guardedNN = fneeds.guarded[fn]
	}
	return pr
}

func (p *Prog) runSafety(c *Check, cfg safetyCfg) *safetyStats {
	stats := &safetyStats{byKind: map[string]int{}}
	reach := p.Reach(cfg.roots)
	fns := sortedFuncs(reach)
	p.cache["specctx"] = cfg.eff
	p.cache["spectag"] = cfg.scopeTag
	needs := map[*ssa.Function]map[int]bool{}
	p.cache["needs"] = needs
	fneeds := newFieldNeeds()
	fneeds.useInv = cfg.useInv
	defer func() { delete(p.cache, "specctx"); delete(p.cache, "spectag"); delete(p.cache, "needs") }()
	// recursion check
	if cyc := p.callCycle(reach); cyc != "" {
		c.Unk(cfg.rule, "call graph", "-", "recursion among analysed functions: "+cyc)
	}
	// phase A: discover which parameters / receiver fields callees rely on
	for round := 0; round < 8; round++ {
		changed := false
		for _, fn := range fns {
			pr := p.newSafetyProver(fn, cfg, fneeds)
			collect := func(kind string, ins ssa.Instruction, ok bool, how string, subj ...ssa.Value) {
				if ok || len(subj) == 0 || !strings.HasPrefix(kind, "nil") {
					return
				}
				if i := paramSubject(fn, subj[0]); i >= 0 && closedCallSites(fn) {
					if needs[fn] == nil {
						needs[fn] = map[int]bool{}
					}
					if !needs[fn][i] {
						needs[fn][i] = true
						changed = true
					}
					return
				}
				if fneeds.note(p, pr, fn, ins, subj[0]) {
					changed = true
				}
			}
			for _, b := range fn.Blocks {
				if pr.Infeasible(b) {
					continue
				}
				for _, ins := range b.Instrs {
					p.safetyInstr(pr, b, ins, collect)
				}
			}
		}
		if fneeds.propagate(p, reach, cfg) {
			changed = true
		}
		if !changed {
			break
		}
	}
	// phase B: record
	for _, fn := range fns {
		c.Fn(qname(fn))
		stats.funcs++
		pr := p.newSafetyProver(fn, cfg, fneeds)
		counters := map[string]int{}
		ob := func(kind string, ins ssa.Instruction, ok bool, how string, subj ...ssa.Value) {
			counters[kind]++
			stats.obligations++
			stats.byKind[kind]++
			cons := fmt.Sprintf("%s#%s%d", qname(fn), kind, counters[kind])
			if ok {
				c.OK(cfg.rule, cons, posOf(p, ins), how)
			} else {
				c.Unk(cfg.rule, cons, posOf(p, ins), how+" — "+strings.TrimSpace(ins.String()))
			}
		}
		for _, b := range fn.Blocks {
			if pr.Infeasible(b) {
				continue
			}
			for _, ins := range b.Instrs {
				p.safetyInstr(pr, b, ins, ob)
			}
		}
	}
	for _, inv := range fneeds.invariants() {
		p.checkFlagInv(c, cfg.invRule, inv)
	}
	fneeds.resolve(p, c, cfg, reach)
	n := 0
	for _, m := range needs {
		n += len(m)
	}
	c.Measured["param_nonnil_contracts_"+cfg.scopeTag] = n
	return stats
}

func (p *Prog) callCycle(reach map[*ssa.Function]bool) string {
	state := map[*ssa.Function]int{}
	var path []string
	var found string
	var visit func(f *ssa.Function)
	visit = func(f *ssa.Function) {
		if found != "" {
			return
		}
		state[f] = 1
		path = append(path, qname(f))
		for _, ci := range p.Calls(f) {
			for _, cal := range ci.Callees {
				if !reach[cal] {
					continue
				}
				switch state[cal] {
				case 0:
					visit(cal)
				case 1:
					if found == "" {
						found = strings.Join(path, " → ") + " → " + qname(cal)
					}
				}
			}
		}
		path = path[:len(path)-1]
		state[f] = 2
	}
	for _, f := range sortedFuncs(reach) {
		if state[f] == 0 {
			visit(f)
		}
	}
	return found
}

func (p *Prog) safetyInstr(pr *Prover, b *ssa.BasicBlock, ins ssa.Instruction, ob func(kind string, ins ssa.Instruction, ok bool, how string, subj ...ssa.Value)) {
	proveRange := func(idx, n Lin) (bool, string) {
		lo := pr.Prove(b, idx)
		hi := pr.Prove(b, n.sub(idx).addConst(-1))
		if lo && hi {
			return true, fmt.Sprintf("0 <= %s < %s", idx, n)
		}
		return false, fmt.Sprintf("cannot prove 0 <= %s < %s (lower %v, upper %v; facts: %s)", idx, n, lo, hi, describeFacts(pr, b))
	}
	derefOK := func(v ssa.Value) (bool, string) {
		if pr.NonNil(v, b, 0) {
			return true, "pointer is non-nil"
		}
		return false, "cannot prove the pointer non-nil"
	}
	switch x := ins.(type) {
	case *ssa.MakeClosure:
		// a method value (`d := p.will.dump`): the receiver is bound now and dereferenced when d is called — K0 must
		// hold for it here, exactly as at a direct call
		if cf, ok := x.Fn.(*ssa.Function); ok && strings.HasPrefix(cf.Synthetic, "bound method wrapper") && len(x.Bindings) == 1 {
			if _, isPtr := x.Bindings[0].Type().Underlying().(*types.Pointer); isPtr {
				switch x.Bindings[0].(type) {
				case *ssa.FieldAddr, *ssa.Alloc, *ssa.IndexAddr, *ssa.Global:
				default:
					okr := pr.NonNil(x.Bindings[0], b, 0)
					how := "receiver bound into the method value is non-nil"
					if !okr {
						how = "cannot prove the receiver bound into the method value non-nil: calling it dereferences a nil pointer"
					}
					ob("nilrecv", ins, okr, how, x.Bindings[0])
				}
			}
		}
	case *ssa.IndexAddr:
		var n Lin
		if pt, ok := x.X.Type().Underlying().(*types.Pointer); ok {
			at := pt.Elem().Underlying().(*types.Array)
			n = linConst(at.Len())
			ok2, how := derefOK(x.X)
			if _, isAlloc := x.X.(*ssa.Alloc); !isAlloc {
				if _, isG := x.X.(*ssa.Global); !isG {
					ob("nilderef", ins, ok2, how, x.X)
				}
			}
		} else {
			n = pr.lenOf(x.X)
		}
		ok, how := proveRange(pr.lin(x.Index), n)
		ob("index", ins, ok, how)
	case *ssa.Index:
		var n Lin
		if at, ok := x.X.Type().Underlying().(*types.Array); ok {
			n = linConst(at.Len())
		} else {
			n = pr.lenOf(x.X)
		}
		ok, how := proveRange(pr.lin(x.Index), n)
		ob("index", ins, ok, how)
	case *ssa.Lookup:
		if _, isMap := x.X.Type().Underlying().(*types.Map); isMap {
			return
		}
		ok, how := proveRange(pr.lin(x.Index), pr.lenOf(x.X))
		ob("index", ins, ok, how)
	case *ssa.Slice:
		var n Lin
		if pt, ok := x.X.Type().Underlying().(*types.Pointer); ok {
			n = linConst(pt.Elem().Underlying().(*types.Array).Len())
			if _, isAlloc := x.X.(*ssa.Alloc); !isAlloc {
				ok2, how := derefOK(x.X)
				ob("nilderef", ins, ok2, how, x.X)
			}
		} else {
			n = pr.lenOf(x.X) // sufficient: len <= cap
		}
		lo, hi := linConst(0), n
		if x.Low != nil {
			lo = pr.lin(x.Low)
		}
		if x.High != nil {
			hi = pr.lin(x.High)
		}
		if x.Low == nil && x.High == nil && x.Max == nil {
			return
		}
		a := pr.Prove(b, lo)
		m := pr.Prove(b, hi.sub(lo))
		h := pr.Prove(b, n.sub(hi))
		if x.Max != nil {
			h = h && pr.Prove(b, pr.lin(x.Max).sub(hi)) && pr.Prove(b, n.sub(pr.lin(x.Max)))
		}
		if a && m && h {
			ob("slice", ins, true, fmt.Sprintf("0 <= %s <= %s <= %s", lo, hi, n))
		} else {
			ob("slice", ins, false, fmt.Sprintf("cannot prove 0 <= %s <= %s <= %s (low>=0 %v, low<=high %v, high<=len %v; facts: %s)", lo, hi, n, a, m, h, describeFacts(pr, b)))
		}
	case *ssa.SliceToArrayPointer:
		ob("slice2array", ins, false, "slice-to-array conversion is not modelled")
	case *ssa.UnOp:
		if x.Op == token.MUL {
			switch x.X.(type) {
			case *ssa.Alloc, *ssa.Global, *ssa.FieldAddr, *ssa.IndexAddr, *ssa.FreeVar:
				return // address computations are checked where they are formed
			}
			ok, how := derefOK(x.X)
			ob("nilderef", ins, ok, how, x.X)
		}
	case *ssa.Store:
		switch x.Addr.(type) {
		case *ssa.Alloc, *ssa.Global, *ssa.FieldAddr, *ssa.IndexAddr, *ssa.FreeVar:
			return
		}
		ok, how := derefOK(x.Addr)
		ob("nilderef", ins, ok, how, x.Addr)
	case *ssa.FieldAddr:
		switch x.X.(type) {
		case *ssa.Alloc, *ssa.Global, *ssa.FieldAddr, *ssa.IndexAddr:
			return
		}
		ok, how := derefOK(x.X)
		ob("nilderef", ins, ok, how, x.X)
	case *ssa.Field:
	case *ssa.TypeAssert:
		if x.CommaOk {
			return
		}
		ok, how := p.assertOK(pr, b, x)
		ob("typeassert", ins, ok, how)
	case *ssa.MakeSlice:
		if bound, _, ok := p.lvbiRange(x.Len); ok && bound.IsInt64() {
			pr.atomRange(pr.key(stripConvs(x.Len)), 0, float64(bound.Int64()))
			pr.linMemo = map[ssa.Value]*Lin{}
		}
		l := pr.lin(x.Len)
		// make([]T, len, cap) panics unless 0 <= len <= cap
		if x.Cap != nil && x.Cap != x.Len {
			cp := pr.lin(x.Cap)
			if !(cp.isConst() && l.isConst() && cp.c >= l.c) {
				okc := pr.Prove(b, cp.sub(l))
				howc := "capacity " + cp.String() + " >= length " + l.String()
				if !okc {
					howc = "cannot prove make capacity " + cp.String() + " >= length " + l.String() + " (facts: " + describeFacts(pr, b) + ")"
				}
				ob("makecap", ins, okc, howc)
			}
		}
		if l.isConst() && l.c >= 0 {
			return
		}
		ok := pr.Prove(b, l)
		how := "size " + l.String() + " >= 0"
		if !ok {
			how = "cannot prove make size " + l.String() + " >= 0 (facts: " + describeFacts(pr, b) + ")"
		} else if lv, ok2 := p.lvbiBound(x.Len); ok2 {
			how += "; " + lv
		}
		ob("makeslice", ins, ok, how)
	case *ssa.MapUpdate:
		ok, how := derefOK(x.Map)
		ob("nilmap", ins, ok, how, x.Map)
	case *ssa.BinOp:
		switch x.Op {
		case token.EQL, token.NEQ:
			// comparing two interface values panics when their dynamic types are identical and not comparable
			// (a struct with a slice field, a slice, a map, a func): safe when one side is nil, or is known to hold a
			// comparable dynamic type (then identical types are comparable)
			if _, isI := x.X.Type().Underlying().(*types.Interface); !isI {
				return
			}
			if _, isI := x.Y.Type().Underlying().(*types.Interface); !isI {
				return
			}
			safe := func(v ssa.Value) bool {
				switch y := v.(type) {
				case *ssa.Const:
					return y.Value == nil
				case *ssa.MakeInterface:
					return types.Comparable(y.X.Type())
				case *ssa.UnOp:
					// a package-level error variable of the standard library (io.EOF, …): a pointer inside
					if g, ok := y.X.(*ssa.Global); ok && y.Op == token.MUL && g.Pkg != nil && g.Pkg.Pkg != p.Pkg {
						return true
					}
				}
				return false
			}
			if safe(x.X) || safe(x.Y) {
				return
			}
			ob("ifacecmp", ins, false, "comparison of two interface values whose dynamic types are not known: it panics if both hold the same uncomparable type")
		case token.QUO, token.REM:
			if _, _, isInt := pr.intTypeRange(x.Type()); !isInt {
				return
			}
			if k, ok := constInt(x.Y); ok && k != 0 {
				return
			}
			d := pr.lin(x.Y)
			ok := pr.Prove(b, d.addConst(-1)) || pr.Prove(b, d.scale(-1).addConst(-1))
			ob("divide", ins, ok, "divisor "+d.String()+" != 0")
		case token.SHL, token.SHR:
			if bt, ok := x.Y.Type().Underlying().(*types.Basic); ok && bt.Info()&types.IsUnsigned != 0 {
				return
			}
			if k, ok := constInt(x.Y); ok && k >= 0 {
				return
			}
			ob("shift", ins, pr.Prove(b, pr.lin(x.Y)), "shift count >= 0")
		}
	case *ssa.Panic:
		ob("panic", ins, false, "explicit panic is reachable")
	case *ssa.Send:
		ob("chan", ins, false, "channel send")
	case *ssa.Go:
		ob("go", ins, false, "goroutine")
	case *ssa.Select:
		ob("chan", ins, false, "select")
	case *ssa.Defer:
		p.safetyCall(pr, b, ins, x.Common(), ob)
	case *ssa.Call:
		p.safetyCall(pr, b, ins, x.Common(), ob)
	}
}

func (p *Prog) safetyCall(pr *Prover, b *ssa.BasicBlock, ins ssa.Instruction, cc *ssa.CallCommon, ob func(kind string, ins ssa.Instruction, ok bool, how string, subj ...ssa.Value)) {
	if bi, ok := cc.Value.(*ssa.Builtin); ok {
		switch bi.Name() {
		case "close":
			ob("chan", ins, false, "close of a channel")
		case "panic":
			ob("panic", ins, false, "explicit panic")
		case "ssa:wrapnilchk":
			okn := pr.NonNil(cc.Args[0], b, 0)
			how := "receiver of the value-method wrapper is non-nil"
			if !okn {
				how = "cannot prove the receiver of the value-method wrapper non-nil"
			}
			ob("nilderef", ins, okn, how, cc.Args[0])
		}
		return
	}
	site := ins.(ssa.CallInstruction)
	if sc := cc.StaticCallee(); sc != nil && sc.Blocks == nil {
		name := fullName(sc)
		need := map[string]int64{
			"(encoding/binary.bigEndian).Uint16": 2, "(encoding/binary.bigEndian).PutUint16": 2,
			"(encoding/binary.bigEndian).Uint32": 4, "(encoding/binary.bigEndian).PutUint32": 4,
			"(encoding/binary.bigEndian).Uint64": 8, "(encoding/binary.bigEndian).PutUint64": 8,
		}
		if n, ok := need[name]; ok {
			l := pr.lenOf(cc.Args[1])
			okp := pr.Prove(b, l.addConst(-n))
			how := fmt.Sprintf("len %s >= %d", l, n)
			if !okp {
				how = fmt.Sprintf("cannot prove len(b) = %s >= %d for %s (facts: %s)", l, n, name, describeFacts(pr, b))
			}
			ob("extpre", ins, okp, how)
			return
		}
		switch name {
		case "bytes.Repeat", "strings.Repeat":
			l := pr.lin(cc.Args[1])
			ob("extpre", ins, pr.Prove(b, l), "repeat count "+l.String()+" >= 0")
		case "(*strings.Builder).Grow", "(*bytes.Buffer).Grow":
			// Grow panics on a negative count
			l := pr.lin(cc.Args[1])
			okp := pr.Prove(b, l)
			how := "grow count " + l.String() + " >= 0"
			if !okp {
				how = "cannot prove the count handed to " + name + " non-negative (it panics otherwise): " + l.String() + " (facts: " + describeFacts(pr, b) + ")"
			}
			ob("extpre", ins, okp, how)
		case "strconv.FormatInt", "strconv.FormatUint":
			// the base must be 2…36
			l := pr.lin(cc.Args[1])
			okp := pr.Prove(b, l.addConst(-2)) && pr.Prove(b, l.scale(-1).addConst(36))
			how := "base " + l.String() + " within 2…36"
			if !okp {
				how = "cannot prove the base handed to " + name + " within 2…36 (it panics otherwise): " + l.String()
			}
			ob("extpre", ins, okp, how)
		case "io.ReadFull", "io.ReadAtLeast":
			// panics only if the reader does (assumption); nil reader is the caller's error
		default:
			if !(externPure[name] || fmtWriterFuncs[name]) {
				if _, ok := externWritesArg[name]; !ok {
					ob("extcall", ins, false, "external function "+name+" has no panic model")
				}
			}
			if _, ok := externWritesArg[name]; ok && strings.HasPrefix(name, "(*strings.Builder)") {
				// receiver is the address of a live variable
			}
		}
		return
	}
	// dynamic calls: callee value must be non-nil
	if cc.IsInvoke() {
		ok := isStrongNonNil(pr, cc.Value, b)
		how := "interface receiver is non-nil (and its pointer payload too)"
		if !ok {
			how = "cannot prove the interface receiver (and its pointer payload) non-nil"
		}
		ob("nilcall", ins, ok, how, cc.Value)
	} else if cc.StaticCallee() == nil {
		ok := pr.NonNil(cc.Value, b, 0)
		how := "function value is non-nil"
		if !ok {
			how = "cannot prove the function value non-nil"
		}
		ob("nilcall", ins, ok, how, cc.Value)
	}
	// parameter contracts of the callees
	callees, _ := p.CG().Callees(site)
	if len(callees) == 0 {
		return
	}
	var args []ssa.Value
	if cc.IsInvoke() {
		args = append(args, cc.Value)
	}
	args = append(args, cc.Args...)
	// K0 at internal call sites: pointer receivers of statically called methods
	if sc := cc.StaticCallee(); sc != nil && sc.Signature.Recv() != nil && len(args) > 0 {
		if _, isPtr := sc.Signature.Recv().Type().Underlying().(*types.Pointer); isPtr {
			switch args[0].(type) {
			case *ssa.FieldAddr, *ssa.Alloc, *ssa.IndexAddr, *ssa.Global:
			default:
				okr := pr.NonNil(args[0], b, 0)
				how := "receiver is non-nil (K0 holds at this internal call site)"
				if !okr {
					how = "cannot prove the receiver non-nil at this internal call site"
				}
				ob("nilrecv", ins, okr, how, args[0])
			}
		}
	}
	// non-nil parameters the callees rely on (discovered needs)
	need := map[int]bool{}
	for _, cal := range callees {
		for i := range p.paramNeeds()[cal] {
			if i < len(args) {
				need[i] = true
			}
		}
	}
	var idxs []int
	for i := range need {
		idxs = append(idxs, i)
	}
	sort.Ints(idxs)
	for _, i := range idxs {
		if cc.IsInvoke() && i == 0 {
			continue // covered by nilcall
		}
		a := args[i]
		ok := isStrongNonNil(pr, a, b)
		how := fmt.Sprintf("argument %d is non-nil, as the callee requires (it dereferences it without a check)", i)
		if !ok {
			how = fmt.Sprintf("cannot prove argument %d non-nil (the callee dereferences it without a check)", i)
		}
		ob("nilarg", ins, ok, how, a)
	}
	// K1 at the call sites of result-less buffer helpers
	for _, cal := range callees {
		if !isBufHelper(cal) {
			continue
		}
		if ii := bufHelperIndex(cal) + 1; ii < len(args) {
			l := pr.lin(args[ii])
			okp := pr.Prove(b, l)
			how := "offset argument " + l.String() + " >= 0 (precondition of the buffer helper)"
			if !okp {
				how = "cannot prove offset argument " + l.String() + " >= 0 (facts: " + describeFacts(pr, b) + ")"
			}
			ob("fillpre", ins, okp, how)
		}
	}
	// K1: fill family offsets are non-negative
	for _, cal := range callees {
		if !isFillFamily(cal) {
			continue
		}
		np := len(cal.Params)
		recvOff := 0
		if cal.Signature.Recv() != nil {
			recvOff = 1
		}
		_ = np
		ii := recvOff + fillBufIndex(cal) + 1
		if ii < len(args) {
			l := pr.lin(args[ii])
			okp := pr.Prove(b, l)
			how := "offset argument " + l.String() + " >= 0 (fill-family precondition)"
			if !okp {
				how = "cannot prove offset argument " + l.String() + " >= 0 (facts: " + describeFacts(pr, b) + ")"
			}
			ob("fillpre", ins, okp, how)
		}
		break
	}
}

// assertOK: x.(T) without comma-ok is safe when every possible dynamic type of
// x is T and x is non-nil here.
func (p *Prog) assertOK(pr *Prover, b *ssa.BasicBlock, x *ssa.TypeAssert) (bool, string) {
	tset := map[types.Type]bool{}
	if !p.dynTypesDeep(x.X, tset, 0) {
		return false, "cannot enumerate the dynamic types of the asserted value"
	}
	for t := range tset {
		if types.IsInterface(x.AssertedType) {
			if !types.Implements(t, x.AssertedType.Underlying().(*types.Interface)) {
				return false, "dynamic type " + typeStr(t) + " does not implement " + typeStr(x.AssertedType)
			}
		} else if !types.Identical(t, x.AssertedType) {
			return false, "dynamic type may be " + typeStr(t) + ", asserted " + typeStr(x.AssertedType)
		}
	}
	if !pr.NonNil(x.X, b, 0) {
		return false, "the asserted interface may be nil"
	}
	var ts []string
	for t := range tset {
		ts = append(ts, typeStr(t))
	}
	return true, "dynamic type set {" + strings.Join(ts, ",") + "} matches and the value is non-nil"
}

// dynTypesDeep: possible dynamic types of an interface value, following call
// results into callees (all returns).
func (p *Prog) dynTypesDeep(v ssa.Value, out map[types.Type]bool, depth int) bool {
	if depth > 6 {
		return false
	}
	switch x := v.(type) {
	case *ssa.MakeInterface:
		out[x.X.Type()] = true
		return true
	case *ssa.Const:
		return x.Value == nil
	case *ssa.Phi:
		for _, e := range x.Edges {
			if !p.dynTypesDeep(e, out, depth+1) {
				return false
			}
		}
		return true
	case *ssa.ChangeInterface:
		return p.dynTypesDeep(x.X, out, depth+1)
	case *ssa.Call:
		return p.retDynTypes(x, 0, out, depth)
	case *ssa.Extract:
		if call, ok := x.Tuple.(*ssa.Call); ok {
			return p.retDynTypes(call, x.Index, out, depth)
		}
	}
	return false
}

func (p *Prog) retDynTypes(call *ssa.Call, idx int, out map[types.Type]bool, depth int) bool {
	callees, ext := p.CG().Callees(call)
	if ext || len(callees) == 0 {
		return false
	}
	for _, cal := range callees {
		for _, b := range cal.Blocks {
			ret, ok := terminator(b).(*ssa.Return)
			if !ok {
				continue
			}
			if idx >= len(ret.Results) || !p.dynTypesDeep(ret.Results[idx], out, depth+1) {
				return false
			}
		}
	}
	return true
}
