package main

// C08 — truncation and transport errors are reported.

import (
	"fmt"
	"go/types"
	"strings"

	"golang.org/x/tools/go/ssa"
)

func init() {
	register(&PropertyCheck{ID: "C08", Level: "proof", Run: checkC08, Canaries: []Canary{
		{Name: "body-bare-read", Rule: "R8.0", Where: "ReadRemaining", Edits: []Edit{{"packet.go", "io.ReadFull(r, data)", "r.Read(data)"}}},
		{Name: "wrap-v-instead-of-w", Rule: "R8.2", Where: "ReadRemaining", Edits: []Edit{{"packet.go", "\"%s ReadRemaining: %w\"", "\"%s ReadRemaining: %v\""}}},
		{Name: "readpacket-wrap-s", Rule: "R8.2", Where: "ReadPacket", Edits: []Edit{{"packet.go", "\"ReadPacket: %w\"", "\"ReadPacket: %s\""}}},
		{Name: "unexpected-eof-swallowed", Rule: "R8.1", Where: "ReadRemaining", Edits: []Edit{{"packet.go", "if _, err := io.ReadFull(r, data); err != nil {", "if _, err := io.ReadFull(r, data); err != nil && err != io.ErrUnexpectedEOF {"}}},
		{Name: "packet-with-error", Rule: "R8.3", Where: "ReadRemaining", Edits: []Edit{{"packet.go", "return nil, fmt.Errorf(\n\t\t\t\"%s ReadRemaining: %w\",", "return p, fmt.Errorf(\n\t\t\t\"%s ReadRemaining: %w\","}}},
		{Name: "packet-returned-at-a-join-with-the-error", Rule: "R8.3", Where: "ReadRemaining", Edits: []Edit{{"packet.go", "\tif _, err := io.ReadFull(r, data); err != nil {\n\t\treturn nil, fmt.Errorf(\n\t\t\t\"%s ReadRemaining: %w\",\n\t\t\tfirstByte(f.fixed).String(), err,\n\t\t)\n\t}\n\n\tif err := p.UnmarshalBinary(data); err != nil {\n\t\treturn nil, fmt.Errorf(\n\t\t\t\"%s %v UnmarshalBinary: %w\",\n\t\t\tfirstByte(f.fixed).String(), f.remainingLen, err,\n\t\t)\n\t}\n\treturn p, nil", "\t_, err := io.ReadFull(r, data)\n\tif err == nil {\n\t\tif err := p.UnmarshalBinary(data); err != nil {\n\t\t\treturn nil, fmt.Errorf(\n\t\t\t\t\"%s %v UnmarshalBinary: %w\",\n\t\t\t\tfirstByte(f.fixed).String(), f.remainingLen, err,\n\t\t\t)\n\t\t}\n\t}\n\treturn p, err"}}},
		{Name: "eof-cleared-in-front-of-the-return", Rule: "R8.1", Where: "(*fixedHeader).ReadFrom", Edits: []Edit{{"packet.go", "\tm, err := f.remainingLen.ReadFrom(r)\n\treturn n + m, err", "\tm, err := f.remainingLen.ReadFrom(r)\n\tif err == io.EOF {\n\t\terr = nil\n\t}\n\treturn n + m, err"}}},
		{Name: "header-error-dropped", Rule: "R8.1", Where: "(*fixedHeader).ReadFrom", Edits: []Edit{{"packet.go", "\tm, err := f.remainingLen.ReadFrom(r)\n\treturn n + m, err", "\tm, _ := f.remainingLen.ReadFrom(r)\n\treturn n + m, nil"}}},
		{Name: "new-error-replaces", Rule: "R8.2", Where: "(*vbint).ReadFrom", Edits: []Edit{{"wiretypes.go", "if _, err := io.ReadFull(r, data); err != nil {\n\t\t\treturn i, err", "if _, err := io.ReadFull(r, data); err != nil {\n\t\t\treturn i, fmt.Errorf(\"short header\")"}}},
		{Name: "single-exit-second-error-replaces-a-nil-one", Silent: true, Edits: []Edit{{"packet.go", "func (f *fixedHeader) ReadFrom(r io.Reader) (int64, error) {\n\tn, err := f.fixed.ReadFrom(r)\n\tif err != nil {\n\t\treturn n, err\n\t}\n\tm, err := f.remainingLen.ReadFrom(r)\n\treturn n + m, err\n}", "func (f *fixedHeader) ReadFrom(r io.Reader) (n int64, err error) {\n\tif n, err = f.fixed.ReadFrom(r); err == nil {\n\t\tvar m int64\n\t\tm, err = f.remainingLen.ReadFrom(r)\n\t\tn += m\n\t}\n\treturn n, err\n}"}}},
		{Name: "single-exit-second-error-replaces-an-unexamined-one", Rule: "R8.1", Where: "(*fixedHeader).ReadFrom", Edits: []Edit{{"packet.go", "func (f *fixedHeader) ReadFrom(r io.Reader) (int64, error) {\n\tn, err := f.fixed.ReadFrom(r)\n\tif err != nil {\n\t\treturn n, err\n\t}\n\tm, err := f.remainingLen.ReadFrom(r)\n\treturn n + m, err\n}", "func (f *fixedHeader) ReadFrom(r io.Reader) (n int64, err error) {\n\tif n, err = f.fixed.ReadFrom(r); n > 0 {\n\t\tvar m int64\n\t\tm, err = f.remainingLen.ReadFrom(r)\n\t\tn += m\n\t}\n\treturn n, err\n}"}}},
		{Name: "wrap-helper-w", Silent: true, Edits: []Edit{{"packet.go", "\tif f.remainingLen == 0 {\n\t\treturn p, nil\n\t}\n\tdata := make([]byte, int(f.remainingLen))\n\tif _, err := io.ReadFull(r, data); err != nil {\n\t\treturn nil, fmt.Errorf(\n\t\t\t\"%s ReadRemaining: %w\",\n\t\t\tfirstByte(f.fixed).String(), err,\n\t\t)\n\t}\n\n\tif err := p.UnmarshalBinary(data); err != nil {\n\t\treturn nil, fmt.Errorf(\n\t\t\t\"%s %v UnmarshalBinary: %w\",\n\t\t\tfirstByte(f.fixed).String(), f.remainingLen, err,\n\t\t)\n\t}\n\treturn p, nil\n}\n", "\tif f.remainingLen > 0 {\n\t\tdata, err := f.readBody(r)\n\t\tif err != nil {\n\t\t\treturn nil, f.wrap(\"ReadRemaining\", err)\n\t\t}\n\t\tif err := p.UnmarshalBinary(data); err != nil {\n\t\t\treturn nil, f.wrap(fmt.Sprintf(\"%v UnmarshalBinary\", f.remainingLen), err)\n\t\t}\n\t}\n\treturn p, nil\n}\n\nfunc (f *fixedHeader) readBody(r io.Reader) ([]byte, error) {\n\tdata := make([]byte, int(f.remainingLen))\n\tif _, err := io.ReadFull(r, data); err != nil {\n\t\treturn nil, err\n\t}\n\treturn data, nil\n}\n\nfunc (f *fixedHeader) wrap(op string, err error) error {\n\treturn fmt.Errorf(\"%s %s: %w\", firstByte(f.fixed).String(), op, err)\n}\n"}}},
		{Name: "wrap-helper-without-a-default-case", Rule: "R8.2", Where: "ReadRemaining", Edits: []Edit{{"packet.go", "\tif f.remainingLen == 0 {\n\t\treturn p, nil\n\t}\n\tdata := make([]byte, int(f.remainingLen))\n\tif _, err := io.ReadFull(r, data); err != nil {\n\t\treturn nil, fmt.Errorf(\n\t\t\t\"%s ReadRemaining: %w\",\n\t\t\tfirstByte(f.fixed).String(), err,\n\t\t)\n\t}\n\n\tif err := p.UnmarshalBinary(data); err != nil {\n\t\treturn nil, fmt.Errorf(\n\t\t\t\"%s %v UnmarshalBinary: %w\",\n\t\t\tfirstByte(f.fixed).String(), f.remainingLen, err,\n\t\t)\n\t}\n\treturn p, nil\n}\n", "\tif f.remainingLen > 0 {\n\t\tdata, err := f.readBody(r)\n\t\tif err != nil {\n\t\t\treturn nil, f.wrap(\"ReadRemaining\", err)\n\t\t}\n\t\tif err := p.UnmarshalBinary(data); err != nil {\n\t\t\treturn nil, f.wrap(fmt.Sprintf(\"%v UnmarshalBinary\", f.remainingLen), err)\n\t\t}\n\t}\n\treturn p, nil\n}\n\nfunc (f *fixedHeader) readBody(r io.Reader) ([]byte, error) {\n\tdata := make([]byte, int(f.remainingLen))\n\tif _, err := io.ReadFull(r, data); err != nil {\n\t\treturn nil, err\n\t}\n\treturn data, nil\n}\n\nfunc (f *fixedHeader) wrap(op string, err error) error {\n\tvar out error\n\tswitch {\n\tcase err == io.EOF, err == io.ErrUnexpectedEOF:\n\t\tout = fmt.Errorf(\"%s %s: %w\", firstByte(f.fixed).String(), op, err)\n\tcase len(op) > 20:\n\t\tout = fmt.Errorf(\"%s: %w\", firstByte(f.fixed).String(), err)\n\t}\n\treturn out\n}\n"}}},
		{Name: "wrap-helper-v", Rule: "R8.2", Where: "ReadRemaining", Edits: []Edit{{"packet.go", "\tif f.remainingLen == 0 {\n\t\treturn p, nil\n\t}\n\tdata := make([]byte, int(f.remainingLen))\n\tif _, err := io.ReadFull(r, data); err != nil {\n\t\treturn nil, fmt.Errorf(\n\t\t\t\"%s ReadRemaining: %w\",\n\t\t\tfirstByte(f.fixed).String(), err,\n\t\t)\n\t}\n\n\tif err := p.UnmarshalBinary(data); err != nil {\n\t\treturn nil, fmt.Errorf(\n\t\t\t\"%s %v UnmarshalBinary: %w\",\n\t\t\tfirstByte(f.fixed).String(), f.remainingLen, err,\n\t\t)\n\t}\n\treturn p, nil\n}\n", "\tif f.remainingLen > 0 {\n\t\tdata, err := f.readBody(r)\n\t\tif err != nil {\n\t\t\treturn nil, f.wrap(\"ReadRemaining\", err)\n\t\t}\n\t\tif err := p.UnmarshalBinary(data); err != nil {\n\t\t\treturn nil, f.wrap(fmt.Sprintf(\"%v UnmarshalBinary\", f.remainingLen), err)\n\t\t}\n\t}\n\treturn p, nil\n}\n\nfunc (f *fixedHeader) readBody(r io.Reader) ([]byte, error) {\n\tdata := make([]byte, int(f.remainingLen))\n\tif _, err := io.ReadFull(r, data); err != nil {\n\t\treturn nil, err\n\t}\n\treturn data, nil\n}\n\nfunc (f *fixedHeader) wrap(op string, err error) error {\n\treturn fmt.Errorf(\"%s %s: %v\", firstByte(f.fixed).String(), op, err)\n}\n"}}},
		{Name: "bytes-buffer-fast-path-without-an-error", Rule: "R8.0", Where: "ReadRemaining", Edits: []Edit{{"packet.go", "import (\n\t\"encoding\"", "import (\n\t\"bytes\"\n\t\"encoding\""}, {"packet.go", "\tdata := make([]byte, int(f.remainingLen))\n\tif _, err := io.ReadFull(r, data); err != nil {\n\t\treturn nil, fmt.Errorf(\n\t\t\t\"%s ReadRemaining: %w\",\n\t\t\tfirstByte(f.fixed).String(), err,\n\t\t)\n\t}\n", "\tvar data []byte\n\tif b, ok := r.(*bytes.Buffer); ok {\n\t\tdata = b.Next(int(f.remainingLen))\n\t} else {\n\t\tdata = make([]byte, int(f.remainingLen))\n\t\tif _, err := io.ReadFull(r, data); err != nil {\n\t\t\treturn nil, fmt.Errorf(\n\t\t\t\t\"%s ReadRemaining: %w\",\n\t\t\t\tfirstByte(f.fixed).String(), err,\n\t\t\t)\n\t\t}\n\t}\n"}}},
		{Name: "separate-wrap-statement", Silent: true, Edits: []Edit{{"packet.go", "\tif _, err := fh.ReadFrom(r); err != nil {\n\t\treturn nil, fmt.Errorf(\"ReadPacket: %w\", err)\n\t}", "\tif _, err := fh.ReadFrom(r); err != nil {\n\t\twrapped := fmt.Errorf(\"ReadPacket: %w\", err)\n\t\treturn nil, wrapped\n\t}"}}},
	}})
}

// wrapsErr: is v the error e itself or a %w-wrapping of it?
func wrapsErr(v, e ssa.Value, depth int) bool {
	if depth > 8 {
		return false
	}
	if v == e {
		return true
	}
	switch x := v.(type) {
	case *ssa.ChangeInterface:
		return wrapsErr(x.X, e, depth+1)
	case *ssa.Phi:
		if len(x.Edges) == 0 {
			return false
		}
		for i, ed := range x.Edges {
			if wrapsErr(ed, e, depth+1) {
				continue
			}
			// an edge that carries something else (nil, or the error of a later call) is harmless only where the
			// error cannot be set: the path does not pass the place the error comes from, or it lies behind
			// `e == nil` (an `if err == io.EOF { err = nil }` in front of the return clears a failure; in
			// `if n, err = a(); err == nil { m, err = b() }; return n, err` the second error replaces a nil one)
			pred := x.Block().Preds[i]
			ei, ok := e.(ssa.Instruction)
			passes := true // a parameter is there on every path (`var out error; switch { case …: out = wrap(err) }; return out`)
			if ok && ei.Block() != nil {
				passes = ei.Block() == pred || blocksReachableFrom(ei.Block())[pred]
			}
			if passes {
				_, isNil := errEdges(e)
				if !dominatedByAny(isNil, pred) {
					return false
				}
			}
		}
		return true
	case *ssa.Call:
		fc := AsFmtCall(x)
		if fc == nil {
			// a helper of the library that wraps one of its parameters on every path (`f.wrap(op, err)` returning
			// fmt.Errorf("%s %s: %w", …, err)): the call wraps e when that argument does
			sc := x.Call.StaticCallee()
			if sc == nil || len(sc.Blocks) == 0 || len(x.Call.Args) != len(sc.Params) {
				return false
			}
			k := errorResultIndex(sc.Signature)
			if k < 0 || sc.Signature.Results().Len() != 1 {
				return false
			}
			for i, a := range x.Call.Args {
				if !isErrorType(a.Type()) || !wrapsErr(a, e, depth+1) {
					continue
				}
				all, n := true, 0
				for _, b := range sc.Blocks {
					if ret, ok := terminator(b).(*ssa.Return); ok {
						n++
						if !wrapsErr(ret.Results[k], sc.Params[i], depth+1) {
							all = false
						}
					}
				}
				if all && n > 0 {
					return true
				}
			}
			return false
		}
		if fc.Name != "fmt.Errorf" || !fc.ConstF {
			return false
		}
		for i, a := range fc.Args {
			if fc.Verbs[i] == 'w' && wrapsErr(a, e, depth+1) {
				return true
			}
		}
	}
	return false
}

type errSource struct {
	fn     *ssa.Function
	site   ssa.Instruction // the read call or the call of an mq function that exports the error
	e      ssa.Value       // error value (nil if dropped)
	origin string          // construct of the originating read site
	buf    ssa.Value       // buffer (read sites only)
	depth  int
}

func errorResultIndex(sig *types.Signature) int {
	idx := -1
	for i := 0; i < sig.Results().Len(); i++ {
		if isErrorType(sig.Results().At(i).Type()) {
			if idx >= 0 {
				return -2
			}
			idx = i
		}
	}
	return idx
}

func callResultError(call *ssa.Call, idx int) ssa.Value {
	n := call.Common().Signature().Results().Len()
	if n == 1 {
		return call
	}
	if ex := extractOf(call, idx); ex != nil {
		return ex
	}
	return nil
}

// derivedFrom: is v the buffer or a slice/element address derived from it?
func derivedFromBuf(v, buf ssa.Value) bool {
	// the buffer handed to the read may itself be a slice of a local array (`data[:]` of `var data [1]byte`): what
	// counts is the backing store
	root := buf
	for i := 0; i < 6; i++ {
		if x, ok := root.(*ssa.Slice); ok {
			root = x.X
		} else if x, ok := root.(*ssa.ChangeType); ok {
			root = x.X
		} else {
			break
		}
	}
	for i := 0; i < 6; i++ {
		if v == buf || v == root {
			return true
		}
		switch x := v.(type) {
		case *ssa.Slice:
			v = x.X
		case *ssa.IndexAddr:
			v = x.X
		case *ssa.ChangeType:
			v = x.X
		default:
			return false
		}
	}
	return false
}

func checkC08(p *Prog, c *Check) {
	c.Rule("R8.0", "every stream read is a full read, so err == nil means the buffer was filled completely (shared with C07 R7.1)")
	c.Rule("R8.1", "the error of every read, and of every mq call that hands a read error on, is examined before the buffer is used and before any exit that does not return that very error")
	c.Rule("R8.2", "on the error edge every exit returns the error itself or fmt.Errorf with a constant format whose %w verb binds it; the chain reaches ReadPacket's result")
	c.Rule("R8.3", "on the error edge every pointer- or interface-typed result other than the error is the nil constant (no packet together with an error)")
	c.Explanation = "For each read site the error value is followed through the CFG of its function (dominance by the `e != nil` / `e == nil` edges of tests on that very value) and, through resolved call sites, up to ReadPacket. Each exit reachable after the read must either lie behind the nil edge or return e / a %w wrapping of e with nil for the packet. Together with full reads (R8.0) a packet is returned only if every byte was delivered, reader failures satisfy errors.Is(err, E), and EOF before the first byte surfaces as io.EOF by the io.ReadFull contract."
	c.Trusted = []string{"go/types + go/ssa (x/tools v0.29.0) faithful IR", "io.ReadFull contract (err==nil iff buffer filled; io.EOF only when nothing was read; reader errors returned as is)", "fmt.Errorf %w makes errors.Is see the wrapped error"}
	c.Assumptions = []string{"the reader obeys the io.Reader contract"}
	rp, msg := p.readPacketAnchor()
	if rp == nil {
		c.Bad("anchor", "ReadPacket", "-", msg)
		return
	}
	onPath := p.Reach([]*ssa.Function{rp})
	// callers index
	callers := map[*ssa.Function][]*ssa.Call{}
	for _, fn := range p.AllFuncs() {
		for _, ci := range p.Calls(fn) {
			call, ok := ci.Site.(*ssa.Call)
			if !ok {
				// defer/go of a reader function: result unobservable
				for _, cal := range ci.Callees {
					callers[cal] = append(callers[cal], nil)
				}
				continue
			}
			for _, cal := range ci.Callees {
				callers[cal] = append(callers[cal], call)
			}
		}
	}
	var work []errSource
	reached := map[string]bool{} // origin -> reached ReadPacket
	nsites := 0
	seenOther := map[string]bool{}
	for _, fn := range p.AllFuncs() {
		for _, u := range p.ReaderUses(fn) {
			if u.Kind == OtherUse && onPath[fn] && !seenOther[u.Construct()+posOf(p, u.Ins)] {
				seenOther[u.Construct()+posOf(p, u.Ins)] = true
				// the stream used other than through a read that reports failure (asserted to a concrete type and
				// drained through a method without an error result, wrapped, stored …): bytes — or their absence —
				// arrive without an error to examine
				c.Bad("R8.0", u.Construct(), posOf(p, u.Ins), "the stream is used other than through a full read ("+u.What+"): what it delivers, or fails to deliver, does not come with an error that R8.1/R8.2 could follow")
			}
			if u.Kind != FullRead && u.Kind != BareRead {
				continue
			}
			nsites++
			c.Fn(qname(fn))
			cons := u.Construct()
			if u.Kind == BareRead {
				c.Bad("R8.0", cons, posOf(p, u.Ins), "bare Read: err == nil does not imply that the buffer was filled, so a packet can be returned although bytes are missing")
			} else {
				c.OK("R8.0", cons, posOf(p, u.Ins), "full read")
			}
			e := callResultError(u.Call, 1)
			work = append(work, errSource{fn: fn, site: u.Ins, e: e, origin: cons, buf: u.Buf})
		}
	}
	seen := map[string]bool{}
	for len(work) > 0 {
		s := work[0]
		work = work[1:]
		key := fmt.Sprintf("%p|%s", s.site, s.origin)
		if seen[key] || s.depth > 12 {
			continue
		}
		seen[key] = true
		c.Sites++
		fn := s.fn
		c.Fn(qname(fn))
		cons := fmt.Sprintf("%s<-%s", qname(fn), s.origin)
		pos := posOf(p, s.site)
		if s.e == nil {
			c.Bad("R8.1", cons, pos, "the error result is discarded")
			continue
		}
		nonNil, isNil := errEdges(s.e)
		k := errorResultIndex(fn.Signature)
		if k < 0 {
			c.Bad("R8.2", cons, pos, "the enclosing function has no (single) error result to report the failure through")
			continue
		}
		exports := false
		okAll := true
		for _, b := range fn.Blocks {
			ret, ok := b.Instrs[len(b.Instrs)-1].(*ssa.Return)
			if !ok || !mayFollow(s.site, ret) {
				continue
			}
			rpos := posOf(p, ret)
			rv := ret.Results[k]
			onErr := dominatedByAny(nonNil, b)
			onNil := behindSince(s.site, isNil, b)
			wraps := wrapsErr(rv, s.e, 0)
			switch {
			case wraps:
				exports = true
				if !onNil {
					// this exit can be taken with the read error set (it lies on the error edge, or at a join that the
					// error edge reaches): every other pointer-like result must be nil whenever it is
					for j, r := range ret.Results {
						if j == k {
							continue
						}
						switch r.Type().Underlying().(type) {
						case *types.Pointer, *types.Interface, *types.Slice, *types.Map:
							okR := isNilConst(r)
							if ex, isEx := r.(*ssa.Extract); isEx && !okR {
								if sv, isV := s.site.(ssa.Value); isV && ex.Tuple == sv {
									okR = true // the mq callee's own results forwarded together: the callee's exits are checked where it is defined
								}
							}
							if ph, isPhi := r.(*ssa.Phi); isPhi && !okR && !onErr && ph.Block() == b {
								okR = true
								for i, pb := range b.Preds {
									if dominatedByAny(isNil, pb) {
										continue // arrives from the success side
									}
									if !isNilConst(ph.Edges[i]) {
										okR = false
									}
								}
							}
							if !okR {
								okAll = false
								how := "together with the read error"
								if !onErr {
									how = "at an exit that the failed read also reaches (the error is returned, the packet is not cleared)"
								}
								c.Bad("R8.3", cons, rpos, fmt.Sprintf("result %d is returned non-nil %s", j, how))
							}
						}
					}
				}
			case onNil:
				// exit behind the nil edge: fine
			case onErr:
				okAll = false
				c.Bad("R8.2", cons, rpos, "exit on the error edge does not return the error itself or a %w wrapping of it (errors.Is would not see it): returns "+describeVal(rv))
			default:
				okAll = false
				c.Bad("R8.1", cons, rpos, "exit reachable after the read that is neither behind `err == nil` nor returns the error: a failed read can end in success here")
			}
		}
		// buffer uses must be behind the nil edge
		if s.buf != nil {
			for _, b := range fn.Blocks {
				for _, ins := range b.Instrs {
					if ins == s.site || !mayFollow(s.site, ins) {
						continue
					}
					uses := false
					for _, op := range ins.Operands(nil) {
						if *op != nil && derivedFromBuf(*op, s.buf) {
							uses = true
						}
					}
					if !uses {
						continue
					}
					if _, isDbg := ins.(*ssa.DebugRef); isDbg {
						continue
					}
					// another read into the same buffer is not a use of its content
					if call, ok := ins.(*ssa.Call); ok {
						if sc := call.Common().StaticCallee(); sc != nil && (fullName(sc) == "io.ReadFull" || fullName(sc) == "io.ReadAtLeast") {
							continue
						}
						if call.Common().IsInvoke() && call.Common().Method.Name() == "Read" {
							continue
						}
					}
					if _, isAddr := ins.(*ssa.IndexAddr); isAddr {
						continue // the address computation; the load/store is checked
					}
					if _, isSl := ins.(*ssa.Slice); isSl {
						continue
					}
					if !behindSince(s.site, isNil, b) {
						okAll = false
						c.Bad("R8.1", cons, posOf(p, ins), "buffer content is used before the read error has been checked: "+ins.String())
					}
				}
			}
		}
		if okAll {
			how := "every exit after the read is behind `err == nil` or returns the error (identity/%w) with nil packet"
			c.OK("R8.1", cons, pos, how)
		}
		if fn == rp && exports {
			reached[s.origin] = true
		}
		if !exports {
			continue
		}
		for _, call := range callers[fn] {
			if call == nil {
				c.Bad("R8.1", cons, pos, "called through defer/go: its error cannot be observed")
				continue
			}
			ne := callResultError(call, k)
			work = append(work, errSource{fn: call.Parent(), site: call, e: ne, origin: s.origin, depth: s.depth + 1})
		}
	}
	// chain obligation
	for _, fn := range p.AllFuncs() {
		if !onPath[fn] {
			continue
		}
		for _, u := range p.ReaderUses(fn) {
			if u.Kind == OtherUse && onPath[fn] && !seenOther[u.Construct()+posOf(p, u.Ins)] {
				seenOther[u.Construct()+posOf(p, u.Ins)] = true
				// the stream used other than through a read that reports failure (asserted to a concrete type and
				// drained through a method without an error result, wrapped, stored …): bytes — or their absence —
				// arrive without an error to examine
				c.Bad("R8.0", u.Construct(), posOf(p, u.Ins), "the stream is used other than through a full read ("+u.What+"): what it delivers, or fails to deliver, does not come with an error that R8.1/R8.2 could follow")
			}
			if u.Kind != FullRead && u.Kind != BareRead {
				continue
			}
			if reached[u.Construct()] {
				c.OK("R8.2", "chain:"+u.Construct(), posOf(p, u.Ins), "the read error reaches ReadPacket's error result through identity/%w hops only")
			} else {
				c.Bad("R8.2", "chain:"+u.Construct(), posOf(p, u.Ins), "the read error does not reach ReadPacket's error result through identity/%w hops")
			}
		}
	}
	c.Measured["read_sites"] = nsites
	c.Floor("read sites", nsites, 2, "a frame needs at least a header read and a body read")
}

func describeVal(v ssa.Value) string {
	s := v.String()
	if len(s) > 80 {
		s = s[:80] + "…"
	}
	return strings.ReplaceAll(s, "\n", " ")
}
