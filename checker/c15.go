package main

// C15 — variable byte integers are encoded minimally and decoded exactly
// (the structural part: constants, guards, sibling agreement, rejection).

import (
	"fmt"
	"go/token"
	"go/types"

	"golang.org/x/tools/go/ssa"
)

func init() {
	register(&PropertyCheck{ID: "C15", Level: "other", Run: checkC15, Canaries: []Canary{
		{Name: "vbi-property-fast-path-shifts-by-8", Rule: "R15.6", Where: "(vbint).fill", Edits: []Edit{{"wiretypes.go", "func (v vbint) fillProp(data []byte, i int, id Ident) int {\n\tif v == 0 {\n\t\treturn 0\n\t}\n\tn := i\n\ti += id.fill(data, i)\n\ti += v.fill(data, i)\n\treturn i - n", "func (v vbint) fillProp(data []byte, i int, id Ident) int {\n\tswitch {\n\tcase v == 0:\n\t\treturn 0\n\n\t// identifiers are small in practice, the one and two byte forms\n\t// are written in one go\n\tcase v < 128:\n\t\treturn fillBytes(data, i, byte(id), byte(v))\n\tcase v < 128*128:\n\t\treturn fillBytes(data, i, byte(id), byte(v)|128, byte(v>>8))\n\t}\n\tn := i\n\ti += id.fill(data, i)\n\ti += v.fill(data, i)\n\treturn i - n\n}\n\n// fillBytes writes the given bytes at position i if there is room for\n// them. Returns the number of bytes.\nfunc fillBytes(data []byte, i int, b ...byte) int {\n\tif len(data) >= i+len(b) {\n\t\tcopy(data[i:], b)\n\t}\n\treturn len(b)"}}},
		{Name: "two-byte-fast-path-forgets-the-mask", Rule: "R9.3", Where: "(*vbint).UnmarshalBinary#single-path", Edits: []Edit{{"wiretypes.go", "\tvar multiplier uint = 1\n\tvar value uint\n\tfor _, encodedByte := range data {", "\tif b0 := data[0]; b0 < 128 {\n\t\t*v = vbint(b0)\n\t\treturn nil\n\t} else if len(data) > 1 && data[1] < 128 {\n\t\t*v = vbint(b0) | vbint(data[1])<<7\n\t\treturn nil\n\t}\n\tvar multiplier uint = 1\n\tvar value uint\n\tfor _, encodedByte := range data {"}}},
		{Name: "minimality-check-in-one-decoder-only", Rule: "R9.3", Where: "(*vbint).ReadFrom#single-path", Edits: []Edit{{"wiretypes.go", "\t\tmultiplier = multiplier * 128\n\t}\n\t*v = vbint(value)\n\treturn i, nil", "\t\tmultiplier = multiplier * 128\n\t}\n\tif i > 1 && data[0] == 0 {\n\t\treturn i, unmarshalErr(v, \"\", \"not minimal\")\n\t}\n\t*v = vbint(value)\n\treturn i, nil"}}},
		{Name: "helper-rewrites-the-decoded-value", Rule: "R9.3", Where: "(*vbint).ReadFrom#single-path", Edits: []Edit{{"wiretypes.go", "\t\tmultiplier = multiplier * 128\n\t}\n\t*v = vbint(value)\n\treturn i, nil\n}", "\t\tmultiplier = multiplier * 128\n\t}\n\t*v = vbint(value)\n\tclampVBI(v)\n\treturn i, nil\n}\n\nfunc clampVBI(v *vbint) {\n\tif *v > 268435455 {\n\t\t*v = 268435455\n\t}\n}"}}},
		{Name: "header-decodes-first-length-byte-itself", Rule: "R6.2", Where: "remainingLen", Edits: []Edit{{"packet.go", "\tm, err := f.remainingLen.ReadFrom(r)\n\treturn n + m, err", "\tm, err := f.remainingLen.ReadFrom(r)\n\tif f.remainingLen > 127 {\n\t\tvar rest vbint\n\t\tk, e2 := rest.ReadFrom(r)\n\t\tf.remainingLen += rest * 128\n\t\treturn n + m + k, e2\n\t}\n\treturn n + m, err"}}},
		{Name: "encoder-radix-127", Rule: "R15.1", Where: "encoder", Edits: []Edit{{"wiretypes.go", "\t\tencodedByte := byte(x % 128)\n\t\tx = x / 128", "\t\tencodedByte := byte(x % 128)\n\t\tx = x / 127"}}},
		{Name: "decoder-mask-126", Rule: "R15.1", Where: "(*vbint).UnmarshalBinary", Edits: []Edit{{"wiretypes.go", "\tfor _, encodedByte := range data {\n\t\tvalue += uint(encodedByte) & uint(127) * multiplier", "\tfor _, encodedByte := range data {\n\t\tvalue += uint(encodedByte) & uint(126) * multiplier"}}},
		{Name: "stream-multiplier-64", Rule: "R15.1", Where: "(*vbint).ReadFrom", Edits: []Edit{{"wiretypes.go", "\t\tif encodedByte&128 == 0 {\n\t\t\tbreak\n\t\t}\n\t\tmultiplier = multiplier * 128", "\t\tif encodedByte&128 == 0 {\n\t\t\tbreak\n\t\t}\n\t\tmultiplier = multiplier * 64"}}},
		{Name: "guard-ge-instead-of-gt", Rule: "R15.1", Where: "(*vbint).ReadFrom", Edits: []Edit{{"wiretypes.go", "\t\tif multiplier > 128*128*128 {\n\t\t\treturn i, unmarshalErr", "\t\tif multiplier >= 128*128*128 {\n\t\t\treturn i, unmarshalErr"}}},
		{Name: "guards-disagree", Rule: "R15.2", Where: "decoders", Edits: []Edit{{"wiretypes.go", "\t\tif multiplier > 128*128*128 {\n\t\t\treturn unmarshalErr", "\t\tif multiplier > 128*128*128*128 {\n\t\t\treturn unmarshalErr"}}},
		{Name: "continuation-bit-always-set", Rule: "R15.3", Where: "encoder", Edits: []Edit{{"wiretypes.go", "\t\tif x > 0 {\n\t\t\tencodedByte = encodedByte | 128\n\t\t}", "\t\tencodedByte = encodedByte | 128"}}},
		{Name: "continuation-test-on-emitted-byte", Rule: "R15.3", Where: "encoder", Edits: []Edit{{"wiretypes.go", "\t\tif x > 0 {\n\t\t\tencodedByte = encodedByte | 128\n\t\t}", "\t\tif encodedByte > 0 {\n\t\t\tencodedByte = encodedByte | 128\n\t\t}"}}},
		{Name: "decoder-continuation-mask-64", Rule: "R15.1", Where: "(*vbint).UnmarshalBinary", Edits: []Edit{{"wiretypes.go", "\t\tif encodedByte&128 == 0 {\n\t\t\t*v = vbint(value)", "\t\tif encodedByte&64 == 0 {\n\t\t\t*v = vbint(value)"}}},
		{Name: "for-clause-loop-array-buffer-in-loop-return", Silent: true, Edits: []Edit{{"wiretypes.go", "func (v *vbint) ReadFrom(r io.Reader) (int64, error) {\n\tvar multiplier uint = 1\n\tvar value uint\n\tdata := make([]byte, 1)\n\tvar i int64\n\tfor {\n\t\tif _, err := io.ReadFull(r, data); err != nil {\n\t\t\treturn i, err\n\t\t}\n\t\ti++\n\t\tencodedByte := data[0]\n\t\tvalue += uint(encodedByte) & uint(127) * multiplier\n\t\tif multiplier > 128*128*128 {\n\t\t\treturn i, unmarshalErr(v, \"\", \"size exceeded\")\n\t\t}\n\t\tif encodedByte&128 == 0 {\n\t\t\tbreak\n\t\t}\n\t\tmultiplier = multiplier * 128\n\t}\n\t*v = vbint(value)\n\treturn i, nil\n}\n\n", "func (v *vbint) ReadFrom(r io.Reader) (n int64, err error) {\n\tvar value uint\n\tvar data [1]byte\n\tfor multiplier := uint(1); ; multiplier *= 128 {\n\t\tif _, err = io.ReadFull(r, data[:]); err != nil {\n\t\t\treturn n, err\n\t\t}\n\t\tn++\n\t\tencodedByte := data[0]\n\t\tvalue += uint(encodedByte&127) * multiplier\n\t\tif multiplier > 128*128*128 {\n\t\t\treturn n, unmarshalErr(v, \"\", \"size exceeded\")\n\t\t}\n\t\tif encodedByte&128 == 0 {\n\t\t\t*v = vbint(value)\n\t\t\treturn n, nil\n\t\t}\n\t}\n}\n\n"}}},
		{Name: "for-clause-loop-mask-63-inside-the-conversion", Rule: "R15.1", Where: "(*vbint).ReadFrom", Edits: []Edit{{"wiretypes.go", "func (v *vbint) ReadFrom(r io.Reader) (int64, error) {\n\tvar multiplier uint = 1\n\tvar value uint\n\tdata := make([]byte, 1)\n\tvar i int64\n\tfor {\n\t\tif _, err := io.ReadFull(r, data); err != nil {\n\t\t\treturn i, err\n\t\t}\n\t\ti++\n\t\tencodedByte := data[0]\n\t\tvalue += uint(encodedByte) & uint(127) * multiplier\n\t\tif multiplier > 128*128*128 {\n\t\t\treturn i, unmarshalErr(v, \"\", \"size exceeded\")\n\t\t}\n\t\tif encodedByte&128 == 0 {\n\t\t\tbreak\n\t\t}\n\t\tmultiplier = multiplier * 128\n\t}\n\t*v = vbint(value)\n\treturn i, nil\n}\n\n", "func (v *vbint) ReadFrom(r io.Reader) (n int64, err error) {\n\tvar value uint\n\tvar data [1]byte\n\tfor multiplier := uint(1); ; multiplier *= 128 {\n\t\tif _, err = io.ReadFull(r, data[:]); err != nil {\n\t\t\treturn n, err\n\t\t}\n\t\tn++\n\t\tencodedByte := data[0]\n\t\tvalue += uint(encodedByte&63) * multiplier\n\t\tif multiplier > 128*128*128 {\n\t\t\treturn n, unmarshalErr(v, \"\", \"size exceeded\")\n\t\t}\n\t\tif encodedByte&128 == 0 {\n\t\t\t*v = vbint(value)\n\t\t\treturn n, nil\n\t\t}\n\t}\n}\n\n"}}},
		{Name: "for-clause-loop-success-before-the-size-guard", Rule: "R9.3", Where: "(*vbint).ReadFrom#exits", Edits: []Edit{{"wiretypes.go", "func (v *vbint) ReadFrom(r io.Reader) (int64, error) {\n\tvar multiplier uint = 1\n\tvar value uint\n\tdata := make([]byte, 1)\n\tvar i int64\n\tfor {\n\t\tif _, err := io.ReadFull(r, data); err != nil {\n\t\t\treturn i, err\n\t\t}\n\t\ti++\n\t\tencodedByte := data[0]\n\t\tvalue += uint(encodedByte) & uint(127) * multiplier\n\t\tif multiplier > 128*128*128 {\n\t\t\treturn i, unmarshalErr(v, \"\", \"size exceeded\")\n\t\t}\n\t\tif encodedByte&128 == 0 {\n\t\t\tbreak\n\t\t}\n\t\tmultiplier = multiplier * 128\n\t}\n\t*v = vbint(value)\n\treturn i, nil\n}\n\n", "func (v *vbint) ReadFrom(r io.Reader) (n int64, err error) {\n\tvar value uint\n\tvar data [1]byte\n\tfor multiplier := uint(1); ; multiplier *= 128 {\n\t\tif _, err = io.ReadFull(r, data[:]); err != nil {\n\t\t\treturn n, err\n\t\t}\n\t\tn++\n\t\tencodedByte := data[0]\n\t\tvalue += uint(encodedByte&127) * multiplier\n\t\tif encodedByte&128 == 0 {\n\t\t\t*v = vbint(value)\n\t\t\treturn n, nil\n\t\t}\n\t\tif multiplier > 128*128*128 {\n\t\t\treturn n, unmarshalErr(v, \"\", \"size exceeded\")\n\t\t}\n\t}\n}\n\n"}}},
		{Name: "shift-loop-encoder-own-width", Silent: true, Edits: []Edit{{"wiretypes.go", "func (v vbint) fill(data []byte, i int) int {\n\tx := v\n\tn := i\n\tfor {\n\t\tencodedByte := byte(x % 128)\n\t\tx = x / 128\n\t\tif x > 0 {\n\t\t\tencodedByte = encodedByte | 128\n\t\t}\n\t\tif i < len(data) {\n\t\t\tdata[i] = encodedByte\n\t\t}\n\t\ti++\n\t\tif x == 0 {\n\t\t\tbreak\n\t\t}\n\t}\n\treturn i - n\n}\n\nfunc (v vbint) width() int {\n\treturn v.fill(_LEN, 0)\n}\n\nfunc (v *vbint) ReadFrom(r io.Reader) (int64, error) {\n\tvar multiplier uint = 1\n\tvar value uint\n\tdata := make([]byte, 1)\n\tvar i int64\n\tfor {\n\t\tif _, err := io.ReadFull(r, data); err != nil {\n\t\t\treturn i, err\n\t\t}\n\t\ti++\n\t\tencodedByte := data[0]\n\t\tvalue += uint(encodedByte) & uint(127) * multiplier\n\t\tif multiplier > 128*128*128 {\n\t\t\treturn i, unmarshalErr(v, \"\", \"size exceeded\")\n\t\t}\n\t\tif encodedByte&128 == 0 {\n\t\t\tbreak\n\t\t}\n\t\tmultiplier = multiplier * 128\n\t}\n\t*v = vbint(value)\n\treturn i, nil\n}\n\n// UnmarshalBinary data, returns nil or *Malformed error\nfunc (v *vbint) UnmarshalBinary(data []byte) error {\n\tif len(data) == 0 {\n\t\treturn unmarshalErr(v, \"\", \"missing data\")\n\t}\n\tvar multiplier uint = 1\n\tvar value uint\n\tfor _, encodedByte := range data {\n\t\tvalue += uint(encodedByte) & uint(127) * multiplier\n\t\tif multiplier > 128*128*128 {\n\t\t\treturn unmarshalErr(v, \"\", \"size exceeded\")\n\t\t}\n\t\tif encodedByte&128 == 0 {\n\t\t\t*v = vbint(value)\n\t\t\treturn nil\n\t\t}\n\t\tmultiplier = multiplier * 128\n\t}\n\treturn unmarshalErr(v, \"\", \"missing data\")\n}\n\n", "func (v vbint) fill(data []byte, i int) int {\n\tn := i\n\tx := v\n\t// all but the last group have the continuation bit set\n\tfor ; x >= 128; x >>= 7 {\n\t\ti += putByte(data, i, byte(x&127)|128)\n\t}\n\ti += putByte(data, i, byte(x))\n\treturn i - n\n}\n\n// putByte sets data[i] if there is room for it and returns 1, ie. the\n// width of a byte.\nfunc putByte(data []byte, i int, b byte) int {\n\tif i < len(data) {\n\t\tdata[i] = b\n\t}\n\treturn 1\n}\n\n// width returns the number of 7-bit groups needed to encode v.\nfunc (v vbint) width() int {\n\tn := 1\n\tfor x := v; x >= 128; x >>= 7 {\n\t\tn++\n\t}\n\treturn n\n}\n\nfunc (v *vbint) ReadFrom(r io.Reader) (int64, error) {\n\tvar multiplier uint = 1\n\tvar value uint\n\tdata := make([]byte, 1)\n\tvar i int64\n\tfor {\n\t\tif _, err := io.ReadFull(r, data); err != nil {\n\t\t\treturn i, err\n\t\t}\n\t\ti++\n\t\tencodedByte := data[0]\n\t\tvalue += uint(encodedByte) & uint(127) * multiplier\n\t\tif multiplier > 128*128*128 {\n\t\t\treturn i, unmarshalErr(v, \"\", \"size exceeded\")\n\t\t}\n\t\tif encodedByte&128 == 0 {\n\t\t\tbreak\n\t\t}\n\t\tmultiplier = multiplier * 128\n\t}\n\t*v = vbint(value)\n\treturn i, nil\n}\n\n// UnmarshalBinary data, returns nil or *Malformed error\nfunc (v *vbint) UnmarshalBinary(data []byte) error {\n\tif len(data) == 0 {\n\t\treturn unmarshalErr(v, \"\", \"missing data\")\n\t}\n\tvar multiplier uint = 1\n\tvar value uint\n\tfor _, encodedByte := range data {\n\t\tvalue += uint(encodedByte) & uint(127) * multiplier\n\t\tif multiplier > 128*128*128 {\n\t\t\treturn unmarshalErr(v, \"\", \"size exceeded\")\n\t\t}\n\t\tif encodedByte&128 == 0 {\n\t\t\t*v = vbint(value)\n\t\t\treturn nil\n\t\t}\n\t\tmultiplier = multiplier * 128\n\t}\n\treturn unmarshalErr(v, \"\", \"missing data\")\n}\n\n"}}},
		{Name: "shift-loop-encoder-threshold-127", Rule: "R15.6", Where: "(vbint).fill", Edits: []Edit{{"wiretypes.go", "func (v vbint) fill(data []byte, i int) int {\n\tx := v\n\tn := i\n\tfor {\n\t\tencodedByte := byte(x % 128)\n\t\tx = x / 128\n\t\tif x > 0 {\n\t\t\tencodedByte = encodedByte | 128\n\t\t}\n\t\tif i < len(data) {\n\t\t\tdata[i] = encodedByte\n\t\t}\n\t\ti++\n\t\tif x == 0 {\n\t\t\tbreak\n\t\t}\n\t}\n\treturn i - n\n}\n\nfunc (v vbint) width() int {\n\treturn v.fill(_LEN, 0)\n}\n\nfunc (v *vbint) ReadFrom(r io.Reader) (int64, error) {\n\tvar multiplier uint = 1\n\tvar value uint\n\tdata := make([]byte, 1)\n\tvar i int64\n\tfor {\n\t\tif _, err := io.ReadFull(r, data); err != nil {\n\t\t\treturn i, err\n\t\t}\n\t\ti++\n\t\tencodedByte := data[0]\n\t\tvalue += uint(encodedByte) & uint(127) * multiplier\n\t\tif multiplier > 128*128*128 {\n\t\t\treturn i, unmarshalErr(v, \"\", \"size exceeded\")\n\t\t}\n\t\tif encodedByte&128 == 0 {\n\t\t\tbreak\n\t\t}\n\t\tmultiplier = multiplier * 128\n\t}\n\t*v = vbint(value)\n\treturn i, nil\n}\n\n// UnmarshalBinary data, returns nil or *Malformed error\nfunc (v *vbint) UnmarshalBinary(data []byte) error {\n\tif len(data) == 0 {\n\t\treturn unmarshalErr(v, \"\", \"missing data\")\n\t}\n\tvar multiplier uint = 1\n\tvar value uint\n\tfor _, encodedByte := range data {\n\t\tvalue += uint(encodedByte) & uint(127) * multiplier\n\t\tif multiplier > 128*128*128 {\n\t\t\treturn unmarshalErr(v, \"\", \"size exceeded\")\n\t\t}\n\t\tif encodedByte&128 == 0 {\n\t\t\t*v = vbint(value)\n\t\t\treturn nil\n\t\t}\n\t\tmultiplier = multiplier * 128\n\t}\n\treturn unmarshalErr(v, \"\", \"missing data\")\n}\n\n", "func (v vbint) fill(data []byte, i int) int {\n\tn := i\n\tx := v\n\t// all but the last group have the continuation bit set\n\tfor ; x >= 127; x >>= 7 {\n\t\ti += putByte(data, i, byte(x&127)|128)\n\t}\n\ti += putByte(data, i, byte(x))\n\treturn i - n\n}\n\n// putByte sets data[i] if there is room for it and returns 1, ie. the\n// width of a byte.\nfunc putByte(data []byte, i int, b byte) int {\n\tif i < len(data) {\n\t\tdata[i] = b\n\t}\n\treturn 1\n}\n\n// width returns the number of 7-bit groups needed to encode v.\nfunc (v vbint) width() int {\n\tn := 1\n\tfor x := v; x >= 128; x >>= 7 {\n\t\tn++\n\t}\n\treturn n\n}\n\nfunc (v *vbint) ReadFrom(r io.Reader) (int64, error) {\n\tvar multiplier uint = 1\n\tvar value uint\n\tdata := make([]byte, 1)\n\tvar i int64\n\tfor {\n\t\tif _, err := io.ReadFull(r, data); err != nil {\n\t\t\treturn i, err\n\t\t}\n\t\ti++\n\t\tencodedByte := data[0]\n\t\tvalue += uint(encodedByte) & uint(127) * multiplier\n\t\tif multiplier > 128*128*128 {\n\t\t\treturn i, unmarshalErr(v, \"\", \"size exceeded\")\n\t\t}\n\t\tif encodedByte&128 == 0 {\n\t\t\tbreak\n\t\t}\n\t\tmultiplier = multiplier * 128\n\t}\n\t*v = vbint(value)\n\treturn i, nil\n}\n\n// UnmarshalBinary data, returns nil or *Malformed error\nfunc (v *vbint) UnmarshalBinary(data []byte) error {\n\tif len(data) == 0 {\n\t\treturn unmarshalErr(v, \"\", \"missing data\")\n\t}\n\tvar multiplier uint = 1\n\tvar value uint\n\tfor _, encodedByte := range data {\n\t\tvalue += uint(encodedByte) & uint(127) * multiplier\n\t\tif multiplier > 128*128*128 {\n\t\t\treturn unmarshalErr(v, \"\", \"size exceeded\")\n\t\t}\n\t\tif encodedByte&128 == 0 {\n\t\t\t*v = vbint(value)\n\t\t\treturn nil\n\t\t}\n\t\tmultiplier = multiplier * 128\n\t}\n\treturn unmarshalErr(v, \"\", \"missing data\")\n}\n\n"}}},
		{Name: "shift-loop-encoder-shifts-by-8", Rule: "R15.6", Where: "(vbint).fill", Edits: []Edit{{"wiretypes.go", "func (v vbint) fill(data []byte, i int) int {\n\tx := v\n\tn := i\n\tfor {\n\t\tencodedByte := byte(x % 128)\n\t\tx = x / 128\n\t\tif x > 0 {\n\t\t\tencodedByte = encodedByte | 128\n\t\t}\n\t\tif i < len(data) {\n\t\t\tdata[i] = encodedByte\n\t\t}\n\t\ti++\n\t\tif x == 0 {\n\t\t\tbreak\n\t\t}\n\t}\n\treturn i - n\n}\n\nfunc (v vbint) width() int {\n\treturn v.fill(_LEN, 0)\n}\n\nfunc (v *vbint) ReadFrom(r io.Reader) (int64, error) {\n\tvar multiplier uint = 1\n\tvar value uint\n\tdata := make([]byte, 1)\n\tvar i int64\n\tfor {\n\t\tif _, err := io.ReadFull(r, data); err != nil {\n\t\t\treturn i, err\n\t\t}\n\t\ti++\n\t\tencodedByte := data[0]\n\t\tvalue += uint(encodedByte) & uint(127) * multiplier\n\t\tif multiplier > 128*128*128 {\n\t\t\treturn i, unmarshalErr(v, \"\", \"size exceeded\")\n\t\t}\n\t\tif encodedByte&128 == 0 {\n\t\t\tbreak\n\t\t}\n\t\tmultiplier = multiplier * 128\n\t}\n\t*v = vbint(value)\n\treturn i, nil\n}\n\n// UnmarshalBinary data, returns nil or *Malformed error\nfunc (v *vbint) UnmarshalBinary(data []byte) error {\n\tif len(data) == 0 {\n\t\treturn unmarshalErr(v, \"\", \"missing data\")\n\t}\n\tvar multiplier uint = 1\n\tvar value uint\n\tfor _, encodedByte := range data {\n\t\tvalue += uint(encodedByte) & uint(127) * multiplier\n\t\tif multiplier > 128*128*128 {\n\t\t\treturn unmarshalErr(v, \"\", \"size exceeded\")\n\t\t}\n\t\tif encodedByte&128 == 0 {\n\t\t\t*v = vbint(value)\n\t\t\treturn nil\n\t\t}\n\t\tmultiplier = multiplier * 128\n\t}\n\treturn unmarshalErr(v, \"\", \"missing data\")\n}\n\n", "func (v vbint) fill(data []byte, i int) int {\n\tn := i\n\tx := v\n\t// all but the last group have the continuation bit set\n\tfor ; x >= 128; x >>= 8 {\n\t\ti += putByte(data, i, byte(x&127)|128)\n\t}\n\ti += putByte(data, i, byte(x))\n\treturn i - n\n}\n\n// putByte sets data[i] if there is room for it and returns 1, ie. the\n// width of a byte.\nfunc putByte(data []byte, i int, b byte) int {\n\tif i < len(data) {\n\t\tdata[i] = b\n\t}\n\treturn 1\n}\n\n// width returns the number of 7-bit groups needed to encode v.\nfunc (v vbint) width() int {\n\tn := 1\n\tfor x := v; x >= 128; x >>= 7 {\n\t\tn++\n\t}\n\treturn n\n}\n\nfunc (v *vbint) ReadFrom(r io.Reader) (int64, error) {\n\tvar multiplier uint = 1\n\tvar value uint\n\tdata := make([]byte, 1)\n\tvar i int64\n\tfor {\n\t\tif _, err := io.ReadFull(r, data); err != nil {\n\t\t\treturn i, err\n\t\t}\n\t\ti++\n\t\tencodedByte := data[0]\n\t\tvalue += uint(encodedByte) & uint(127) * multiplier\n\t\tif multiplier > 128*128*128 {\n\t\t\treturn i, unmarshalErr(v, \"\", \"size exceeded\")\n\t\t}\n\t\tif encodedByte&128 == 0 {\n\t\t\tbreak\n\t\t}\n\t\tmultiplier = multiplier * 128\n\t}\n\t*v = vbint(value)\n\treturn i, nil\n}\n\n// UnmarshalBinary data, returns nil or *Malformed error\nfunc (v *vbint) UnmarshalBinary(data []byte) error {\n\tif len(data) == 0 {\n\t\treturn unmarshalErr(v, \"\", \"missing data\")\n\t}\n\tvar multiplier uint = 1\n\tvar value uint\n\tfor _, encodedByte := range data {\n\t\tvalue += uint(encodedByte) & uint(127) * multiplier\n\t\tif multiplier > 128*128*128 {\n\t\t\treturn unmarshalErr(v, \"\", \"size exceeded\")\n\t\t}\n\t\tif encodedByte&128 == 0 {\n\t\t\t*v = vbint(value)\n\t\t\treturn nil\n\t\t}\n\t\tmultiplier = multiplier * 128\n\t}\n\treturn unmarshalErr(v, \"\", \"missing data\")\n}\n\n"}}},
		{Name: "shift-loop-width-counts-one-group-less-from-2-21", Rule: "R15.6", Where: "(vbint).fill", Edits: []Edit{{"wiretypes.go", "func (v vbint) fill(data []byte, i int) int {\n\tx := v\n\tn := i\n\tfor {\n\t\tencodedByte := byte(x % 128)\n\t\tx = x / 128\n\t\tif x > 0 {\n\t\t\tencodedByte = encodedByte | 128\n\t\t}\n\t\tif i < len(data) {\n\t\t\tdata[i] = encodedByte\n\t\t}\n\t\ti++\n\t\tif x == 0 {\n\t\t\tbreak\n\t\t}\n\t}\n\treturn i - n\n}\n\nfunc (v vbint) width() int {\n\treturn v.fill(_LEN, 0)\n}\n\nfunc (v *vbint) ReadFrom(r io.Reader) (int64, error) {\n\tvar multiplier uint = 1\n\tvar value uint\n\tdata := make([]byte, 1)\n\tvar i int64\n\tfor {\n\t\tif _, err := io.ReadFull(r, data); err != nil {\n\t\t\treturn i, err\n\t\t}\n\t\ti++\n\t\tencodedByte := data[0]\n\t\tvalue += uint(encodedByte) & uint(127) * multiplier\n\t\tif multiplier > 128*128*128 {\n\t\t\treturn i, unmarshalErr(v, \"\", \"size exceeded\")\n\t\t}\n\t\tif encodedByte&128 == 0 {\n\t\t\tbreak\n\t\t}\n\t\tmultiplier = multiplier * 128\n\t}\n\t*v = vbint(value)\n\treturn i, nil\n}\n\n// UnmarshalBinary data, returns nil or *Malformed error\nfunc (v *vbint) UnmarshalBinary(data []byte) error {\n\tif len(data) == 0 {\n\t\treturn unmarshalErr(v, \"\", \"missing data\")\n\t}\n\tvar multiplier uint = 1\n\tvar value uint\n\tfor _, encodedByte := range data {\n\t\tvalue += uint(encodedByte) & uint(127) * multiplier\n\t\tif multiplier > 128*128*128 {\n\t\t\treturn unmarshalErr(v, \"\", \"size exceeded\")\n\t\t}\n\t\tif encodedByte&128 == 0 {\n\t\t\t*v = vbint(value)\n\t\t\treturn nil\n\t\t}\n\t\tmultiplier = multiplier * 128\n\t}\n\treturn unmarshalErr(v, \"\", \"missing data\")\n}\n\n", "func (v vbint) fill(data []byte, i int) int {\n\tn := i\n\tx := v\n\t// all but the last group have the continuation bit set\n\tfor ; x >= 128; x >>= 7 {\n\t\ti += putByte(data, i, byte(x&127)|128)\n\t}\n\ti += putByte(data, i, byte(x))\n\treturn i - n\n}\n\n// putByte sets data[i] if there is room for it and returns 1, ie. the\n// width of a byte.\nfunc putByte(data []byte, i int, b byte) int {\n\tif i < len(data) {\n\t\tdata[i] = b\n\t}\n\treturn 1\n}\n\n// width returns the number of 7-bit groups needed to encode v.\nfunc (v vbint) width() int {\n\tn := 1\n\tfor x := v; x >= 128 && n < 3; x >>= 7 {\n\t\tn++\n\t}\n\treturn n\n}\n\nfunc (v *vbint) ReadFrom(r io.Reader) (int64, error) {\n\tvar multiplier uint = 1\n\tvar value uint\n\tdata := make([]byte, 1)\n\tvar i int64\n\tfor {\n\t\tif _, err := io.ReadFull(r, data); err != nil {\n\t\t\treturn i, err\n\t\t}\n\t\ti++\n\t\tencodedByte := data[0]\n\t\tvalue += uint(encodedByte) & uint(127) * multiplier\n\t\tif multiplier > 128*128*128 {\n\t\t\treturn i, unmarshalErr(v, \"\", \"size exceeded\")\n\t\t}\n\t\tif encodedByte&128 == 0 {\n\t\t\tbreak\n\t\t}\n\t\tmultiplier = multiplier * 128\n\t}\n\t*v = vbint(value)\n\treturn i, nil\n}\n\n// UnmarshalBinary data, returns nil or *Malformed error\nfunc (v *vbint) UnmarshalBinary(data []byte) error {\n\tif len(data) == 0 {\n\t\treturn unmarshalErr(v, \"\", \"missing data\")\n\t}\n\tvar multiplier uint = 1\n\tvar value uint\n\tfor _, encodedByte := range data {\n\t\tvalue += uint(encodedByte) & uint(127) * multiplier\n\t\tif multiplier > 128*128*128 {\n\t\t\treturn unmarshalErr(v, \"\", \"size exceeded\")\n\t\t}\n\t\tif encodedByte&128 == 0 {\n\t\t\t*v = vbint(value)\n\t\t\treturn nil\n\t\t}\n\t\tmultiplier = multiplier * 128\n\t}\n\treturn unmarshalErr(v, \"\", \"missing data\")\n}\n\n"}}},
		{Name: "state-machine-decoders", Silent: true, Edits: []Edit{{"wiretypes.go", "func (v vbint) fill(data []byte, i int) int {\n\tx := v\n\tn := i\n\tfor {\n\t\tencodedByte := byte(x % 128)\n\t\tx = x / 128\n\t\tif x > 0 {\n\t\t\tencodedByte = encodedByte | 128\n\t\t}\n\t\tif i < len(data) {\n\t\t\tdata[i] = encodedByte\n\t\t}\n\t\ti++\n\t\tif x == 0 {\n\t\t\tbreak\n\t\t}\n\t}\n\treturn i - n\n}\n\nfunc (v vbint) width() int {\n\treturn v.fill(_LEN, 0)\n}\n\nfunc (v *vbint) ReadFrom(r io.Reader) (int64, error) {\n\tvar multiplier uint = 1\n\tvar value uint\n\tdata := make([]byte, 1)\n\tvar i int64\n\tfor {\n\t\tif _, err := io.ReadFull(r, data); err != nil {\n\t\t\treturn i, err\n\t\t}\n\t\ti++\n\t\tencodedByte := data[0]\n\t\tvalue += uint(encodedByte) & uint(127) * multiplier\n\t\tif multiplier > 128*128*128 {\n\t\t\treturn i, unmarshalErr(v, \"\", \"size exceeded\")\n\t\t}\n\t\tif encodedByte&128 == 0 {\n\t\t\tbreak\n\t\t}\n\t\tmultiplier = multiplier * 128\n\t}\n\t*v = vbint(value)\n\treturn i, nil\n}\n\n// UnmarshalBinary data, returns nil or *Malformed error\nfunc (v *vbint) UnmarshalBinary(data []byte) error {\n\tif len(data) == 0 {\n\t\treturn unmarshalErr(v, \"\", \"missing data\")\n\t}\n\tvar multiplier uint = 1\n\tvar value uint\n\tfor _, encodedByte := range data {\n\t\tvalue += uint(encodedByte) & uint(127) * multiplier\n\t\tif multiplier > 128*128*128 {\n\t\t\treturn unmarshalErr(v, \"\", \"size exceeded\")\n\t\t}\n\t\tif encodedByte&128 == 0 {\n\t\t\t*v = vbint(value)\n\t\t\treturn nil\n\t\t}\n\t\tmultiplier = multiplier * 128\n\t}\n\treturn unmarshalErr(v, \"\", \"missing data\")\n}\n\n", "func (v vbint) fill(data []byte, i int) int {\n\tx := v\n\tn := i\n\tfor {\n\t\tencodedByte := byte(x % 128)\n\t\tx = x / 128\n\t\tif x > 0 {\n\t\t\tencodedByte = encodedByte | 128\n\t\t}\n\t\tif i < len(data) {\n\t\t\tdata[i] = encodedByte\n\t\t}\n\t\ti++\n\t\tif x == 0 {\n\t\t\tbreak\n\t\t}\n\t}\n\treturn i - n\n}\n\nfunc (v vbint) width() int {\n\treturn v.fill(_LEN, 0)\n}\n\nfunc (v *vbint) ReadFrom(r io.Reader) (int64, error) {\n\tdec := newVbintDecoder()\n\tdata := make([]byte, 1)\n\tvar n int64\n\tfor {\n\t\tif _, err := io.ReadFull(r, data); err != nil {\n\t\t\treturn n, err\n\t\t}\n\t\tn++\n\t\tlast, ok := dec.next(data[0])\n\t\tif !ok {\n\t\t\treturn n, unmarshalErr(v, \"\", \"size exceeded\")\n\t\t}\n\t\tif last {\n\t\t\t*v = vbint(dec.value)\n\t\t\treturn n, nil\n\t\t}\n\t}\n}\n\n// UnmarshalBinary data, returns nil or *Malformed error\nfunc (v *vbint) UnmarshalBinary(data []byte) error {\n\tdec := newVbintDecoder()\n\tfor _, encodedByte := range data {\n\t\tlast, ok := dec.next(encodedByte)\n\t\tif !ok {\n\t\t\treturn unmarshalErr(v, \"\", \"size exceeded\")\n\t\t}\n\t\tif last {\n\t\t\t*v = vbint(dec.value)\n\t\t\treturn nil\n\t\t}\n\t}\n\t// empty or ends with a continuation byte\n\treturn unmarshalErr(v, \"\", \"missing data\")\n}\n\n// vbintDecoder accumulates the bytes of a variable byte integer, least\n// significant group first.\ntype vbintDecoder struct {\n\tvalue      uint\n\tmultiplier uint\n}\n\nfunc newVbintDecoder() vbintDecoder {\n\treturn vbintDecoder{multiplier: 1}\n}\n\n// next consumes one encoded byte. last is true when the byte carries\n// no continuation bit, ie. value is complete. ok is false if the\n// byte is the fifth one, the encoding is limited to four bytes.\nfunc (d *vbintDecoder) next(encodedByte byte) (last, ok bool) {\n\tif d.multiplier > 128*128*128 {\n\t\treturn false, false\n\t}\n\td.value += (uint(encodedByte) & 127) * d.multiplier\n\td.multiplier *= 128\n\treturn encodedByte&128 == 0, true\n}\n\n"}}},
		{Name: "state-machine-guard-one-step-late", Rule: "R15.6", Where: "(*vbint).UnmarshalBinary", Edits: []Edit{{"wiretypes.go", "func (v vbint) fill(data []byte, i int) int {\n\tx := v\n\tn := i\n\tfor {\n\t\tencodedByte := byte(x % 128)\n\t\tx = x / 128\n\t\tif x > 0 {\n\t\t\tencodedByte = encodedByte | 128\n\t\t}\n\t\tif i < len(data) {\n\t\t\tdata[i] = encodedByte\n\t\t}\n\t\ti++\n\t\tif x == 0 {\n\t\t\tbreak\n\t\t}\n\t}\n\treturn i - n\n}\n\nfunc (v vbint) width() int {\n\treturn v.fill(_LEN, 0)\n}\n\nfunc (v *vbint) ReadFrom(r io.Reader) (int64, error) {\n\tvar multiplier uint = 1\n\tvar value uint\n\tdata := make([]byte, 1)\n\tvar i int64\n\tfor {\n\t\tif _, err := io.ReadFull(r, data); err != nil {\n\t\t\treturn i, err\n\t\t}\n\t\ti++\n\t\tencodedByte := data[0]\n\t\tvalue += uint(encodedByte) & uint(127) * multiplier\n\t\tif multiplier > 128*128*128 {\n\t\t\treturn i, unmarshalErr(v, \"\", \"size exceeded\")\n\t\t}\n\t\tif encodedByte&128 == 0 {\n\t\t\tbreak\n\t\t}\n\t\tmultiplier = multiplier * 128\n\t}\n\t*v = vbint(value)\n\treturn i, nil\n}\n\n// UnmarshalBinary data, returns nil or *Malformed error\nfunc (v *vbint) UnmarshalBinary(data []byte) error {\n\tif len(data) == 0 {\n\t\treturn unmarshalErr(v, \"\", \"missing data\")\n\t}\n\tvar multiplier uint = 1\n\tvar value uint\n\tfor _, encodedByte := range data {\n\t\tvalue += uint(encodedByte) & uint(127) * multiplier\n\t\tif multiplier > 128*128*128 {\n\t\t\treturn unmarshalErr(v, \"\", \"size exceeded\")\n\t\t}\n\t\tif encodedByte&128 == 0 {\n\t\t\t*v = vbint(value)\n\t\t\treturn nil\n\t\t}\n\t\tmultiplier = multiplier * 128\n\t}\n\treturn unmarshalErr(v, \"\", \"missing data\")\n}\n\n", "func (v vbint) fill(data []byte, i int) int {\n\tx := v\n\tn := i\n\tfor {\n\t\tencodedByte := byte(x % 128)\n\t\tx = x / 128\n\t\tif x > 0 {\n\t\t\tencodedByte = encodedByte | 128\n\t\t}\n\t\tif i < len(data) {\n\t\t\tdata[i] = encodedByte\n\t\t}\n\t\ti++\n\t\tif x == 0 {\n\t\t\tbreak\n\t\t}\n\t}\n\treturn i - n\n}\n\nfunc (v vbint) width() int {\n\treturn v.fill(_LEN, 0)\n}\n\nfunc (v *vbint) ReadFrom(r io.Reader) (int64, error) {\n\tdec := newVbintDecoder()\n\tdata := make([]byte, 1)\n\tvar n int64\n\tfor {\n\t\tif _, err := io.ReadFull(r, data); err != nil {\n\t\t\treturn n, err\n\t\t}\n\t\tn++\n\t\tlast, ok := dec.next(data[0])\n\t\tif !ok {\n\t\t\treturn n, unmarshalErr(v, \"\", \"size exceeded\")\n\t\t}\n\t\tif last {\n\t\t\t*v = vbint(dec.value)\n\t\t\treturn n, nil\n\t\t}\n\t}\n}\n\n// UnmarshalBinary data, returns nil or *Malformed error\nfunc (v *vbint) UnmarshalBinary(data []byte) error {\n\tdec := newVbintDecoder()\n\tfor _, encodedByte := range data {\n\t\tlast, ok := dec.next(encodedByte)\n\t\tif !ok {\n\t\t\treturn unmarshalErr(v, \"\", \"size exceeded\")\n\t\t}\n\t\tif last {\n\t\t\t*v = vbint(dec.value)\n\t\t\treturn nil\n\t\t}\n\t}\n\t// empty or ends with a continuation byte\n\treturn unmarshalErr(v, \"\", \"missing data\")\n}\n\n// vbintDecoder accumulates the bytes of a variable byte integer, least\n// significant group first.\ntype vbintDecoder struct {\n\tvalue      uint\n\tmultiplier uint\n}\n\nfunc newVbintDecoder() vbintDecoder {\n\treturn vbintDecoder{multiplier: 1}\n}\n\n// next consumes one encoded byte. last is true when the byte carries\n// no continuation bit, ie. value is complete. ok is false if the\n// byte is the fifth one, the encoding is limited to four bytes.\nfunc (d *vbintDecoder) next(encodedByte byte) (last, ok bool) {\n\tif d.multiplier > 128*128*128*128 {\n\t\treturn false, false\n\t}\n\td.value += (uint(encodedByte) & 127) * d.multiplier\n\td.multiplier *= 128\n\treturn encodedByte&128 == 0, true\n}\n\n"}}},
		{Name: "state-machine-mask-126", Rule: "R15.6", Where: "(*vbint).ReadFrom", Edits: []Edit{{"wiretypes.go", "func (v vbint) fill(data []byte, i int) int {\n\tx := v\n\tn := i\n\tfor {\n\t\tencodedByte := byte(x % 128)\n\t\tx = x / 128\n\t\tif x > 0 {\n\t\t\tencodedByte = encodedByte | 128\n\t\t}\n\t\tif i < len(data) {\n\t\t\tdata[i] = encodedByte\n\t\t}\n\t\ti++\n\t\tif x == 0 {\n\t\t\tbreak\n\t\t}\n\t}\n\treturn i - n\n}\n\nfunc (v vbint) width() int {\n\treturn v.fill(_LEN, 0)\n}\n\nfunc (v *vbint) ReadFrom(r io.Reader) (int64, error) {\n\tvar multiplier uint = 1\n\tvar value uint\n\tdata := make([]byte, 1)\n\tvar i int64\n\tfor {\n\t\tif _, err := io.ReadFull(r, data); err != nil {\n\t\t\treturn i, err\n\t\t}\n\t\ti++\n\t\tencodedByte := data[0]\n\t\tvalue += uint(encodedByte) & uint(127) * multiplier\n\t\tif multiplier > 128*128*128 {\n\t\t\treturn i, unmarshalErr(v, \"\", \"size exceeded\")\n\t\t}\n\t\tif encodedByte&128 == 0 {\n\t\t\tbreak\n\t\t}\n\t\tmultiplier = multiplier * 128\n\t}\n\t*v = vbint(value)\n\treturn i, nil\n}\n\n// UnmarshalBinary data, returns nil or *Malformed error\nfunc (v *vbint) UnmarshalBinary(data []byte) error {\n\tif len(data) == 0 {\n\t\treturn unmarshalErr(v, \"\", \"missing data\")\n\t}\n\tvar multiplier uint = 1\n\tvar value uint\n\tfor _, encodedByte := range data {\n\t\tvalue += uint(encodedByte) & uint(127) * multiplier\n\t\tif multiplier > 128*128*128 {\n\t\t\treturn unmarshalErr(v, \"\", \"size exceeded\")\n\t\t}\n\t\tif encodedByte&128 == 0 {\n\t\t\t*v = vbint(value)\n\t\t\treturn nil\n\t\t}\n\t\tmultiplier = multiplier * 128\n\t}\n\treturn unmarshalErr(v, \"\", \"missing data\")\n}\n\n", "func (v vbint) fill(data []byte, i int) int {\n\tx := v\n\tn := i\n\tfor {\n\t\tencodedByte := byte(x % 128)\n\t\tx = x / 128\n\t\tif x > 0 {\n\t\t\tencodedByte = encodedByte | 128\n\t\t}\n\t\tif i < len(data) {\n\t\t\tdata[i] = encodedByte\n\t\t}\n\t\ti++\n\t\tif x == 0 {\n\t\t\tbreak\n\t\t}\n\t}\n\treturn i - n\n}\n\nfunc (v vbint) width() int {\n\treturn v.fill(_LEN, 0)\n}\n\nfunc (v *vbint) ReadFrom(r io.Reader) (int64, error) {\n\tdec := newVbintDecoder()\n\tdata := make([]byte, 1)\n\tvar n int64\n\tfor {\n\t\tif _, err := io.ReadFull(r, data); err != nil {\n\t\t\treturn n, err\n\t\t}\n\t\tn++\n\t\tlast, ok := dec.next(data[0])\n\t\tif !ok {\n\t\t\treturn n, unmarshalErr(v, \"\", \"size exceeded\")\n\t\t}\n\t\tif last {\n\t\t\t*v = vbint(dec.value)\n\t\t\treturn n, nil\n\t\t}\n\t}\n}\n\n// UnmarshalBinary data, returns nil or *Malformed error\nfunc (v *vbint) UnmarshalBinary(data []byte) error {\n\tdec := newVbintDecoder()\n\tfor _, encodedByte := range data {\n\t\tlast, ok := dec.next(encodedByte)\n\t\tif !ok {\n\t\t\treturn unmarshalErr(v, \"\", \"size exceeded\")\n\t\t}\n\t\tif last {\n\t\t\t*v = vbint(dec.value)\n\t\t\treturn nil\n\t\t}\n\t}\n\t// empty or ends with a continuation byte\n\treturn unmarshalErr(v, \"\", \"missing data\")\n}\n\n// vbintDecoder accumulates the bytes of a variable byte integer, least\n// significant group first.\ntype vbintDecoder struct {\n\tvalue      uint\n\tmultiplier uint\n}\n\nfunc newVbintDecoder() vbintDecoder {\n\treturn vbintDecoder{multiplier: 1}\n}\n\n// next consumes one encoded byte. last is true when the byte carries\n// no continuation bit, ie. value is complete. ok is false if the\n// byte is the fifth one, the encoding is limited to four bytes.\nfunc (d *vbintDecoder) next(encodedByte byte) (last, ok bool) {\n\tif d.multiplier > 128*128*128 {\n\t\treturn false, false\n\t}\n\td.value += (uint(encodedByte) & 126) * d.multiplier\n\td.multiplier *= 128\n\treturn encodedByte&128 == 0, true\n}\n\n"}}},
		{Name: "state-machine-accepts-input-that-ends-on-a-continuation-byte", Rule: "R15.6", Where: "(*vbint).UnmarshalBinary", Edits: []Edit{{"wiretypes.go", "func (v vbint) fill(data []byte, i int) int {\n\tx := v\n\tn := i\n\tfor {\n\t\tencodedByte := byte(x % 128)\n\t\tx = x / 128\n\t\tif x > 0 {\n\t\t\tencodedByte = encodedByte | 128\n\t\t}\n\t\tif i < len(data) {\n\t\t\tdata[i] = encodedByte\n\t\t}\n\t\ti++\n\t\tif x == 0 {\n\t\t\tbreak\n\t\t}\n\t}\n\treturn i - n\n}\n\nfunc (v vbint) width() int {\n\treturn v.fill(_LEN, 0)\n}\n\nfunc (v *vbint) ReadFrom(r io.Reader) (int64, error) {\n\tvar multiplier uint = 1\n\tvar value uint\n\tdata := make([]byte, 1)\n\tvar i int64\n\tfor {\n\t\tif _, err := io.ReadFull(r, data); err != nil {\n\t\t\treturn i, err\n\t\t}\n\t\ti++\n\t\tencodedByte := data[0]\n\t\tvalue += uint(encodedByte) & uint(127) * multiplier\n\t\tif multiplier > 128*128*128 {\n\t\t\treturn i, unmarshalErr(v, \"\", \"size exceeded\")\n\t\t}\n\t\tif encodedByte&128 == 0 {\n\t\t\tbreak\n\t\t}\n\t\tmultiplier = multiplier * 128\n\t}\n\t*v = vbint(value)\n\treturn i, nil\n}\n\n// UnmarshalBinary data, returns nil or *Malformed error\nfunc (v *vbint) UnmarshalBinary(data []byte) error {\n\tif len(data) == 0 {\n\t\treturn unmarshalErr(v, \"\", \"missing data\")\n\t}\n\tvar multiplier uint = 1\n\tvar value uint\n\tfor _, encodedByte := range data {\n\t\tvalue += uint(encodedByte) & uint(127) * multiplier\n\t\tif multiplier > 128*128*128 {\n\t\t\treturn unmarshalErr(v, \"\", \"size exceeded\")\n\t\t}\n\t\tif encodedByte&128 == 0 {\n\t\t\t*v = vbint(value)\n\t\t\treturn nil\n\t\t}\n\t\tmultiplier = multiplier * 128\n\t}\n\treturn unmarshalErr(v, \"\", \"missing data\")\n}\n\n", "func (v vbint) fill(data []byte, i int) int {\n\tx := v\n\tn := i\n\tfor {\n\t\tencodedByte := byte(x % 128)\n\t\tx = x / 128\n\t\tif x > 0 {\n\t\t\tencodedByte = encodedByte | 128\n\t\t}\n\t\tif i < len(data) {\n\t\t\tdata[i] = encodedByte\n\t\t}\n\t\ti++\n\t\tif x == 0 {\n\t\t\tbreak\n\t\t}\n\t}\n\treturn i - n\n}\n\nfunc (v vbint) width() int {\n\treturn v.fill(_LEN, 0)\n}\n\nfunc (v *vbint) ReadFrom(r io.Reader) (int64, error) {\n\tdec := newVbintDecoder()\n\tdata := make([]byte, 1)\n\tvar n int64\n\tfor {\n\t\tif _, err := io.ReadFull(r, data); err != nil {\n\t\t\treturn n, err\n\t\t}\n\t\tn++\n\t\tlast, ok := dec.next(data[0])\n\t\tif !ok {\n\t\t\treturn n, unmarshalErr(v, \"\", \"size exceeded\")\n\t\t}\n\t\tif last {\n\t\t\t*v = vbint(dec.value)\n\t\t\treturn n, nil\n\t\t}\n\t}\n}\n\n// UnmarshalBinary data, returns nil or *Malformed error\nfunc (v *vbint) UnmarshalBinary(data []byte) error {\n\tdec := newVbintDecoder()\n\tfor _, encodedByte := range data {\n\t\tlast, ok := dec.next(encodedByte)\n\t\tif !ok {\n\t\t\treturn unmarshalErr(v, \"\", \"size exceeded\")\n\t\t}\n\t\tif last {\n\t\t\t*v = vbint(dec.value)\n\t\t\treturn nil\n\t\t}\n\t}\n\tif len(data) == 0 {\n\t\treturn unmarshalErr(v, \"\", \"missing data\")\n\t}\n\t*v = vbint(dec.value)\n\treturn nil\n}\n\n// vbintDecoder accumulates the bytes of a variable byte integer, least\n// significant group first.\ntype vbintDecoder struct {\n\tvalue      uint\n\tmultiplier uint\n}\n\nfunc newVbintDecoder() vbintDecoder {\n\treturn vbintDecoder{multiplier: 1}\n}\n\n// next consumes one encoded byte. last is true when the byte carries\n// no continuation bit, ie. value is complete. ok is false if the\n// byte is the fifth one, the encoding is limited to four bytes.\nfunc (d *vbintDecoder) next(encodedByte byte) (last, ok bool) {\n\tif d.multiplier > 128*128*128 {\n\t\treturn false, false\n\t}\n\td.value += (uint(encodedByte) & 127) * d.multiplier\n\td.multiplier *= 128\n\treturn encodedByte&128 == 0, true\n}\n\n"}}},
		{Name: "hand-unrolled-length-writer-next-to-the-codec", Rule: "R15.4", Where: "fillLength", Edits: []Edit{{"publish.go", "\ti += remainingLen.fill(b, i) // remaining length\n", "\ti += fillLength(b, i, int(remainingLen))\n"}, {"publish.go", "func (p *Publish) variableHeader(b []byte, i int) int {", "// fillLength writes n as a variable byte integer.\nfunc fillLength(b []byte, i int, n int) int {\n\tswitch {\n\tcase n < 128:\n\t\tif i < len(b) {\n\t\t\tb[i] = byte(n)\n\t\t}\n\t\treturn 1\n\tcase n < 16384:\n\t\tif i+1 < len(b) {\n\t\t\tb[i], b[i+1] = byte(n&127|128), byte(n>>7)\n\t\t}\n\t\treturn 2\n\tcase n < 2097152:\n\t\tif i+2 < len(b) {\n\t\t\tb[i], b[i+1], b[i+2] = byte(n&127|128), byte(n>>7&127|128), byte(n>>14)\n\t\t}\n\t\treturn 3\n\t}\n\tif i+3 < len(b) {\n\t\tb[i], b[i+1], b[i+2], b[i+3] = byte(n&127|128), byte(n>>7&127|128), byte(n>>14&127|128), byte(n>>24)\n\t}\n\treturn 4\n}\n\nfunc (p *Publish) variableHeader(b []byte, i int) int {"}}},
		{Name: "constants-rewritten", Silent: true, Edits: []Edit{{"wiretypes.go", "\tfor _, encodedByte := range data {\n\t\tvalue += uint(encodedByte) & uint(127) * multiplier", "\tfor _, encodedByte := range data {\n\t\tvalue += uint(encodedByte) & uint(0x7f) * multiplier"}, {"wiretypes.go", "\t\tmultiplier = multiplier * 128\n\t}\n\treturn unmarshalErr(v, \"\", \"missing data\")", "\t\tmultiplier = multiplier << 7\n\t}\n\treturn unmarshalErr(v, \"\", \"missing data\")"}}},
	}})
}

type vbiEncoder struct {
	fn      *ssa.Function
	radix   int64 // divisor
	lowMask int64 // mask of the bits emitted per byte
	contBit int64
	quot    *ssa.BinOp
	why     string
	contOK  bool
	contWhy string
}

// findVBIEncoder: a fill-family function with a divisive loop.
func (p *Prog) findVBIEncoder() *vbiEncoder {
	for _, fn := range p.AllFuncs() {
		if !isFillFamily(fn) || fn.Synthetic != "" {
			continue
		}
		for _, l := range AllLoops(fn) {
			lc, ok := p.geometricLoop(fn, l)
			if !ok || lc.Kind != "divisive" {
				continue
			}
			enc := &vbiEncoder{fn: fn}
			// the division
			for b := range l.Blocks {
				for _, ins := range b.Instrs {
					if bo, ok := ins.(*ssa.BinOp); ok && bo.Op == token.QUO {
						if k, isC := constInt(bo.Y); isC {
							if _, isPhi := bo.X.(*ssa.Phi); isPhi {
								enc.radix, enc.quot = k, bo
							}
						}
					}
				}
			}
			if enc.quot == nil {
				continue
			}
			xphi := enc.quot.X
			// the byte stored into the buffer
			var stored ssa.Value
			for b := range l.Blocks {
				for _, ins := range b.Instrs {
					if st, ok := ins.(*ssa.Store); ok {
						if _, isIA := st.Addr.(*ssa.IndexAddr); isIA {
							stored = st.Val
						}
					}
				}
			}
			if stored == nil {
				// the bytes may be written by a helper the loop calls: not the shape read off here — the evaluation
				// (R15.6) decides such an encoder
				continue
			}
			ph, isPhi := stored.(*ssa.Phi)
			var low, withCont ssa.Value
			var contBlock *ssa.BasicBlock
			if isPhi && len(ph.Edges) == 2 {
				for i, e := range ph.Edges {
					if bo, ok := e.(*ssa.BinOp); ok && bo.Op == token.OR {
						if k, isC := constInt(bo.Y); isC {
							withCont, enc.contBit = bo.X, k
							contBlock = ph.Block().Preds[i]
							continue
						}
					}
					low = e
				}
			} else {
				// unconditional form
				if bo, ok := stored.(*ssa.BinOp); ok && bo.Op == token.OR {
					if k, isC := constInt(bo.Y); isC {
						enc.contBit = k
						low = bo.X
						enc.contWhy = "the continuation bit is set unconditionally"
						// the other canonical form: every byte written inside the loop is followed by another one —
						// the loop runs exactly while the value is >= radix, and the last byte (value < radix) is
						// written after the loop without the bit
						if p.vbiTailForm(fn, l, enc) {
							enc.contOK = true
							enc.contWhy = ""
						}
					}
				} else {
					low = stored
					enc.contWhy = "no continuation bit is ever set"
				}
			}
			if low != nil && withCont != nil && low != withCont {
				enc.why = "the two variants of the emitted byte differ in more than the continuation bit"
				return enc
			}
			// low = conv(x % radix) or x & (radix-1)
			if x, m, ok := maskOf(stripConvs(low)); ok && x == xphi {
				enc.lowMask = m
			} else {
				enc.why = "the emitted byte is not (value mod radix)"
				return enc
			}
			// continuation ⇔ loop continues: both tests on the quotient
			if contBlock != nil {
				condOK := false
				for _, dc := range domConds(contBlock) {
					bo, ok := dc.cond.(*ssa.BinOp)
					if !ok || bo.X != ssa.Value(enc.quot) {
						continue
					}
					if k0, isC := constInt(bo.Y); isC && k0 == 0 {
						if (bo.Op == token.GTR || bo.Op == token.NEQ) && dc.truth || bo.Op == token.EQL && !dc.truth {
							condOK = true
						}
					}
				}
				// and the other edge (no continuation bit) is exactly the complementary case: the phi's other
				// predecessor is the block of that very test
				exitOK := false
				for _, e := range l.ExitEdges() {
					iff, ok := terminator(e.from).(*ssa.If)
					if !ok {
						continue
					}
					bo, ok := loopCondValue(l, iff.Cond).(*ssa.BinOp)
					if !ok || bo.X != ssa.Value(enc.quot) {
						continue
					}
					if k0, isC := constInt(bo.Y); isC && k0 == 0 {
						exitIdx := 1
						if bo.Op == token.EQL {
							exitIdx = 0
						} else if bo.Op != token.NEQ && bo.Op != token.GTR {
							continue
						}
						if e.from.Succs[exitIdx] == e.to {
							exitOK = true
						}
					}
				}
				switch {
				case !condOK:
					enc.contWhy = "the continuation bit is not set exactly when the quotient is non-zero"
				case !exitOK:
					enc.contWhy = "the loop is not left exactly when the quotient is zero"
				default:
					enc.contOK = true
				}
			}
			return enc
		}
	}
	return nil
}

func checkC15(p *Prog, c *Check) {
	c.Rule("R15.1", "constant consistency: the encoder divides by 128 and emits (value mod 128), the continuation bit is 128; both decoders mask with 127, multiply by 128 from 1, test continuation with 128 and leave with an error once the multiplier exceeds 128³ (a fifth byte) — all as MQTT v5.0 §1.5.5 specifies")
	c.Rule("R15.2", "sibling agreement: the streaming and the in-memory decoder have the same mask, radix, start, guard bound and guard strictness")
	c.Rule("R15.3", "encoder loop: the continuation bit is OR-ed in exactly when the quotient is non-zero, and the loop is left exactly when that same quotient is zero")
	c.Rule("R9.3", "both decoders keep the size guard on every cycle; only the exit on a byte without continuation bit reaches success (shared with C09)")
	c.Rule("R6.2", "the fixed header's remaining length is produced by the streaming decoder alone: header bytes are read one at a time, the cell holding the length is written only by that decoder, and the body size is that cell without arithmetic (shared with C06) — so the size guard and termination test of R9.3/R15.x cannot be bypassed by a second decoder")
	c.Rule("R6.3", "the streaming decoder consumes one byte per iteration and its successful exit tests the byte read in that iteration (shared with C06)")
	c.Rule("R15.5", "the in-memory path advances by width() of the decoded value inside the sequential reader's bounds check (C04 R4.0), width() being the encoder's dry run")
	c.Explanation = "The bijection on 0…268 435 455 and exact decoding are numerical facts about loop results and are not decided. Decided is what shows in the shape of the three routines: all radix/mask/bound constants are read off the SSA form (after normalising <<7, *128, %128, &127), compared with each other and with the specification's 7-bit groups and 4-byte maximum; the encoder's continuation logic and the decoders' guard and termination tests are checked as path conditions."
	c.Trusted = []string{"go/types + go/ssa (x/tools v0.29.0) faithful IR", "MQTT v5.0 §1.5.5: seven bits per byte, least significant group first, continuation bit 0x80, at most four bytes"}
	c.NotDecided = []string{"the numeric bijection / minimality over all 2^28 values and equality of decoded values (a runtime quantity; out of reach of a sound static argument here)", "agreement of the two decoders on every byte sequence beyond the shared constants and tests"}
	e, scope := p.decodeEffects()
	p.cache["specctx"] = e
	p.cache["spectag"] = "dec"
	defer func() { delete(p.cache, "specctx"); delete(p.cache, "spectag") }()
	// decoders
	type dec struct {
		fn *ssa.Function
		g  *geoLoop
		cm int64
	}
	var decs []dec
	for _, fn := range sortedFuncs(scope) {
		if len(fn.Params) == 0 {
			continue
		}
		var st *ssa.Store
		for _, b := range fn.Blocks {
			for _, ins := range b.Instrs {
				if s, ok := ins.(*ssa.Store); ok && s.Addr == ssa.Value(fn.Params[0]) {
					st = s
				}
			}
		}
		if st == nil {
			continue
		}
		var cands []ssa.Value
		if ph, ok := p.stripNonNarrowing(st.Val).(*ssa.Phi); ok {
			cands = ph.Edges
		} else {
			cands = []ssa.Value{st.Val}
		}
		for _, cv := range cands {
			g, _ := findGeoLoop(fn, cv)
			if g == nil {
				g, _ = findGeoLoopNoGuard(fn, cv)
			}
			if g == nil {
				continue
			}
			// continuation mask from the exit test
			var cm int64 = -1
			if lp := loopContaining(fn, g.AccNew.Block()); lp != nil {
				for b := range lp.Blocks {
					if iff, ok := terminator(b).(*ssa.If); ok {
						if bo, ok := iff.Cond.(*ssa.BinOp); ok && (bo.Op == token.EQL || bo.Op == token.NEQ) {
							if k0, isC := constInt(bo.Y); isC && k0 == 0 {
								if x, m, ok := maskOf(bo.X); ok && (stripConvs(x) == g.ByteVal) {
									cm = m
									if and, isAnd := bo.X.(*ssa.BinOp); isAnd && and.Op == token.AND {
										if k, isK := constInt(and.Y); isK {
											cm = k
										}
									}
								}
							}
						}
					}
				}
			}
			decs = append(decs, dec{fn, g, cm})
			break
		}
	}
	// R15.6: the codec's functions evaluated against the specification on boundary values and byte sequences
	c.Rule("R15.4", "every function of the fill family that stores into the output buffer itself is the encoder of a wire type: no second length/integer writer exists next to the variable byte integer's")
	c.Rule("R15.6", "encoder, width(), in-memory and streaming decoder of the variable byte integer type, evaluated in SSA form on boundary values (all up to 300, around 2^7/2^14/2^21/2^28, around every constant in the code, a spread over the range) and on byte sequences (their encodings with trailing bytes, all sequences of ≤ 4 bytes over {00,01,7f,80,81,ff}, five-byte continuations), give exactly what MQTT v5.0 §1.5.5 defines: bytes, widths, values, bytes consumed, rejections")
	evalOK := map[*ssa.Function]bool{}
	for _, name := range p.Pkg.Scope().Names() {
		tnm, ok := p.Pkg.Scope().Lookup(name).(*types.TypeName)
		if !ok || tnm.IsAlias() || p.wireKindOf(tnm.Type()) != "vbi" {
			continue
		}
		for fn, ok := range checkVBIByEvaluation(p, c, name) {
			evalOK[fn] = ok
		}
	}
	var evalDecs []*ssa.Function
	// every decoding method of a variable-byte-integer wire type must be among them: one that is not of the
	// recognised shape (accumulator starting at zero inside the function, stored on the successful exit) is judged
	// by the evaluation alone
	for _, name := range p.Pkg.Scope().Names() {
		tnm, ok := p.Pkg.Scope().Lookup(name).(*types.TypeName)
		if !ok || tnm.IsAlias() || p.wireKindOf(tnm.Type()) != "vbi" {
			continue
		}
		for _, mn := range []string{"UnmarshalBinary", "ReadFrom"} {
			fn := p.Method(name, mn)
			if fn == nil || fn.Blocks == nil || !scope[fn] {
				continue
			}
			found := false
			for _, d := range decs {
				if d.fn == fn {
					found = true
				}
			}
			if found {
				continue
			}
			if evalOK[fn] {
				evalDecs = append(evalDecs, fn)
				c.OK("R15.1", qname(fn), p.Pos(fn.Pos()), "decoder of the variable byte integer type "+name+", not of the multiplier-accumulator shape: decided by evaluation (R15.6)")
				continue
			}
			why := "no accumulator that starts at zero inside the function, grows by (byte & mask) × multiplier per byte and is stored into the receiver on the successful exit"
			for _, b := range fn.Blocks {
				for _, ins := range b.Instrs {
					if s, ok := ins.(*ssa.Store); ok && s.Addr == ssa.Value(fn.Params[0]) {
						if bo, ok := p.stripNonNarrowing(s.Val).(*ssa.BinOp); ok && (bo.Op == token.ADD || bo.Op == token.OR) {
							for _, op := range []ssa.Value{bo.X, bo.Y} {
								if ld, ok := p.stripNonNarrowing(op).(*ssa.UnOp); ok && ld.Op == token.MUL && ld.X == ssa.Value(fn.Params[0]) {
									why = "the receiver cell itself is the accumulator (" + posOf(p, s) + "): the decoded value is added to whatever the receiver held before the call, so decoding into a variable that is not zero gives another value than the bytes encode"
								}
							}
						}
					}
				}
			}
			c.Bad("R15.1", qname(fn), p.Pos(fn.Pos()), "decoder of the variable byte integer type "+name+": "+why)
		}
	}
	c.Measured["vbi_decoders"] = len(decs) + len(evalDecs)
	c.Floor("variable-byte-integer decoders", len(decs)+len(evalDecs), 2, "streaming and in-memory")
	const R, M, CONT = 128, 127, 128
	const B = 128 * 128 * 128
	for _, d := range decs {
		c.Fn(qname(d.fn))
		cons := qname(d.fn)
		pos := posOf(p, d.g.AccNew)
		var bad []string
		if d.g.M != M {
			bad = append(bad, fmt.Sprintf("payload mask %d (want %d)", d.g.M, M))
		}
		if d.g.R != R {
			bad = append(bad, fmt.Sprintf("multiplier step %d (want %d)", d.g.R, R))
		}
		if d.g.C0 != 1 && d.g.Guard != nil {
			bad = append(bad, fmt.Sprintf("multiplier starts at %d (want 1)", d.g.C0))
		}
		if d.g.Guard == nil {
			bad = append(bad, "no size guard")
		} else if d.g.B != B {
			bad = append(bad, fmt.Sprintf("guard leaves when the multiplier exceeds %d (want %d = 128³: the fifth byte)", d.g.B, B))
		}
		if d.cm != CONT {
			bad = append(bad, fmt.Sprintf("continuation test mask %d (want %d)", d.cm, CONT))
		}
		if len(bad) > 0 {
			c.Bad("R15.1", cons, pos, fmt.Sprint(bad))
		} else {
			c.OK("R15.1", cons, pos, "value += (byte & 127)·m, m ← m·128 from 1, error once m > 128³, stop on byte & 128 == 0")
		}
		checkVBIDecoder(p, c, d.fn)
	}
	if len(decs) >= 2 {
		a, b := decs[0].g, decs[1].g
		same := a.M == b.M && a.R == b.R && a.C0 == b.C0 && a.B == b.B && (a.Guard != nil) == (b.Guard != nil) && decs[0].cm == decs[1].cm
		if same {
			c.OK("R15.2", "decoders", "-", fmt.Sprintf("%s and %s use identical mask, radix, start, guard and continuation test", qname(decs[0].fn), qname(decs[1].fn)))
		} else {
			c.Bad("R15.2", "decoders", "-", fmt.Sprintf("%s: mask %d radix %d bound %d cont %d; %s: mask %d radix %d bound %d cont %d", qname(decs[0].fn), a.M, a.R, a.B, decs[0].cm, qname(decs[1].fn), b.M, b.R, b.B, decs[1].cm))
		}
	}
	if len(decs) < 2 && len(decs)+len(evalDecs) >= 2 {
		c.OK("R15.2", "decoders", "-", "both decoders agree with the specification, hence with each other, on every evaluated byte sequence (R15.6)")
	}
	for _, fn := range evalDecs {
		if fn.Name() == "ReadFrom" {
			c.OK("R6.3", qname(fn)+"#lengthloop", p.Pos(fn.Pos()), "by evaluation (R15.6): the streaming decoder takes exactly the bytes of the integer from the stream and reports that count")
		}
	}
	// encoder
	enc := p.findVBIEncoder()
	var evalEnc *ssa.Function
	if enc == nil {
		for fn, ok := range evalOK {
			if ok && fn != nil && fn.Name() == "fill" {
				evalEnc = fn
			}
		}
	}
	if enc == nil && evalEnc != nil {
		c.OK("R15.1", "encoder "+qname(evalEnc), p.Pos(evalEnc.Pos()), "not of the mod/div shape: decided by evaluation (R15.6)")
		c.OK("R15.3", "encoder "+qname(evalEnc), p.Pos(evalEnc.Pos()), "continuation bit on all but the last byte on every evaluated value (R15.6)")
	} else if enc == nil {
		c.Unk("R15.1", "encoder", "-", "no encoder with a divisive loop found")
	} else {
		c.Fn(qname(enc.fn))
		cons := "encoder " + qname(enc.fn)
		pos := posOf(p, enc.quot)
		switch {
		case enc.why != "":
			c.Bad("R15.1", cons, pos, enc.why)
		case enc.radix != R || enc.lowMask != M || enc.contBit != CONT:
			c.Bad("R15.1", cons, pos, fmt.Sprintf("divides by %d, emits value & %d, continuation bit %d (want 128, 127, 128)", enc.radix, enc.lowMask, enc.contBit))
		default:
			c.OK("R15.1", cons, pos, "emits (value mod 128), continues with value / 128, continuation bit 128")
		}
		if enc.contOK {
			c.OK("R15.3", cons, pos, "continuation bit set ⇔ quotient != 0 ⇔ the loop continues")
		} else if enc.why == "" {
			c.Bad("R15.3", cons, pos, enc.contWhy)
		}
	}
	// R15.4: on the encode side the bytes of a frame are written by the wire types' own encoders only — a function
	// of the fill family that stores into its buffer without being a method of a wire type would be a second
	// encoder next to the variable byte integer's (a hand-unrolled length writer), outside everything above
	{
		nw := 0
		for _, fn := range p.AllFuncs() {
			if !isFillFamily(fn) || fn.Synthetic != "" || !p.inMQ(fn) || len(fn.Blocks) == 0 {
				continue
			}
			buf, _, _, _ := emissionsOf(p, fn)
			if buf == nil || !writesBufferDirectly(fn, buf) {
				continue
			}
			nw++
			kind := ""
			if fn.Signature.Recv() != nil {
				kind = p.wireKindOf(fn.Signature.Recv().Type())
				if kind == "" {
					if pt, ok := fn.Signature.Recv().Type().Underlying().(*types.Pointer); ok {
						kind = p.wireKindOf(pt.Elem())
					}
				}
			}
			if kind == "" && calledOnlyFromWireEncoders(p, fn, 0) {
				continue // a helper of a wire type's encoder (`putByte(data, i, b)`): judged with that encoder
			}
			if _, ok := p.bulkListWriter(fn); kind == "" && ok {
				continue // a verbatim copy of a byte list, complete under its guard: no integer is encoded here
			}
			if kind == "" {
				c.Unk("R15.4", qname(fn), p.Pos(fn.Pos()), "a function that is not the encoder of a wire type writes bytes of the frame itself: lengths and integers written here bypass the variable byte integer's encoder (R15.1, R15.3, R15.6 say nothing about them)")
			}
		}
		if nw > 0 {
			c.OK("R15.4", "encoders writing the buffer", "-", fmt.Sprintf("%d function(s) store into the output buffer; every one not reported above is a wire type's own encoder", nw))
		}
		c.Floor("encoders that write the buffer themselves", nw, 5, "byte, two-byte, four-byte, variable byte integer, length-prefixed data at least")
	}
	// R6.3 for the streaming decoder
	for _, d := range decs {
		for _, u := range p.ReaderUses(d.fn) {
			if u.Kind == FullRead {
				if lp := loopContaining(d.fn, u.Ins.Block()); lp != nil {
					checkLengthLoop(p, c, u, lp)
				}
			}
		}
	}
	// R6.2 (shared with C06): the remaining length of the fixed header comes from the streaming decoder alone
	{
		sc := NewCheck("C15", p)
		checkC06(p, sc)
		n := 0
		for _, o := range sc.Obls {
			if o.Rule != "R6.2" {
				continue
			}
			n++
			c.add("R6.2", o.Construct, o.Pos, o.Status, o.Detail)
		}
		if n == 0 {
			c.Unk("R6.2", "remaining length cell", "-", "no obligation about the fixed header's length cell was generated")
		}
	}
	// R15.5
	cur := p.Cursor()
	if cur.G != nil && cur.Width != nil && enc == nil && evalEnc != nil {
		if nt := namedOf(evalEnc.Signature.Recv().Type()); nt != nil && evalOK[p.Method(nt.Obj().Name(), "width")] {
			c.OK("R15.5", "advance", posOf(p, cur.Width), "the sequential reader advances by width(), which is the length of the encoding on every evaluated value (R15.6)")
		} else {
			c.Unk("R15.5", "advance", posOf(p, cur.Width), "width() of the variable byte integer was not evaluated")
		}
	}
	if cur.G != nil && cur.Width != nil && enc != nil {
		// width() of the vbint type is the encoder's dry run
		okW := false
		if nt := namedOf(enc.fn.Signature.Recv().Type()); nt != nil {
			if w := p.Method(nt.Obj().Name(), "width"); w != nil && len(w.Blocks) == 1 {
				if ret, ok := terminator(w.Blocks[0]).(*ssa.Return); ok {
					if f, _, ok := p.dryRunCallValue(ret.Results[0]); ok && f == enc.fn {
						okW = true
					}
				}
			}
		}
		if okW {
			c.OK("R15.5", "advance", posOf(p, cur.Width), "the sequential reader advances by width() = the encoder's dry-run length of the decoded value, inside its bounds check")
		} else {
			c.Unk("R15.5", "advance", posOf(p, cur.Width), "width() of the variable byte integer is not the encoder's dry run")
		}
	}
	_ = types.Typ
}

// calledOnlyFromWireEncoders: every call site of fn lies in a method of a wire type (or in a helper for which
// the same holds).
func calledOnlyFromWireEncoders(p *Prog, fn *ssa.Function, depth int) bool {
	if depth > 3 {
		return false
	}
	n := 0
	for _, cf := range p.AllFuncs() {
		for _, ci := range p.Calls(cf) {
			for _, cal := range ci.Callees {
				if cal != fn {
					continue
				}
				n++
				kind := ""
				if cf.Signature.Recv() != nil {
					kind = p.wireKindOf(cf.Signature.Recv().Type())
					if kind == "" {
						if pt, ok := cf.Signature.Recv().Type().Underlying().(*types.Pointer); ok {
							kind = p.wireKindOf(pt.Elem())
						}
					}
				}
				if kind == "" && !(cf != fn && isFillFamily(cf) && calledOnlyFromWireEncoders(p, cf, depth+1)) {
					return false
				}
			}
		}
	}
	return n > 0
}

// dryRunCallValue: v is F(x, <nil slice>, 0) for a fill-family F with a value receiver.
func (p *Prog) dryRunCallValue(v ssa.Value) (*ssa.Function, ssa.Value, bool) {
	call, ok := v.(*ssa.Call)
	if !ok {
		return nil, nil, false
	}
	sc := call.Call.StaticCallee()
	if sc == nil || !isFillFamily(sc) || len(call.Call.Args) < 3 {
		return nil, nil, false
	}
	if k, isC := constInt(call.Call.Args[2]); isC && k == 0 && p.isNilSliceLoad(call.Call.Args[1]) {
		return sc, call.Call.Args[0], true
	}
	return nil, nil, false
}

// vbiTailForm: `for ; x >= R; x /= R { emit(x%R | C) }; emit(x)` — the loop is entered/continued exactly while
// the running value is at least the radix (so a byte written in the loop is never the last one), it is left on
// that test only, and exactly one byte, the running value itself (< R, possibly masked with R-1), is stored after it.
func (p *Prog) vbiTailForm(fn *ssa.Function, l *Loop, enc *vbiEncoder) bool {
	xphi, ok := enc.quot.X.(*ssa.Phi)
	if !ok {
		return false
	}
	exits := l.ExitEdges()
	if len(exits) != 1 {
		return false
	}
	iff, ok := terminator(exits[0].from).(*ssa.If)
	if !ok {
		return false
	}
	bo, ok := iff.Cond.(*ssa.BinOp)
	if !ok || bo.X != ssa.Value(xphi) {
		return false
	}
	K, isC := constInt(bo.Y)
	if !isC {
		return false
	}
	exitIdx := 1
	if exits[0].from.Succs[0] == exits[0].to {
		exitIdx = 0
	}
	switch {
	case bo.Op == token.GEQ && exitIdx == 1 && K == enc.radix: // continue while x >= R
	case bo.Op == token.GTR && exitIdx == 1 && K == enc.radix-1: // continue while x > R-1
	case bo.Op == token.LSS && exitIdx == 0 && K == enc.radix: // leave when x < R
	case bo.Op == token.LEQ && exitIdx == 0 && K == enc.radix-1:
	default:
		return false
	}
	// exactly one byte store outside the loop, dominated by the exit, of the running value
	n := 0
	okTail := false
	for _, b := range fn.Blocks {
		if l.Blocks[b] {
			continue
		}
		for _, ins := range b.Instrs {
			st, ok := ins.(*ssa.Store)
			if !ok {
				continue
			}
			if _, isIA := st.Addr.(*ssa.IndexAddr); !isIA {
				continue
			}
			n++
			v := stripConvs(st.Val)
			if v == ssa.Value(xphi) {
				okTail = exits[0].to.Dominates(b)
			} else if x, m, isM := maskOf(v); isM && x == ssa.Value(xphi) && m == enc.radix-1 {
				okTail = exits[0].to.Dominates(b)
			}
		}
	}
	return n == 1 && okTail
}
