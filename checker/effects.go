package main

// E1 — write-effect and provenance analysis.
//
// Per function, bottom-up over the (acyclic) call graph of package mq:
// every pointer-like SSA value gets a set of provenances; stores, map updates,
// copy/append destinations and calls of known external writers are recorded as
// effects on those provenances; values stored into non-fresh memory are
// recorded as retention edges; results carry their provenance to the caller.

import (
	"fmt"
	"go/constant"
	"go/types"
	"os"
	"sort"
	"strings"
	"time"

	"golang.org/x/tools/go/ssa"
)

type PKind int

const (
	PFresh   PKind = iota // allocated during this activation (site V)
	PParam                // memory the value of parameter Idx points to directly
	PParamR               // memory reachable from parameter Idx through >= 1 loads
	PFree                 // the captured cell of free variable Idx
	PFreeR                // memory reachable from it
	PGlobal               // the variable cell of package-level variable V
	PGlobalV              // memory reachable from the value held in global V
	PUnknown
)

type Prov struct {
	Kind PKind
	Idx  int
	V    ssa.Value // Fresh: allocating instruction (or call for returned objects); Global*: the *ssa.Global
	F    int       // Fresh/Param: 1 + index of the struct field addressed inside the object, 0 = the whole object
}

func (p Prov) whole() Prov { p.F = 0; return p }

// withF selects field F inside the object p denotes, when p denotes a whole object.
func (p Prov) withF(F int) Prov {
	if F > 0 && p.F == 0 && (p.Kind == PFresh || p.Kind == PParam || p.Kind == PFree) {
		p.F = F
	}
	return p
}

func (s PSet) withF(F int) PSet {
	if F == 0 {
		return s
	}
	out := PSet{}
	for p := range s {
		out.add(p.withF(F))
	}
	return out
}

func (p Prov) String() string {
	switch p.Kind {
	case PFresh:
		if p.F > 0 {
			return fmt.Sprintf("fresh(%s).f%d", p.V.Name(), p.F-1)
		}
		return "fresh(" + p.V.Name() + ")"
	case PParam:
		if p.F > 0 {
			return fmt.Sprintf("param%d.f%d", p.Idx, p.F-1)
		}
		return fmt.Sprintf("param%d", p.Idx)
	case PParamR:
		if p.F > 0 {
			return fmt.Sprintf("param%d.f%d→*", p.Idx, p.F-1)
		}
		return fmt.Sprintf("param%d→*", p.Idx)
	case PFree:
		return fmt.Sprintf("free%d.f%d", p.Idx, p.F-1)
	case PFreeR:
		return fmt.Sprintf("free%d.f%d→*", p.Idx, p.F-1)
	case PGlobal:
		return "global " + p.V.Name()
	case PGlobalV:
		return "storage of global " + p.V.Name()
	}
	return "unknown"
}

type PSet map[Prov]bool

func (s PSet) add(p Prov) bool {
	if s[p] {
		return false
	}
	s[p] = true
	return true
}
func (s PSet) addAll(o PSet) bool {
	ch := false
	for p := range o {
		if s.add(p) {
			ch = true
		}
	}
	return ch
}
func (s PSet) String() string {
	var xs []string
	for p := range s {
		xs = append(xs, p.String())
	}
	sort.Strings(xs)
	return "{" + strings.Join(xs, ", ") + "}"
}
func (s PSet) onlyFresh() bool {
	for p := range s {
		if p.Kind != PFresh {
			return false
		}
	}
	return true
}

// EffKind classifies a write.
type EffKind int

const (
	EStore   EffKind = iota // *addr = v  (field/deref store)
	EElem                   // element store through IndexAddr
	EMap                    // map update / delete
	ECopy                   // copy destination
	EAppend                 // append base (in-place growth)
	EWriter                 // Write on an io.Writer (directly or through fmt.Fprint*)
	EReader                 // Read on an io.Reader
	EExtern                 // known external writer (PutUint16, Builder.WriteString, io.ReadFull buffer …)
	EUnknown                // call whose effects are not modelled
	ESend                   // channel send/close
)

func (k EffKind) String() string {
	return [...]string{"store", "element store", "map update", "copy destination", "append (in place)", "writer.Write", "reader.Read", "external writer", "unmodelled call", "channel op"}[k]
}

type Effect struct {
	Target Prov
	Kind   EffKind
	Ins    ssa.Instruction   // innermost instruction performing the write
	Chain  []ssa.Instruction // call sites from the summarised function down to Ins' function
	Note   string
	Field  string // "T.f" when the address is a field of a struct (innermost)
}

type Retain struct {
	Val   Prov
	Into  Prov
	Ins   ssa.Instruction
	Chain []ssa.Instruction
}

type Summary struct {
	Fn        *ssa.Function
	Writes    []Effect
	Retains   []Retain
	Results   []PSet      // caller-visible provenance of each result (Fresh objects are PFresh with V = the allocation in the callee)
	Contents  *contentMap // contents of fresh objects that may be returned/retained (callee-side), for translation
	Recursive bool
}

// Effects is the analysis context for one scope (set of functions used for
// constant-parameter specialisation).
type Effects struct {
	p           *Prog
	scope       map[*ssa.Function]bool // nil = whole package
	sums        map[*ssa.Function]*Summary
	active      map[*ssa.Function]bool
	nilGlobals  map[*ssa.Global]bool
	callSitesOf map[*ssa.Function][]ssa.CallInstruction
	Dead        map[*ssa.Function]map[*ssa.BasicBlock]bool
	states      map[*ssa.Function]*fnState
	DeadEdges   map[*ssa.Function]map[[2]*ssa.BasicBlock]bool
}

func NewEffects(p *Prog, scope map[*ssa.Function]bool) *Effects {
	e := &Effects{p: p, scope: scope, sums: map[*ssa.Function]*Summary{}, active: map[*ssa.Function]bool{},
		nilGlobals: map[*ssa.Global]bool{}, callSitesOf: map[*ssa.Function][]ssa.CallInstruction{}, Dead: map[*ssa.Function]map[*ssa.BasicBlock]bool{}}
	// globals that are never stored to and whose address never escapes hold
	// their zero value forever
	for _, m := range p.SSA.Members {
		g, ok := m.(*ssa.Global)
		if !ok {
			continue
		}
		e.nilGlobals[g] = true
	}
	for _, fn := range p.AllFuncs() {
		for _, b := range fn.Blocks {
			for _, ins := range b.Instrs {
				for _, op := range ins.Operands(nil) {
					g, ok := (*op).(*ssa.Global)
					if !ok {
						continue
					}
					if ld, ok := ins.(*ssa.UnOp); ok && ld.Op.String() == "*" {
						continue
					}
					e.nilGlobals[g] = false
				}
			}
		}
		if scope != nil && !scope[fn] {
			continue
		}
		for _, ci := range p.Calls(fn) {
			for _, cal := range ci.Callees {
				e.callSitesOf[cal] = append(e.callSitesOf[cal], ci.Site)
			}
		}
	}
	return e
}

func pointerLike(t types.Type) bool { return pointerLikeD(t, 0) }
func pointerLikeD(t types.Type, d int) bool {
	if d > 8 {
		return true
	}
	switch u := t.Underlying().(type) {
	case *types.Pointer, *types.Slice, *types.Map, *types.Chan, *types.Signature, *types.Interface:
		return true
	case *types.Basic:
		return u.Kind() == types.UnsafePointer
	case *types.Struct:
		for i := 0; i < u.NumFields(); i++ {
			if pointerLikeD(u.Field(i).Type(), d+1) {
				return true
			}
		}
	case *types.Array:
		return pointerLikeD(u.Elem(), d+1)
	case *types.Tuple:
		for i := 0; i < u.Len(); i++ {
			if pointerLikeD(u.At(i).Type(), d+1) {
				return true
			}
		}
	}
	return false
}

// ---------- constant boolean parameters (specialisation) ----------

func (e *Effects) constBool(v ssa.Value, depth int) (bool, bool) {
	if depth > 6 {
		return false, false
	}
	switch x := v.(type) {
	case *ssa.Const:
		if x.Value != nil && x.Value.Kind() == constant.Bool {
			return constant.BoolVal(x.Value), true
		}
	case *ssa.Parameter:
		fn := x.Parent()
		idx := paramIndex(fn, x)
		sites := e.callSitesOf[fn]
		if len(sites) == 0 {
			return false, false
		}
		// an exported function may be called from outside with any value
		if fn.Parent() == nil && fn.Object() != nil && fn.Object().Exported() {
			return false, false
		}
		var val, have bool
		for _, s := range sites {
			args := s.Common().Args
			if s.Common().IsInvoke() || idx >= len(args) {
				return false, false
			}
			b, ok := e.constBool(args[idx], depth+1)
			if !ok {
				return false, false
			}
			if have && b != val {
				return false, false
			}
			val, have = b, true
		}
		return val, have
	case *ssa.UnOp:
		if x.Op.String() != "*" {
			return false, false
		}
		cell := x.X
		if fv, ok := cell.(*ssa.FreeVar); ok {
			fn := fv.Parent()
			k := -1
			for i, f := range fn.FreeVars {
				if f == fv {
					k = i
				}
			}
			par := fn.Parent()
			if par == nil || k < 0 {
				return false, false
			}
			var val, have bool
			found := false
			for _, b := range par.Blocks {
				for _, ins := range b.Instrs {
					mc, ok := ins.(*ssa.MakeClosure)
					if !ok || mc.Fn != ssa.Value(fn) {
						continue
					}
					found = true
					bv, ok := e.cellConst(mc.Bindings[k], depth+1)
					if !ok || (have && bv != val) {
						return false, false
					}
					val, have = bv, true
				}
			}
			return val, found && have
		}
		return e.cellConst(cell, depth+1)
	}
	return false, false
}

// cellConst: cell is an Alloc written exactly once, with a constant boolean.
func (e *Effects) cellConst(cell ssa.Value, depth int) (bool, bool) {
	al, ok := cell.(*ssa.Alloc)
	if !ok {
		return false, false
	}
	var stored ssa.Value
	for _, r := range *al.Referrers() {
		switch x := r.(type) {
		case *ssa.Store:
			if x.Addr != ssa.Value(al) || stored != nil {
				return false, false
			}
			stored = x.Val
		case *ssa.MakeClosure:
			// the closure shares the cell: a store it makes through its free variable (or hands on to a nested
			// closure) is a second write
			if !freeVarReadOnly(x, al, 0) {
				return false, false
			}
		case *ssa.UnOp, *ssa.DebugRef:
		default:
			return false, false
		}
	}
	if stored == nil {
		return false, false
	}
	return e.constBool(stored, depth+1)
}

// freeVarReadOnly: the closure made by mc only loads the cell it captures as `cell` (also in closures nested in it).
func freeVarReadOnly(mc *ssa.MakeClosure, cell ssa.Value, depth int) bool {
	cf, ok := mc.Fn.(*ssa.Function)
	if !ok || depth > 4 {
		return false
	}
	for i, bnd := range mc.Bindings {
		if bnd != cell || i >= len(cf.FreeVars) {
			continue
		}
		fv := cf.FreeVars[i]
		if fv.Referrers() == nil {
			continue
		}
		for _, r := range *fv.Referrers() {
			switch x := r.(type) {
			case *ssa.UnOp, *ssa.DebugRef:
			case *ssa.MakeClosure:
				if !freeVarReadOnly(x, fv, depth+1) {
					return false
				}
			default:
				_ = x
				return false
			}
		}
	}
	return true
}

// deadBlocks: blocks unreachable once conditions with a known constant value
// are folded.
func (e *Effects) deadBlocks(fn *ssa.Function) map[*ssa.BasicBlock]bool {
	if d, ok := e.Dead[fn]; ok {
		return d
	}
	live := map[*ssa.BasicBlock]bool{}
	var walk func(b *ssa.BasicBlock)
	walk = func(b *ssa.BasicBlock) {
		if live[b] {
			return
		}
		live[b] = true
		if iff, ok := terminator(b).(*ssa.If); ok {
			if v, ok := e.constBool(iff.Cond, 0); ok {
				if e.DeadEdges == nil {
					e.DeadEdges = map[*ssa.Function]map[[2]*ssa.BasicBlock]bool{}
				}
				if e.DeadEdges[fn] == nil {
					e.DeadEdges[fn] = map[[2]*ssa.BasicBlock]bool{}
				}
				if v {
					e.DeadEdges[fn][[2]*ssa.BasicBlock{b, b.Succs[1]}] = true
					walk(b.Succs[0])
				} else {
					e.DeadEdges[fn][[2]*ssa.BasicBlock{b, b.Succs[0]}] = true
					walk(b.Succs[1])
				}
				return
			}
		}
		for _, s := range b.Succs {
			walk(s)
		}
	}
	if len(fn.Blocks) > 0 {
		walk(fn.Blocks[0])
	}
	dead := map[*ssa.BasicBlock]bool{}
	for _, b := range fn.Blocks {
		if !live[b] {
			dead[b] = true
		}
	}
	e.Dead[fn] = dead
	return dead
}

// ---------- per-function analysis ----------

type fnState struct {
	e         *Effects
	fn        *ssa.Function
	prov      map[ssa.Value]PSet
	contents  *contentMap
	sum       *Summary
	callInfo  map[ssa.CallInstruction]*CallInfo
	reachMemo map[Prov]PSet
	reachVer  int
	changed   bool
	fwd       map[*ssa.UnOp]ssa.Value // store-to-load forwarding
	tupleRes  map[ssa.Value][]PSet
}

func (e *Effects) Summary(fn *ssa.Function) *Summary {
	if s, ok := e.sums[fn]; ok {
		return s
	}
	if e.active[fn] {
		return &Summary{Fn: fn, Recursive: true, Writes: []Effect{{Target: Prov{Kind: PUnknown}, Kind: EUnknown, Note: "recursion through " + qname(fn)}}}
	}
	e.active[fn] = true
	t0 := time.Now()
	defer func() {
		if d := time.Since(t0); d > 50*time.Millisecond && os.Getenv("MQV_SLOW") != "" {
			fmt.Fprintf(os.Stderr, "slow summary %s: %v\n", qname(fn), d)
		}
	}()
	st := &fnState{e: e, fn: fn, prov: map[ssa.Value]PSet{}, contents: newContentMap()}
	st.computeForwarding()
	for iter := 0; iter < 12; iter++ {
		st.changed = false
		st.sum = &Summary{Fn: fn, Contents: st.contents}
		st.pass()
		st.sum.dedupe()
		if !st.changed {
			break
		}
	}
	delete(e.active, fn)
	st.sum.dedupe()
	e.sums[fn] = st.sum
	if e.states == nil {
		e.states = map[*ssa.Function]*fnState{}
	}
	e.states[fn] = st
	return st.sum
}

func (s *Summary) dedupe() {
	seen := map[string]bool{}
	var ws []Effect
	for _, w := range s.Writes {
		k := fmt.Sprintf("%v|%d|%p|%s", w.Target, w.Kind, w.Ins, w.Note)
		if !seen[k] {
			seen[k] = true
			ws = append(ws, w)
		}
	}
	s.Writes = ws
	seen = map[string]bool{}
	var rs []Retain
	for _, r := range s.Retains {
		k := fmt.Sprintf("%v|%v|%p", r.Val, r.Into, r.Ins)
		if !seen[k] {
			seen[k] = true
			rs = append(rs, r)
		}
	}
	s.Retains = rs
}

// computeForwarding: a load `*a` that follows a store `*a = v` to the very same
// address value in the same block, with no instruction in between that can
// write memory (store, call, map update), sees v.
func (st *fnState) computeForwarding() {
	st.fwd = map[*ssa.UnOp]ssa.Value{}
	for _, b := range st.fn.Blocks {
		last := map[ssa.Value]ssa.Value{}
		for _, ins := range b.Instrs {
			switch x := ins.(type) {
			case *ssa.Store:
				// a store may alias other addresses: forget everything but this one
				last = map[ssa.Value]ssa.Value{x.Addr: x.Val}
			case *ssa.UnOp:
				if x.Op.String() == "*" {
					if v, ok := last[x.X]; ok {
						st.fwd[x] = v
					}
				}
			case *ssa.Call:
				if _, isB := x.Call.Value.(*ssa.Builtin); isB {
					n := x.Call.Value.(*ssa.Builtin).Name()
					if n == "len" || n == "cap" {
						continue
					}
					if n == "copy" || n == "append" {
						// writes elements of slices, never a cell holding a slice
						// header that a Store put there (the destination is an
						// element region, distinct from any address we track
						// unless that address is itself an element address)
						for a := range last {
							if _, isIdx := a.(*ssa.IndexAddr); isIdx {
								delete(last, a)
							}
						}
						continue
					}
				}
				last = map[ssa.Value]ssa.Value{}
			case *ssa.MapUpdate, *ssa.Defer, *ssa.Go, *ssa.Send:
				last = map[ssa.Value]ssa.Value{}
			}
		}
	}
}

func (st *fnState) get(v ssa.Value) PSet {
	if v == nil {
		return PSet{}
	}
	if s, ok := st.prov[v]; ok {
		return s
	}
	s := PSet{}
	switch x := v.(type) {
	case *ssa.Parameter:
		if pointerLike(x.Type()) {
			s.add(Prov{Kind: PParam, Idx: paramIndex(st.fn, x)})
		}
	case *ssa.FreeVar:
		for i, f := range st.fn.FreeVars {
			if f == x {
				s.add(Prov{Kind: PFree, Idx: i})
			}
		}
	case *ssa.Global:
		s.add(Prov{Kind: PGlobal, V: x})
	case *ssa.Const, *ssa.Builtin:
	case *ssa.Function:
		// a function value without bindings: nothing to write through
	}
	st.prov[v] = s
	return s
}

func (st *fnState) set(v ssa.Value, add PSet) {
	s := st.get(v)
	if s.addAll(add) {
		st.changed = true
	}
}

// load applies the reach rule: provenance of a pointer-like value loaded
// through an address with provenance a.
func (st *fnState) load(a PSet) PSet {
	out := PSet{}
	for p := range a {
		switch p.Kind {
		case PFresh:
			st.contents.loadInto(p, out)
		case PParam:
			out.add(Prov{Kind: PParamR, Idx: p.Idx, F: p.F})
		case PParamR:
			out.add(p)
		case PFree:
			out.add(Prov{Kind: PFreeR, Idx: p.Idx, F: p.F})
		case PFreeR:
			out.add(p)
		case PGlobal:
			g := p.V.(*ssa.Global)
			if st.e.nilGlobals[g] {
				continue // never written: holds nil forever
			}
			out.add(Prov{Kind: PGlobalV, V: p.V})
		case PGlobalV:
			out.add(p)
		case PUnknown:
			out.add(p)
		}
	}
	return out
}

// reachAll: everything reachable (>= 0 loads) from the given provenances, in
// this function's terms.
func (st *fnState) reachAll(a PSet) PSet {
	out := PSet{}
	var work []Prov
	for p := range a {
		if out.add(p) {
			work = append(work, p)
		}
	}
	for len(work) > 0 {
		p := work[len(work)-1]
		work = work[:len(work)-1]
		for q := range st.load(PSet{p: true}) {
			if out.add(q) {
				work = append(work, q)
			}
		}
	}
	return out
}

func (st *fnState) storeInto(targets PSet, val PSet, ins ssa.Instruction, kind EffKind, field string, note string) {
	for t := range targets {
		if t.Kind == PFresh {
			if len(val) > 0 && st.contents.add(t, val) {
				st.changed = true
			}
			continue
		}
		st.sum.Writes = append(st.sum.Writes, Effect{Target: t, Kind: kind, Ins: ins, Field: field, Note: note})
		for v := range st.reachAll(val) {
			if v.Kind == PFresh {
				continue
			}
			st.sum.Retains = append(st.sum.Retains, Retain{Val: v, Into: t, Ins: ins})
		}
		// fresh objects stored into non-fresh memory: what they contain is retained too (done via reachAll)
	}
}

func fieldOfAddr(a ssa.Value) string {
	if fa, ok := a.(*ssa.FieldAddr); ok {
		if pt, ok := fa.X.Type().Underlying().(*types.Pointer); ok {
			if stt, ok := pt.Elem().Underlying().(*types.Struct); ok {
				return types.TypeString(pt.Elem(), func(*types.Package) string { return "" }) + "." + stt.Field(fa.Field).Name()
			}
		}
	}
	return ""
}

func (st *fnState) pass() {
	dead := st.e.deadBlocks(st.fn)
	fn := st.fn
	for _, b := range fn.Blocks {
		if dead[b] {
			continue
		}
		for _, ins := range b.Instrs {
			st.instr(ins, dead)
		}
	}
}

func (st *fnState) instr(ins ssa.Instruction, dead map[*ssa.BasicBlock]bool) {
	switch x := ins.(type) {
	case *ssa.Alloc:
		st.set(x, PSet{Prov{Kind: PFresh, V: x}: true})
	case *ssa.MakeSlice, *ssa.MakeMap, *ssa.MakeChan:
		v := x.(ssa.Value)
		st.set(v, PSet{Prov{Kind: PFresh, V: v}: true})
	case *ssa.MakeClosure:
		me := Prov{Kind: PFresh, V: x}
		st.set(x, PSet{me: true})
		for k, bnd := range x.Bindings {
			st.storeInto(PSet{me.withF(k + 1): true}, st.get(bnd), ins, EStore, "", "")
		}
	case *ssa.MakeInterface:
		st.set(x, st.get(x.X))
	case *ssa.ChangeType:
		st.set(x, st.get(x.X))
	case *ssa.ChangeInterface:
		st.set(x, st.get(x.X))
	case *ssa.Convert:
		from, to := x.X.Type().Underlying(), x.Type().Underlying()
		switch {
		case isStringT(from) && pointerLike(x.Type()):
			st.set(x, PSet{Prov{Kind: PFresh, V: x}: true}) // []byte(s), []rune(s)
		case isStringT(to):
			// string(b): an immutable copy
		case pointerLike(x.Type()):
			if _, ok := to.(*types.Basic); ok { // unsafe.Pointer
				st.set(x, PSet{Prov{Kind: PUnknown}: true})
			} else {
				st.set(x, st.get(x.X))
			}
		default:
			if pointerLike(x.X.Type()) {
				// pointer -> integer: address leaves the type system
				st.sum.Writes = append(st.sum.Writes, Effect{Target: Prov{Kind: PUnknown}, Kind: EUnknown, Ins: ins, Note: "pointer converted to integer"})
			}
		}
	case *ssa.SliceToArrayPointer:
		st.set(x, st.get(x.X))
	case *ssa.Slice:
		st.set(x, st.get(x.X))
	case *ssa.FieldAddr:
		fs := PSet{}
		for q := range st.get(x.X) {
			fs.add(q.withF(x.Field + 1))
		}
		st.set(x, fs)
	case *ssa.IndexAddr:
		st.set(x, st.get(x.X))
	case *ssa.Field:
		if pointerLike(x.Type()) {
			st.set(x, st.get(x.X))
		}
	case *ssa.Index:
		if pointerLike(x.Type()) {
			st.set(x, st.get(x.X))
		}
	case *ssa.UnOp:
		switch x.Op.String() {
		case "*":
			if pointerLike(x.Type()) {
				if fv, ok := st.fwd[x]; ok {
					st.set(x, st.get(fv))
				} else {
					st.set(x, st.load(st.get(x.X)))
				}
			}
		case "<-":
			if pointerLike(x.Type()) {
				st.set(x, st.load(st.get(x.X)))
			}
		}
	case *ssa.Phi:
		for i, ed := range x.Edges {
			if dead[x.Block().Preds[i]] {
				continue
			}
			st.set(x, st.get(ed))
		}
	case *ssa.Select:
		st.sum.Writes = append(st.sum.Writes, Effect{Target: Prov{Kind: PUnknown}, Kind: ESend, Ins: ins, Note: "select"})
	case *ssa.Extract:
		if pointerLike(x.Type()) {
			if tp, ok := st.prov[x.Tuple]; ok {
				// tuple-level provenance (Lookup/Next/TypeAssert commaok)
				st.set(x, tp)
			}
			if rs, ok := st.tupleRes[x.Tuple]; ok && x.Index < len(rs) {
				st.set(x, rs[x.Index])
			}
		}
	case *ssa.TypeAssert:
		st.set(x, st.get(x.X))
	case *ssa.Lookup:
		if _, isMap := x.X.Type().Underlying().(*types.Map); isMap {
			st.set(x, st.load(st.get(x.X)))
		}
	case *ssa.Range:
		st.set(x, st.get(x.X))
	case *ssa.Next:
		st.set(x, st.load(st.get(x.Iter)))
	case *ssa.Store:
		kind := EStore
		if _, ok := x.Addr.(*ssa.IndexAddr); ok {
			kind = EElem
		}
		var val PSet
		if pointerLike(x.Val.Type()) {
			val = st.get(x.Val)
		}
		st.storeInto(st.get(x.Addr), val, ins, kind, fieldOfAddr(x.Addr), "")
	case *ssa.MapUpdate:
		val := PSet{}
		if pointerLike(x.Key.Type()) {
			val.addAll(st.get(x.Key))
		}
		if pointerLike(x.Value.Type()) {
			val.addAll(st.get(x.Value))
		}
		st.storeInto(st.get(x.Map), val, ins, EMap, "", "")
	case *ssa.Send:
		st.storeInto(st.get(x.Chan), st.get(x.X), ins, ESend, "", "")
	case *ssa.Call:
		st.call(x, x.Common())
	case *ssa.Defer:
		st.call(nil, x.Common(), ins)
	case *ssa.Go:
		st.call(nil, x.Common(), ins)
		st.sum.Writes = append(st.sum.Writes, Effect{Target: Prov{Kind: PUnknown}, Kind: ESend, Ins: ins, Note: "go statement"})
	case *ssa.Return:
		if st.sum.Results == nil {
			st.sum.Results = make([]PSet, len(x.Results))
			for i := range st.sum.Results {
				st.sum.Results[i] = PSet{}
			}
		}
		for i, r := range x.Results {
			if pointerLike(r.Type()) {
				st.sum.Results[i].addAll(st.get(r))
			}
		}
	case *ssa.Panic, *ssa.If, *ssa.Jump, *ssa.DebugRef, *ssa.BinOp, *ssa.RunDefers:
	}
}

func isStringT(t types.Type) bool {
	b, ok := t.(*types.Basic)
	return ok && b.Info()&types.IsString != 0
}

// contentMap: what pointer-like values are stored inside fresh objects,
// per object (allocation site) and field (0 = unknown field / whole object).
type contentMap struct {
	m   map[ssa.Value]map[int]PSet
	ver int
}

func newContentMap() *contentMap { return &contentMap{m: map[ssa.Value]map[int]PSet{}} }

func (c *contentMap) add(t Prov, val PSet) bool {
	fm := c.m[t.V]
	if fm == nil {
		fm = map[int]PSet{}
		c.m[t.V] = fm
	}
	s := fm[t.F]
	if s == nil {
		s = PSet{}
		fm[t.F] = s
	}
	if s.addAll(val) {
		c.ver++
		return true
	}
	return false
}

func (c *contentMap) loadInto(p Prov, out PSet) {
	fm := c.m[p.V]
	if fm == nil {
		return
	}
	if p.F > 0 {
		out.addAll(fm[p.F])
		out.addAll(fm[0])
		return
	}
	for _, s := range fm {
		out.addAll(s)
	}
}
