package main

// C09 — frames the decoder must reject are rejected.

import (
	"fmt"
	"go/token"
	"go/types"
	"math"
	"sort"
	"strings"

	"golang.org/x/tools/go/ssa"
)

func init() {
	register(&PropertyCheck{ID: "C09", Level: "other", Run: checkC09, Canaries: []Canary{
		{Name: "rf8-bool-decoder-drops-the-inner-error", Rule: "R9.1", Where: "(*wbool).UnmarshalBinary", Edits: []Edit{{"wiretypes.go", "\tif len(data) >= i+1 {\n\t\tif v {\n\t\t\tdata[i] = 0x01\n\t\t} else {\n\t\t\tdata[i] = 0x00\n\t\t}\n\t}\n\treturn 1\n}\nfunc (v *wbool) UnmarshalBinary(data []byte) error {\n\tif len(data) < 1 {\n\t\treturn ErrMissingData\n\t}\n\tswitch data[0] {\n\tcase 0:\n\t\t*v = wbool(false)\n\tcase 1:\n\t\t*v = wbool(true)\n\tdefault:\n\t\treturn fmt.Errorf(\"malformed bool\")\n\t}\n\treturn nil\n}\nfunc (v wbool) width() int { return 1 }\n\n// https://docs.oasis-open.org/mqtt/mqtt/v5.0/os/mqtt-v5.0-os.html#_Toc3901007\ntype bits byte\n\nfunc (v bits) Has(b byte) bool { return byte(v)&b == b }\n\nfunc (v bits) fillProp(data []byte, i int, id Ident) int {\n\tif v == 0 {\n\t\treturn 0\n\t}\n\tn := i\n\ti += id.fill(data, i)\n\ti += v.fill(data, i)\n\treturn i - n\n}\n\nfunc (v bits) fill(data []byte, i int) int {\n\tif len(data) >= i+1 {\n\t\tdata[i] = byte(v)\n\t}\n\treturn 1\n}\n\n// fillOpt fills the bits if > 0\nfunc (v bits) fillOpt(data []byte, i int) int {\n\tif v == 0 {\n\t\treturn 0\n\t}\n\treturn v.fill(data, i)\n}\n\nfunc (v *bits) ReadFrom(r io.Reader) (int64, error) {\n\tdata := make([]byte, 1)\n\tif n, err := io.ReadFull(r, data); err != nil {\n\t\treturn int64(n), err\n\t}\n\treturn 1, v.UnmarshalBinary(data)\n}\nfunc (v *bits) UnmarshalBinary(data []byte) error {\n\tif len(data) < 1 {\n\t\treturn ErrMissingData\n\t}\n\t*v = bits(data[0])\n\treturn nil\n}\nfunc (v bits) width() int { return 1 }\nfunc (v *bits) toggle(flag byte, on bool) {\n\tif on {\n\t\t*v = *v | bits(flag)\n\t\treturn\n\t}\n\t*v = *v & bits(^flag)\n}\n\n// https://docs.oasis-open.org/mqtt/mqtt/v5.0/os/mqtt-v5.0-os.html#_Toc3901008\ntype wuint16 uint16\n\nfunc (v wuint16) fillProp(data []byte, i int, id Ident) int {\n\tif v == 0 {\n\t\treturn 0\n\t}\n\tn := i\n\ti += id.fill(data, i)\n\ti += v.fill(data, i)\n\treturn i - n\n}\n\nfunc (v wuint16) fill(data []byte, i int) int {\n\tif len(data) >= i+2 {\n\t\tbinary.BigEndian.PutUint16(data[i:], uint16(v))\n\t}\n\treturn 2\n}\n\nfunc (v *wuint16) UnmarshalBinary(data []byte) error {\n\tif len(data) < 2 {\n\t\treturn ErrMissingData\n\t}\n\t*v = wuint16(binary.BigEndian.Uint16(data))\n\treturn nil\n}\n\nfunc (v wuint16) width() int { return 2 }\n\n// https://docs.oasis-open.org/mqtt/mqtt/v5.0/os/mqtt-v5.0-os.html#_Toc3901009\ntype wuint32 uint32\n\nfunc (v wuint32) fillProp(data []byte, i int, id Ident) int {\n\tif v == 0 {\n\t\treturn 0\n\t}\n\tn := i\n\ti += id.fill(data, i)\n\ti += v.fill(data, i)\n\treturn i - n\n}\n\nfunc (v wuint32) fill(data []byte, i int) int {\n\tif len(data) >= i+v.width() {\n\t\tbinary.BigEndian.PutUint32(data[i:], uint32(v))\n\t}\n\treturn v.width()\n}\n\nfunc (v *wuint32) UnmarshalBinary(data []byte) error {\n\tif len(data) < 4 {\n\t\treturn ErrMissingData\n\t}\n\t*v = wuint32(binary.BigEndian.Uint32(data))\n\treturn nil\n}\n\nfunc (v wuint32) width() int { return 4 }\n\n// only here to fulfill interface\nfunc (v Ident) fillProp(data []byte, i int, id Ident) int { return 0 }\n\nfunc (v Ident) fill(data []byte, i int) int {\n\tif len(data) >= i+1 {\n\t\tdata[i] = byte(v)\n\t}\n\treturn 1\n}\n\nfunc (v *Ident) UnmarshalBinary(data []byte) error {\n\tif len(data) < 1 {\n\t\treturn ErrMissingData\n\t}\n\t*v = Ident(data[0])\n\treturn nil", "\treturn v.wire().fill(data, i)\n}\n\n// wire returns the byte sent for v, 0x01 for true and 0x00 for false.\nfunc (v wbool) wire() bits {\n\tif v {\n\t\treturn 0x01\n\t}\n\treturn 0x00\n}\nfunc (v *wbool) UnmarshalBinary(data []byte) error {\n\tvar b bits\n\tb.UnmarshalBinary(data)\n\tswitch b {\n\tcase 0x00:\n\t\t*v = false\n\tcase 0x01:\n\t\t*v = true\n\tdefault:\n\t\treturn fmt.Errorf(\"malformed bool\")\n\t}\n\treturn nil\n}\nfunc (v wbool) width() int { return 1 }\n\n// https://docs.oasis-open.org/mqtt/mqtt/v5.0/os/mqtt-v5.0-os.html#_Toc3901007\ntype bits byte\n\nfunc (v bits) Has(b byte) bool { return byte(v)&b == b }\n\nfunc (v bits) fillProp(data []byte, i int, id Ident) int {\n\tif v == 0 {\n\t\treturn 0\n\t}\n\tn := i\n\ti += id.fill(data, i)\n\ti += v.fill(data, i)\n\treturn i - n\n}\n\nfunc (v bits) fill(data []byte, i int) int {\n\tif len(data) >= i+1 {\n\t\tdata[i] = byte(v)\n\t}\n\treturn 1\n}\n\n// fillOpt fills the bits if > 0\nfunc (v bits) fillOpt(data []byte, i int) int {\n\tif v == 0 {\n\t\treturn 0\n\t}\n\treturn v.fill(data, i)\n}\n\nfunc (v *bits) ReadFrom(r io.Reader) (int64, error) {\n\tdata := make([]byte, 1)\n\tif n, err := io.ReadFull(r, data); err != nil {\n\t\treturn int64(n), err\n\t}\n\treturn 1, v.UnmarshalBinary(data)\n}\nfunc (v *bits) UnmarshalBinary(data []byte) error {\n\tif len(data) < 1 {\n\t\treturn ErrMissingData\n\t}\n\t*v = bits(data[0])\n\treturn nil\n}\nfunc (v bits) width() int { return 1 }\nfunc (v *bits) toggle(flag byte, on bool) {\n\tmask := bits(flag)\n\tx := *v &^ mask // flag cleared\n\tif on {\n\t\tx |= mask\n\t}\n\t*v = x\n}\n\n// https://docs.oasis-open.org/mqtt/mqtt/v5.0/os/mqtt-v5.0-os.html#_Toc3901008\ntype wuint16 uint16\n\nfunc (v wuint16) fillProp(data []byte, i int, id Ident) int {\n\tif v == 0 {\n\t\treturn 0\n\t}\n\tn := i\n\ti += id.fill(data, i)\n\ti += v.fill(data, i)\n\treturn i - n\n}\n\nfunc (v wuint16) fill(data []byte, i int) int {\n\tif len(data) >= i+2 {\n\t\tbinary.BigEndian.PutUint16(data[i:], uint16(v))\n\t}\n\treturn 2\n}\n\nfunc (v *wuint16) UnmarshalBinary(data []byte) error {\n\tif len(data) < 2 {\n\t\treturn ErrMissingData\n\t}\n\t*v = wuint16(binary.BigEndian.Uint16(data))\n\treturn nil\n}\n\nfunc (v wuint16) width() int { return 2 }\n\n// https://docs.oasis-open.org/mqtt/mqtt/v5.0/os/mqtt-v5.0-os.html#_Toc3901009\ntype wuint32 uint32\n\nfunc (v wuint32) fillProp(data []byte, i int, id Ident) int {\n\tif v == 0 {\n\t\treturn 0\n\t}\n\tn := i\n\ti += id.fill(data, i)\n\ti += v.fill(data, i)\n\treturn i - n\n}\n\nfunc (v wuint32) fill(data []byte, i int) int {\n\tif len(data) >= i+v.width() {\n\t\tbinary.BigEndian.PutUint32(data[i:], uint32(v))\n\t}\n\treturn v.width()\n}\n\nfunc (v *wuint32) UnmarshalBinary(data []byte) error {\n\tif len(data) < 4 {\n\t\treturn ErrMissingData\n\t}\n\t*v = wuint32(binary.BigEndian.Uint32(data))\n\treturn nil\n}\n\nfunc (v wuint32) width() int { return 4 }\n\n// only here to fulfill interface\nfunc (v Ident) fillProp(data []byte, i int, id Ident) int { return 0 }\n\n// An Ident is a single byte on the wire, same as bits.\nfunc (v Ident) fill(data []byte, i int) int {\n\treturn bits(v).fill(data, i)\n}\n\nfunc (v *Ident) UnmarshalBinary(data []byte) error {\n\treturn (*bits)(v).UnmarshalBinary(data)"}}},
		{Name: "rf8-single-byte-types-delegate-to-bits", Silent: true, Edits: []Edit{{"wiretypes.go", "\tif len(data) >= i+1 {\n\t\tif v {\n\t\t\tdata[i] = 0x01\n\t\t} else {\n\t\t\tdata[i] = 0x00\n\t\t}\n\t}\n\treturn 1\n}\nfunc (v *wbool) UnmarshalBinary(data []byte) error {\n\tif len(data) < 1 {\n\t\treturn ErrMissingData\n\t}\n\tswitch data[0] {\n\tcase 0:\n\t\t*v = wbool(false)\n\tcase 1:\n\t\t*v = wbool(true)\n\tdefault:\n\t\treturn fmt.Errorf(\"malformed bool\")\n\t}\n\treturn nil\n}\nfunc (v wbool) width() int { return 1 }\n\n// https://docs.oasis-open.org/mqtt/mqtt/v5.0/os/mqtt-v5.0-os.html#_Toc3901007\ntype bits byte\n\nfunc (v bits) Has(b byte) bool { return byte(v)&b == b }\n\nfunc (v bits) fillProp(data []byte, i int, id Ident) int {\n\tif v == 0 {\n\t\treturn 0\n\t}\n\tn := i\n\ti += id.fill(data, i)\n\ti += v.fill(data, i)\n\treturn i - n\n}\n\nfunc (v bits) fill(data []byte, i int) int {\n\tif len(data) >= i+1 {\n\t\tdata[i] = byte(v)\n\t}\n\treturn 1\n}\n\n// fillOpt fills the bits if > 0\nfunc (v bits) fillOpt(data []byte, i int) int {\n\tif v == 0 {\n\t\treturn 0\n\t}\n\treturn v.fill(data, i)\n}\n\nfunc (v *bits) ReadFrom(r io.Reader) (int64, error) {\n\tdata := make([]byte, 1)\n\tif n, err := io.ReadFull(r, data); err != nil {\n\t\treturn int64(n), err\n\t}\n\treturn 1, v.UnmarshalBinary(data)\n}\nfunc (v *bits) UnmarshalBinary(data []byte) error {\n\tif len(data) < 1 {\n\t\treturn ErrMissingData\n\t}\n\t*v = bits(data[0])\n\treturn nil\n}\nfunc (v bits) width() int { return 1 }\nfunc (v *bits) toggle(flag byte, on bool) {\n\tif on {\n\t\t*v = *v | bits(flag)\n\t\treturn\n\t}\n\t*v = *v & bits(^flag)\n}\n\n// https://docs.oasis-open.org/mqtt/mqtt/v5.0/os/mqtt-v5.0-os.html#_Toc3901008\ntype wuint16 uint16\n\nfunc (v wuint16) fillProp(data []byte, i int, id Ident) int {\n\tif v == 0 {\n\t\treturn 0\n\t}\n\tn := i\n\ti += id.fill(data, i)\n\ti += v.fill(data, i)\n\treturn i - n\n}\n\nfunc (v wuint16) fill(data []byte, i int) int {\n\tif len(data) >= i+2 {\n\t\tbinary.BigEndian.PutUint16(data[i:], uint16(v))\n\t}\n\treturn 2\n}\n\nfunc (v *wuint16) UnmarshalBinary(data []byte) error {\n\tif len(data) < 2 {\n\t\treturn ErrMissingData\n\t}\n\t*v = wuint16(binary.BigEndian.Uint16(data))\n\treturn nil\n}\n\nfunc (v wuint16) width() int { return 2 }\n\n// https://docs.oasis-open.org/mqtt/mqtt/v5.0/os/mqtt-v5.0-os.html#_Toc3901009\ntype wuint32 uint32\n\nfunc (v wuint32) fillProp(data []byte, i int, id Ident) int {\n\tif v == 0 {\n\t\treturn 0\n\t}\n\tn := i\n\ti += id.fill(data, i)\n\ti += v.fill(data, i)\n\treturn i - n\n}\n\nfunc (v wuint32) fill(data []byte, i int) int {\n\tif len(data) >= i+v.width() {\n\t\tbinary.BigEndian.PutUint32(data[i:], uint32(v))\n\t}\n\treturn v.width()\n}\n\nfunc (v *wuint32) UnmarshalBinary(data []byte) error {\n\tif len(data) < 4 {\n\t\treturn ErrMissingData\n\t}\n\t*v = wuint32(binary.BigEndian.Uint32(data))\n\treturn nil\n}\n\nfunc (v wuint32) width() int { return 4 }\n\n// only here to fulfill interface\nfunc (v Ident) fillProp(data []byte, i int, id Ident) int { return 0 }\n\nfunc (v Ident) fill(data []byte, i int) int {\n\tif len(data) >= i+1 {\n\t\tdata[i] = byte(v)\n\t}\n\treturn 1\n}\n\nfunc (v *Ident) UnmarshalBinary(data []byte) error {\n\tif len(data) < 1 {\n\t\treturn ErrMissingData\n\t}\n\t*v = Ident(data[0])\n\treturn nil", "\treturn v.wire().fill(data, i)\n}\n\n// wire returns the byte sent for v, 0x01 for true and 0x00 for false.\nfunc (v wbool) wire() bits {\n\tif v {\n\t\treturn 0x01\n\t}\n\treturn 0x00\n}\nfunc (v *wbool) UnmarshalBinary(data []byte) error {\n\tvar b bits\n\tif err := b.UnmarshalBinary(data); err != nil {\n\t\treturn err\n\t}\n\tswitch b {\n\tcase 0x00:\n\t\t*v = false\n\tcase 0x01:\n\t\t*v = true\n\tdefault:\n\t\treturn fmt.Errorf(\"malformed bool\")\n\t}\n\treturn nil\n}\nfunc (v wbool) width() int { return 1 }\n\n// https://docs.oasis-open.org/mqtt/mqtt/v5.0/os/mqtt-v5.0-os.html#_Toc3901007\ntype bits byte\n\nfunc (v bits) Has(b byte) bool { return byte(v)&b == b }\n\nfunc (v bits) fillProp(data []byte, i int, id Ident) int {\n\tif v == 0 {\n\t\treturn 0\n\t}\n\tn := i\n\ti += id.fill(data, i)\n\ti += v.fill(data, i)\n\treturn i - n\n}\n\nfunc (v bits) fill(data []byte, i int) int {\n\tif len(data) >= i+1 {\n\t\tdata[i] = byte(v)\n\t}\n\treturn 1\n}\n\n// fillOpt fills the bits if > 0\nfunc (v bits) fillOpt(data []byte, i int) int {\n\tif v == 0 {\n\t\treturn 0\n\t}\n\treturn v.fill(data, i)\n}\n\nfunc (v *bits) ReadFrom(r io.Reader) (int64, error) {\n\tdata := make([]byte, 1)\n\tif n, err := io.ReadFull(r, data); err != nil {\n\t\treturn int64(n), err\n\t}\n\treturn 1, v.UnmarshalBinary(data)\n}\nfunc (v *bits) UnmarshalBinary(data []byte) error {\n\tif len(data) < 1 {\n\t\treturn ErrMissingData\n\t}\n\t*v = bits(data[0])\n\treturn nil\n}\nfunc (v bits) width() int { return 1 }\nfunc (v *bits) toggle(flag byte, on bool) {\n\tmask := bits(flag)\n\tx := *v &^ mask // flag cleared\n\tif on {\n\t\tx |= mask\n\t}\n\t*v = x\n}\n\n// https://docs.oasis-open.org/mqtt/mqtt/v5.0/os/mqtt-v5.0-os.html#_Toc3901008\ntype wuint16 uint16\n\nfunc (v wuint16) fillProp(data []byte, i int, id Ident) int {\n\tif v == 0 {\n\t\treturn 0\n\t}\n\tn := i\n\ti += id.fill(data, i)\n\ti += v.fill(data, i)\n\treturn i - n\n}\n\nfunc (v wuint16) fill(data []byte, i int) int {\n\tif len(data) >= i+2 {\n\t\tbinary.BigEndian.PutUint16(data[i:], uint16(v))\n\t}\n\treturn 2\n}\n\nfunc (v *wuint16) UnmarshalBinary(data []byte) error {\n\tif len(data) < 2 {\n\t\treturn ErrMissingData\n\t}\n\t*v = wuint16(binary.BigEndian.Uint16(data))\n\treturn nil\n}\n\nfunc (v wuint16) width() int { return 2 }\n\n// https://docs.oasis-open.org/mqtt/mqtt/v5.0/os/mqtt-v5.0-os.html#_Toc3901009\ntype wuint32 uint32\n\nfunc (v wuint32) fillProp(data []byte, i int, id Ident) int {\n\tif v == 0 {\n\t\treturn 0\n\t}\n\tn := i\n\ti += id.fill(data, i)\n\ti += v.fill(data, i)\n\treturn i - n\n}\n\nfunc (v wuint32) fill(data []byte, i int) int {\n\tif len(data) >= i+v.width() {\n\t\tbinary.BigEndian.PutUint32(data[i:], uint32(v))\n\t}\n\treturn v.width()\n}\n\nfunc (v *wuint32) UnmarshalBinary(data []byte) error {\n\tif len(data) < 4 {\n\t\treturn ErrMissingData\n\t}\n\t*v = wuint32(binary.BigEndian.Uint32(data))\n\treturn nil\n}\n\nfunc (v wuint32) width() int { return 4 }\n\n// only here to fulfill interface\nfunc (v Ident) fillProp(data []byte, i int, id Ident) int { return 0 }\n\n// An Ident is a single byte on the wire, same as bits.\nfunc (v Ident) fill(data []byte, i int) int {\n\treturn bits(v).fill(data, i)\n}\n\nfunc (v *Ident) UnmarshalBinary(data []byte) error {\n\treturn (*bits)(v).UnmarshalBinary(data)"}}},
		{Name: "rf7-per-property-helper-without-default", Rule: "R9.5", Where: "(*buffer).getProp", Edits: []Edit{{"buffer.go", "\tvar propLen vbint\n\tb.get(&propLen)\n\tend := b.i + int(propLen)\n\tvar id Ident\n\tfor b.i < end {\n\t\tb.get(&id)\n\t\t// first failure stops the parsing\n\t\tif b.err != nil {\n\t\t\treturn\n\t\t}\n\t\tfield, hasField := fields[id]\n\t\tif hasField {\n\t\t\tb.get(field())\n\t\t\tcontinue\n\t\t}\n\t\tswitch id {\n\t\tcase UserProperty:\n\t\t\tvar p UserProp\n\t\t\tb.get(&p)\n\t\t\taddProp(p)\n\n\t\tcase SubscriptionID:\n\t\t\tvar sub vbint\n\t\t\tb.get(&sub)\n\t\t\tif b.addSubscriptionID != nil {\n\t\t\t\tb.addSubscriptionID(uint32(sub))\n\t\t\t}\n\n\t\tdefault:\n\t\t\tb.err = fmt.Errorf(\"unknown property id 0x%02x\", id)\n\t\t}", "\tend := b.getPropLen()\n\t// first failure stops the parsing\n\tfor b.i < end && b.err == nil {\n\t\tb.getProp(fields, addProp)\n\t}\n}\n\n// getPropLen reads the property length and returns the offset of\n// the first byte following the properties.\nfunc (b *buffer) getPropLen() int {\n\tvar propLen vbint\n\tb.get(&propLen)\n\treturn b.i + int(propLen)\n}\n\n// getProp reads one property, i.e. the identifier followed by its\n// value.\nfunc (b *buffer) getProp(fields map[Ident]func() wireType, addProp func(UserProp)) {\n\tvar id Ident\n\tb.get(&id)\n\tif b.err != nil {\n\t\treturn\n\t}\n\tif field, hasField := fields[id]; hasField {\n\t\tb.get(field())\n\t\treturn\n\t}\n\tswitch id {\n\tcase UserProperty:\n\t\tb.getUserProp(addProp)\n\tcase SubscriptionID:\n\t\tb.getSubscriptionID()\n\t}\n}\n\nfunc (b *buffer) getUserProp(addProp func(UserProp)) {\n\tvar p UserProp\n\tb.get(&p)\n\taddProp(p)\n}\n\nfunc (b *buffer) getSubscriptionID() {\n\tvar sub vbint\n\tb.get(&sub)\n\tif b.addSubscriptionID != nil {\n\t\tb.addSubscriptionID(uint32(sub))"}}},
		{Name: "rf7-per-property-helper-reads-the-identifier", Silent: true, Edits: []Edit{{"buffer.go", "\tvar propLen vbint\n\tb.get(&propLen)\n\tend := b.i + int(propLen)\n\tvar id Ident\n\tfor b.i < end {\n\t\tb.get(&id)\n\t\t// first failure stops the parsing\n\t\tif b.err != nil {\n\t\t\treturn\n\t\t}\n\t\tfield, hasField := fields[id]\n\t\tif hasField {\n\t\t\tb.get(field())\n\t\t\tcontinue\n\t\t}\n\t\tswitch id {\n\t\tcase UserProperty:\n\t\t\tvar p UserProp\n\t\t\tb.get(&p)\n\t\t\taddProp(p)\n\n\t\tcase SubscriptionID:\n\t\t\tvar sub vbint\n\t\t\tb.get(&sub)\n\t\t\tif b.addSubscriptionID != nil {\n\t\t\t\tb.addSubscriptionID(uint32(sub))\n\t\t\t}\n\n\t\tdefault:\n\t\t\tb.err = fmt.Errorf(\"unknown property id 0x%02x\", id)\n\t\t}", "\tend := b.getPropLen()\n\t// first failure stops the parsing\n\tfor b.i < end && b.err == nil {\n\t\tb.getProp(fields, addProp)\n\t}\n}\n\n// getPropLen reads the property length and returns the offset of\n// the first byte following the properties.\nfunc (b *buffer) getPropLen() int {\n\tvar propLen vbint\n\tb.get(&propLen)\n\treturn b.i + int(propLen)\n}\n\n// getProp reads one property, i.e. the identifier followed by its\n// value.\nfunc (b *buffer) getProp(fields map[Ident]func() wireType, addProp func(UserProp)) {\n\tvar id Ident\n\tb.get(&id)\n\tif b.err != nil {\n\t\treturn\n\t}\n\tif field, hasField := fields[id]; hasField {\n\t\tb.get(field())\n\t\treturn\n\t}\n\tswitch id {\n\tcase UserProperty:\n\t\tb.getUserProp(addProp)\n\tcase SubscriptionID:\n\t\tb.getSubscriptionID()\n\tdefault:\n\t\tb.err = fmt.Errorf(\"unknown property id 0x%02x\", id)\n\t}\n}\n\nfunc (b *buffer) getUserProp(addProp func(UserProp)) {\n\tvar p UserProp\n\tb.get(&p)\n\taddProp(p)\n}\n\nfunc (b *buffer) getSubscriptionID() {\n\tvar sub vbint\n\tb.get(&sub)\n\tif b.addSubscriptionID != nil {\n\t\tb.addSubscriptionID(uint32(sub))"}}},
		{Name: "rf7-reader-constructor-starting-at-offset-one", Rule: "R9.2", Where: "(*Auth).UnmarshalBinary", Edits: []Edit{{"auth.go", "\tb := &buffer{data: data}", "\tb := newBuffer(data)"}, {"buffer.go", "// getAny reads all properties from the current offset starting with\n// the variable length.  fields map property identity codes to wire\n// type fields and the addProp func is used for each user property.\nfunc (b *buffer) getAny(fields map[Ident]func() wireType, addProp func(UserProp)) {\n\tif b.atEnd() {\n\t\treturn\n\t}\n\tvar propLen vbint\n\tb.get(&propLen)\n\tend := b.i + int(propLen)\n\tvar id Ident\n\tfor b.i < end {\n\t\tb.get(&id)\n\t\t// first failure stops the parsing\n\t\tif b.err != nil {\n\t\t\treturn\n\t\t}\n\t\tfield, hasField := fields[id]\n\t\tif hasField {\n\t\t\tb.get(field())\n\t\t\tcontinue\n\t\t}\n\t\tswitch id {\n\t\tcase UserProperty:\n\t\t\tvar p UserProp\n\t\t\tb.get(&p)\n\t\t\taddProp(p)\n\n\t\tcase SubscriptionID:\n\t\t\tvar sub vbint\n\t\t\tb.get(&sub)\n\t\t\tif b.addSubscriptionID != nil {\n\t\t\t\tb.addSubscriptionID(uint32(sub))\n\t\t\t}\n\n\t\tdefault:\n\t\t\tb.err = fmt.Errorf(\"unknown property id 0x%02x\", id)\n\t\t}\n\t}\n}\n\nfunc (b *buffer) get(v wireType) {\n\tif b.err != nil {\n\t\treturn\n\t}\n\tif b.i >= len(b.data) {\n\t\tb.err = ErrMissingData\n\t\treturn\n\t}\n\tif b.err = v.UnmarshalBinary(b.data[b.i:]); b.err != nil {\n\t\treturn\n\t}\n\tn := v.width()\n\tif n > len(b.data)-b.i {\n\t\tb.err = ErrMissingData\n\t\treturn\n\t}\n\tb.i += n", "// newBuffer returns a buffer positioned at the start of data.\nfunc newBuffer(data []byte) *buffer {\n\treturn &buffer{data: data, i: 1}\n}\n\n// getAny reads all properties from the current offset starting with\n// the variable length.  fields map property identity codes to wire\n// type fields and the addProp func is used for each user property.\nfunc (b *buffer) getAny(fields map[Ident]func() wireType, addProp func(UserProp)) {\n\tif b.atEnd() {\n\t\treturn\n\t}\n\tvar propLen vbint\n\tb.get(&propLen)\n\tend := b.i + int(propLen)\n\tvar id Ident\n\tfor b.i < end {\n\t\tb.get(&id)\n\t\t// first failure stops the parsing\n\t\tif b.err != nil {\n\t\t\treturn\n\t\t}\n\t\tfield, hasField := fields[id]\n\t\tif hasField {\n\t\t\tb.get(field())\n\t\t\tcontinue\n\t\t}\n\t\tswitch id {\n\t\tcase UserProperty:\n\t\t\tvar p UserProp\n\t\t\tb.get(&p)\n\t\t\taddProp(p)\n\n\t\tcase SubscriptionID:\n\t\t\tvar sub vbint\n\t\t\tb.get(&sub)\n\t\t\tif b.addSubscriptionID != nil {\n\t\t\t\tb.addSubscriptionID(uint32(sub))\n\t\t\t}\n\n\t\tdefault:\n\t\t\tb.fail(fmt.Errorf(\"unknown property id 0x%02x\", id))\n\t\t}\n\t}\n}\n\nfunc (b *buffer) get(v wireType) {\n\tif b.err != nil {\n\t\treturn\n\t}\n\trest := b.rest()\n\tif len(rest) == 0 {\n\t\tb.fail(ErrMissingData)\n\t\treturn\n\t}\n\tif err := v.UnmarshalBinary(rest); err != nil {\n\t\tb.fail(err)\n\t\treturn\n\t}\n\tn := v.width()\n\tif n > len(rest) {\n\t\tb.fail(ErrMissingData)\n\t\treturn\n\t}\n\tb.i += n\n}\n\n// rest returns the data not yet read.\nfunc (b *buffer) rest() []byte {\n\treturn b.data[b.i:]\n}\n\n// fail records err unless a previous failure is already recorded,\n// i.e. the first failure is the one reported.\nfunc (b *buffer) fail(err error) {\n\tif b.err == nil {\n\t\tb.err = err\n\t}"}, {"connack.go", "\tb := &buffer{data: data}", "\tb := newBuffer(data)"}, {"connect.go", "\tbuf := &buffer{data: data}", "\tbuf := newBuffer(data)"}, {"disconnect.go", "\tb := &buffer{data: data}", "\tb := newBuffer(data)"}, {"puback.go", "\tb := &buffer{data: data}", "\tb := newBuffer(data)"}, {"pubcomp.go", "\tb := &buffer{data: data}", "\tb := newBuffer(data)"}, {"pubrec.go", "\tb := &buffer{data: data}", "\tb := newBuffer(data)"}, {"pubrel.go", "\tb := &buffer{data: data}", "\tb := newBuffer(data)"}, {"suback.go", "\tb := &buffer{data: data}", "\tb := newBuffer(data)"}, {"subscribe.go", "\tb := &buffer{data: data}", "\tb := newBuffer(data)"}, {"unsuback.go", "\tb := &buffer{data: data}", "\tb := newBuffer(data)"}, {"unsubscribe.go", "\tb := &buffer{data: data}", "\tb := newBuffer(data)"}}},
		{Name: "rf7-unknown-identifier-recorded-only-late-in-the-frame", Rule: "R9.5", Where: "getAny", Edits: []Edit{{"auth.go", "\tb := &buffer{data: data}", "\tb := newBuffer(data)"}, {"buffer.go", "// getAny reads all properties from the current offset starting with\n// the variable length.  fields map property identity codes to wire\n// type fields and the addProp func is used for each user property.\nfunc (b *buffer) getAny(fields map[Ident]func() wireType, addProp func(UserProp)) {\n\tif b.atEnd() {\n\t\treturn\n\t}\n\tvar propLen vbint\n\tb.get(&propLen)\n\tend := b.i + int(propLen)\n\tvar id Ident\n\tfor b.i < end {\n\t\tb.get(&id)\n\t\t// first failure stops the parsing\n\t\tif b.err != nil {\n\t\t\treturn\n\t\t}\n\t\tfield, hasField := fields[id]\n\t\tif hasField {\n\t\t\tb.get(field())\n\t\t\tcontinue\n\t\t}\n\t\tswitch id {\n\t\tcase UserProperty:\n\t\t\tvar p UserProp\n\t\t\tb.get(&p)\n\t\t\taddProp(p)\n\n\t\tcase SubscriptionID:\n\t\t\tvar sub vbint\n\t\t\tb.get(&sub)\n\t\t\tif b.addSubscriptionID != nil {\n\t\t\t\tb.addSubscriptionID(uint32(sub))\n\t\t\t}\n\n\t\tdefault:\n\t\t\tb.err = fmt.Errorf(\"unknown property id 0x%02x\", id)\n\t\t}\n\t}\n}\n\nfunc (b *buffer) get(v wireType) {\n\tif b.err != nil {\n\t\treturn\n\t}\n\tif b.i >= len(b.data) {\n\t\tb.err = ErrMissingData\n\t\treturn\n\t}\n\tif b.err = v.UnmarshalBinary(b.data[b.i:]); b.err != nil {\n\t\treturn\n\t}\n\tn := v.width()\n\tif n > len(b.data)-b.i {\n\t\tb.err = ErrMissingData\n\t\treturn\n\t}\n\tb.i += n\n}\n\nfunc (b *buffer) atEnd() bool {\n\treturn b.i == len(b.data)\n}\n\nfunc (b *buffer) Err() error { return b.err }\n\nvar ErrMissingData = fmt.Errorf(\"missing data\")", "// newBuffer returns a buffer positioned at the start of data.\nfunc newBuffer(data []byte) *buffer {\n\treturn &buffer{data: data}\n}\n\n// getAny reads all properties from the current offset starting with\n// the variable length.  fields map property identity codes to wire\n// type fields and the addProp func is used for each user property.\nfunc (b *buffer) getAny(fields map[Ident]func() wireType, addProp func(UserProp)) {\n\tif b.atEnd() {\n\t\treturn\n\t}\n\tvar propLen vbint\n\tb.get(&propLen)\n\tend := b.i + int(propLen)\n\tvar id Ident\n\tfor b.i < end {\n\t\tb.get(&id)\n\t\t// first failure stops the parsing\n\t\tif b.err != nil {\n\t\t\treturn\n\t\t}\n\t\tfield, hasField := fields[id]\n\t\tif hasField {\n\t\t\tb.get(field())\n\t\t\tcontinue\n\t\t}\n\t\tswitch id {\n\t\tcase UserProperty:\n\t\t\tvar p UserProp\n\t\t\tb.get(&p)\n\t\t\taddProp(p)\n\n\t\tcase SubscriptionID:\n\t\t\tvar sub vbint\n\t\t\tb.get(&sub)\n\t\t\tif b.addSubscriptionID != nil {\n\t\t\t\tb.addSubscriptionID(uint32(sub))\n\t\t\t}\n\n\t\tdefault:\n\t\t\tb.failLater(fmt.Errorf(\"unknown property id 0x%02x\", id))\n\t\t}\n\t}\n}\n\nfunc (b *buffer) get(v wireType) {\n\tif b.err != nil {\n\t\treturn\n\t}\n\trest := b.rest()\n\tif len(rest) == 0 {\n\t\tb.fail(ErrMissingData)\n\t\treturn\n\t}\n\tif err := v.UnmarshalBinary(rest); err != nil {\n\t\tb.fail(err)\n\t\treturn\n\t}\n\tn := v.width()\n\tif n > len(rest) {\n\t\tb.fail(ErrMissingData)\n\t\treturn\n\t}\n\tb.i += n\n}\n\n// rest returns the data not yet read.\nfunc (b *buffer) rest() []byte {\n\treturn b.data[b.i:]\n}\n\n// fail records err unless a previous failure is already recorded,\n// i.e. the first failure is the one reported.\nfunc (b *buffer) fail(err error) {\n\tif b.err == nil {\n\t\tb.err = err\n\t}\n}\n\nfunc (b *buffer) atEnd() bool {\n\treturn b.i == len(b.data)\n}\n\nfunc (b *buffer) Err() error { return b.err }\n\nvar ErrMissingData = fmt.Errorf(\"missing data\")\n\n// failLater records err once the variable header has been passed.\nfunc (b *buffer) failLater(err error) {\n\tif b.err == nil && b.i > 8 {\n\t\tb.err = err\n\t}\n}"}, {"connack.go", "\tb := &buffer{data: data}", "\tb := newBuffer(data)"}, {"connect.go", "\tbuf := &buffer{data: data}", "\tbuf := newBuffer(data)"}, {"disconnect.go", "\tb := &buffer{data: data}", "\tb := newBuffer(data)"}, {"puback.go", "\tb := &buffer{data: data}", "\tb := newBuffer(data)"}, {"pubcomp.go", "\tb := &buffer{data: data}", "\tb := newBuffer(data)"}, {"pubrec.go", "\tb := &buffer{data: data}", "\tb := newBuffer(data)"}, {"pubrel.go", "\tb := &buffer{data: data}", "\tb := newBuffer(data)"}, {"suback.go", "\tb := &buffer{data: data}", "\tb := newBuffer(data)"}, {"subscribe.go", "\tb := &buffer{data: data}", "\tb := newBuffer(data)"}, {"unsuback.go", "\tb := &buffer{data: data}", "\tb := newBuffer(data)"}, {"unsubscribe.go", "\tb := &buffer{data: data}", "\tb := newBuffer(data)"}}},
		{Name: "rf7-reader-constructor-and-fail-helper", Silent: true, Edits: []Edit{{"auth.go", "\tb := &buffer{data: data}", "\tb := newBuffer(data)"}, {"buffer.go", "// getAny reads all properties from the current offset starting with\n// the variable length.  fields map property identity codes to wire\n// type fields and the addProp func is used for each user property.\nfunc (b *buffer) getAny(fields map[Ident]func() wireType, addProp func(UserProp)) {\n\tif b.atEnd() {\n\t\treturn\n\t}\n\tvar propLen vbint\n\tb.get(&propLen)\n\tend := b.i + int(propLen)\n\tvar id Ident\n\tfor b.i < end {\n\t\tb.get(&id)\n\t\t// first failure stops the parsing\n\t\tif b.err != nil {\n\t\t\treturn\n\t\t}\n\t\tfield, hasField := fields[id]\n\t\tif hasField {\n\t\t\tb.get(field())\n\t\t\tcontinue\n\t\t}\n\t\tswitch id {\n\t\tcase UserProperty:\n\t\t\tvar p UserProp\n\t\t\tb.get(&p)\n\t\t\taddProp(p)\n\n\t\tcase SubscriptionID:\n\t\t\tvar sub vbint\n\t\t\tb.get(&sub)\n\t\t\tif b.addSubscriptionID != nil {\n\t\t\t\tb.addSubscriptionID(uint32(sub))\n\t\t\t}\n\n\t\tdefault:\n\t\t\tb.err = fmt.Errorf(\"unknown property id 0x%02x\", id)\n\t\t}\n\t}\n}\n\nfunc (b *buffer) get(v wireType) {\n\tif b.err != nil {\n\t\treturn\n\t}\n\tif b.i >= len(b.data) {\n\t\tb.err = ErrMissingData\n\t\treturn\n\t}\n\tif b.err = v.UnmarshalBinary(b.data[b.i:]); b.err != nil {\n\t\treturn\n\t}\n\tn := v.width()\n\tif n > len(b.data)-b.i {\n\t\tb.err = ErrMissingData\n\t\treturn\n\t}\n\tb.i += n", "// newBuffer returns a buffer positioned at the start of data.\nfunc newBuffer(data []byte) *buffer {\n\treturn &buffer{data: data}\n}\n\n// getAny reads all properties from the current offset starting with\n// the variable length.  fields map property identity codes to wire\n// type fields and the addProp func is used for each user property.\nfunc (b *buffer) getAny(fields map[Ident]func() wireType, addProp func(UserProp)) {\n\tif b.atEnd() {\n\t\treturn\n\t}\n\tvar propLen vbint\n\tb.get(&propLen)\n\tend := b.i + int(propLen)\n\tvar id Ident\n\tfor b.i < end {\n\t\tb.get(&id)\n\t\t// first failure stops the parsing\n\t\tif b.err != nil {\n\t\t\treturn\n\t\t}\n\t\tfield, hasField := fields[id]\n\t\tif hasField {\n\t\t\tb.get(field())\n\t\t\tcontinue\n\t\t}\n\t\tswitch id {\n\t\tcase UserProperty:\n\t\t\tvar p UserProp\n\t\t\tb.get(&p)\n\t\t\taddProp(p)\n\n\t\tcase SubscriptionID:\n\t\t\tvar sub vbint\n\t\t\tb.get(&sub)\n\t\t\tif b.addSubscriptionID != nil {\n\t\t\t\tb.addSubscriptionID(uint32(sub))\n\t\t\t}\n\n\t\tdefault:\n\t\t\tb.fail(fmt.Errorf(\"unknown property id 0x%02x\", id))\n\t\t}\n\t}\n}\n\nfunc (b *buffer) get(v wireType) {\n\tif b.err != nil {\n\t\treturn\n\t}\n\trest := b.rest()\n\tif len(rest) == 0 {\n\t\tb.fail(ErrMissingData)\n\t\treturn\n\t}\n\tif err := v.UnmarshalBinary(rest); err != nil {\n\t\tb.fail(err)\n\t\treturn\n\t}\n\tn := v.width()\n\tif n > len(rest) {\n\t\tb.fail(ErrMissingData)\n\t\treturn\n\t}\n\tb.i += n\n}\n\n// rest returns the data not yet read.\nfunc (b *buffer) rest() []byte {\n\treturn b.data[b.i:]\n}\n\n// fail records err unless a previous failure is already recorded,\n// i.e. the first failure is the one reported.\nfunc (b *buffer) fail(err error) {\n\tif b.err == nil {\n\t\tb.err = err\n\t}"}, {"connack.go", "\tb := &buffer{data: data}", "\tb := newBuffer(data)"}, {"connect.go", "\tbuf := &buffer{data: data}", "\tbuf := newBuffer(data)"}, {"disconnect.go", "\tb := &buffer{data: data}", "\tb := newBuffer(data)"}, {"puback.go", "\tb := &buffer{data: data}", "\tb := newBuffer(data)"}, {"pubcomp.go", "\tb := &buffer{data: data}", "\tb := newBuffer(data)"}, {"pubrec.go", "\tb := &buffer{data: data}", "\tb := newBuffer(data)"}, {"pubrel.go", "\tb := &buffer{data: data}", "\tb := newBuffer(data)"}, {"suback.go", "\tb := &buffer{data: data}", "\tb := newBuffer(data)"}, {"subscribe.go", "\tb := &buffer{data: data}", "\tb := newBuffer(data)"}, {"unsuback.go", "\tb := &buffer{data: data}", "\tb := newBuffer(data)"}, {"unsubscribe.go", "\tb := &buffer{data: data}", "\tb := newBuffer(data)"}}},
		{Name: "sticky-error-overwritten-behind-a-stale-nil-test", Rule: "R9.0", Where: "getAny", Edits: []Edit{{"buffer.go", "\tif b.atEnd() {\n\t\treturn\n\t}\n\tvar propLen vbint\n\tb.get(&propLen)\n\tend := b.i + int(propLen)\n\tvar id Ident\n\tfor b.i < end {\n\t\tb.get(&id)\n\t\t// first failure stops the parsing\n\t\tif b.err != nil {\n\t\t\treturn\n\t\t}\n\t\tfield, hasField := fields[id]\n\t\tif hasField {\n\t\t\tb.get(field())\n\t\t\tcontinue\n\t\t}\n\t\tswitch id {\n\t\tcase UserProperty:\n\t\t\tvar p UserProp\n\t\t\tb.get(&p)\n\t\t\taddProp(p)\n\n\t\tcase SubscriptionID:\n\t\t\tvar sub vbint\n\t\t\tb.get(&sub)\n\t\t\tif b.addSubscriptionID != nil {\n\t\t\t\tb.addSubscriptionID(uint32(sub))\n\t\t\t}\n\n\t\tdefault:\n\t\t\tb.err = fmt.Errorf(\"unknown property id 0x%02x\", id)\n\t\t}\n\t}", "\tif b.err != nil || b.atEnd() {\n\t\treturn\n\t}\n\tvar propLen vbint\n\tb.get(&propLen)\n\tend := b.i + int(propLen)\n\tvar id Ident\n\tfor b.i < end {\n\t\tb.get(&id)\n\t\t// first failure stops the parsing\n\t\tif b.err != nil {\n\t\t\treturn\n\t\t}\n\t\tfield, hasField := fields[id]\n\t\tif hasField {\n\t\t\tb.get(field())\n\t\t\tcontinue\n\t\t}\n\t\tswitch id {\n\t\tcase UserProperty:\n\t\t\tvar p UserProp\n\t\t\tb.get(&p)\n\t\t\taddProp(p)\n\n\t\tcase SubscriptionID:\n\t\t\tvar sub vbint\n\t\t\tb.get(&sub)\n\t\t\tif b.addSubscriptionID != nil {\n\t\t\t\tb.addSubscriptionID(uint32(sub))\n\t\t\t}\n\n\t\tdefault:\n\t\t\tb.err = fmt.Errorf(\"unknown property id 0x%02x\", id)\n\t\t}\n\t}\n\t// the properties have to fill the announced length exactly\n\tb.err = b.endsAt(end)\n}\n\n// endsAt returns an error if the current offset is not the given one.\nfunc (b *buffer) endsAt(end int) error {\n\tif b.i != end {\n\t\treturn fmt.Errorf(\"property length mismatch, ends at %v, expected %v\", b.i, end)\n\t}\n\treturn nil"}}},
		{Name: "delegating-decoder-accepts-a-short-body-undecoded", Rule: "R9.2", Where: "(*PubAck).UnmarshalBinary", Edits: []Edit{{"puback.go", "\tb := &buffer{data: data}\n\tb.get(&p.packetID)\n\t// no more data, see 3.4.2.1 PUBACK Reason Code\n\tif len(data) > 2 {\n\t\tb.get(&p.reasonCode)\n\t\tb.getAny(p.propertyMap(), p.appendUserProperty)", "\t// without a packet identifier there is no variable header to decode\n\tif len(data) < 2 {\n\t\treturn nil\n\t}\n\treturn unmarshalAck(data,\n\t\t&p.packetID, &p.reasonCode, p.propertyMap(), p.appendUserProperty,\n\t)\n}\n\n// unmarshalAck decodes the variable header shared by PUBACK, PUBREC,\n// PUBREL and PUBCOMP.\nfunc unmarshalAck(\n\tdata []byte, packetID *wuint16, reasonCode *wuint8,\n\tfields map[Ident]func() wireType, addProp func(UserProp),\n) error {\n\tb := &buffer{data: data}\n\tb.get(packetID)\n\t// no more data, see 3.4.2.1 PUBACK Reason Code\n\tif len(data) > 2 {\n\t\tb.get(reasonCode)\n\t\tb.getAny(fields, addProp)"}, {"pubcomp.go", "\tb := &buffer{data: data}\n\tb.get(&p.packetID)\n\t// no more data, see 3.4.2.1 PUBACK Reason Code\n\tif len(data) > 2 {\n\t\tb.get(&p.reasonCode)\n\t\tb.getAny(p.propertyMap(), p.appendUserProperty)\n\t}\n\treturn b.err", "\t// without a packet identifier there is no variable header to decode\n\tif len(data) < 2 {\n\t\treturn nil\n\t}\n\treturn unmarshalAck(data,\n\t\t&p.packetID, &p.reasonCode, p.propertyMap(), p.appendUserProperty,\n\t)"}, {"pubrec.go", "\tb := &buffer{data: data}\n\tb.get(&p.packetID)\n\t// no more data, see 3.4.2.1 PUBACK Reason Code\n\tif len(data) > 2 {\n\t\tb.get(&p.reasonCode)\n\t\tb.getAny(p.propertyMap(), p.appendUserProperty)\n\t}\n\treturn b.err", "\t// without a packet identifier there is no variable header to decode\n\tif len(data) < 2 {\n\t\treturn nil\n\t}\n\treturn unmarshalAck(data,\n\t\t&p.packetID, &p.reasonCode, p.propertyMap(), p.appendUserProperty,\n\t)"}, {"pubrel.go", "\tb := &buffer{data: data}\n\tb.get(&p.packetID)\n\t// no more data, see 3.4.2.1 PUBACK Reason Code\n\tif len(data) > 2 {\n\t\tb.get(&p.reasonCode)\n\t\tb.getAny(p.propertyMap(), p.appendUserProperty)\n\t}\n\treturn b.err", "\t// without a packet identifier there is no variable header to decode\n\tif len(data) < 2 {\n\t\treturn nil\n\t}\n\treturn unmarshalAck(data,\n\t\t&p.packetID, &p.reasonCode, p.propertyMap(), p.appendUserProperty,\n\t)"}}},
		{Name: "get-does-nothing-when-optional-and-at-the-end", Rule: "R9.0", Where: "(*buffer).get", Edits: []Edit{{"buffer.go", "\taddSubscriptionID func(uint32) // used in e.g. Publish\n}\n\n// getAny reads all properties from the current offset starting with\n// the variable length.  fields map property identity codes to wire\n// type fields and the addProp func is used for each user property.\nfunc (b *buffer) getAny(fields map[Ident]func() wireType, addProp func(UserProp)) {\n\tif b.atEnd() {\n\t\treturn\n\t}\n\tvar propLen vbint\n\tb.get(&propLen)\n\tend := b.i + int(propLen)\n\tvar id Ident\n\tfor b.i < end {\n\t\tb.get(&id)\n\t\t// first failure stops the parsing\n\t\tif b.err != nil {\n\t\t\treturn\n\t\t}\n\t\tfield, hasField := fields[id]\n\t\tif hasField {\n\t\t\tb.get(field())\n\t\t\tcontinue\n\t\t}\n\t\tswitch id {\n\t\tcase UserProperty:\n\t\t\tvar p UserProp\n\t\t\tb.get(&p)\n\t\t\taddProp(p)\n\n\t\tcase SubscriptionID:\n\t\t\tvar sub vbint\n\t\t\tb.get(&sub)\n\t\t\tif b.addSubscriptionID != nil {\n\t\t\t\tb.addSubscriptionID(uint32(sub))\n\t\t\t}\n\n\t\tdefault:\n\t\t\tb.err = fmt.Errorf(\"unknown property id 0x%02x\", id)\n\t\t}\n\t}\n}\n\nfunc (b *buffer) get(v wireType) {", "\t// optional is set once the mandatory fields are read, what follows\n\t// may be left out, e.g. reason code and properties of a PUBACK\n\toptional bool\n\n\taddSubscriptionID func(uint32) // used in e.g. Publish\n}\n\n// getAny reads all properties from the current offset starting with\n// the variable length.  fields map property identity codes to wire\n// type fields and the addProp func is used for each user property.\nfunc (b *buffer) getAny(fields map[Ident]func() wireType, addProp func(UserProp)) {\n\tif b.atEnd() {\n\t\treturn\n\t}\n\tvar propLen vbint\n\tb.get(&propLen)\n\tend := b.i + int(propLen)\n\tvar id Ident\n\tfor b.i < end {\n\t\tb.get(&id)\n\t\t// first failure stops the parsing\n\t\tif b.err != nil {\n\t\t\treturn\n\t\t}\n\t\tfield, hasField := fields[id]\n\t\tif hasField {\n\t\t\tb.get(field())\n\t\t\tcontinue\n\t\t}\n\t\tswitch id {\n\t\tcase UserProperty:\n\t\t\tvar p UserProp\n\t\t\tb.get(&p)\n\t\t\taddProp(p)\n\n\t\tcase SubscriptionID:\n\t\t\tvar sub vbint\n\t\t\tb.get(&sub)\n\t\t\tif b.addSubscriptionID != nil {\n\t\t\t\tb.addSubscriptionID(uint32(sub))\n\t\t\t}\n\n\t\tdefault:\n\t\t\tb.err = fmt.Errorf(\"unknown property id 0x%02x\", id)\n\t\t}\n\t}\n}\n\nfunc (b *buffer) get(v wireType) {\n\tif b.optional && b.atEnd() {\n\t\t// nothing more to read, the fields keep their zero values\n\t\treturn\n\t}"}, {"puback.go", "\tif len(data) > 2 {\n\t\tb.get(&p.reasonCode)\n\t\tb.getAny(p.propertyMap(), p.appendUserProperty)\n\t}", "\tb.optional = true\n\tb.get(&p.reasonCode)\n\tb.getAny(p.propertyMap(), p.appendUserProperty)"}, {"pubcomp.go", "\tif len(data) > 2 {\n\t\tb.get(&p.reasonCode)\n\t\tb.getAny(p.propertyMap(), p.appendUserProperty)\n\t}", "\tb.optional = true\n\tb.get(&p.reasonCode)\n\tb.getAny(p.propertyMap(), p.appendUserProperty)"}, {"pubrec.go", "\tif len(data) > 2 {\n\t\tb.get(&p.reasonCode)\n\t\tb.getAny(p.propertyMap(), p.appendUserProperty)\n\t}", "\tb.optional = true\n\tb.get(&p.reasonCode)\n\tb.getAny(p.propertyMap(), p.appendUserProperty)"}, {"pubrel.go", "\tif len(data) > 2 {\n\t\tb.get(&p.reasonCode)\n\t\tb.getAny(p.propertyMap(), p.appendUserProperty)\n\t}", "\tb.optional = true\n\tb.get(&p.reasonCode)\n\tb.getAny(p.propertyMap(), p.appendUserProperty)"}}},
		{Name: "filter-loop-with-a-keep-going-flag-and-a-helper", Silent: true, Edits: []Edit{{"subscribe.go", "\tfor {\n\t\tvar f TopicFilter\n\t\tb.get(&f.filter)\n\t\tb.get(&f.options)\n\t\tif b.err != nil {\n\t\t\tbreak\n\t\t}\n\t\tp.filters = append(p.filters, f)\n\t\tif b.i == len(data) {\n\t\t\tbreak\n\t\t}\n\t}\n\treturn b.err", "\t// the payload holds at least one topic filter\n\tfor more := true; more; more = !b.atEnd() {\n\t\tf, err := b.getTopicFilter()\n\t\tif err != nil {\n\t\t\treturn err\n\t\t}\n\t\tp.filters = append(p.filters, f)\n\t}\n\treturn nil\n}\n\n// getTopicFilter reads one filter and its subscription options.\nfunc (b *buffer) getTopicFilter() (f TopicFilter, err error) {\n\tb.get(&f.filter)\n\tb.get(&f.options)\n\treturn f, b.err"}, {"unsubscribe.go", "\tfor {\n\t\tvar f wstring\n\t\tb.get(&f)\n\t\tif b.err != nil {\n\t\t\tbreak\n\t\t}\n\t\tp.filters = append(p.filters, f)\n\t\tif b.i == len(data) {\n\t\t\tbreak\n\t\t}\n\t}\n\treturn b.err", "\t// the payload holds at least one topic filter\n\tfor more := true; more; more = !b.atEnd() {\n\t\tvar f wstring\n\t\tif b.get(&f); b.err != nil {\n\t\t\treturn b.err\n\t\t}\n\t\tp.filters = append(p.filters, f)\n\t}\n\treturn nil"}}},
		{Name: "keep-going-loop-swallows-the-error", Rule: "R9.2", Where: "(*Subscribe).UnmarshalBinary", Edits: []Edit{{"subscribe.go", "\tfor {\n\t\tvar f TopicFilter\n\t\tb.get(&f.filter)\n\t\tb.get(&f.options)\n\t\tif b.err != nil {\n\t\t\tbreak\n\t\t}\n\t\tp.filters = append(p.filters, f)\n\t\tif b.i == len(data) {\n\t\t\tbreak\n\t\t}\n\t}\n\treturn b.err", "\t// the payload holds at least one topic filter\n\tfor more := true; more; more = !b.atEnd() {\n\t\tf, err := b.getTopicFilter()\n\t\tif err != nil {\n\t\t\tbreak\n\t\t}\n\t\tp.filters = append(p.filters, f)\n\t}\n\treturn nil\n}\n\n// getTopicFilter reads one filter and its subscription options.\nfunc (b *buffer) getTopicFilter() (f TopicFilter, err error) {\n\tb.get(&f.filter)\n\tb.get(&f.options)\n\treturn f, b.err"}, {"unsubscribe.go", "\tfor {\n\t\tvar f wstring\n\t\tb.get(&f)\n\t\tif b.err != nil {\n\t\t\tbreak\n\t\t}\n\t\tp.filters = append(p.filters, f)\n\t\tif b.i == len(data) {\n\t\t\tbreak\n\t\t}\n\t}\n\treturn b.err", "\t// the payload holds at least one topic filter\n\tfor more := true; more; more = !b.atEnd() {\n\t\tvar f wstring\n\t\tif b.get(&f); b.err != nil {\n\t\t\treturn b.err\n\t\t}\n\t\tp.filters = append(p.filters, f)\n\t}\n\treturn nil"}}},
		{Name: "second-property-loop-ignores-the-identifier", Rule: "R9.5", Where: "Unsubscribe", Edits: []Edit{{"buffer.go", "\t}\n}\n", "\t}\n}\n\n// getUserProps reads a property section in which user properties are\n// the only ones defined, e.g. UNSUBSCRIBE. No field map is needed then.\nfunc (b *buffer) getUserProps(addProp func(UserProp)) {\n\tif b.atEnd() {\n\t\treturn\n\t}\n\tvar propLen vbint\n\tb.get(&propLen)\n\tend := b.i + int(propLen)\n\tfor b.i < end {\n\t\tvar id Ident\n\t\tvar p UserProp\n\t\tb.get(&id)\n\t\tb.get(&p)\n\t\t// first failure stops the parsing\n\t\tif b.err != nil {\n\t\t\treturn\n\t\t}\n\t\taddProp(p)\n\t}\n}\n"}, {"unsubscribe.go", "\tb.getAny(nil, p.appendUserProperty)", "\tb.getUserProps(p.appendUserProperty)"}}},
		{Name: "reader-overwritten-as-a-whole", Rule: "R9.0", Where: "SubAck", Edits: []Edit{{"suback.go", "\tp.reasonCodes = make([]uint8, len(data)-b.i)", "\t// payload: the rest of the frame, one reason code per byte\n\t*b = buffer{data: data[b.i:], i: 0}\n\tp.reasonCodes = make([]uint8, len(b.data))"}}},
		{Name: "high-identifiers-skipped-as-vendor-extensions", Rule: "R9.5", Where: "ConnAck#undefined-identifiers", Edits: []Edit{{"buffer.go", "\t\tdefault:\n\t\t\tb.err = fmt.Errorf(\"unknown property id 0x%02x\", id)", "\t\tdefault:\n\t\t\tif id >= 0x80 {\n\t\t\t\tvar ext bindata\n\t\t\t\tb.get(&ext)\n\t\t\t\tcontinue\n\t\t\t}\n\t\t\tb.err = fmt.Errorf(\"unknown property id 0x%02x\", id)"}}},
		{Name: "payload-stage-with-its-own-reader-and-dropped-error", Rule: "R9.2", Where: "(*Unsubscribe).UnmarshalBinary#dropped-error", Edits: []Edit{
			{"unsubscribe.go", "\tb.getAny(nil, p.appendUserProperty)\n\n\tfor {", "\tb.getAny(nil, p.appendUserProperty)\n\tif b.err == nil {\n\t\tp.unmarshalPayload(data[b.i:])\n\t}\n\treturn b.err\n}\n\nfunc (p *Unsubscribe) unmarshalPayload(data []byte) error {\n\tb := &buffer{data: data}\n\tfor {"},
			{"unsubscribe.go", "\t\tif b.i == len(data) {\n\t\t\tbreak\n\t\t}", "\t\tif b.atEnd() {\n\t\t\tbreak\n\t\t}"}}},
		{Name: "boolean-property-kept-in-a-byte-field", Rule: "R9.4", Where: "Publish#boolean-properties", Edits: []Edit{
			{"publish.go", "\tpayloadFormat wbool", "\tpayloadFormat wuint8"},
			{"publish.go", "func (p *Publish) SetPayloadFormat(v bool) { p.payloadFormat = wbool(v) }\nfunc (p *Publish) PayloadFormat() bool     { return bool(p.payloadFormat) }", "func (p *Publish) SetPayloadFormat(v bool) {\n\tp.payloadFormat = 0\n\tif v {\n\t\tp.payloadFormat = 1\n\t}\n}\nfunc (p *Publish) PayloadFormat() bool { return p.payloadFormat == 1 }"}}},
		{Name: "size-guard-one-byte-too-late", Rule: "R9.3", Where: "(*vbint).ReadFrom#size-guard", Edits: []Edit{{"wiretypes.go", "\t\tif multiplier > 128*128*128 {\n\t\t\treturn i, unmarshalErr(v, \"\", \"size exceeded\")", "\t\tif multiplier > 128*128*128*128 {\n\t\t\treturn i, unmarshalErr(v, \"\", \"size exceeded\")"}}},
		{Name: "second-reader-for-the-payload-first-error-dropped", Rule: "R9.2", Where: "(*Subscribe).UnmarshalBinary", Edits: []Edit{
			{"subscribe.go", "\tb := &buffer{data: data}\n\tb.get(&p.packetID)\n\tb.getAny(p.propertyMap(true), p.appendUserProperty)\n", "\th := &buffer{data: data}\n\th.get(&p.packetID)\n\th.getAny(p.propertyMap(true), p.appendUserProperty)\n\tb := &buffer{data: data[h.i:]}\n"},
			{"subscribe.go", "\t\tif b.i == len(data) {\n\t\t\tbreak\n\t\t}", "\t\tif b.atEnd() {\n\t\t\tbreak\n\t\t}"}}},
		{Name: "nil-returned-under-error-test", Silent: true, Edits: []Edit{{"unsubscribe.go", "\t\tif b.err != nil {\n\t\t\tbreak\n\t\t}\n\t\tp.filters = append(p.filters, f)\n\t\tif b.i == len(data) {\n\t\t\tbreak\n\t\t}\n\t}\n\treturn b.err\n}", "\t\tif b.err != nil {\n\t\t\treturn b.err\n\t\t}\n\t\tp.filters = append(p.filters, f)\n\t\tif b.atEnd() {\n\t\t\treturn nil\n\t\t}\n\t}\n}"}}},
		{Name: "identifier-high-bit-masked", Rule: "R9.5", Where: "(*Ident).UnmarshalBinary", Edits: []Edit{{"wiretypes.go", "\t*v = Ident(data[0])", "\t*v = Ident(data[0] & 0x7f)"}}},
		{Name: "vbi-accepts-unterminated", Rule: "R9.3", Where: "(*vbint).UnmarshalBinary", Edits: []Edit{{"wiretypes.go", "\t\tif encodedByte&128 == 0 {\n\t\t\t*v = vbint(value)\n\t\t\treturn nil\n\t\t}\n\t\tmultiplier = multiplier * 128\n\t}\n\treturn unmarshalErr(v, \"\", \"missing data\")", "\t\tif encodedByte&128 == 0 {\n\t\t\tbreak\n\t\t}\n\t\tmultiplier = multiplier * 128\n\t}\n\t*v = vbint(value)\n\treturn nil"}}},
		{Name: "vbi-guard-dropped-in-memory", Rule: "R9.3", Where: "(*vbint).UnmarshalBinary", Edits: []Edit{{"wiretypes.go", "\t\tif multiplier > 128*128*128 {\n\t\t\treturn unmarshalErr(v, \"\", \"size exceeded\")\n\t\t}\n", ""}}},
		{Name: "bool-default-accepts", Rule: "R9.4", Where: "(*wbool).UnmarshalBinary", Edits: []Edit{{"wiretypes.go", "\tdefault:\n\t\treturn fmt.Errorf(\"malformed bool\")\n\t}", "\tdefault:\n\t\t*v = wbool(true)\n\t}"}}},
		{Name: "unknown-id-skipped", Rule: "R9.5", Where: "(*buffer).getAny", Edits: []Edit{{"buffer.go", "\t\tdefault:\n\t\t\tb.err = fmt.Errorf(\"unknown property id 0x%02x\", id)\n", "\t\tdefault:\n\t\t\tb.i++\n"}}},
		{Name: "packet-decoder-returns-nil", Rule: "R9.2", Where: "(*ConnAck).UnmarshalBinary", Edits: []Edit{{"connack.go", "\tb.getAny(p.propertyMap(), p.appendUserProperty)\n\treturn b.err\n}", "\tb.getAny(p.propertyMap(), p.appendUserProperty)\n\treturn nil\n}"}}},
		{Name: "content-error-ignored-single-exit", Rule: "R9.2", Where: "ReadRemaining", Edits: []Edit{{"packet.go", "\tif f.remainingLen == 0 {\n\t\treturn p, nil\n\t}\n\tdata := make([]byte, int(f.remainingLen))\n\tif _, err := io.ReadFull(r, data); err != nil {\n\t\treturn nil, fmt.Errorf(\n\t\t\t\"%s ReadRemaining: %w\",\n\t\t\tfirstByte(f.fixed).String(), err,\n\t\t)\n\t}\n\n\tif err := p.UnmarshalBinary(data); err != nil {\n\t\treturn nil, fmt.Errorf(\n\t\t\t\"%s %v UnmarshalBinary: %w\",\n\t\t\tfirstByte(f.fixed).String(), f.remainingLen, err,\n\t\t)\n\t}\n\treturn p, nil\n}\n", "\tif f.remainingLen > 0 {\n\t\tdata, err := f.readBody(r)\n\t\tif err != nil {\n\t\t\treturn nil, f.wrap(\"ReadRemaining\", err)\n\t\t}\n\t\tif err := p.UnmarshalBinary(data); err != nil && len(data) > 1<<20 {\n\t\t\treturn nil, f.wrap(fmt.Sprintf(\"%v UnmarshalBinary\", f.remainingLen), err)\n\t\t}\n\t}\n\treturn p, nil\n}\n\nfunc (f *fixedHeader) readBody(r io.Reader) ([]byte, error) {\n\tdata := make([]byte, int(f.remainingLen))\n\tif _, err := io.ReadFull(r, data); err != nil {\n\t\treturn nil, err\n\t}\n\treturn data, nil\n}\n\nfunc (f *fixedHeader) wrap(op string, err error) error {\n\treturn fmt.Errorf(\"%s %s: %w\", firstByte(f.fixed).String(), op, err)\n}\n"}}},
		{Name: "per-identifier-helpers", Silent: true, Edits: []Edit{{"buffer.go", "\t\tfield, hasField := fields[id]\n\t\tif hasField {\n\t\t\tb.get(field())\n\t\t\tcontinue\n\t\t}\n\t\tswitch id {\n\t\tcase UserProperty:\n\t\t\tvar p UserProp\n\t\t\tb.get(&p)\n\t\t\taddProp(p)\n\n\t\tcase SubscriptionID:\n\t\t\tvar sub vbint\n\t\t\tb.get(&sub)\n\t\t\tif b.addSubscriptionID != nil {\n\t\t\t\tb.addSubscriptionID(uint32(sub))\n\t\t\t}\n\n\t\tdefault:\n\t\t\tb.err = fmt.Errorf(\"unknown property id 0x%02x\", id)\n\t\t}\n\t}\n}\n\n", "\t\tswitch field, hasField := fields[id]; {\n\t\tcase hasField:\n\t\t\tb.get(field())\n\t\tcase id == UserProperty:\n\t\t\tb.getUserProp(addProp)\n\t\tcase id == SubscriptionID:\n\t\t\tb.getSubscriptionID()\n\t\tdefault:\n\t\t\tb.err = fmt.Errorf(\"unknown property id 0x%02x\", id)\n\t\t}\n\t}\n}\n\nfunc (b *buffer) getUserProp(addProp func(UserProp)) {\n\tvar p UserProp\n\tb.get(&p)\n\taddProp(p)\n}\n\nfunc (b *buffer) getSubscriptionID() {\n\tvar sub vbint\n\tb.get(&sub)\n\tif b.addSubscriptionID == nil {\n\t\treturn\n\t}\n\tb.addSubscriptionID(uint32(sub))\n}\n\n"}}},
		{Name: "per-identifier-helper-skips-the-value", Rule: "R9.5", Where: "getAny", Edits: []Edit{{"buffer.go", "\t\tfield, hasField := fields[id]\n\t\tif hasField {\n\t\t\tb.get(field())\n\t\t\tcontinue\n\t\t}\n\t\tswitch id {\n\t\tcase UserProperty:\n\t\t\tvar p UserProp\n\t\t\tb.get(&p)\n\t\t\taddProp(p)\n\n\t\tcase SubscriptionID:\n\t\t\tvar sub vbint\n\t\t\tb.get(&sub)\n\t\t\tif b.addSubscriptionID != nil {\n\t\t\t\tb.addSubscriptionID(uint32(sub))\n\t\t\t}\n\n\t\tdefault:\n\t\t\tb.err = fmt.Errorf(\"unknown property id 0x%02x\", id)\n\t\t}\n\t}\n}\n\n", "\t\tswitch field, hasField := fields[id]; {\n\t\tcase hasField:\n\t\t\tb.get(field())\n\t\tcase id == UserProperty:\n\t\t\tb.getUserProp(addProp)\n\t\tcase id == SubscriptionID:\n\t\t\tb.getSubscriptionID()\n\t\tdefault:\n\t\t\tb.err = fmt.Errorf(\"unknown property id 0x%02x\", id)\n\t\t}\n\t}\n}\n\nfunc (b *buffer) getUserProp(addProp func(UserProp)) {\n\tvar p UserProp\n\tb.get(&p)\n\taddProp(p)\n}\n\nfunc (b *buffer) getSubscriptionID() {\n\tif b.addSubscriptionID == nil {\n\t\treturn\n\t}\n\tvar sub vbint\n\tb.get(&sub)\n\tb.addSubscriptionID(uint32(sub))\n}\n\n"}}},
		{Name: "decoder-delegates-to-a-shared-function", Silent: true, Edits: []Edit{{"puback.go", "func (p *PubAck) UnmarshalBinary(data []byte) error {\n\tb := &buffer{data: data}\n\tb.get(&p.packetID)\n\t// no more data, see 3.4.2.1 PUBACK Reason Code\n\tif len(data) > 2 {\n\t\tb.get(&p.reasonCode)\n\t\tb.getAny(p.propertyMap(), p.appendUserProperty)\n\t}\n\treturn b.err\n}\n", "func (p *PubAck) UnmarshalBinary(data []byte) error {\n\treturn unmarshalAck(data,\n\t\t&p.packetID, &p.reasonCode, p.propertyMap(), p.appendUserProperty,\n\t)\n}\n\nfunc unmarshalAck(\n\tdata []byte, packetID *wuint16, reasonCode *wuint8,\n\tfields map[Ident]func() wireType, addProp func(UserProp),\n) error {\n\tb := &buffer{data: data}\n\tb.get(packetID)\n\tif len(data) <= 2 {\n\t\treturn b.err\n\t}\n\tb.get(reasonCode)\n\tb.getAny(fields, addProp)\n\treturn b.err\n}\n"}}},
		{Name: "shared-decoder-function-drops-the-sticky-error", Rule: "R9.2", Where: "unmarshalAck", Edits: []Edit{{"puback.go", "func (p *PubAck) UnmarshalBinary(data []byte) error {\n\tb := &buffer{data: data}\n\tb.get(&p.packetID)\n\t// no more data, see 3.4.2.1 PUBACK Reason Code\n\tif len(data) > 2 {\n\t\tb.get(&p.reasonCode)\n\t\tb.getAny(p.propertyMap(), p.appendUserProperty)\n\t}\n\treturn b.err\n}\n", "func (p *PubAck) UnmarshalBinary(data []byte) error {\n\treturn unmarshalAck(data,\n\t\t&p.packetID, &p.reasonCode, p.propertyMap(), p.appendUserProperty,\n\t)\n}\n\nfunc unmarshalAck(\n\tdata []byte, packetID *wuint16, reasonCode *wuint8,\n\tfields map[Ident]func() wireType, addProp func(UserProp),\n) error {\n\tb := &buffer{data: data}\n\tb.get(packetID)\n\tif len(data) <= 2 {\n\t\treturn nil\n\t}\n\tb.get(reasonCode)\n\tb.getAny(fields, addProp)\n\treturn b.err\n}\n"}}},
		{Name: "content-error-ignored", Rule: "R9.2", Where: "ReadRemaining", Edits: []Edit{{"packet.go", "\tif err := p.UnmarshalBinary(data); err != nil {", "\tif err := p.UnmarshalBinary(data); err != nil && len(data) > 1<<20 {"}}},
		{Name: "u16-zero-pads-short-input", Rule: "R9.1", Where: "(*wuint16).UnmarshalBinary", Edits: []Edit{{"wiretypes.go", "func (v *wuint16) UnmarshalBinary(data []byte) error {\n\tif len(data) < 2 {\n\t\treturn ErrMissingData\n\t}\n", "func (v *wuint16) UnmarshalBinary(data []byte) error {\n\tif len(data) < 2 {\n\t\t*v = 0\n\t\treturn nil\n\t}\n"}}},
		{Name: "get-clamps-instead-of-failing", Rule: "R9.0", Where: "(*buffer).get", Edits: []Edit{{"buffer.go", "\tif n > len(b.data)-b.i {\n\t\tb.err = ErrMissingData\n\t\treturn\n\t}\n\tb.i += n", "\tif n > len(b.data)-b.i {\n\t\tn = len(b.data) - b.i\n\t}\n\tb.i += n"}}},
		{Name: "property-id-outside-spec", Rule: "R9.5", Where: "id 0x2b", Edits: []Edit{{"const.go", "SharedSubAvailable     Ident = 0x2a", "SharedSubAvailable     Ident = 0x2b"}}},
		{Name: "bool-switch-as-if", Silent: true, Edits: []Edit{{"wiretypes.go", "\tswitch data[0] {\n\tcase 0:\n\t\t*v = wbool(false)\n\tcase 1:\n\t\t*v = wbool(true)\n\tdefault:\n\t\treturn fmt.Errorf(\"malformed bool\")\n\t}\n\treturn nil", "\tif data[0] == 0 {\n\t\t*v = wbool(false)\n\t} else if data[0] == 1 {\n\t\t*v = wbool(true)\n\t} else {\n\t\treturn fmt.Errorf(\"malformed bool\")\n\t}\n\treturn nil"}}},
	}})
}

// the 27 property identifiers of MQTT v5.0 (OASIS standard, table 2-4)
var specPropertyIDs = map[int64]string{
	0x01: "Payload Format Indicator", 0x02: "Message Expiry Interval", 0x03: "Content Type", 0x08: "Response Topic",
	0x09: "Correlation Data", 0x0B: "Subscription Identifier", 0x11: "Session Expiry Interval", 0x12: "Assigned Client Identifier",
	0x13: "Server Keep Alive", 0x15: "Authentication Method", 0x16: "Authentication Data", 0x17: "Request Problem Information",
	0x18: "Will Delay Interval", 0x19: "Request Response Information", 0x1A: "Response Information", 0x1C: "Server Reference",
	0x1F: "Reason String", 0x21: "Receive Maximum", 0x22: "Topic Alias Maximum", 0x23: "Topic Alias", 0x24: "Maximum QoS",
	0x25: "Retain Available", 0x26: "User Property", 0x27: "Maximum Packet Size", 0x28: "Wildcard Subscription Available",
	0x29: "Subscription Identifier Available", 0x2A: "Shared Subscription Available",
}

// wireDecoders: UnmarshalBinary of every implementation of the unexported
// wire-type interface (the parameter type of the reader's guarded primitive).
func (p *Prog) wireDecoders() ([]*ssa.Function, *types.Interface) {
	cur := p.Cursor()
	if cur.G == nil {
		return nil, nil
	}
	it, ok := cur.G.Params[1].Type().Underlying().(*types.Interface)
	if !ok {
		return nil, nil
	}
	var out []*ssa.Function
	for _, t := range p.Implementers(it) {
		ms := p.Prog.MethodSets.MethodSet(t)
		sel := ms.Lookup(nil, "UnmarshalBinary")
		if sel == nil {
			continue
		}
		fn := p.Prog.MethodValue(sel)
		if fn != nil && fn.Synthetic != "" {
			if d := p.Prog.FuncValue(sel.Obj().(*types.Func)); d != nil {
				fn = d
			}
		}
		if fn != nil && fn.Blocks != nil {
			out = append(out, fn)
		}
	}
	sort.Slice(out, func(i, j int) bool { return qname(out[i]) < qname(out[j]) })
	return out, it
}

func checkC09(p *Prog, c *Check) {
	c.Rule("R9.0", "lemmas about the sequential reader (as C04 R4.0): at end of data the guarded primitive sets the non-nil missing-data error; it never advances past len(data); the error is sticky")
	c.Rule("R9.1", "every wire decoder returns nil only when at least width() >= its proven minimum bytes were present (no success on short input, no zero padding), and every other return is a non-nil error")
	c.Rule("R9.2", "every packet decoder returns the reader's sticky error as it is after the last read, and ReadPacket's tree turns a non-nil one into (nil, error)")
	c.Rule("R9.3", "both variable-byte-integer decoders keep the size guard on every cycle (a fifth continuation byte leaves with an error) and only the exit taken on a byte without continuation bit may reach success; running out of input is an error")
	c.Rule("R9.4", "the boolean decoder succeeds only on the edges `byte == 0` and `byte == 1`, and every property the specification defines as a boolean byte (0x01, 0x17, 0x19, 0x25, 0x28, 0x29, 0x2A) is decoded by it in every packet type that allows the property")
	c.Rule("R9.5", "in the property loop every iteration, after reading the identifier, reads a value through the guarded primitive or stores a non-nil error; every identifier accepted by any packet (property-map keys and the loop's own cases) is one of the 27 defined by MQTT v5.0")
	c.Explanation = "The four rejection classes are decided as path rules on the SSA form: truncation inside a field is caught because every field is read through the guarded primitive, which fails at end of data and refuses to advance beyond it (R9.0), and each wire decoder refuses short input (R9.1); the rejection cannot be lost on the way out (R9.2); over-long and unterminated variable byte integers (R9.3), non-0/1 booleans (R9.4) and undefined identifiers (R9.5) have no path to success. Decided is the mechanism; the universally quantified statement over every cut of every frame is not enumerated."
	c.Trusted = []string{"go/types + go/ssa (x/tools v0.29.0) faithful IR", "the list of 27 property identifiers transcribed from the MQTT v5.0 specification"}
	c.NotDecided = []string{"that every cut position of every valid frame falls into one of the checked mechanisms (field map of the reference encoder is not modelled)"}
	e, scope := p.decodeEffects()
	p.cache["specctx"] = e
	p.cache["spectag"] = "dec"
	defer func() { delete(p.cache, "specctx"); delete(p.cache, "spectag") }()
	for f := range scope {
		c.Fn(qname(f))
	}
	cur := p.Cursor()
	if !cur.CheckLemmas(p, c, "R9.0") && cur.G == nil {
		return
	}

	// R9.1
	decs, _ := p.wireDecoders()
	for _, d := range decs {
		checkWireDecoderRejects(p, c, d)
	}
	c.Measured["wire_decoders"] = len(decs)
	c.Floor("wire decoders", len(decs), 6, "byte, two-byte, four-byte, variable byte integer, string/binary, string pair")

	// R9.2
	checkStickyResult(p, c, cur)

	// R9.3
	nv := 0
	for _, fn := range sortedFuncs(scope) {
		if checkVBIDecoder(p, c, fn) {
			nv++
			continue
		}
		// a decoder of the variable byte integer type that is not of the accumulation-loop shape (a shared state
		// machine, a shift loop): judged by evaluation on byte sequences (C15 R15.6) — five-byte continuations and
		// sequences that end on a continuation byte are rejected, everything else is decoded as specified
		if r := p.vbiEvalFor(fn); r != nil && (fn == r.dec || fn == r.rd) {
			cons := qname(fn)
			switch {
			case r.ok(fn):
				nv++
				c.OK("R9.3", cons+"#evaluated", p.Pos(fn.Pos()), fmt.Sprintf("not of the accumulation-loop shape; evaluated on %d byte sequences: a fifth continuation byte and an integer that ends on a continuation byte are rejected, all others decode as MQTT v5.0 §1.5.5 defines", r.nseqs))
			case r.bad[fn] != "":
				c.Bad("R9.3", cons+"#evaluated", p.Pos(fn.Pos()), r.bad[fn])
			default:
				c.Unk("R9.3", cons+"#evaluated", p.Pos(fn.Pos()), "decoder of a variable byte integer of no recognised shape, and "+r.unk[fn])
			}
		}
	}
	c.Measured["vbi_decoders"] = nv
	c.Floor("variable-byte-integer decoders", nv, 2, "one streaming (header) and one in-memory (property length, subscription id)")
	// … and the remaining length of the fixed header is produced by that streaming decoder alone (shared with C06
	// R6.2 / C15): a length loop written into the header reader itself would be a third decoder that none of the
	// above looked at — a fifth length byte accepted there is (b) all the same
	{
		sc := NewCheck(c.ID, p)
		checkC06(p, sc)
		n62 := 0
		for _, o := range sc.Obls {
			if o.Rule != "R6.2" {
				continue
			}
			n62++
			c.add("R9.3", o.Construct+"#length-cell", o.Pos, o.Status, o.Detail)
		}
		if n62 == 0 {
			c.Unk("R9.3", "remaining length cell", "-", "no obligation about the fixed header's length cell was generated")
		}
	}

	// R9.4
	nb := 0
	for _, d := range decs {
		pt, ok := d.Params[0].Type().Underlying().(*types.Pointer)
		if !ok {
			continue
		}
		if bt, ok := pt.Elem().Underlying().(*types.Basic); ok && bt.Kind() == types.Bool {
			nb++
			checkBoolDecoder(p, c, d)
		}
	}
	c.Floor("boolean decoders", nb, 1, "MQTT has boolean (byte 0/1) properties")
	// … and every boolean property of the specification is decoded by such a decoder: ReadPacket is evaluated on
	// a frame carrying only that property, for each packet type that allows it
	{
		base := map[string]sv{}
		specPairMem(base)
		codeOf := map[string]int64{}
		for k, n := range specPacketTypes {
			codeOf[n] = k
		}
		nev := 0
		for _, tn := range packetTypeNames() {
			bad, unk := "", ""
			n := 0
			frames := p.specFrames(tn)
			for fi := range frames {
				f := &frames[fi]
				var id int64
				if _, err := fmt.Sscanf(f.name, "only property 0x%x", &id); err != nil || !specBoolProps[id] {
					continue
				}
				header := sv{k: 'i', i: codeOf[tn] | specReservedBits[tn]}
				r := p.decoderReplay(tn, header, f.toks, f.total(), base)
				n++
				nev++
				switch {
				case r.Why != "":
					unk = fmt.Sprintf("property %#02x: cannot evaluate ReadPacket: %s", id, r.Why)
				case r.BoolAsByte != "":
					bad = fmt.Sprintf("boolean property %#02x (%s) is decoded by %s, which accepts every byte value: 2..255 are not rejected", id, specPropByID(id).Name, r.BoolAsByte)
				}
			}
			if n == 0 {
				continue
			}
			cons := tn + "#boolean-properties"
			switch {
			case unk != "":
				c.Unk("R9.4", cons, "-", unk)
			case bad != "":
				c.Bad("R9.4", cons, "-", bad)
			default:
				c.OK("R9.4", cons, "-", fmt.Sprintf("%d boolean propert(ies) of the specification reach the two-way boolean decoder", n))
			}
		}
		c.Measured["boolean_property_frames"] = nev
	}

	// R9.5
	checkPropertyLoop(p, c, cur, scope)
	// … and by evaluation: ReadPacket on a frame whose only property carries an identifier MQTT v5.0 does not
	// define, followed by bytes that any decoder would accept, for all 229 such identifiers
	{
		base := map[string]sv{}
		specPairMem(base)
		codeOf := map[string]int64{}
		for k, n := range specPacketTypes {
			codeOf[n] = k
		}
		defined := map[int64]bool{}
		for _, sp := range specProps {
			defined[sp.ID] = true
		}
		nev := 0
		// every packet type that has a property section (a second property loop next to the shared one — an
		// UNSUBSCRIBE decoder with its own — is found here): ConnAck with all 229 undefined identifiers, the others
		// with a sample of them in the quick tier and with all in the thorough tier
		var tns []string
		for _, tn := range packetTypeNames() {
			tns = append(tns, tn)
		}
		for _, tn := range tns {
			if p.Method(tn, "UnmarshalBinary") == nil {
				continue
			}
			// the specification's frame without properties: what precedes and what follows the property length
			var pre, post []wireToken
			var header int64 = -1
			for _, f := range p.specFrames(tn) {
				if !strings.HasPrefix(f.name, "no properties") {
					continue
				}
				for i, t := range f.toks {
					if t.Kind == "vbi" && strings.HasPrefix(t.What, "property length") {
						pre = append([]wireToken(nil), f.toks[:i]...)
						post = append([]wireToken(nil), f.toks[i+1:]...)
						header = codeOf[tn] | specReservedBits[tn]
						if tn == "Publish" {
							var q int64
							if k := strings.Index(f.name, "QoS "); k >= 0 {
								fmt.Sscanf(f.name[k+4:], "%d", &q)
							}
							header |= q << 1
						}
						break
					}
				}
				if header >= 0 {
					break
				}
			}
			if header < 0 {
				continue // no property section (PINGREQ, PINGRESP)
			}
			sampleOnly := tn != "ConnAck" && !thoroughMode
			bad, unk := "", ""
			nundef := 0
			nids := 0
			for id := int64(0); id < 256 && bad == "" && unk == ""; id++ {
				if defined[id] {
					continue
				}
				nundef++
				if sampleOnly && nundef%16 != 1 && id != 0xff {
					continue
				}
				nids++
				// followed by 1..4 bytes that whatever decoder is tried takes as one value of exactly that width
				for w := int64(1); w <= 4 && bad == "" && unk == ""; w++ {
					toks := append(append([]wireToken(nil), pre...),
						wireToken{"vbi", 1, sv{k: 'i', i: 1 + w}, "property length"},
						wireToken{"ident", 1, sv{k: 'i', i: id}, fmt.Sprintf("undefined identifier %#02x", id)},
						wireToken{"any", w, sv{}, "bytes after the undefined identifier"})
					toks = append(toks, post...)
					var total int64
					for _, t := range toks {
						total += t.Width
					}
					r := p.decoderReplay(tn, sv{k: 'i', i: header}, toks, total, base)
					nev++
					switch {
					case r.Why != "":
						unk = fmt.Sprintf("identifier %#02x: cannot evaluate ReadPacket: %s", id, r.Why)
					case r.Err.k == 'z':
						bad = fmt.Sprintf("a frame whose property section carries the undefined identifier %#02x is accepted", id)
						if r.AnyConsumedBy != "" {
							bad += " (the " + fmt.Sprint(w) + " byte(s) after it are read as a " + r.AnyConsumedBy + ")"
						}
					}
				}
			}
			cons := tn + "#undefined-identifiers"
			switch {
			case unk != "":
				c.Unk("R9.5", cons, "-", unk)
			case bad != "":
				c.Bad("R9.5", cons, "-", bad)
			default:
				c.OK("R9.5", cons, "-", fmt.Sprintf("ReadPacket rejects the frame for each of the %d undefined identifiers tried (of the 229 the specification does not define), whatever 1–4 bytes follow", nids))
			}
		}
		c.Measured["undefined_identifier_frames"] = nev
	}
}

// R9.1
// delegateDecoder: d is nothing but `return (*U)(recv).UnmarshalBinary(data)` — the decoder of a type with the same
// underlying type, applied to the same receiver cell and the same input.  Returns that decoder (d itself otherwise):
// what holds for its body holds for d.
func delegateDecoder(d *ssa.Function) *ssa.Function {
	for depth := 0; depth < 3; depth++ {
		if d == nil || len(d.Blocks) != 1 || len(d.Params) != 2 {
			return d
		}
		ret, ok := terminator(d.Blocks[0]).(*ssa.Return)
		if !ok || len(ret.Results) != 1 {
			return d
		}
		call, ok := ret.Results[0].(*ssa.Call)
		if !ok || len(call.Call.Args) != 2 || call.Call.Args[1] != ssa.Value(d.Params[1]) {
			return d
		}
		t := call.Call.StaticCallee()
		if t == nil || t.Blocks == nil || t.Name() != d.Name() || len(t.Params) != 2 {
			return d
		}
		ct, ok := call.Call.Args[0].(*ssa.ChangeType)
		if !ok || ct.X != ssa.Value(d.Params[0]) {
			return d
		}
		// nothing else happens in d
		for _, ins := range d.Blocks[0].Instrs {
			switch ins.(type) {
			case *ssa.ChangeType, *ssa.Call, *ssa.Return, *ssa.DebugRef:
			default:
				return d
			}
		}
		d = t
	}
	return d
}

func checkWireDecoderRejects(p *Prog, c *Check, d *ssa.Function) {
	if t := delegateDecoder(d); t != d {
		c.OK("R9.1", qname(d), p.Pos(d.Pos()), "delegates to "+qname(t)+" on the same receiver cell and input; that decoder's obligations apply")
		return
	}
	pr := NewProver(p, d)
	pr.assumeContracts()
	cons := qname(d)
	di := -1
	for i, prm := range d.Params {
		if isByteSlice(prm.Type()) && i > 0 {
			di = i
		}
	}
	if di < 0 {
		c.Unk("R9.1", cons, p.Pos(d.Pos()), "decoder has no []byte parameter")
		return
	}
	// minimum width of the decoded type
	pt, ok := d.Params[0].Type().Underlying().(*types.Pointer)
	if !ok {
		c.Unk("R9.1", cons, p.Pos(d.Pos()), "decoder receiver is not a pointer")
		return
	}
	min := p.widthLower(pt)
	if math.IsInf(min, 0) {
		min = p.widthLower(pt.Elem())
	}
	if math.IsInf(min, 0) {
		c.Unk("R9.1", cons, p.Pos(d.Pos()), "no proven lower bound for width() of "+typeStr(pt.Elem()))
		return
	}
	dlen := pr.lenOf(d.Params[di])
	okAll := true
	nnil := 0
	for _, b := range d.Blocks {
		ret, ok := terminator(b).(*ssa.Return)
		if !ok || pr.Infeasible(b) {
			continue
		}
		r := ret.Results[0]
		if isNilConst(r) {
			nnil++
			// behind the nil edge of another wire decoder of the library applied to the same input (`var b bits; if err :=
			// b.UnmarshalBinary(data); err != nil { return err }`): that decoder's own R9.1 obligation covers its width
			viaInner := false
			for _, ib := range d.Blocks {
				for _, ins := range ib.Instrs {
					call, isCall := ins.(*ssa.Call)
					if !isCall || len(call.Call.Args) != 2 || call.Call.Args[1] != ssa.Value(d.Params[di]) {
						continue
					}
					t := call.Call.StaticCallee()
					if t == nil || t == d || !p.isWireDecoder(t) || len(t.Params) != 2 {
						continue
					}
					tpt, isP := t.Params[0].Type().Underlying().(*types.Pointer)
					if !isP {
						continue
					}
					tm := p.widthLower(tpt)
					if math.IsInf(tm, 0) {
						tm = p.widthLower(tpt.Elem())
					}
					if math.IsInf(tm, 0) || tm < min {
						continue
					}
					if _, isNil := errEdges(call); dominatedByAny(isNil, b) {
						viaInner = true
					}
				}
			}
			if viaInner {
				continue
			}
			if !pr.Prove(b, dlen.addConst(-int64(min))) {
				okAll = false
				c.Bad("R9.1", cons, posOf(p, ret), fmt.Sprintf("success is returned although fewer than %d byte(s) may be present: short input is accepted", int64(min)))
			}
			continue
		}
		if !pr.NonNil(r, b, 0) {
			okAll = false
			c.Unk("R9.1", cons, posOf(p, ret), "a return value that is neither the nil constant nor provably non-nil: "+describeVal(r))
		}
	}
	if nnil == 0 && min > 0 {
		// never succeeds: nothing to show
	}
	if okAll {
		c.OK("R9.1", cons, p.Pos(d.Pos()), fmt.Sprintf("nil is returned only with len(data) >= %d (the type's minimum width); every other return is a non-nil error; the exact width is re-checked against the remaining bytes by the guarded primitive (R9.0)", int64(min)))
	}
}

// R9.2
func checkStickyResult(p *Prog, c *Check, cur *Cursor) {
	roots := p.Roots()
	var pk []*ssa.Function
	ci := p.LookupIface("ControlPacket")
	for _, fn := range roots.Decode {
		if fn.Name() != "UnmarshalBinary" || fn.Signature.Recv() == nil {
			continue
		}
		if ci != nil && !types.Implements(fn.Signature.Recv().Type(), ci) {
			continue
		}
		pk = append(pk, fn)
	}
	sort.Slice(pk, func(i, j int) bool { return qname(pk[i]) < qname(pk[j]) })
	// a decoder that hands its whole job to a function of the library (`return unmarshalAck(data, &p.packetID, …)`)
	// is judged by that function's body
	stages := append([]*ssa.Function{}, pk...)
	inStages := map[*ssa.Function]bool{}
	for _, fn := range pk {
		inStages[fn] = true
	}
	for wi := 0; wi < len(stages); wi++ {
		fn := stages[wi]
		pr := NewProver(p, fn)
		cons := qname(fn)
		// the cursor objects constructed here
		var curs []ssa.Value
		reads := false
		for _, b := range fn.Blocks {
			for _, ins := range b.Instrs {
				if v, isV := ins.(ssa.Value); isV && cur.readerCtor(fn) < 0 {
					if _, ok := cur.newReader(v); ok {
						curs = append(curs, v)
					}
				}
				if call, ok := ins.(*ssa.Call); ok {
					if _, isB := call.Call.Value.(*ssa.Builtin); !isB {
						reads = true
					}
				}
			}
		}
		okAll := true
		// does this function hand the frame on to a decoding function of the library on some path?
		delegatesSomewhere := false
		var delegateCalls []*ssa.Call
		for _, b := range fn.Blocks {
			if ret, ok := terminator(b).(*ssa.Return); ok && len(ret.Results) > 0 {
				if call, isCall := ret.Results[0].(*ssa.Call); isCall {
					if sc := call.Call.StaticCallee(); sc != nil && len(sc.Blocks) > 0 && p.inMQ(sc) {
						delegatesSomewhere = true
						delegateCalls = append(delegateCalls, call)
					}
				}
			}
		}
		// a nil return behind the nil edge of such a call has decoded the frame
		behindDelegate := func(b *ssa.BasicBlock) bool {
			for _, dc := range delegateCalls {
				_, isNil := errEdges(dc)
				if dc.Block().Dominates(b) && dominatedByAny(isNil, b) {
					return true
				}
			}
			return false
		}
		for _, b := range fn.Blocks {
			ret, ok := terminator(b).(*ssa.Return)
			if !ok {
				continue
			}
			r := ret.Results[0]
			if len(curs) == 0 {
				if isNilConst(r) && !usesParam(fn, 1) {
					continue // the packet has no content to decode
				}
				if isNilConst(r) && delegatesSomewhere && !behindDelegate(b) {
					// a decoder that hands the frame to a decoding function on one path and accepts it undecoded on
					// another (`if len(data) < 2 { return nil }`): what that path skips is not examined at all
					okAll = false
					c.Bad("R9.2", cons, posOf(p, ret), "the decoder returns nil on a path that does not decode the frame at all, although another path hands it to "+"a decoding function: a frame cut short before its first field is accepted")
					continue
				}
				if isNilConst(r) {
					// content consumed without the sequential reader (e.g. kept verbatim): nothing can be cut inside a field
					continue
				}
				if call, isCall := r.(*ssa.Call); isCall {
					if sc := call.Call.StaticCallee(); sc != nil && len(sc.Blocks) > 0 && p.inMQ(sc) && sc.Signature.Results().Len() == 1 && isErrorType(sc.Signature.Results().At(0).Type()) {
						if !inStages[sc] {
							inStages[sc] = true
							stages = append(stages, sc)
						}
						continue
					}
				}
				okAll = false
				c.Unk("R9.2", cons, posOf(p, ret), "decoder without a sequential reader returns "+describeVal(r))
				continue
			}
			var bases []ssa.Value
			for _, al := range curs {
				bases = append(bases, al)
			}
			good := stickyReturnOK(p, cur, pr, bases, b, ret, 0)
			_ = reads
			if !good {
				okAll = false
				c.Bad("R9.2", cons, posOf(p, ret), "the packet decoder does not return the reader's sticky error (returns "+describeVal(r)+"): a rejection inside a field would be lost")
			}
			// several readers in one decoder: a return hands back the error of one of them at most — every other
			// reader's error must have been found nil on the way (else what it rejected is accepted)
			if good && len(curs) > 1 {
				for _, al := range curs {
					if stickyReturnOK(p, cur, pr, []ssa.Value{al}, b, ret, 0) {
						continue
					}
					checked := false
					for _, ib := range fn.Blocks {
						iff, ok := terminator(ib).(*ssa.If)
						if !ok {
							continue
						}
						bo, ok := iff.Cond.(*ssa.BinOp)
						if !ok || (bo.Op != token.NEQ && bo.Op != token.EQL) {
							continue
						}
						var x ssa.Value
						if isNilConst(bo.Y) {
							x = bo.X
						} else if isNilConst(bo.X) {
							x = bo.Y
						}
						ld, ok := x.(*ssa.UnOp)
						if !ok || ld.Op != token.MUL {
							continue
						}
						if base, ok := cur.isField(ld.X, cur.E); !ok || base != ssa.Value(al) {
							continue
						}
						nilSide := 1
						if bo.Op == token.EQL {
							nilSide = 0
						}
						if edgeDominates(ib, ib.Succs[nilSide], b) {
							checked = true
						}
					}
					if !checked {
						okAll = false
						c.Bad("R9.2", cons, posOf(p, ret), "the decoder uses several sequential readers; the error of the one created at "+posOf(p, al.(ssa.Instruction))+" is neither returned here nor found nil before: what that reader rejected is accepted")
					}
				}
			}
		}
		if okAll {
			how := "every return yields the sequential reader's error as it is after the last read"
			if len(curs) == 0 {
				how = "no structured content is decoded"
			}
			c.OK("R9.2", cons, p.Pos(fn.Pos()), how)
		}
	}
	// no stage of a decoder may have its verdict thrown away: in every function reachable from a packet decoder, the
	// error result of a call to another mq function is used (returned, tested, stored) — a helper that runs its own
	// reader over part of the body and whose error is dropped accepts what that reader rejected
	{
		ndrop, ncalls := 0, 0
		for _, fn := range sortedFuncs(p.Reach(pk)) {
			if fn.Blocks == nil || !p.inMQ(fn) {
				continue
			}
			for _, b := range fn.Blocks {
				for _, ins := range b.Instrs {
					call, ok := ins.(*ssa.Call)
					if !ok {
						continue
					}
					sc := call.Call.StaticCallee()
					if sc == nil || sc.Blocks == nil || !p.inMQ(sc) {
						continue
					}
					k := errorResultIndex(sc.Signature)
					if k < 0 {
						continue
					}
					ncalls++
					used := false
					if refs := call.Referrers(); refs != nil {
						for _, r := range *refs {
							switch x := r.(type) {
							case *ssa.DebugRef:
							case *ssa.Extract:
								if x.Index == k && x.Referrers() != nil {
									for _, r2 := range *x.Referrers() {
										if _, isD := r2.(*ssa.DebugRef); !isD {
											used = true
										}
									}
								}
							default:
								if sc.Signature.Results().Len() == 1 {
									used = true
								}
							}
						}
					}
					if !used {
						ndrop++
						c.Bad("R9.2", fmt.Sprintf("%s#dropped-error%d", qname(fn), ndrop), posOf(p, call), "the error returned by "+qname(sc)+" is discarded: a rejection inside that stage of the decoder is lost")
					}
				}
			}
		}
		if ndrop == 0 {
			c.OK("R9.2", "decoder stages", "-", fmt.Sprintf("%d call(s) of error-returning mq functions on the decoders' call trees, every error result is used", ncalls))
		}
	}
	c.Measured["packet_decoders"] = len(pk)
	c.Floor("packet decoders", len(pk), 15, "15 MQTT packet types")
	// ReadPacket's tree: the content error is examined and turned into (nil, err)
	rp, _ := p.readPacketAnchor()
	if rp == nil {
		return
	}
	n := 0
	for _, fn := range sortedFuncs(p.Reach([]*ssa.Function{rp})) {
		for _, b := range fn.Blocks {
			for _, ins := range b.Instrs {
				call, ok := ins.(*ssa.Call)
				if !ok || !call.Call.IsInvoke() || call.Call.Method.Name() != "UnmarshalBinary" {
					continue
				}
				if nt := namedOf(call.Call.Value.Type()); nt == nil || nt.Obj().Name() != "ControlPacket" {
					continue
				}
				n++
				cons := qname(fn) + "#content-error"
				nonNil, isNil := errEdges(call)
				k := errorResultIndex(fn.Signature)
				okAll := len(nonNil) > 0 && k >= 0
				for _, rb := range fn.Blocks {
					ret, ok := terminator(rb).(*ssa.Return)
					if !ok || !mayFollow(call, ret) {
						continue
					}
					switch {
					case behindSince(call, isNil, rb):
					case dominatedByAny(nonNil, rb):
						pr := NewProver(p, fn)
						if !pr.NonNil(ret.Results[k], rb, 0) || !isNilConst(ret.Results[0]) {
							okAll = false
							c.Bad("R9.2", cons, posOf(p, ret), "on the content-error edge the result is not (nil, non-nil error)")
						}
					default:
						okAll = false
						c.Bad("R9.2", cons, posOf(p, ret), "an exit after decoding is reachable without the decoder's error having been examined: a rejected frame can be returned as a packet")
					}
				}
				if okAll {
					c.OK("R9.2", cons, posOf(p, call), "the decoder's error is examined; a non-nil one yields (nil, wrapped error)")
				} else if len(nonNil) == 0 {
					c.Bad("R9.2", cons, posOf(p, call), "the decoder's error is never tested")
				}
			}
		}
	}
	c.Floor("packet decode call sites on ReadPacket's tree", n, 1, "ReadPacket hands the frame to the packet decoder")
}

func usesParam(fn *ssa.Function, i int) bool {
	if i >= len(fn.Params) {
		return false
	}
	refs := fn.Params[i].Referrers()
	if refs == nil {
		return false
	}
	for _, r := range *refs {
		if _, ok := r.(*ssa.DebugRef); !ok {
			return true
		}
	}
	return false
}

// R9.3 — returns true if fn contains a variable-byte-integer accumulation loop.
func checkVBIDecoder(p *Prog, c *Check, fn *ssa.Function) bool {
	if len(fn.Params) == 0 {
		return false
	}
	var st *ssa.Store
	for _, b := range fn.Blocks {
		for _, ins := range b.Instrs {
			if s, ok := ins.(*ssa.Store); ok && s.Addr == ssa.Value(fn.Params[0]) {
				st = s
			}
		}
	}
	if st == nil {
		return false
	}
	// stored value: acc+term, or a phi of such values and the accumulator
	var cands []ssa.Value
	v := p.stripNonNarrowing(st.Val)
	if ph, ok := v.(*ssa.Phi); ok {
		cands = append(cands, ph.Edges...)
	} else {
		cands = append(cands, v)
	}
	var g *geoLoop
	why := ""
	isAcc := false
	for _, cv := range cands {
		if gl, w := findGeoLoopNoGuard(fn, cv); gl != nil {
			g = gl
		} else {
			why = w
		}
	}
	if g == nil {
		return false
	}
	for _, cv := range cands {
		if stripConvs(cv) == ssa.Value(g.Acc) {
			isAcc = true
		}
	}
	cons := qname(fn)
	lp := loopContaining(fn, g.AccNew.Block())
	if lp == nil {
		return false
	}
	_ = why
	errIdx := errorResultIndex(fn.Signature)
	// a return can be a success unless its error result is provably non-nil there (a variable that was just cleared
	// — `if err == io.EOF { err = nil }` — is not)
	vpr := NewProver(p, fn)
	maySucceed := func(r *ssa.Return) bool {
		if errIdx < 0 || errIdx >= len(r.Results) || isNilConst(r.Results[errIdx]) {
			return true
		}
		return !vpr.NonNil(r.Results[errIdx], r.Block(), 0)
	}
	// guard on every cycle
	if g.Guard != nil && (g.B != 128*128*128 || g.R != 128) {
		c.Bad("R9.3", cons+"#size-guard", posOf(p, g.Guard), fmt.Sprintf("the size guard leaves once the multiplier exceeds %d (radix %d); a fifth byte is reached at 128³ = 2097152 with radix 128: longer integers are accepted", g.B, g.R))
	} else if g.Guard == nil {
		c.Bad("R9.3", cons+"#size-guard", posOf(p, g.AccNew), "no `multiplier > bound` exit in the accumulation loop: a fifth (sixth, …) continuation byte is accepted")
	} else if !acyclicWithout(lp, map[*ssa.BasicBlock]bool{g.Guard.Block(): true}) {
		c.Bad("R9.3", cons+"#size-guard", posOf(p, g.Guard), "the size guard is not on every cycle of the accumulation loop")
	} else {
		okG := true
		for _, r := range returnsReachable(g.Guard.Block().Succs[0]) {
			if maySucceed(r) {
				okG = false
			}
		}
		if okG {
			c.OK("R9.3", cons+"#size-guard", posOf(p, g.Guard), fmt.Sprintf("guard `multiplier > %d` (radix %d) on every cycle; its exit reaches only error returns", g.B, g.R))
		} else {
			c.Bad("R9.3", cons+"#size-guard", posOf(p, g.Guard), "the size guard's exit can reach a successful return")
		}
	}
	// exits: only the continuation-bit exit may reach success
	contMask := g.M + 1
	okAll := true
	for _, e := range lp.ExitEdges() {
		succ := false
		for _, r := range returnsReachable(e.to) {
			if maySucceed(r) {
				succ = true
			}
		}
		if !succ {
			continue
		}
		iff, ok := terminator(e.from).(*ssa.If)
		isCont := false
		if ok {
			// cond: (byte & contMask) == 0, exit on true; or != 0, exit on false
			if bo, ok := iff.Cond.(*ssa.BinOp); ok && (bo.Op == token.EQL || bo.Op == token.NEQ) {
				if k0, isC := constInt(bo.Y); isC && k0 == 0 {
					if x, m, ok := maskOf(bo.X); ok && m == contMask-0 || ok && m == contMask {
						_ = x
						exitIdx := 1
						if bo.Op == token.EQL {
							exitIdx = 0
						}
						if e.from.Succs[exitIdx] == e.to && stripConvs(x) == g.ByteVal || e.from.Succs[exitIdx] == e.to && sameLoad(stripConvs(x), g.ByteVal) {
							isCont = true
						}
					}
				}
			}
		}
		if !isCont {
			okAll = false
			c.Bad("R9.3", cons+"#exits", posOf(p, terminator(e.from)), "a loop exit other than `byte & continuation-bit == 0` reaches a successful return: input that ends on a continuation byte (or is otherwise unterminated) is accepted")
		} else if g.Guard != nil && !(g.Guard.Block().Dominates(e.from) && g.Guard.Block() != e.from) {
			// the byte that terminates the integer must have passed the size guard of its own iteration
			okAll = false
			c.Bad("R9.3", cons+"#exits", posOf(p, terminator(e.from)), "the successful exit is taken before the size guard of the same iteration: a fifth byte without continuation bit is accepted")
		}
	}
	_ = isAcc
	if okAll {
		c.OK("R9.3", cons+"#exits", p.Pos(fn.Pos()), fmt.Sprintf("success is reachable only through the exit taken on a byte without continuation bit (mask %d)", contMask))
	}
	// one decoding path only: the loop is the function's only way to a result.  Every store through the receiver
	// stores the loop's accumulator, every successful return lies behind the loop, and every rejecting return is
	// decided by the end of the input, a failed read or the size guard — never by the value of a byte (a fast
	// path in front of the loop, or an extra strictness test in one of the two decoders, makes them disagree)
	{
		header := lp.Header
		dependsOnByte := func(v ssa.Value) bool {
			return dependsOn(v, func(x ssa.Value) bool {
				if x == g.ByteVal || x == ssa.Value(g.Acc) || x == ssa.Value(g.AccNew) {
					return true
				}
				if ld, ok := x.(*ssa.UnOp); ok && ld.Op == token.MUL {
					if _, isIA := ld.X.(*ssa.IndexAddr); isIA {
						return true // an element of the input / read buffer
					}
				}
				if _, isIdx := x.(*ssa.Index); isIdx {
					return true
				}
				return false
			}, map[ssa.Value]bool{})
		}
		depth := func(b *ssa.BasicBlock) int {
			n := 0
			for d := b.Idom(); d != nil; d = d.Idom() {
				n++
			}
			return n
		}
		bad := ""
		for _, b := range fn.Blocks {
			for _, ins := range b.Instrs {
				if s, ok := ins.(*ssa.Store); ok && s.Addr == ssa.Value(fn.Params[0]) {
					v := p.stripNonNarrowing(s.Val)
					okV := false
					vs := []ssa.Value{v}
					if ph, isPhi := v.(*ssa.Phi); isPhi && ph != g.Acc {
						vs = ph.Edges
					}
					okV = true
					for _, e := range vs {
						e = p.stripNonNarrowing(e)
						if e != ssa.Value(g.Acc) && e != ssa.Value(g.AccNew) {
							okV = false
						}
					}
					if !okV && bad == "" {
						bad = "a value that is not the loop's accumulator is stored as the result at " + posOf(p, s) + " (" + describeVal(s.Val) + ")"
					}
				}
			}
			// the receiver handed to another function: that function must not write through it
			for _, ins := range b.Instrs {
				call, ok := ins.(*ssa.Call)
				if !ok {
					continue
				}
				for k, a := range call.Call.Args {
					base := a
					if mi, ok := a.(*ssa.MakeInterface); ok {
						base = mi.X
					}
					if base != ssa.Value(fn.Params[0]) {
						continue
					}
					sc := call.Call.StaticCallee()
					if sc == nil || sc.Blocks == nil {
						continue
					}
					if sum := p.allEffects().Summary(sc); sum != nil {
						for _, w := range sum.Writes {
							if (w.Target.Kind == PParam || w.Target.Kind == PParamR) && w.Target.Idx == k && bad == "" {
								bad = "the result cell is handed to " + qname(sc) + " at " + posOf(p, call) + ", which writes through it (" + w.Kind.String() + " at " + posOf(p, w.Ins) + "): a second writer of the decoded value"
							}
						}
					}
				}
			}
			ret, ok := terminator(b).(*ssa.Return)
			if !ok || errIdx < 0 || errIdx >= len(ret.Results) {
				continue
			}
			if maySucceed(ret) {
				if !header.Dominates(b) && bad == "" {
					bad = "a successful return at " + posOf(p, ret) + " does not lie behind the decoding loop: a second decoding path"
				}
				continue
			}
			// the closest branch that decides this rejecting return
			var ctl *ssa.If
			best := -1
			for _, ib := range fn.Blocks {
				iff, ok := terminator(ib).(*ssa.If)
				if !ok || !ib.Dominates(b) {
					continue
				}
				for k := 0; k < 2; k++ {
					if edgeDominates(ib, ib.Succs[k], b) && depth(ib) > best {
						ctl, best = iff, depth(ib)
					}
				}
			}
			if ctl == nil || ctl == g.Guard {
				continue
			}
			if dependsOnByte(ctl.Cond) && bad == "" {
				bad = "the rejection at " + posOf(p, ret) + " is decided by the value of a byte (" + describeVal(ctl.Cond) + " at " + posOf(p, ctl) + "), not by the end of the input or the size guard: a byte sequence the other decoder accepts is rejected here"
			}
		}
		if bad != "" {
			c.Bad("R9.3", cons+"#single-path", p.Pos(fn.Pos()), bad)
		} else {
			c.OK("R9.3", cons+"#single-path", p.Pos(fn.Pos()), "every result is the loop's accumulator, success lies behind the loop, rejections are decided by the end of the input, a failed read or the size guard only")
		}
	}
	return true
}

func sameLoad(a, b ssa.Value) bool {
	la, ok1 := a.(*ssa.UnOp)
	lb, ok2 := b.(*ssa.UnOp)
	return ok1 && ok2 && la == lb
}

// findGeoLoopNoGuard is findGeoLoop but tolerates a missing guard (reported by
// the caller) and a guard whose exit reaches success.
func findGeoLoopNoGuard(fn *ssa.Function, v ssa.Value) (*geoLoop, string) {
	g, why := findGeoLoop(fn, v)
	if g != nil {
		return g, ""
	}
	// retry structurally without the guard requirement
	v = stripConvsSafe(v)
	add, ok := v.(*ssa.BinOp)
	if !ok || add.Op != token.ADD {
		return nil, why
	}
	var acc *ssa.Phi
	var term ssa.Value
	if ph, ok := add.X.(*ssa.Phi); ok {
		acc, term = ph, add.Y
	} else if ph, ok := add.Y.(*ssa.Phi); ok {
		acc, term = ph, add.X
	} else {
		return nil, why
	}
	mul, ok := term.(*ssa.BinOp)
	if !ok || mul.Op != token.MUL {
		return nil, why
	}
	var mphi *ssa.Phi
	var masked ssa.Value
	if ph, ok := mul.Y.(*ssa.Phi); ok {
		mphi, masked = ph, mul.X
	} else if ph, ok := mul.X.(*ssa.Phi); ok {
		mphi, masked = ph, mul.Y
	} else {
		return nil, why
	}
	x, M, ok := maskOf(masked)
	if !ok {
		return nil, why
	}
	return &geoLoop{Fn: fn, Acc: acc, AccNew: add, Mult: mphi, M: M, R: M + 1, ByteVal: stripConvs(x)}, ""
}

// R9.4
func checkBoolDecoder(p *Prog, c *Check, d *ssa.Function) {
	cons := qname(d)
	// the decoder is a decision function of one byte: its SSA form is evaluated on all 256 values of data[0]
	// (with one and with three bytes of input) — success exactly on 0 and 1, storing false and true
	bad, unk := "", ""
	for _, n := range []int64{1, 3} {
		for v := int64(0); v < 256 && bad == "" && unk == ""; v++ {
			ctx := p.newSym(p.globalInput())
			ctx.opaqueNonNil["unmarshalErr"] = true
			ctx.opaqueNonNil["newMalformed"] = true
			ctx.mem["V"] = sv{k: 'b', b: v%2 == 0} // whatever was there before: the opposite of what 0/1 decode to
			ctx.mem["DATA[0]"] = sv{k: 'i', i: v}
			for k := int64(1); k < n; k++ {
				ctx.mem[fmt.Sprintf("DATA[%d]", k)] = sv{k: 'i', i: 0xAA}
			}
			rs, ok := ctx.evalPure(d, []sv{{k: 'p', addr: "V"}, {k: 's', i: n, addr: "DATA"}}, nil, 0)
			if !ok {
				unk = fmt.Sprintf("cannot evaluate the decoder on first byte %#02x: %s", v, ctx.why)
				break
			}
			success := isNilResult(rs[0])
			switch {
			case v > 1 && success:
				bad = fmt.Sprintf("first byte %#02x is accepted as a boolean: only 0 and 1 are", v)
			case v <= 1 && !success:
				bad = fmt.Sprintf("first byte %#02x is rejected", v)
			case v <= 1:
				if got := ctx.mem["V"]; got.k != 'b' || got.b != (v == 1) {
					bad = fmt.Sprintf("first byte %#02x decodes to %v", v, got)
				}
			}
		}
	}
	switch {
	case unk != "":
		c.Unk("R9.4", cons, p.Pos(d.Pos()), unk)
	case bad != "":
		c.Bad("R9.4", cons, p.Pos(d.Pos()), bad)
	default:
		c.OK("R9.4", cons, p.Pos(d.Pos()), "evaluated on all 256 first bytes: success exactly on 0 (stores false) and 1 (stores true); every other value returns an error")
	}
}

// R9.5
func checkPropertyLoop(p *Prog, c *Check, cur *Cursor, scope map[*ssa.Function]bool) {
	// the property loop: a method of the reader with a map parameter
	var loopFn *ssa.Function
	for _, fn := range sortedFuncs(scope) {
		if fn.Signature.Recv() == nil || len(fn.Params) < 2 {
			continue
		}
		if pt, ok := fn.Params[0].Type().Underlying().(*types.Pointer); !ok || !types.Identical(pt.Elem(), cur.T) {
			continue
		}
		for _, prm := range fn.Params[1:] {
			if _, ok := prm.Type().Underlying().(*types.Map); ok {
				loopFn = fn
			}
		}
	}
	if loopFn == nil {
		c.Unk("R9.5", "property loop", "-", "no method of the sequential reader takes a property map")
		return
	}
	// the per-property work may live in a helper that the loop calls with the identifier just read
	var helper *ssa.Function
	var helperCall *ssa.Call
	if len(AllLoops(loopFn)) == 0 {
		helper = loopFn
		loopFn = nil
		for _, fn := range sortedFuncs(scope) {
			if fn.Signature.Recv() == nil || len(AllLoops(fn)) != 1 {
				continue
			}
			if pt, ok := fn.Params[0].Type().Underlying().(*types.Pointer); !ok || !types.Identical(pt.Elem(), cur.T) {
				continue
			}
			lp := AllLoops(fn)[0]
			for b := range lp.Blocks {
				for _, ins := range b.Instrs {
					if call, ok := ins.(*ssa.Call); ok && call.Call.StaticCallee() == helper && len(call.Call.Args) > 0 && call.Call.Args[0] == ssa.Value(fn.Params[0]) {
						loopFn, helperCall = fn, call
					}
				}
			}
		}
		if loopFn == nil {
			c.Unk("R9.5", qname(helper), p.Pos(helper.Pos()), "the function taking the property map has no loop and is not called from a loop of the sequential reader")
			return
		}
	}
	cons := qname(loopFn)
	loops := AllLoops(loopFn)
	if len(loops) != 1 {
		c.Unk("R9.5", cons, p.Pos(loopFn.Pos()), fmt.Sprintf("%d loops in the property reader (want 1)", len(loops)))
		return
	}
	l := loops[0]
	pr := NewProver(p, loopFn)
	// the identifier variable: argument of the G call that dominates the map lookup
	var lookup *ssa.Lookup
	lookupBlocks := func(f func(b *ssa.BasicBlock)) {
		if helper != nil {
			for _, b := range helper.Blocks {
				f(b)
			}
			return
		}
		for b := range l.Blocks {
			f(b)
		}
	}
	lookupBlocks(func(b *ssa.BasicBlock) {
		for _, ins := range b.Instrs {
			if lk, ok := ins.(*ssa.Lookup); ok {
				if _, isMap := lk.X.Type().Underlying().(*types.Map); isMap {
					lookup = lk
				}
			}
		}
	})
	if lookup == nil {
		c.Unk("R9.5", cons, p.Pos(loopFn.Pos()), "no map lookup in the property loop")
		return
	}
	idLoad, _ := lookup.Index.(*ssa.UnOp)
	var idCell ssa.Value
	var idParam *ssa.Parameter // helper mode: the parameter that carries the identifier
	if idLoad != nil {
		idCell = idLoad.X
	}
	if helper != nil {
		idCell = nil
		if q, ok := lookup.Index.(*ssa.Parameter); ok {
			for k, hp := range helper.Params {
				if hp == q && k < len(helperCall.Call.Args) {
					if ld, ok := helperCall.Call.Args[k].(*ssa.UnOp); ok && ld.Op == token.MUL {
						idCell, idParam = ld.X, q
					}
				}
			}
		}
	}
	// a function of the library consumes when, on every path, it reads a value through the guarded primitive, stores
	// a non-nil error in the reader, or calls a function that does (helper mode: the per-property helper; otherwise
	// small per-identifier helpers such as `b.getUserProp(addProp)`)
	selfContained := false
	var idCellSelf ssa.Value
	consMemo := map[*ssa.Function]bool{}
	var consumes func(fn *ssa.Function, depth int) bool
	consumes = func(fn *ssa.Function, depth int) bool {
		if v, ok := consMemo[fn]; ok {
			return v
		}
		consMemo[fn] = false
		if depth > 4 || len(fn.Blocks) == 0 {
			return false
		}
		hpr := NewProver(p, fn)
		hdone := map[*ssa.BasicBlock]bool{}
		for _, b := range fn.Blocks {
			for _, ins := range b.Instrs {
				switch x := ins.(type) {
				case *ssa.Call:
					callees, _ := p.CG().Callees(x)
					if len(callees) == 1 && callees[0] == cur.G && len(x.Call.Args) == 2 {
						hdone[b] = true
					} else if len(callees) == 1 && callees[0] != cur.G && callees[0].Pkg == fn.Pkg && consumes(callees[0], depth+1) {
						hdone[b] = true
					} else if len(callees) == 1 {
						// `b.fail(err)` with a non-nil error: a helper after which the reader's error is set
						if k := cur.setterLeavesErrorSet(callees[0]); k >= 0 && k < len(x.Call.Args) && hpr.NonNil(x.Call.Args[k], b, 0) {
							hdone[b] = true
						}
					}
				case *ssa.Store:
					if _, ok := cur.isField(x.Addr, cur.E); ok && hpr.NonNil(x.Val, b, 0) {
						hdone[b] = true
					}
				}
			}
		}
		res := true
		seenB := map[*ssa.BasicBlock]bool{}
		var dfs func(b *ssa.BasicBlock)
		dfs = func(b *ssa.BasicBlock) {
			if seenB[b] || hdone[b] {
				return
			}
			seenB[b] = true
			if _, isRet := terminator(b).(*ssa.Return); isRet {
				res = false
			}
			for _, s := range b.Succs {
				dfs(s)
			}
		}
		dfs(fn.Blocks[0])
		consMemo[fn] = res
		return res
	}
	helperConsumes := false
	if helper != nil {
		helperConsumes = consumes(helper, 0)
	}
	// the per-property helper may read the identifier itself (`for … { b.getProp(fields, addProp) }`): then the helper's
	// body is the iteration — the identifier is read on every path through it, before the lookup, and behind that
	// read every path to a return reads a value, records an error or has found the reader's error set
	if helper != nil && idParam == nil && idLoad != nil {
		if al, isAl := idLoad.X.(*ssa.Alloc); isAl && al.Parent() == helper {
			var selfRead *ssa.Call
			for _, b := range helper.Blocks {
				for _, ins := range b.Instrs {
					if x, ok := ins.(*ssa.Call); ok {
						callees, _ := p.CG().Callees(x)
						if len(callees) == 1 && callees[0] == cur.G && len(x.Call.Args) == 2 {
							if mi, ok := x.Call.Args[1].(*ssa.MakeInterface); ok && mi.X == ssa.Value(al) && selfRead == nil {
								selfRead = x
							}
						}
					}
				}
			}
			cons := qname(helper)
			switch {
			case selfRead == nil:
				c.Unk("R9.5", cons, p.Pos(helper.Pos()), "cannot find the read of the property identifier")
			case !selfRead.Block().Dominates(lookup.Block()):
				c.Bad("R9.5", cons, posOf(p, lookup), "the identifier used for dispatch is not read before the dispatch")
			default:
				hpr := NewProver(p, helper)
				hdone := map[*ssa.BasicBlock]bool{}
				type hedge struct{ from, to *ssa.BasicBlock }
				doneEdge := map[hedge]bool{}
				for _, b := range helper.Blocks {
					for _, ins := range b.Instrs {
						switch x := ins.(type) {
						case *ssa.Call:
							if x == selfRead {
								continue
							}
							callees, _ := p.CG().Callees(x)
							if len(callees) == 1 && callees[0] == cur.G && len(x.Call.Args) == 2 {
								hdone[b] = true
							} else if len(callees) == 1 && callees[0] != cur.G && callees[0].Pkg == helper.Pkg && consumes(callees[0], 1) {
								hdone[b] = true
							} else if len(callees) == 1 {
								if k := cur.setterLeavesErrorSet(callees[0]); k >= 0 && k < len(x.Call.Args) && hpr.NonNil(x.Call.Args[k], b, 0) {
									hdone[b] = true
								}
							}
						case *ssa.Store:
							if _, ok := cur.isField(x.Addr, cur.E); ok && hpr.NonNil(x.Val, b, 0) {
								hdone[b] = true
							}
						}
					}
					if iff, ok := terminator(b).(*ssa.If); ok {
						for side, truth := range []bool{true, false} {
							if v, isNil, ok := nilTestOf(iff.Cond, truth); ok && !isNil {
								if ld, isLd := v.(*ssa.UnOp); isLd && ld.Op == token.MUL {
									if base, isE := cur.isField(ld.X, cur.E); isE && base == ssa.Value(helper.Params[0]) {
										doneEdge[hedge{b, b.Succs[side]}] = true
									}
								}
							}
						}
					}
				}
				bad := ""
				for _, b := range helper.Blocks {
					if _, isRet := terminator(b).(*ssa.Return); isRet && !selfRead.Block().Dominates(b) {
						bad = "the per-property helper can return without having read an identifier"
					}
				}
				seenB := map[*ssa.BasicBlock]bool{}
				var dfs func(b *ssa.BasicBlock)
				dfs = func(b *ssa.BasicBlock) {
					if seenB[b] || hdone[b] {
						return
					}
					seenB[b] = true
					if _, isRet := terminator(b).(*ssa.Return); isRet {
						bad = "the per-property helper can return after reading an identifier without reading its value or recording an error: an undefined identifier is skipped instead of rejected"
					}
					for _, s2 := range b.Succs {
						if !doneEdge[hedge{b, s2}] {
							dfs(s2)
						}
					}
				}
				dfs(selfRead.Block())
				if bad != "" {
					c.Bad("R9.5", cons, posOf(p, selfRead), bad)
				} else {
					c.OK("R9.5", cons, posOf(p, selfRead), "the per-property helper reads the identifier, then on every path a value through the guarded primitive or a non-nil error (or finds the error set)")
				}
				// the loop itself: every iteration calls the helper
				if !acyclicWithout(l, map[*ssa.BasicBlock]bool{helperCall.Block(): true}) {
					c.Bad("R9.5", qname(loopFn), posOf(p, l.Header.Instrs[0]), "an iteration of the property loop can complete without calling the per-property helper")
				}
				selfContained = true
				idCellSelf = al
			}
			if !selfContained {
				return
			}
		}
	}
	// blocks that consume a value or set an error
	done := map[*ssa.BasicBlock]bool{}
	var idRead *ssa.Call
	for b := range l.Blocks {
		for _, ins := range b.Instrs {
			switch x := ins.(type) {
			case *ssa.Call:
				callees, _ := p.CG().Callees(x)
				if len(callees) == 1 && callees[0] == cur.G && len(x.Call.Args) == 2 {
					if mi, ok := x.Call.Args[1].(*ssa.MakeInterface); ok && idCell != nil && mi.X == idCell {
						idRead = x
						continue
					}
					done[b] = true
				}
				if helper != nil && x == helperCall && helperConsumes {
					done[b] = true
				}
				if len(callees) == 1 && callees[0] != cur.G && callees[0].Pkg == loopFn.Pkg && x != helperCall && consumes(callees[0], 0) {
					done[b] = true
				}
				if len(callees) == 1 {
					if k := cur.setterLeavesErrorSet(callees[0]); k >= 0 && k < len(x.Call.Args) && pr.NonNil(x.Call.Args[k], b, 0) {
						done[b] = true
					}
				}
			case *ssa.Store:
				if _, ok := cur.isField(x.Addr, cur.E); ok && pr.NonNil(x.Val, b, 0) {
					done[b] = true
				}
			}
		}
	}
	// the identifier compared with the table is the byte on the wire, unchanged
	if selfContained {
		idCell = idCellSelf
	}
	if idCell != nil {
		if pt, ok := idCell.Type().Underlying().(*types.Pointer); ok {
			if nt := namedOf(pt.Elem()); nt != nil {
				if d := p.Method(nt.Obj().Name(), "UnmarshalBinary"); d != nil {
					dc := qname(d) + "#identity"
					if p.byteDecoderIsIdentity(d) {
						c.OK("R9.5", dc, p.Pos(d.Pos()), "the identifier decoder stores data[0] unchanged (same-width conversion only)")
					} else {
						c.Bad("R9.5", dc, p.Pos(d.Pos()), "the identifier decoder does not store the byte read unchanged: an undefined identifier can be mapped onto a defined one")
					}
				} else {
					c.Unk("R9.5", "identifier decoder", "-", "no UnmarshalBinary for the identifier type "+nt.Obj().Name())
				}
			}
		}
	}
	switch {
	case selfContained:
		// decided above, on the helper's body
	case idRead == nil:
		c.Unk("R9.5", cons, p.Pos(loopFn.Pos()), "cannot find the read of the property identifier")
	case helper != nil && idParam == nil:
		c.Unk("R9.5", cons, posOf(p, helperCall), "cannot relate the identifier read in the loop to the one the per-property helper dispatches on")
	case helper != nil && !idRead.Block().Dominates(helperCall.Block()):
		c.Bad("R9.5", cons, posOf(p, helperCall), "the identifier used for dispatch is not read in the same iteration")
	case helper == nil && !idRead.Block().Dominates(lookup.Block()):
		c.Bad("R9.5", cons, posOf(p, lookup), "the identifier used for dispatch is not read in the same iteration")
	case !acyclicWithout(l, done):
		c.Bad("R9.5", cons, posOf(p, l.Header.Instrs[0]), "an iteration can complete after reading an identifier without reading its value or recording an error: an undefined identifier is skipped instead of rejected")
	default:
		c.OK("R9.5", cons, posOf(p, idRead), "after reading the identifier every iteration reads a value through the guarded primitive or stores a non-nil error")
	}
	// accepted identifiers ⊆ spec
	type acc struct {
		id  int64
		pos string
		in  string
	}
	var accepted []acc
	for _, fn := range sortedFuncs(scope) {
		for _, b := range fn.Blocks {
			for _, ins := range b.Instrs {
				if mu, ok := ins.(*ssa.MapUpdate); ok && types.Identical(mu.Map.Type(), lookup.X.Type()) {
					if k, isC := constInt(mu.Key); isC {
						accepted = append(accepted, acc{k, posOf(p, ins), qname(fn)})
					} else {
						c.Unk("R9.5", qname(fn)+"#dynamic-key", posOf(p, ins), "property map built with a non-constant identifier")
					}
				}
			}
		}
	}
	if helper != nil && idParam != nil {
		for _, b := range helper.Blocks {
			for _, ins := range b.Instrs {
				bo, ok := ins.(*ssa.BinOp)
				if !ok || bo.Op != token.EQL || stripConvs(bo.X) != ssa.Value(idParam) {
					continue
				}
				if k, isC := constInt(bo.Y); isC {
					accepted = append(accepted, acc{k, posOf(p, ins), qname(helper) + " case"})
				}
			}
		}
	}
	if selfContained {
		for _, b := range helper.Blocks {
			for _, ins := range b.Instrs {
				bo, ok := ins.(*ssa.BinOp)
				if !ok || bo.Op != token.EQL {
					continue
				}
				ld, ok := bo.X.(*ssa.UnOp)
				if !ok || ld.Op != token.MUL || ld.X != idCell {
					continue
				}
				if k, isC := constInt(bo.Y); isC {
					accepted = append(accepted, acc{k, posOf(p, ins), qname(helper) + " case"})
				}
			}
		}
	}
	if idCell != nil && helper == nil {
		for b := range l.Blocks {
			for _, ins := range b.Instrs {
				bo, ok := ins.(*ssa.BinOp)
				if !ok || bo.Op != token.EQL {
					continue
				}
				ld, ok := bo.X.(*ssa.UnOp)
				if !ok || ld.Op != token.MUL || ld.X != idCell {
					continue
				}
				if k, isC := constInt(bo.Y); isC {
					accepted = append(accepted, acc{k, posOf(p, ins), qname(loopFn) + " case"})
				}
			}
		}
	}
	seen := map[string]bool{}
	for _, a := range accepted {
		cn := fmt.Sprintf("%s accepts id %#02x", a.in, a.id)
		if seen[cn] {
			continue
		}
		seen[cn] = true
		if name, ok := specPropertyIDs[a.id]; ok {
			c.OK("R9.5", cn, a.pos, "defined by MQTT v5.0: "+name)
		} else {
			c.Bad("R9.5", cn, a.pos, "identifier is not one of the 27 defined by MQTT v5.0")
		}
	}
	c.Measured["accepted_identifier_entries"] = len(seen)
	c.Floor("accepted identifier entries", len(seen), 27, "27 identifiers are defined; each must be accepted somewhere")
}

// byteDecoderIsIdentity: every store through the receiver of the one-byte decoder d stores data[0],
// changed at most by conversions between types of the same width.
func (p *Prog) byteDecoderIsIdentity(d *ssa.Function) bool {
	d = delegateDecoder(d)
	if len(d.Params) < 2 {
		return false
	}
	data := d.Params[1]
	n := 0
	for _, b := range d.Blocks {
		for _, ins := range b.Instrs {
			st, ok := ins.(*ssa.Store)
			if !ok || st.Addr != ssa.Value(d.Params[0]) {
				continue
			}
			n++
			ld, ok := p.stripSameWidth(st.Val).(*ssa.UnOp)
			if !ok || ld.Op != token.MUL {
				return false
			}
			ia, ok := ld.X.(*ssa.IndexAddr)
			if !ok || ia.X != ssa.Value(data) {
				return false
			}
			if k, isC := constInt(ia.Index); !isC || k != 0 {
				return false
			}
		}
	}
	return n > 0
}

// stickyReturnOK: the return yields the sequential reader's sticky error as it is at this point: a load of the
// error field of one of the reader objects `bases` with no write to it since; the nil constant where a dominating
// test of that (still current) field took the nil edge; a tiny accessor returning the field; or the result of an
// mq function that is handed the reader and itself returns, on every path, the sticky error of that parameter.
func stickyReturnOK(p *Prog, cur *Cursor, pr *Prover, bases []ssa.Value, b *ssa.BasicBlock, ret *ssa.Return, depth int) bool {
	r := ret.Results[0]
	isBase := func(v ssa.Value) bool {
		for _, x := range bases {
			if v == x {
				return true
			}
		}
		return false
	}
	isErrLoad := func(v ssa.Value) bool {
		ld, ok := v.(*ssa.UnOp)
		if !ok || ld.Op != token.MUL {
			return false
		}
		base, ok := cur.isField(ld.X, cur.E)
		if !ok || !isBase(base) {
			return false
		}
		// current: no write to E between the load and the return
		if pr.verAt != nil {
			return pr.loadVer[ld] == pr.verAt(ret, classOf(ld.X))
		}
		return true
	}
	if isErrLoad(r) {
		return true
	}
	if call, ok := r.(*ssa.Call); ok {
		sc := call.Call.StaticCallee()
		// tiny accessor returning the field
		if sc != nil && len(sc.Blocks) == 1 && len(call.Call.Args) == 1 {
			if rr, ok := terminator(sc.Blocks[0]).(*ssa.Return); ok && len(rr.Results) == 1 {
				if ld, ok := rr.Results[0].(*ssa.UnOp); ok && ld.Op == token.MUL {
					if base, ok := cur.isField(ld.X, cur.E); ok && base == ssa.Value(sc.Params[0]) && isBase(call.Call.Args[0]) {
						return true
					}
				}
			}
		}
		// a stage of the decoder that is handed the reader and returns its sticky error; nothing may touch the
		// reader between that call and this return (the call's result is returned directly)
		if sc != nil && sc.Pkg != nil && sc.Pkg.Pkg == p.Pkg && depth < 3 && call.Block() == b {
			for k, a := range call.Call.Args {
				if !isBase(a) || k >= len(sc.Params) {
					continue
				}
				spr := NewProver(p, sc)
				all, n := true, 0
				for _, sb := range sc.Blocks {
					sret, ok := terminator(sb).(*ssa.Return)
					if !ok || len(sret.Results) != 1 {
						continue
					}
					n++
					if !stickyReturnOK(p, cur, spr, []ssa.Value{sc.Params[k]}, sb, sret, depth+1) {
						all = false
					}
				}
				if all && n > 0 {
					// no reader use after the call in this block
					after := false
					for _, ins := range b.Instrs {
						if ins == ssa.Instruction(call) {
							after = true
							continue
						}
						if after {
							if c2, isCall := ins.(*ssa.Call); isCall {
								for _, a2 := range c2.Call.Args {
									if isBase(a2) {
										return false
									}
								}
							}
						}
					}
					return true
				}
			}
		}
	}
	if isNilConst(r) {
		// `return nil` where the sticky error is known to be nil: a dominating test of the error, as it still
		// is at the return (no write to it in between), took the nil edge
		for _, dc := range domConds(b) {
			bo, ok := dc.cond.(*ssa.BinOp)
			if !ok || (bo.Op != token.EQL && bo.Op != token.NEQ) {
				continue
			}
			var other ssa.Value
			if isNilConst(bo.Y) {
				other = bo.X
			} else if isNilConst(bo.X) {
				other = bo.Y
			} else {
				continue
			}
			if !isErrLoad(other) {
				continue
			}
			if (bo.Op == token.EQL) == dc.truth {
				return true
			}
		}
	}
	// … and where dominance does not reach: the flow of the sticky error through the function (stickyflow.go)
	if len(bases) == 1 && depth < 3 {
		if p.stickyFlowAccepts(cur, b.Parent(), bases[0], ret, r, depth) {
			return true
		}
	}
	return false
}
