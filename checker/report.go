package main

import (
	"encoding/json"
	"fmt"
	"os"
	"path/filepath"
	"sort"
	"strings"
	"time"
)

type Status int

const (
	Discharged Status = iota
	Violated
	Undecided
)

func (s Status) String() string {
	switch s {
	case Discharged:
		return "discharged"
	case Violated:
		return "violated"
	}
	return "undecided"
}

// Obligation is one decided (or undecided) instance of a rule.  It is keyed by
// Rule + Construct; Construct never contains a line number.
type Obligation struct {
	Rule      string `json:"rule"`
	Construct string `json:"construct"`
	Pos       string `json:"pos"`
	Status    Status `json:"-"`
	StatusS   string `json:"status"`
	Detail    string `json:"detail,omitempty"`
}

type Floor struct {
	Name string `json:"name"`
	Got  int    `json:"got"`
	Min  int    `json:"min"`
	Why  string `json:"why,omitempty"`
}

type CanaryResult struct {
	Name     string `json:"name"`
	Rule     string `json:"rule"`
	Expect   string `json:"expect"` // "fires" or "silent"
	Fired    bool   `json:"fired"`
	Reported string `json:"reported,omitempty"`
	OK       bool   `json:"ok"`
}

// Check collects everything one property check produced on one program.
type Check struct {
	ID          string
	Level       string
	Prog        *Prog
	Obls        []Obligation
	Funcs       map[string]bool
	Sites       int
	Floors      []Floor
	Rules       map[string]string
	Notes       []string
	Measured    map[string]int
	Canaries    []CanaryResult
	SelfTest    []CanaryResult
	Trusted     []string
	Assumptions []string
	Explanation string
	NotDecided  []string
}

func NewCheck(id string, p *Prog) *Check {
	return &Check{ID: id, Prog: p, Funcs: map[string]bool{}, Rules: map[string]string{}, Measured: map[string]int{}}
}

func (c *Check) Rule(id, text string) { c.Rules[id] = text }

func (c *Check) add(rule, construct, pos string, st Status, detail string) {
	c.Obls = append(c.Obls, Obligation{Rule: rule, Construct: construct, Pos: pos, Status: st, StatusS: st.String(), Detail: detail})
}
func (c *Check) OK(rule, construct, pos, how string)  { c.add(rule, construct, pos, Discharged, how) }
func (c *Check) Bad(rule, construct, pos, why string) { c.add(rule, construct, pos, Violated, why) }
func (c *Check) Unk(rule, construct, pos, why string) { c.add(rule, construct, pos, Undecided, why) }
func (c *Check) Floor(name string, got, min int, why string) {
	c.Floors = append(c.Floors, Floor{name, got, min, why})
	if got < min {
		c.Bad("floor", name, "-", fmt.Sprintf("instance count %d below floor %d (%s)", got, min, why))
	}
}
func (c *Check) Fn(name string) { c.Funcs[name] = true }

// Failing returns the obligations that are not discharged.
func (c *Check) Failing() []Obligation {
	var out []Obligation
	for _, o := range c.Obls {
		if o.Status != Discharged {
			out = append(out, o)
		}
	}
	return out
}

// ---------- known findings ----------

type KnownFinding struct {
	Property  string `json:"property"`
	Rule      string `json:"rule"`
	Construct string `json:"construct"`
	What      string `json:"what"`
	Status    string `json:"status"` // "known" or "fixed:<commit>"
}

func loadKnown(path string) ([]KnownFinding, error) {
	b, err := os.ReadFile(path)
	if err != nil {
		if os.IsNotExist(err) {
			return nil, nil
		}
		return nil, err
	}
	var f struct {
		Findings []KnownFinding `json:"findings"`
	}
	if err := json.Unmarshal(b, &f); err != nil {
		return nil, err
	}
	return f.Findings, nil
}

// ---------- evidence ----------

type evidence struct {
	PropertyID  string                 `json:"property_id"`
	Tier        string                 `json:"tier"`
	Seed        int                    `json:"seed"`
	Level       string                 `json:"level"`
	Coverage    map[string]interface{} `json:"coverage"`
	Assumptions []string               `json:"assumptions"`
	WallS       float64                `json:"wall_s"`
	Violations  int                    `json:"violations"`
}

func sortedKeys(m map[string]bool) []string {
	out := make([]string, 0, len(m))
	for k := range m {
		out = append(out, k)
	}
	sort.Strings(out)
	return out
}

// finish matches known findings, writes evidence and the replay file, prints
// the verdict lines and returns the process exit code for this property.
func (c *Check) finish(verifDir, tier string, seed int, start time.Time, known []KnownFinding, cmdline string) int {
	if c.Assumptions == nil {
		c.Assumptions = []string{}
	}
	if c.Trusted == nil {
		c.Trusted = []string{}
	}
	if c.NotDecided == nil {
		c.NotDecided = []string{}
	}
	failing := c.Failing()
	var unlisted []Obligation
	var knownHit []KnownFinding
	for _, o := range failing {
		hit := false
		for _, k := range known {
			if k.Status == "known" && k.Property == c.ID && k.Rule == o.Rule && k.Construct == o.Construct {
				knownHit = append(knownHit, k)
				hit = true
				break
			}
		}
		if !hit {
			unlisted = append(unlisted, o)
		}
	}
	canaryBad := 0
	for _, cr := range c.Canaries {
		if !cr.OK {
			canaryBad++
		}
	}
	discharged := 0
	perRule := map[string][2]int{}
	for _, o := range c.Obls {
		pr := perRule[o.Rule]
		pr[0]++
		if o.Status == Discharged {
			discharged++
			pr[1]++
		}
		perRule[o.Rule] = pr
	}
	// samples: a spread of obligations across rules
	var samples []interface{}
	seenRule := map[string]int{}
	for _, o := range c.Obls {
		if seenRule[o.Rule] < 3 {
			seenRule[o.Rule]++
			samples = append(samples, o)
		}
	}
	for _, o := range failing {
		samples = append(samples, o)
	}
	rulesOut := map[string]interface{}{}
	for id, t := range c.Rules {
		pr := perRule[id]
		rulesOut[id] = map[string]interface{}{"text": t, "obligations": pr[0], "discharged": pr[1]}
	}
	cov := map[string]interface{}{
		"obligations":         len(c.Obls),
		"discharged":          discharged,
		"checker_cmd":         cmdline,
		"trusted_base":        c.Trusted,
		"explanation":         c.Explanation,
		"exhaustive":          true,
		"rules":               rulesOut,
		"functions_analysed":  sortedKeys(c.Funcs),
		"n_functions":         len(c.Funcs),
		"call_sites":          c.Sites,
		"floors":              c.Floors,
		"measured":            c.Measured,
		"canaries":            c.Canaries,
		"samples":             samples,
		"not_decided":         c.NotDecided,
		"notes":               c.Notes,
		"program":             c.Prog.Label,
		"arch":                c.Prog.U.Arch,
		"files":               len(c.Prog.Files),
		"known_findings_hit":  knownHit,
		"evaluations":         len(c.Obls),
		"distinct_nontrivial": distinctConstructs(c.Obls),
		"rule":                "one obligation per (rule, construct) instance found in the analysed functions; distinct = distinct rule+construct keys",
	}
	if len(c.SelfTest) > 0 {
		cov["seeded_self_test"] = c.SelfTest
	}
	ev := evidence{PropertyID: c.ID, Tier: tier, Seed: seed, Level: c.Level, Coverage: cov,
		Assumptions: c.Assumptions, WallS: time.Since(start).Seconds(), Violations: len(unlisted) + canaryBad}
	os.MkdirAll(filepath.Join(verifDir, "evidence"), 0o755)
	b, _ := json.MarshalIndent(ev, "", " ")
	evPath := filepath.Join(verifDir, "evidence", c.ID+".json")
	if err := os.WriteFile(evPath, append(b, '\n'), 0o644); err != nil {
		fmt.Fprintf(os.Stderr, "cannot write evidence: %v\n", err)
		return 2
	}
	for _, k := range knownHit {
		fmt.Printf("KNOWN-FINDING: property=%s %s [%s %s]\n", c.ID, k.What, k.Rule, k.Construct)
	}
	fmt.Printf("%s %s: %d obligations, %d discharged, %d functions, %d canaries (%d bad), %.1fs\n",
		c.ID, tier, len(c.Obls), discharged, len(c.Funcs), len(c.Canaries), canaryBad, time.Since(start).Seconds())
	if len(unlisted) == 0 && canaryBad == 0 {
		return 0
	}
	os.MkdirAll(filepath.Join(verifDir, "out"), 0o755)
	replay := filepath.Join(verifDir, "out", c.ID+".violation.json")
	var badCan []CanaryResult
	for _, cr := range c.Canaries {
		if !cr.OK {
			badCan = append(badCan, cr)
		}
	}
	rb, _ := json.MarshalIndent(map[string]interface{}{
		"property": c.ID, "program": c.Prog.Label, "violations": unlisted, "dead_canaries": badCan,
	}, "", " ")
	os.WriteFile(replay, append(rb, '\n'), 0o644)
	for _, o := range unlisted {
		fmt.Printf("  %s %s %s at %s: %s\n", strings.ToUpper(o.Status.String()), o.Rule, o.Construct, o.Pos, o.Detail)
	}
	for _, cr := range badCan {
		fmt.Printf("  CANARY %s (%s): expected %s, fired=%v %s\n", cr.Name, cr.Rule, cr.Expect, cr.Fired, cr.Reported)
	}
	fmt.Printf("VIOLATION property=%s replay=%s\n", c.ID, replay)
	return 1
}

func distinctConstructs(obls []Obligation) int {
	m := map[string]bool{}
	for _, o := range obls {
		m[o.Rule+"|"+o.Construct] = true
	}
	return len(m)
}
