package main

// The MQTT v5.0 table the checker carries (DESIGN Appendix A).  Transcribed
// from the OASIS specification text; it shares no identifier or constant with
// the library and is keyed, on the library side, by exported names only.

type specProp struct {
	ID   int64
	Name string
	Kind string // byte, u16, u32, vbi, str, bin, pair
	// exported accessor name(s) on the packet types, used to tie a library field to the property
	Accessor string
}

var specProps = []specProp{
	{0x01, "Payload Format Indicator", "byte", "PayloadFormat"},
	{0x02, "Message Expiry Interval", "u32", "MessageExpiryInterval"},
	{0x03, "Content Type", "str", "ContentType"},
	{0x08, "Response Topic", "str", "ResponseTopic"},
	{0x09, "Correlation Data", "bin", "CorrelationData"},
	{0x0B, "Subscription Identifier", "vbi", "SubscriptionID"},
	{0x11, "Session Expiry Interval", "u32", "SessionExpiryInterval"},
	{0x12, "Assigned Client Identifier", "str", "AssignedClientID"},
	{0x13, "Server Keep Alive", "u16", "ServerKeepAlive"},
	{0x15, "Authentication Method", "str", "AuthMethod"},
	{0x16, "Authentication Data", "bin", "AuthData"},
	{0x17, "Request Problem Information", "byte", "RequestProblemInfo"},
	{0x18, "Will Delay Interval", "u32", "WillDelayInterval"},
	{0x19, "Request Response Information", "byte", "RequestResponseInfo"},
	{0x1A, "Response Information", "str", "ResponseInformation"},
	{0x1C, "Server Reference", "str", "ServerReference"},
	{0x1F, "Reason String", "str", "ReasonString"},
	{0x21, "Receive Maximum", "u16", "ReceiveMax"},
	{0x22, "Topic Alias Maximum", "u16", "TopicAliasMax"},
	{0x23, "Topic Alias", "u16", "TopicAlias"},
	{0x24, "Maximum QoS", "byte", "MaxQoS"},
	{0x25, "Retain Available", "byte", "RetainAvailable"},
	{0x26, "User Property", "pair", ""},
	{0x27, "Maximum Packet Size", "u32", "MaxPacketSize"},
	{0x28, "Wildcard Subscription Available", "byte", "WildcardSubAvailable"},
	{0x29, "Subscription Identifier Available", "byte", "SubIdentifiersAvailable"},
	{0x2A, "Shared Subscription Available", "byte", "SharedSubAvailable"},
}

func specPropByID(id int64) *specProp {
	for i := range specProps {
		if specProps[i].ID == id {
			return &specProps[i]
		}
	}
	return nil
}

// properties allowed per packet (MQTT v5.0 table 2-4); "Will" = will properties of CONNECT
var specAllowed = map[string][]int64{
	"Connect":     {0x11, 0x15, 0x16, 0x17, 0x19, 0x21, 0x22, 0x26, 0x27},
	"Will":        {0x01, 0x02, 0x03, 0x08, 0x09, 0x18, 0x26},
	"ConnAck":     {0x11, 0x12, 0x13, 0x15, 0x16, 0x1A, 0x1C, 0x1F, 0x21, 0x22, 0x24, 0x25, 0x26, 0x27, 0x28, 0x29, 0x2A},
	"Publish":     {0x01, 0x02, 0x03, 0x08, 0x09, 0x0B, 0x23, 0x26},
	"PubAck":      {0x1F, 0x26},
	"PubRec":      {0x1F, 0x26},
	"PubRel":      {0x1F, 0x26},
	"PubComp":     {0x1F, 0x26},
	"Subscribe":   {0x0B, 0x26},
	"SubAck":      {0x1F, 0x26},
	"Unsubscribe": {0x26},
	"UnsubAck":    {0x1F, 0x26},
	"PingReq":     nil,
	"PingResp":    nil,
	"Disconnect":  {0x11, 0x1C, 0x1F, 0x26},
	"Auth":        {0x15, 0x16, 0x1F, 0x26},
}

// kinds: the wire representation a library wire type must have for a spec kind
// byte: 1 byte; u16/u32: big endian fixed; vbi: variable byte integer;
// str/bin: two-byte length prefix + bytes; pair: two str.

// specField is one item of the variable header / payload after the fixed
// header, in the order of the specification.
type specField struct {
	Name     string // accessor name on the library type ("" for structural items)
	Kind     string // byte u16 str bin raw props list
	Optional string // "" mandatory; otherwise the presence rule's name
}

// ordered layout after the fixed header (first byte + remaining length)
var specLayout = map[string][]specField{
	"Connect": {
		{"ProtocolName", "str", ""}, {"ProtocolVersion", "byte", ""}, {"#flags", "byte", ""}, {"KeepAlive", "u16", ""}, {"#props:Connect", "props", ""},
		{"ClientID", "str", ""},
		{"#props:Will", "props", "will"}, {"#will.TopicName", "str", "will"}, {"#will.Payload", "bin", "will"},
		{"Username", "str", "username"}, {"Password", "bin", "password"},
	},
	"ConnAck":     {{"#flags", "byte", ""}, {"ReasonCode", "byte", ""}, {"#props:ConnAck", "props", ""}},
	"Publish":     {{"TopicName", "str", ""}, {"PacketID", "u16", "qos>0"}, {"#props:Publish", "props", ""}, {"Payload", "raw", "rest"}},
	"PubAck":      {{"PacketID", "u16", ""}, {"ReasonCode", "byte", "reason|props"}, {"#props:PubAck", "props", "props"}},
	"PubRec":      {{"PacketID", "u16", ""}, {"ReasonCode", "byte", "reason|props"}, {"#props:PubRec", "props", "props"}},
	"PubRel":      {{"PacketID", "u16", ""}, {"ReasonCode", "byte", "reason|props"}, {"#props:PubRel", "props", "props"}},
	"PubComp":     {{"PacketID", "u16", ""}, {"ReasonCode", "byte", "reason|props"}, {"#props:PubComp", "props", "props"}},
	"Subscribe":   {{"PacketID", "u16", ""}, {"#props:Subscribe", "props", ""}, {"#filters+options", "list", ""}},
	"SubAck":      {{"PacketID", "u16", ""}, {"#props:SubAck", "props", ""}, {"ReasonCodes", "list", ""}},
	"Unsubscribe": {{"PacketID", "u16", ""}, {"#props:Unsubscribe", "props", ""}, {"Filters", "list", ""}},
	"UnsubAck":    {{"PacketID", "u16", ""}, {"#props:UnsubAck", "props", ""}, {"ReasonCodes", "list", ""}},
	"PingReq":     {},
	"PingResp":    {},
	"Disconnect":  {{"ReasonCode", "byte", "reason|props"}, {"#props:Disconnect", "props", "props"}},
	"Auth":        {{"ReasonCode", "byte", "reason|props"}, {"#props:Auth", "props", "reason|props"}},
}

// connect acknowledge flags (§3.2.2.1)
var specConnAckFlags = map[string]int64{"SessionPresent": 0x01}

// subscription options (§3.8.3.1)
var specSubOptions = map[string]int64{
	"OptQoS1": 0x01, "OptQoS2": 0x02, "OptQoS3": 0x03, "OptNL": 0x04, "OptRAP": 0x08, "OptRetain1": 0x10, "OptRetain2": 0x20, "OptRetain3": 0x30,
}

// CONNECT flag bits (§3.1.2.3)
var specConnectFlags = map[string]int64{
	"UsernameFlag": 0x80, "PasswordFlag": 0x40, "WillRetain": 0x20, "WillQoS2": 0x10, "WillQoS1": 0x08, "WillFlag": 0x04, "CleanStart": 0x02, "Reserved": 0x01,
}

// properties the specification defines as a byte restricted to 0 and 1 (booleans)
var specBoolProps = map[int64]bool{0x01: true, 0x17: true, 0x19: true, 0x25: true, 0x28: true, 0x29: true, 0x2A: true}

// reason codes and the packets in which each may appear (MQTT v5.0 §2.4, table 2-6)
var specReasonCodes = map[string][]int64{
	"ConnAck":    {0x00, 0x80, 0x81, 0x82, 0x83, 0x84, 0x85, 0x86, 0x87, 0x88, 0x89, 0x8A, 0x8C, 0x90, 0x95, 0x97, 0x99, 0x9A, 0x9B, 0x9C, 0x9D, 0x9F},
	"PubAck":     {0x00, 0x10, 0x80, 0x83, 0x87, 0x90, 0x91, 0x97, 0x99},
	"PubRec":     {0x00, 0x10, 0x80, 0x83, 0x87, 0x90, 0x91, 0x97, 0x99},
	"PubRel":     {0x00, 0x92},
	"PubComp":    {0x00, 0x92},
	"SubAck":     {0x00, 0x01, 0x02, 0x80, 0x83, 0x87, 0x8F, 0x91, 0x97, 0x9E, 0xA1, 0xA2},
	"UnsubAck":   {0x00, 0x11, 0x80, 0x83, 0x87, 0x8F, 0x91},
	"Disconnect": {0x00, 0x04, 0x80, 0x81, 0x82, 0x83, 0x87, 0x89, 0x8B, 0x8D, 0x8E, 0x8F, 0x90, 0x93, 0x94, 0x95, 0x96, 0x97, 0x98, 0x99, 0x9A, 0x9B, 0x9C, 0x9D, 0x9E, 0x9F, 0xA0, 0xA1, 0xA2},
	"Auth":       {0x00, 0x18, 0x19},
}
