// Path-wise linear accounting for loop-free fill-family functions.
//
// Every entry→return path (branches pruned when the linear facts collected so far contradict them) is walked
// with a running offset S, a linear form over width atoms: S starts at the entry offset; each emission must be
// made at offset S and adds its width W to S; the function must return S (absolute style) or S − entry
// (relative style).  A width atom identifies (callee, receiver and other value arguments) — the same atom for
// the dry run and the real call — and is a constant when the callee's result is one.  This decides offset
// threading (R10.2) independently of how the sum is spelled (i += w, i+n with n accumulated, locals, helpers)
// and length prefixes (R10.8) independently of how the length is spelled (sum of dry runs, explicit constants
// for fixed-width fields, a local computed once).
package main

import (
	"fmt"
	"go/token"
	"sort"
	"strings"

	"golang.org/x/tools/go/ssa"
)

type acctResult struct {
	applicable bool   // loop-free, has emissions
	threadOK   bool   // R10.2 holds on every feasible path
	threadWhy  string // first problem
	prefixes   int    // emissions that are length prefixes
	prefixOK   bool
	prefixWhy  string
	paths      int
	absPaths   int    // feasible paths on which the function returns entry offset + something (an end position)
	relPaths   int    // feasible paths on which the returned value does not contain the entry offset (a width)
	absAt      string // a return of the first kind
	relAt      string // a return of the second kind
}

func (p *Prog) fillAccounting(fn *ssa.Function, topLevel bool) acctResult {
	res := acctResult{}
	buf, off, ems, dry := emissionsOf(p, fn)
	if buf == nil || len(ems) == 0 || len(AllLoops(fn)) > 0 {
		return res
	}
	res.applicable = true
	pr := NewProver(p, fn)
	pr.assumeContracts()
	isEm := map[*ssa.Call]emission{}
	for _, e := range ems {
		isEm[e.call] = e
	}
	isDry := map[*ssa.Call]bool{}
	for _, d := range dry {
		isDry[d] = true
	}
	// width atom of a fill-family call (emission or dry run)
	var widthOf func(call *ssa.Call, depth int) Lin
	widthOf = func(call *ssa.Call, depth int) Lin {
		callees, _ := p.CG().Callees(call)
		var callee *ssa.Function
		if sc := call.Call.StaticCallee(); sc != nil {
			callee = sc
		} else if len(callees) == 1 {
			callee = callees[0]
		}
		if callee != nil {
			if rs := p.retSummary(callee); rs.exact != nil && rs.exact.isConst() {
				return linConst(rs.exact.c)
			}
		}
		// identify by callee and by every argument that is neither the buffer nor the offset
		var parts []string
		args := call.Call.Args
		bi := -1
		if callee != nil {
			bi = fillBufIndex(callee)
			if callee.Signature.Recv() != nil && call.Call.StaticCallee() != nil {
				if _, isClosure := call.Call.Value.(*ssa.MakeClosure); !isClosure {
					bi++
				}
			}
		} else {
			for k, a := range args {
				if isByteSlice(a.Type()) {
					bi = k
					break
				}
			}
		}
		switch {
		case call.Call.IsInvoke():
			parts = append(parts, "invoke "+call.Call.Method.Name()+" on "+pr.key(call.Call.Value))
		case call.Call.StaticCallee() != nil:
			if mc, isClosure := call.Call.Value.(*ssa.MakeClosure); isClosure {
				parts = append(parts, "closure "+mc.Name())
			} else {
				parts = append(parts, qname(call.Call.StaticCallee()))
			}
		default:
			parts = append(parts, "value "+pr.key(call.Call.Value))
		}
		for k, a := range args {
			if k == bi || k == bi+1 {
				continue
			}
			parts = append(parts, pr.key(a))
		}
		return linAtom("W[" + strings.Join(parts, " | ") + "]")
	}
	// tiny accessor returning the dry run of a fill-family method on its receiver (width())
	accessorWidth := func(call *ssa.Call) (Lin, bool) {
		sc := call.Call.StaticCallee()
		if sc == nil || len(sc.Blocks) != 1 || sc.Signature.Recv() == nil || len(call.Call.Args) != 1 {
			return Lin{}, false
		}
		ret, ok := terminator(sc.Blocks[0]).(*ssa.Return)
		if !ok || len(ret.Results) != 1 {
			return Lin{}, false
		}
		f, recv, ok := p.dryRunCallValue(ret.Results[0])
		if !ok || recv != ssa.Value(sc.Params[0]) {
			return Lin{}, false
		}
		if rs := p.retSummary(f); rs.exact != nil && rs.exact.isConst() {
			return linConst(rs.exact.c), true
		}
		return linAtom("W[" + qname(f) + " | " + pr.key(call.Call.Args[0]) + "]"), true
	}
	type pathT struct{ blocks []*ssa.BasicBlock }
	var problemT, problemP string
	prefixSeen := map[*ssa.Call]bool{}
	check := func(blocks []*ssa.BasicBlock) {
		res.paths++
		pred := map[*ssa.BasicBlock]*ssa.BasicBlock{}
		for i := 1; i < len(blocks); i++ {
			pred[blocks[i]] = blocks[i-1]
		}
		var evalLin func(v ssa.Value, depth int) Lin
		evalLin = func(v ssa.Value, depth int) Lin {
			if depth > 40 {
				return linAtom("?deep")
			}
			switch x := v.(type) {
			case *ssa.Const:
				if k, ok := constInt(x); ok {
					return linConst(k)
				}
			case *ssa.Parameter:
				if x == off {
					return linAtom("OFF")
				}
			case *ssa.Convert:
				return evalLin(x.X, depth+1)
			case *ssa.ChangeType:
				return evalLin(x.X, depth+1)
			case *ssa.BinOp:
				switch x.Op {
				case token.ADD:
					return evalLin(x.X, depth+1).add(evalLin(x.Y, depth+1))
				case token.SUB:
					return evalLin(x.X, depth+1).sub(evalLin(x.Y, depth+1))
				}
			case *ssa.Phi:
				pb := pred[x.Block()]
				for i, pp := range x.Block().Preds {
					if pp == pb {
						return evalLin(x.Edges[i], depth+1)
					}
				}
			case *ssa.Call:
				if _, ok := isEm[x]; ok {
					return widthOf(x, 0)
				}
				if isDry[x] {
					return widthOf(x, 0)
				}
				if l, ok := accessorWidth(x); ok {
					return l
				}
				if sc := x.Call.StaticCallee(); sc != nil {
					if rs := p.retSummary(sc); rs.exact != nil && rs.exact.isConst() {
						return linConst(rs.exact.c) // e.g. a fixed-width type's width()
					}
				}
			}
			return linAtom("V[" + pr.key(v) + "]")
		}
		var seq []*ssa.Call
		for _, b := range blocks {
			for _, ins := range b.Instrs {
				if call, ok := ins.(*ssa.Call); ok {
					if _, ok := isEm[call]; ok {
						seq = append(seq, call)
					}
				}
			}
		}
		// threading
		S := linAtom("OFF")
		for _, call := range seq {
			at := evalLin(isEm[call].offset, 0)
			if !at.equal(S) && problemT == "" {
				problemT = fmt.Sprintf("on a feasible path the emission at %s is made at offset %s, the bytes emitted so far end at %s", posOf(p, call), at.String(), S.String())
			}
			S = S.add(widthOf(call, 0))
		}
		if ret, ok := terminator(blocks[len(blocks)-1]).(*ssa.Return); ok && len(ret.Results) == 1 {
			rv := evalLin(ret.Results[0], 0)
			switch rv.coef["OFF"] {
			case 0:
				res.relPaths++
				res.relAt = posOf(p, ret)
			case 1:
				res.absPaths++
				res.absAt = posOf(p, ret)
			}
			if !rv.equal(S) && !rv.equal(S.sub(linAtom("OFF"))) && problemT == "" {
				problemT = fmt.Sprintf("on a feasible path the function returns %s, the bytes emitted end at %s", rv.String(), S.String())
			}
		}
		// length prefixes: an emission of the variable-byte-integer wire type whose value is computed, not a field
		for i, call := range seq {
			sc := call.Call.StaticCallee()
			if sc == nil || sc.Signature.Recv() == nil || len(call.Call.Args) == 0 {
				continue
			}
			if p.wireKindOf(sc.Signature.Recv().Type()) != "vbi" {
				continue
			}
			val := call.Call.Args[0]
			if ld, isLoad := stripConvs(val).(*ssa.UnOp); isLoad && ld.Op == token.MUL {
				continue // a stored variable byte integer (subscription identifier), not a length
			}
			if _, isC := stripConvs(val).(*ssa.Const); isC {
				if k, _ := constInt(stripConvs(val)); k != 0 {
					continue
				}
			}
			prefixSeen[call] = true
			L := evalLin(val, 0)
			sum := linConst(0)
			matched := L.equal(sum)
			full := false
			for j := i + 1; j < len(seq); j++ {
				sum = sum.add(widthOf(seq[j], 0))
				if L.equal(sum) {
					matched = true
					full = j == len(seq)-1
				}
			}
			if len(seq) == i+1 {
				full = matched
			}
			whole := topLevel && i == 1
			if (!matched || (whole && !full)) && problemP == "" {
				what := "no run of the emissions that follow it adds up to that"
				if whole && matched {
					what = "it does not cover everything emitted after it"
				}
				problemP = fmt.Sprintf("on a feasible path the length prefix at %s has the value %s; %s (they total %s)", posOf(p, call), L.String(), what, sum.String())
			}
		}
	}
	var walk func(b *ssa.BasicBlock, blocks []*ssa.BasicBlock, facts []Lin, truth map[string]bool)
	walk = func(b *ssa.BasicBlock, blocks []*ssa.BasicBlock, facts []Lin, truth map[string]bool) {
		if res.paths > 4096 {
			return
		}
		blocks = append(blocks, b)
		switch t := terminator(b).(type) {
		case *ssa.Return:
			check(blocks)
		case *ssa.If:
			k := pr.key(t.Cond)
			for side := 0; side < 2; side++ {
				tv := side == 0
				if prev, seen := truth[k]; seen && prev != tv {
					continue
				}
				cf := pr.condFacts(t.Cond, tv)
				contradicts := false
				for _, g := range cf {
					if pr.Prove(b, g.scale(-1).addConst(-1), facts...) {
						contradicts = true
					}
				}
				if contradicts {
					continue
				}
				nt := map[string]bool{}
				for kk, vv := range truth {
					nt[kk] = vv
				}
				nt[k] = tv
				walk(b.Succs[side], append([]*ssa.BasicBlock(nil), blocks...), append(append([]Lin(nil), facts...), cf...), nt)
			}
		case *ssa.Jump:
			walk(b.Succs[0], blocks, facts, truth)
		}
	}
	walk(fn.Blocks[0], nil, nil, map[string]bool{})
	if res.paths > 4096 {
		res.applicable = false
		return res
	}
	res.threadOK, res.threadWhy = problemT == "", problemT
	res.prefixes = len(prefixSeen)
	res.prefixOK, res.prefixWhy = problemP == "", problemP
	var _ = sort.Strings
	return res
}
