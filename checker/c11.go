package main

// C11 — deterministic, read-only encoding.

import (
	"fmt"
	"go/types"
	"strings"

	"golang.org/x/tools/go/ssa"
)

func init() {
	register(&PropertyCheck{ID: "C11", Level: "proof", Run: checkC11, Canaries: []Canary{
		{Name: "rf7-printer-type-given-an-address", Rule: "R11.1", Where: "(dumper).val", Edits: []Edit{{"auth.go", "\tfmt.Fprintf(w, \"AuthData: %q\\n\", string(p.AuthData()))\n\tfmt.Fprintf(w, \"AuthMethod: %q\\n\", p.AuthMethod())\n\tfmt.Fprintf(w, \"ReasonCode: %v\\n\", p.ReasonCode())\n\tfmt.Fprintf(w, \"ReasonString: %q\\n\", p.ReasonString())", "\td := dumper{w}\n\td.quoted(\"AuthData\", string(p.AuthData()))\n\td.quoted(\"AuthMethod\", p.AuthMethod())\n\td.val(\"ReasonCode\", p.ReasonCode())\n\td.quoted(\"ReasonString\", p.ReasonString())"}, {"connack.go", "\tfmt.Fprintf(w, \"AssignedClientID: %q\\n\", p.AssignedClientID())\n\tfmt.Fprintf(w, \"AuthData: %q\\n\", string(p.AuthData()))\n\tfmt.Fprintf(w, \"AuthMethod: %q\\n\", p.AuthMethod())\n\tfmt.Fprintf(w, \"MaxPacketSize: %v\\n\", p.MaxPacketSize())\n\tfmt.Fprintf(w, \"MaxQoS: %v\\n\", p.MaxQoS())\n\tfmt.Fprintf(w, \"ReasonCode: %v\\n\", p.ReasonCode())\n\tfmt.Fprintf(w, \"ReasonString: %q\\n\", p.ReasonString())\n\tfmt.Fprintf(w, \"ReceiveMax: %v\\n\", p.ReceiveMax())\n\tfmt.Fprintf(w, \"ResponseInformation: %q\\n\", p.ResponseInformation())\n\tfmt.Fprintf(w, \"RetainAvailable: %v\\n\", p.RetainAvailable())\n\tfmt.Fprintf(w, \"ServerKeepAlive: %v\\n\", p.ServerKeepAlive())\n\tfmt.Fprintf(w, \"ServerReference: %q\\n\", p.ServerReference())\n\tfmt.Fprintf(w, \"SessionExpiryInterval: %v\\n\", p.SessionExpiryInterval())\n\tfmt.Fprintf(w, \"SessionPresent: %v\\n\", p.SessionPresent())\n\tfmt.Fprintf(w, \"SharedSubAvailable: %v\\n\", p.SharedSubAvailable())\n\tfmt.Fprintf(w, \"SubIdentifiersAvailable: %v\\n\", p.SubIdentifiersAvailable())\n\tfmt.Fprintf(w, \"TopicAliasMax: %v\\n\", p.TopicAliasMax())\n\tfmt.Fprintf(w, \"WildcardSubAvailable: %v\\n\", p.WildcardSubAvailable())", "\td := dumper{w}\n\td.quoted(\"AssignedClientID\", p.AssignedClientID())\n\td.quoted(\"AuthData\", string(p.AuthData()))\n\td.quoted(\"AuthMethod\", p.AuthMethod())\n\td.val(\"MaxPacketSize\", p.MaxPacketSize())\n\td.val(\"MaxQoS\", p.MaxQoS())\n\td.val(\"ReasonCode\", p.ReasonCode())\n\td.quoted(\"ReasonString\", p.ReasonString())\n\td.val(\"ReceiveMax\", p.ReceiveMax())\n\td.quoted(\"ResponseInformation\", p.ResponseInformation())\n\td.val(\"RetainAvailable\", p.RetainAvailable())\n\td.val(\"ServerKeepAlive\", p.ServerKeepAlive())\n\td.quoted(\"ServerReference\", p.ServerReference())\n\td.val(\"SessionExpiryInterval\", p.SessionExpiryInterval())\n\td.val(\"SessionPresent\", p.SessionPresent())\n\td.val(\"SharedSubAvailable\", p.SharedSubAvailable())\n\td.val(\"SubIdentifiersAvailable\", p.SubIdentifiersAvailable())\n\td.val(\"TopicAliasMax\", p.TopicAliasMax())\n\td.val(\"WildcardSubAvailable\", p.WildcardSubAvailable())"}, {"connect.go", "\tfmt.Fprintf(w, \"AuthData: %v\\n\", p.AuthData())\n\tfmt.Fprintf(w, \"AuthMethod: %v\\n\", p.AuthMethod())\n\tfmt.Fprintf(w, \"CleanStart: %v\\n\", p.CleanStart())\n\tfmt.Fprintf(w, \"ClientID: %v\\n\", p.ClientID())\n\tfmt.Fprintf(w, \"KeepAlive: %v\\n\", p.KeepAlive())\n\tfmt.Fprintf(w, \"MaxPacketSize: %v\\n\", p.MaxPacketSize())\n\tfmt.Fprintf(w, \"Password: %q\\n\", stars(len(p.Password())))\n\tfmt.Fprintf(w, \"ProtocolName: %v\\n\", p.ProtocolName())\n\tfmt.Fprintf(w, \"ProtocolVersion: %v\\n\", p.ProtocolVersion())\n\tfmt.Fprintf(w, \"ReceiveMax: %v\\n\", p.ReceiveMax())\n\tfmt.Fprintf(w, \"RequestProblemInfo: %v\\n\", p.RequestProblemInfo())\n\tfmt.Fprintf(w, \"RequestResponseInfo: %v\\n\", p.RequestResponseInfo())\n\tfmt.Fprintf(w, \"SessionExpiryInterval: %v\\n\", p.SessionExpiryInterval())\n\tfmt.Fprintf(w, \"TopicAliasMax: %v\\n\", p.TopicAliasMax())\n\tfmt.Fprintf(w, \"Username: %v\\n\", stars(len(p.Username())))", "\td := dumper{w}\n\td.val(\"AuthData\", p.AuthData())\n\td.val(\"AuthMethod\", p.AuthMethod())\n\td.val(\"Flags\", &p.flags)\n\td.val(\"CleanStart\", p.CleanStart())\n\td.val(\"ClientID\", p.ClientID())\n\td.val(\"KeepAlive\", p.KeepAlive())\n\td.val(\"MaxPacketSize\", p.MaxPacketSize())\n\td.quoted(\"Password\", stars(len(p.Password())))\n\td.val(\"ProtocolName\", p.ProtocolName())\n\td.val(\"ProtocolVersion\", p.ProtocolVersion())\n\td.val(\"ReceiveMax\", p.ReceiveMax())\n\td.val(\"RequestProblemInfo\", p.RequestProblemInfo())\n\td.val(\"RequestResponseInfo\", p.RequestResponseInfo())\n\td.val(\"SessionExpiryInterval\", p.SessionExpiryInterval())\n\td.val(\"TopicAliasMax\", p.TopicAliasMax())\n\td.val(\"Username\", stars(len(p.Username())))"}, {"disconnect.go", "\tfmt.Fprintf(w, \"ReasonCode: %v\\n\", p.ReasonCode())\n\tfmt.Fprintf(w, \"ReasonString: %q\\n\", p.ReasonString())\n\tfmt.Fprintf(w, \"ServerReference: %q\\n\", p.ServerReference())\n\tfmt.Fprintf(w, \"SessionExpiryInterval: %v\\n\", p.SessionExpiryInterval())", "\td := dumper{w}\n\td.val(\"ReasonCode\", p.ReasonCode())\n\td.quoted(\"ReasonString\", p.ReasonString())\n\td.quoted(\"ServerReference\", p.ServerReference())\n\td.val(\"SessionExpiryInterval\", p.SessionExpiryInterval())"}, {"packet.go", "\t}\n}\n", "\t}\n}\n\n// dumper writes named fields as lines to the underlying writer, each\n// line is written with one call to Write. Errors are ignored.\ntype dumper struct {\n\tw io.Writer\n}\n\n// val writes the field using the default format of v.\nfunc (d dumper) val(name string, v interface{}) {\n\tfmt.Fprintf(d.w, \"%s: %v\\n\", name, v)\n}\n\n// quoted writes the field as a double quoted string.\nfunc (d dumper) quoted(name string, v string) {\n\tfmt.Fprintf(d.w, \"%s: %q\\n\", name, v)\n}\n"}}},
		{Name: "rf7-dump-through-a-small-printer-type", Silent: true, Edits: []Edit{{"auth.go", "\tfmt.Fprintf(w, \"AuthData: %q\\n\", string(p.AuthData()))\n\tfmt.Fprintf(w, \"AuthMethod: %q\\n\", p.AuthMethod())\n\tfmt.Fprintf(w, \"ReasonCode: %v\\n\", p.ReasonCode())\n\tfmt.Fprintf(w, \"ReasonString: %q\\n\", p.ReasonString())", "\td := dumper{w}\n\td.quoted(\"AuthData\", string(p.AuthData()))\n\td.quoted(\"AuthMethod\", p.AuthMethod())\n\td.val(\"ReasonCode\", p.ReasonCode())\n\td.quoted(\"ReasonString\", p.ReasonString())"}, {"connack.go", "\tfmt.Fprintf(w, \"AssignedClientID: %q\\n\", p.AssignedClientID())\n\tfmt.Fprintf(w, \"AuthData: %q\\n\", string(p.AuthData()))\n\tfmt.Fprintf(w, \"AuthMethod: %q\\n\", p.AuthMethod())\n\tfmt.Fprintf(w, \"MaxPacketSize: %v\\n\", p.MaxPacketSize())\n\tfmt.Fprintf(w, \"MaxQoS: %v\\n\", p.MaxQoS())\n\tfmt.Fprintf(w, \"ReasonCode: %v\\n\", p.ReasonCode())\n\tfmt.Fprintf(w, \"ReasonString: %q\\n\", p.ReasonString())\n\tfmt.Fprintf(w, \"ReceiveMax: %v\\n\", p.ReceiveMax())\n\tfmt.Fprintf(w, \"ResponseInformation: %q\\n\", p.ResponseInformation())\n\tfmt.Fprintf(w, \"RetainAvailable: %v\\n\", p.RetainAvailable())\n\tfmt.Fprintf(w, \"ServerKeepAlive: %v\\n\", p.ServerKeepAlive())\n\tfmt.Fprintf(w, \"ServerReference: %q\\n\", p.ServerReference())\n\tfmt.Fprintf(w, \"SessionExpiryInterval: %v\\n\", p.SessionExpiryInterval())\n\tfmt.Fprintf(w, \"SessionPresent: %v\\n\", p.SessionPresent())\n\tfmt.Fprintf(w, \"SharedSubAvailable: %v\\n\", p.SharedSubAvailable())\n\tfmt.Fprintf(w, \"SubIdentifiersAvailable: %v\\n\", p.SubIdentifiersAvailable())\n\tfmt.Fprintf(w, \"TopicAliasMax: %v\\n\", p.TopicAliasMax())\n\tfmt.Fprintf(w, \"WildcardSubAvailable: %v\\n\", p.WildcardSubAvailable())", "\td := dumper{w}\n\td.quoted(\"AssignedClientID\", p.AssignedClientID())\n\td.quoted(\"AuthData\", string(p.AuthData()))\n\td.quoted(\"AuthMethod\", p.AuthMethod())\n\td.val(\"MaxPacketSize\", p.MaxPacketSize())\n\td.val(\"MaxQoS\", p.MaxQoS())\n\td.val(\"ReasonCode\", p.ReasonCode())\n\td.quoted(\"ReasonString\", p.ReasonString())\n\td.val(\"ReceiveMax\", p.ReceiveMax())\n\td.quoted(\"ResponseInformation\", p.ResponseInformation())\n\td.val(\"RetainAvailable\", p.RetainAvailable())\n\td.val(\"ServerKeepAlive\", p.ServerKeepAlive())\n\td.quoted(\"ServerReference\", p.ServerReference())\n\td.val(\"SessionExpiryInterval\", p.SessionExpiryInterval())\n\td.val(\"SessionPresent\", p.SessionPresent())\n\td.val(\"SharedSubAvailable\", p.SharedSubAvailable())\n\td.val(\"SubIdentifiersAvailable\", p.SubIdentifiersAvailable())\n\td.val(\"TopicAliasMax\", p.TopicAliasMax())\n\td.val(\"WildcardSubAvailable\", p.WildcardSubAvailable())"}, {"connect.go", "\tfmt.Fprintf(w, \"AuthData: %v\\n\", p.AuthData())\n\tfmt.Fprintf(w, \"AuthMethod: %v\\n\", p.AuthMethod())\n\tfmt.Fprintf(w, \"CleanStart: %v\\n\", p.CleanStart())\n\tfmt.Fprintf(w, \"ClientID: %v\\n\", p.ClientID())\n\tfmt.Fprintf(w, \"KeepAlive: %v\\n\", p.KeepAlive())\n\tfmt.Fprintf(w, \"MaxPacketSize: %v\\n\", p.MaxPacketSize())\n\tfmt.Fprintf(w, \"Password: %q\\n\", stars(len(p.Password())))\n\tfmt.Fprintf(w, \"ProtocolName: %v\\n\", p.ProtocolName())\n\tfmt.Fprintf(w, \"ProtocolVersion: %v\\n\", p.ProtocolVersion())\n\tfmt.Fprintf(w, \"ReceiveMax: %v\\n\", p.ReceiveMax())\n\tfmt.Fprintf(w, \"RequestProblemInfo: %v\\n\", p.RequestProblemInfo())\n\tfmt.Fprintf(w, \"RequestResponseInfo: %v\\n\", p.RequestResponseInfo())\n\tfmt.Fprintf(w, \"SessionExpiryInterval: %v\\n\", p.SessionExpiryInterval())\n\tfmt.Fprintf(w, \"TopicAliasMax: %v\\n\", p.TopicAliasMax())\n\tfmt.Fprintf(w, \"Username: %v\\n\", stars(len(p.Username())))", "\td := dumper{w}\n\td.val(\"AuthData\", p.AuthData())\n\td.val(\"AuthMethod\", p.AuthMethod())\n\td.val(\"CleanStart\", p.CleanStart())\n\td.val(\"ClientID\", p.ClientID())\n\td.val(\"KeepAlive\", p.KeepAlive())\n\td.val(\"MaxPacketSize\", p.MaxPacketSize())\n\td.quoted(\"Password\", stars(len(p.Password())))\n\td.val(\"ProtocolName\", p.ProtocolName())\n\td.val(\"ProtocolVersion\", p.ProtocolVersion())\n\td.val(\"ReceiveMax\", p.ReceiveMax())\n\td.val(\"RequestProblemInfo\", p.RequestProblemInfo())\n\td.val(\"RequestResponseInfo\", p.RequestResponseInfo())\n\td.val(\"SessionExpiryInterval\", p.SessionExpiryInterval())\n\td.val(\"TopicAliasMax\", p.TopicAliasMax())\n\td.val(\"Username\", stars(len(p.Username())))"}, {"disconnect.go", "\tfmt.Fprintf(w, \"ReasonCode: %v\\n\", p.ReasonCode())\n\tfmt.Fprintf(w, \"ReasonString: %q\\n\", p.ReasonString())\n\tfmt.Fprintf(w, \"ServerReference: %q\\n\", p.ServerReference())\n\tfmt.Fprintf(w, \"SessionExpiryInterval: %v\\n\", p.SessionExpiryInterval())", "\td := dumper{w}\n\td.val(\"ReasonCode\", p.ReasonCode())\n\td.quoted(\"ReasonString\", p.ReasonString())\n\td.quoted(\"ServerReference\", p.ServerReference())\n\td.val(\"SessionExpiryInterval\", p.SessionExpiryInterval())"}, {"packet.go", "\t}\n}\n", "\t}\n}\n\n// dumper writes named fields as lines to the underlying writer, each\n// line is written with one call to Write. Errors are ignored.\ntype dumper struct {\n\tw io.Writer\n}\n\n// val writes the field using the default format of v.\nfunc (d dumper) val(name string, v interface{}) {\n\tfmt.Fprintf(d.w, \"%s: %v\\n\", name, v)\n}\n\n// quoted writes the field as a double quoted string.\nfunc (d dumper) quoted(name string, v string) {\n\tfmt.Fprintf(d.w, \"%s: %q\\n\", name, v)\n}\n"}}},
		{Name: "will-props-in-map-order", Rule: "R11.1", Where: "(*Connect).payload$1", Edits: []Edit{{"connect.go",
			"\t\t\ti += p.willDelayInterval.fillProp(b, i, WillDelayInterval)\n\t\t\ti += p.will.payloadFormat.fillProp(b, i, PayloadFormatIndicator)\n\t\t\ti += p.will.messageExpiryInterval.fillProp(b, i, MessageExpiryInterval)\n\t\t\ti += p.will.contentType.fillProp(b, i, ContentType)\n\t\t\ti += p.will.responseTopic.fillProp(b, i, ResponseTopic)\n\t\t\ti += p.will.correlationData.fillProp(b, i, CorrelationData)\n",
			"\t\t\tfor id, v := range p.willPropertyMap() {\n\t\t\t\ti += v().fillProp(b, i, id)\n\t\t\t}\n"}}},
		{Name: "time-now-in-renderer", Rule: "R11.1", Where: "(*PingReq).String", Edits: []Edit{
			{"pingreq.go", "\treturn fmt.Sprintf(\"%s %v bytes\",\n\t\tfirstByte(p.fixed).String(),\n\t\tp.width(),\n\t)", "\treturn fmt.Sprintf(\"%s %v bytes %v\",\n\t\tfirstByte(p.fixed).String(),\n\t\tp.width(), time.Now().Unix(),\n\t)"},
			{"pingreq.go", "import (\n", "import (\n\t\"time\"\n"}}},
		{Name: "pointer-printed", Rule: "R11.1", Where: "(*Subscribe).dump", Edits: []Edit{{"subscribe.go", "fmt.Fprintf(w, \"SubscriptionID: %v\\n\", p.SubscriptionID())", "fmt.Fprintf(w, \"SubscriptionID: %v\\n\", p.subscriptionID)"}}},
		{Name: "second-entry-in-ranged-map", Rule: "R11.1", Where: "(*SubAck).properties", Edits: []Edit{{"suback.go", "\t\tReasonString: func() wireType { return &p.reasonString },\n", "\t\tReasonString: func() wireType { return &p.reasonString },\n\t\tServerReference: func() wireType { return &p.reasonString },\n"}}},
		{Name: "write-in-wellformed", Rule: "R11.2", Where: "(*Publish).WellFormed", Edits: []Edit{{"publish.go", "\tswitch p.QoS() {\n\tcase 1, 2:\n\t\tif p.packetID == 0 {", "\tswitch p.QoS() {\n\tcase 1, 2:\n\t\tif p.packetID == 0 {\n\t\t\tp.packetID = 1"}}},
		{Name: "rand-padding", Rule: "R11.1", Where: "(*PingResp).fill", Edits: []Edit{
			{"pingresp.go", "\ti += vbint(0).fill(b, i) // remaining length none", "\ti += vbint(rand.Intn(1)).fill(b, i) // remaining length none"},
			{"pingresp.go", "import (\n", "import (\n\t\"math/rand\"\n"}}},
		{Name: "setter-reuses-shared-default-storage-through-helper", Rule: "R11.3", Where: "Connect.protocolName", Edits: []Edit{
			{"connect.go", "func (p *Connect) SetProtocolName(v string) { p.protocolName = wstring(v) }", "func (p *Connect) SetProtocolName(v string) { setString(&p.protocolName, v) }\n\nfunc setString(dst *wstring, v string) {\n\t*dst = append((*dst)[:0], v...)\n}"}}},
		{Name: "setter-helper-replacing-the-slice-stays", Silent: true, Edits: []Edit{
			{"connect.go", "func (p *Connect) SetProtocolName(v string) { p.protocolName = wstring(v) }", "func (p *Connect) SetProtocolName(v string) { setString(&p.protocolName, v) }\n\nfunc setString(dst *wstring, v string) {\n\t*dst = make(wstring, len(v))\n\tcopy(*dst, v)\n}"}}},
		{Name: "entries-added-to-a-map-returned-by-a-helper", Rule: "R11.1", Where: "(*SubAck).properties", Edits: []Edit{{"suback.go", "func (p *SubAck) propertyMap() map[Ident]func() wireType {\n\treturn map[Ident]func() wireType{\n\t\tReasonString: func() wireType { return &p.reasonString },\n\t}\n}", "func (p *SubAck) propertyMap() map[Ident]func() wireType {\n\tm := reasonProps(&p.reasonString)\n\tm[ServerReference] = func() wireType { return &p.reasonString }\n\treturn m\n}\n\nfunc reasonProps(r *wstring) map[Ident]func() wireType {\n\treturn map[Ident]func() wireType{\n\t\tReasonString: func() wireType { return r },\n\t}\n}"}}},
		{Name: "single-entry-map-range-stays", Silent: true, Edits: []Edit{{"suback.go", "\tfor id, v := range p.propertyMap() {\n\t\ti += v().fillProp(b, i, id)\n\t}", "\tm := p.propertyMap()\n\tfor id, v := range m {\n\t\ti += v().fillProp(b, i, id)\n\t}"}}},
	}})
}

var denyExtern = []string{"time.Now", "time.Since", "time.Until", "math/rand.", "crypto/rand.", "os.", "runtime.", "reflect.", "unsafe.", "(*math/rand.", "(*sync.", "sync.", "sync/atomic."}

// mapAtMostOne: is v (a map being ranged over) provably a map with <= 1 entry?
func mapAtMostOne(p *Prog, v ssa.Value, depth int) (bool, string) {
	if depth > 3 {
		return false, "too deep"
	}
	switch x := v.(type) {
	case *ssa.MakeMap:
		n := 0
		for _, r := range *x.Referrers() {
			switch y := r.(type) {
			case *ssa.MapUpdate:
				if y.Map == ssa.Value(x) {
					if _, isConst := y.Key.(*ssa.Const); !isConst {
						return false, "map literal with a non-constant key"
					}
					n++
				}
			case *ssa.Return, *ssa.DebugRef, *ssa.Range, *ssa.Lookup:
			case *ssa.Call:
				if bi, ok := y.Call.Value.(*ssa.Builtin); ok && bi.Name() == "len" {
					continue
				}
				return false, "map is passed on before being ranged"
			default:
				return false, fmt.Sprintf("map is used by %T", r)
			}
		}
		if n <= 1 {
			return true, fmt.Sprintf("map literal with %d entries", n)
		}
		return false, fmt.Sprintf("map literal with %d entries: iteration order is randomised per range", n)
	case *ssa.Call:
		sc := x.Call.StaticCallee()
		if sc == nil || sc.Blocks == nil {
			return false, "map comes from a call that is not a static mq function"
		}
		// what happens to the returned map here, before it is ranged over
		if refs := x.Referrers(); refs != nil {
			for _, r := range *refs {
				switch y := r.(type) {
				case *ssa.MapUpdate:
					if y.Map == ssa.Value(x) {
						return false, "map returned by " + qname(sc) + " to which further entries are added at " + posOf(p, y) + ": iteration order is randomised per range"
					}
				case *ssa.Return, *ssa.DebugRef, *ssa.Range, *ssa.Lookup, *ssa.Phi:
				case *ssa.Call:
					if bi, ok := y.Call.Value.(*ssa.Builtin); ok && bi.Name() == "len" {
						continue
					}
					return false, "map returned by " + qname(sc) + " is passed on before being ranged"
				default:
					return false, fmt.Sprintf("map returned by %s is used by %T", qname(sc), r)
				}
			}
		}
		why := ""
		for _, b := range sc.Blocks {
			ret, ok := terminator(b).(*ssa.Return)
			if !ok {
				continue
			}
			if len(ret.Results) != 1 {
				return false, "multi-result map source"
			}
			ok2, w := mapAtMostOne(p, ret.Results[0], depth+1)
			if !ok2 {
				return false, qname(sc) + " returns a " + w
			}
			why = w
		}
		return true, qname(sc) + " returns a " + why
	case *ssa.Const:
		if x.Value == nil {
			return true, "nil map"
		}
	}
	return false, "map of unknown size"
}

// addressPrinted: would fmt print a memory address for a value of type t?
func addressPrinted(p *Prog, t types.Type, verb byte, depth int, seen map[types.Type]bool) (bool, string) {
	if verb == 'T' {
		return false, ""
	}
	if verb == 'p' {
		return true, "%p prints an address"
	}
	if seen[t] || depth > 6 {
		return false, ""
	}
	seen[t] = true
	// a String/Error method takes precedence for %v %s %q %x %X
	if verb == 'V' {
		// %#v: only GoString (or Format) replaces the field-by-field Go-syntax rendering
		ms := p.Prog.MethodSets.MethodSet(t)
		for _, n := range []string{"Format", "GoString"} {
			if ms.Lookup(p.Pkg, n) != nil || ms.Lookup(nil, n) != nil {
				return false, ""
			}
		}
	}
	if verb == 'v' || verb == 's' || verb == 'q' || verb == 'x' || verb == 'X' || verb == 0 || verb == 'w' {
		ms := p.Prog.MethodSets.MethodSet(t)
		for _, n := range []string{"Format", "Error", "String"} {
			if ms.Lookup(p.Pkg, n) != nil || ms.Lookup(nil, n) != nil {
				return false, ""
			}
		}
	}
	switch u := t.Underlying().(type) {
	case *types.Pointer:
		if depth == 0 {
			if _, ok := u.Elem().Underlying().(*types.Struct); ok {
				return addressPrinted(p, u.Elem(), verb, depth+1, seen)
			}
			if _, ok := u.Elem().Underlying().(*types.Array); ok {
				return addressPrinted(p, u.Elem(), verb, depth+1, seen)
			}
			if _, ok := u.Elem().Underlying().(*types.Slice); ok {
				return addressPrinted(p, u.Elem(), verb, depth+1, seen)
			}
			if _, ok := u.Elem().Underlying().(*types.Map); ok {
				return addressPrinted(p, u.Elem(), verb, depth+1, seen)
			}
		}
		return true, "a pointer of type " + t.String() + " is printed as an address"
	case *types.Chan, *types.Signature:
		return true, "a " + t.String() + " value is printed as an address"
	case *types.Basic:
		if u.Kind() == types.UnsafePointer || u.Kind() == types.Uintptr {
			return true, "an address-valued " + t.String() + " is printed"
		}
	case *types.Slice:
		return addressPrinted(p, u.Elem(), verb, depth+1, seen)
	case *types.Array:
		return addressPrinted(p, u.Elem(), verb, depth+1, seen)
	case *types.Map:
		if b, w := addressPrinted(p, u.Key(), verb, depth+1, seen); b {
			return b, w
		}
		return addressPrinted(p, u.Elem(), verb, depth+1, seen)
	case *types.Struct:
		for i := 0; i < u.NumFields(); i++ {
			if b, w := addressPrinted(p, u.Field(i).Type(), verb, depth+1, seen); b {
				return b, w
			}
		}
	case *types.Interface:
		return false, ""
	}
	return false, ""
}

func checkC11(p *Prog, c *Check) {
	c.Rule("R11.1", "no source of nondeterminism is reachable from a read-only operation: no range over a map that may hold more than one entry, no select/goroutine/channel, no call outside the deterministic stdlib allow-list (time.Now, rand, os, runtime, reflect, sync … denied), no address printed by fmt, no pointer-to-integer conversion")
	c.Rule("R11.2", "the effect set of every read-only operation is a subset of {writes to its io.Writer argument} (same rule as C13 R13.1)")
	c.Rule("R11.3", "package-level state read by the encoders is assigned only in init and never written in place (same rule as C13 R13.2)")
	c.Explanation = "A sequential Go function that contains none of the listed nondeterminism sources and writes no state that it or a later call reads is a function of its inputs — in this process or another. Every instruction of every function reachable from WriteTo/String/Error/Dump/WellFormed/accessors is inspected; map ranges must be over maps that are provably map literals with at most one entry."
	c.Trusted = []string{"go/types + go/ssa (x/tools v0.29.0) faithful IR", "stdlib allow-list (DESIGN Appendix B) is deterministic: fmt (maps printed sorted), strconv, strings.Builder, bytes.Repeat, time.Duration.String, encoding/binary", "Go evaluation order is deterministic for the constructs used (no unordered side effects across goroutines)"}
	c.Assumptions = []string{"caller-supplied io.Writer behaves deterministically", "String/Error methods of foreign types are not reachable from read-only operations of mq packets (checked: every dynamic callee is an mq method)"}
	c.NotDecided = []string{"a renderer that ranges over a multi-entry map only to collect and sort the keys is deterministic but is reported (undecided by design)"}
	roots := p.Roots()
	scope := p.Reach(roots.ReadOnly())
	nranges, ncalls, nfmt := 0, 0, 0
	for _, fn := range sortedFuncs(scope) {
		c.Fn(qname(fn))
		fnBad := 0
		nr := 0
		for _, b := range fn.Blocks {
			for _, ins := range b.Instrs {
				pos := posOf(p, ins)
				switch x := ins.(type) {
				case *ssa.Range:
					if _, isMap := x.X.Type().Underlying().(*types.Map); !isMap {
						continue
					}
					nranges++
					nr++
					cons := fmt.Sprintf("%s#maprange%d", qname(fn), nr)
					if ok, why := mapAtMostOne(p, x.X, 0); ok {
						c.OK("R11.1", cons, pos, "range over a map with at most one entry: "+why)
					} else {
						fnBad++
						c.Bad("R11.1", cons, pos, "range over a map whose iteration order is not fixed: "+why)
					}
				case *ssa.Select:
					fnBad++
					c.Bad("R11.1", qname(fn)+"#select", pos, "select statement")
				case *ssa.Go:
					fnBad++
					c.Bad("R11.1", qname(fn)+"#go", pos, "goroutine started from a read-only operation")
				case *ssa.Send, *ssa.MakeChan:
					fnBad++
					c.Bad("R11.1", qname(fn)+"#chan", pos, "channel operation")
				case *ssa.UnOp:
					if x.Op.String() == "<-" {
						fnBad++
						c.Bad("R11.1", qname(fn)+"#chan", pos, "channel receive")
					}
				case *ssa.Convert:
					if pointerLike(x.X.Type()) {
						if bt, ok := x.Type().Underlying().(*types.Basic); ok && bt.Info()&types.IsInteger != 0 {
							fnBad++
							c.Bad("R11.1", qname(fn)+"#ptr2int", pos, "pointer converted to an integer")
						}
					}
				case *ssa.Call:
					cc := x.Common()
					if _, isB := cc.Value.(*ssa.Builtin); isB {
						continue
					}
					sc := cc.StaticCallee()
					if sc != nil && sc.Blocks == nil {
						ncalls++
						name := fullName(sc)
						denied := false
						for _, d := range denyExtern {
							if strings.HasPrefix(name, d) {
								denied = true
							}
						}
						_, isW := externWritesArg[name]
						switch {
						case denied:
							fnBad++
							c.Bad("R11.1", qname(fn)+"#call:"+name, pos, "call of "+name+" (nondeterministic or process-dependent)")
						case externPure[name] || isW || fmtWriterFuncs[name]:
						default:
							fnBad++
							c.Unk("R11.1", qname(fn)+"#call:"+name, pos, "external function "+name+" is not on the deterministic allow-list")
						}
						if fc := AsFmtCall(x); fc != nil {
							nfmt++
							if fc.HasFmt && !fc.ConstF {
								fnBad++
								c.Unk("R11.1", qname(fn)+"#fmt", pos, "non-constant format string")
							}
							for i, a := range fc.Args {
								tset := map[types.Type]bool{}
								if !types.IsInterface(a.Type()) {
									tset[a.Type()] = true
								} else if !p.dynTypesP(a, map[ssa.Value]bool{}, tset, 0) {
									if isErrorType(a.Type()) || fc.Verbs[i] == 'T' {
										continue // printed through Error()
									}
									fnBad++
									c.Unk("R11.1", fmt.Sprintf("%s#fmtarg%d", qname(fn), i), pos, "operand of unknown dynamic type is printed")
									continue
								}
								for t := range tset {
									if bad, why := addressPrinted(p, t, fc.Verbs[i], 0, map[types.Type]bool{}); bad {
										fnBad++
										c.Bad("R11.1", fmt.Sprintf("%s#fmtarg%d", qname(fn), i), pos, why+" (operand "+fmt.Sprint(i)+" of "+fc.Name+")")
									}
								}
							}
						}
						continue
					}
					if cc.IsInvoke() {
						callees, ext := p.CG().Callees(x)
						if ext && len(callees) == 0 {
							m := cc.Method.Name()
							if m == "Write" {
								continue
							}
							fnBad++
							c.Unk("R11.1", qname(fn)+"#invoke:"+m, pos, "dynamic call of "+m+" on a foreign interface with no mq implementation")
						}
					}
				}
			}
		}
		if fnBad == 0 {
			c.OK("R11.1", qname(fn), p.Pos(fn.Pos()), "no nondeterminism source in this function")
		}
	}
	c.Measured["map_ranges_in_read_only_scope"] = nranges
	c.Measured["external_calls_checked"] = ncalls
	c.Measured["fmt_calls_checked"] = nfmt
	ruleReadOnly(p, c, "R11.2")
	rulePackageState(p, c, "R11.3")
	c.Floor("WriteTo roots", len(roots.Encode), 15, "15 MQTT packet types")
}
