package main

// CFG utilities over go/ssa basic blocks: strongly connected components
// (loops), exits, backward data-dependence slices.

import (
	"golang.org/x/tools/go/ssa"
)

// Loop is a strongly connected component of the CFG with at least one edge
// inside it (a cycle).
type Loop struct {
	Fn     *ssa.Function
	Blocks map[*ssa.BasicBlock]bool
	Header *ssa.BasicBlock // the block of the SCC with the smallest index that has a predecessor outside (or index-min)
	Index  int
}

func (l *Loop) Has(b *ssa.BasicBlock) bool { return l.Blocks[b] }

// Loops returns the cycles of fn (outermost SCCs only; nested loops are part
// of their enclosing SCC and found again by InnerLoops).
func Loops(fn *ssa.Function) []*Loop {
	return sccLoops(fn, fn.Blocks, nil)
}

func sccLoops(fn *ssa.Function, blocks []*ssa.BasicBlock, within map[*ssa.BasicBlock]bool) []*Loop {
	index := map[*ssa.BasicBlock]int{}
	low := map[*ssa.BasicBlock]int{}
	onStack := map[*ssa.BasicBlock]bool{}
	var stack []*ssa.BasicBlock
	next := 0
	var out []*Loop
	var strong func(v *ssa.BasicBlock)
	strong = func(v *ssa.BasicBlock) {
		index[v] = next
		low[v] = next
		next++
		stack = append(stack, v)
		onStack[v] = true
		for _, w := range v.Succs {
			if within != nil && !within[w] {
				continue
			}
			if _, ok := index[w]; !ok {
				strong(w)
				if low[w] < low[v] {
					low[v] = low[w]
				}
			} else if onStack[w] && index[w] < low[v] {
				low[v] = index[w]
			}
		}
		if low[v] == index[v] {
			comp := map[*ssa.BasicBlock]bool{}
			for {
				w := stack[len(stack)-1]
				stack = stack[:len(stack)-1]
				onStack[w] = false
				comp[w] = true
				if w == v {
					break
				}
			}
			cyc := len(comp) > 1
			if !cyc {
				for _, s := range v.Succs {
					if s == v {
						cyc = true
					}
				}
			}
			if cyc {
				l := &Loop{Fn: fn, Blocks: comp}
				for _, b := range fn.Blocks {
					if !comp[b] {
						continue
					}
					if l.Header == nil {
						l.Header = b
					}
					for _, pr := range b.Preds {
						if !comp[pr] {
							l.Header = b
							goto done
						}
					}
				}
			done:
				out = append(out, l)
			}
		}
	}
	for _, b := range blocks {
		if within != nil && !within[b] {
			continue
		}
		if _, ok := index[b]; !ok {
			strong(b)
		}
	}
	// stable order by header index
	for i := 0; i < len(out); i++ {
		for j := i + 1; j < len(out); j++ {
			if out[j].Header.Index < out[i].Header.Index {
				out[i], out[j] = out[j], out[i]
			}
		}
	}
	for i, l := range out {
		l.Index = i + 1
	}
	return out
}

// InnerLoops returns the cycles of l that do not pass through its header.
func (l *Loop) InnerLoops() []*Loop {
	within := map[*ssa.BasicBlock]bool{}
	var blocks []*ssa.BasicBlock
	for _, b := range l.Fn.Blocks {
		if l.Blocks[b] && b != l.Header {
			within[b] = true
			blocks = append(blocks, b)
		}
	}
	return sccLoops(l.Fn, blocks, within)
}

// AllLoops returns loops at every nesting depth.
func AllLoops(fn *ssa.Function) []*Loop {
	var out []*Loop
	var rec func(ls []*Loop)
	rec = func(ls []*Loop) {
		for _, l := range ls {
			out = append(out, l)
			rec(l.InnerLoops())
		}
	}
	rec(Loops(fn))
	for i, l := range out {
		l.Index = i + 1
	}
	return out
}

// ExitEdges lists the CFG edges leaving the loop.
func (l *Loop) ExitEdges() []cfgEdge {
	var out []cfgEdge
	for _, b := range l.Fn.Blocks {
		if !l.Blocks[b] {
			continue
		}
		for _, s := range b.Succs {
			if !l.Blocks[s] {
				out = append(out, cfgEdge{b, s})
			}
		}
	}
	return out
}

// loopContaining returns the innermost loop of fn that contains b, or nil.
func loopContaining(fn *ssa.Function, b *ssa.BasicBlock) *Loop {
	var best *Loop
	for _, l := range AllLoops(fn) {
		if l.Has(b) && (best == nil || len(l.Blocks) < len(best.Blocks)) {
			best = l
		}
	}
	return best
}

// dependsOn: does value v depend (through operands of pure value
// instructions, including phis) on a value for which pred holds?
func dependsOn(v ssa.Value, pred func(ssa.Value) bool, seen map[ssa.Value]bool) bool {
	if v == nil || seen[v] {
		return false
	}
	seen[v] = true
	if pred(v) {
		return true
	}
	ins, ok := v.(ssa.Instruction)
	if !ok {
		return false
	}
	switch ins.(type) {
	case *ssa.Call:
		// results of calls: depend on their arguments
	}
	for _, op := range ins.Operands(nil) {
		if *op != nil && dependsOn(*op, pred, seen) {
			return true
		}
	}
	return false
}

// returnsReachable lists the Return instructions reachable from block b
// (including b itself).
func returnsReachable(b *ssa.BasicBlock) []*ssa.Return {
	seen := blocksReachableFrom(b)
	seen[b] = true
	var out []*ssa.Return
	for _, x := range b.Parent().Blocks {
		if !seen[x] {
			continue
		}
		if r, ok := x.Instrs[len(x.Instrs)-1].(*ssa.Return); ok {
			out = append(out, r)
		}
	}
	return out
}

func terminator(b *ssa.BasicBlock) ssa.Instruction { return b.Instrs[len(b.Instrs)-1] }
